#!/venv/bin/python
"""confirm_seed.py <ID> <k> <name>: confirm a seeded change in its scratch worktree /tmp/seed-<ID> (at /repo's
current HEAD): demo passes clean, fails with the patch, the pinned suite's stable_pass set still passes; then run
/verif's check against it in /repo (apply, check, undo) and store everything under /verif/seeded/<name>/."""
import json, os, shutil, subprocess, sys, tempfile, xml.etree.ElementTree as ET
pid, k, name = sys.argv[1], sys.argv[2], sys.argv[3]
wt = f"/tmp/seed-{pid}"
src = f"{wt}/out/{k}"
env = dict(os.environ, PYTHONPATH=wt, PYTHONHASHSEED="0")
env.pop("NDCUBE_VERIF", None)
def sh(cmd, **kw):
    return subprocess.run(cmd, shell=True, capture_output=True, text=True, **kw)
head = sh("git -C /repo rev-parse HEAD").stdout.strip()
sh(f"git -C {wt} checkout -q -- . && git -C {wt} checkout -q --detach {head}")
def demo():
    return sh(f"cd {wt} && /venv/bin/python -W ignore out/{k}/demo.py", env=env)
def suite():
    fd, path = tempfile.mkstemp(suffix=".xml", dir="/var/tmp"); os.close(fd)
    sh(f"cd {wt} && /venv/bin/python -m pytest -ra -q -p no:cacheprovider --timeout=900 --continue-on-collection-errors --junitxml={path}", env=env)
    passed = set()
    for tc in ET.parse(path).getroot().iter("testcase"):
        if not any(ch.tag in ("failure", "error", "skipped") for ch in tc):
            passed.add(f"{tc.get('classname')}::{tc.get('name')}")
    os.remove(path)
    base = json.load(open("/root/.vp/BASELINE.json"))["stable_pass"]
    return [t for t in base if t not in passed]
rep = {"property": pid, "seed": k, "repo_head": head}
d0 = demo(); rep["demo_clean_exit"] = d0.returncode
ap = sh(f"cd {wt} && git apply {src}/patch.diff")
rep["applies"] = ap.returncode == 0
if not rep["applies"]:
    print("patch does not apply:", ap.stderr); sys.exit(3)
imp = sh(f"cd {wt} && /venv/bin/python -W ignore -c 'import ndcube; print(ndcube.__file__)'", env=env)
rep["imports"] = imp.returncode == 0 and wt in imp.stdout
d1 = demo(); rep["demo_patched_exit"] = d1.returncode; rep["demo_patched_msg"] = (d1.stdout + d1.stderr)[-400:]
rep["stable_tests_lost_with_patch"] = suite()
sh(f"git -C {wt} checkout -q -- .")
ok = rep["demo_clean_exit"] == 0 and rep["demo_patched_exit"] != 0 and rep["imports"] and not rep["stable_tests_lost_with_patch"]
rep["confirmed"] = ok
tier = sys.argv[4] if len(sys.argv) > 4 else "quick"
chk = sh(f"/verif/tools/try_seed.sh {pid} {src}/patch.diff {tier} 8")
rep["check_cmd"] = f"git -C /repo apply seeded/{name}/patch.diff && ./check {pid} --tier {tier}; git -C /repo checkout -- ."
rep["check_tail"] = chk.stdout[-1500:]
rep["detected"] = "VIOLATION property=" + pid in chk.stdout
print(json.dumps(rep, indent=1))
if ok:
    dst = f"/verif/seeded/{name}"
    os.makedirs(dst, exist_ok=True)
    for f in ("patch.diff", "demo.py", "notes.txt"):
        if os.path.exists(f"{src}/{f}"):
            shutil.copy(f"{src}/{f}", f"{dst}/{f}")
    notes = open(f"{src}/notes.txt").read() if os.path.exists(f"{src}/notes.txt") else ""
    json.dump({"property": pid, "breaks": notes[:1500], "needs_to_manifest": "see notes.txt",
               "confirmed": {"demo_passes_on_clean_tree": True, "demo_fails_with_patch": True,
                             "stable_baseline_tests_still_pass": True, "repo_head": head},
               "what_i_ran": ["demo.py on clean and patched scratch worktree", "pinned pytest command on patched worktree, compared with BASELINE.json stable_pass",
                              rep["check_cmd"]],
               "detected_by_check": rep["detected"], "check_output_tail": rep["check_tail"][-700:]},
              open(f"{dst}/meta.json", "w"), indent=1)
