#!/usr/bin/env python3
"""Prints the prompt for a seeding sub-agent: property text only + its scratch worktree."""
import json, sys
pid = sys.argv[1]; n = sys.argv[2] if len(sys.argv) > 2 else "3"
wt = f"/tmp/seed-{pid}"
p = next(json.loads(l) for l in open('/verif/properties.jsonl') if json.loads(l)['id'] == pid)
print(f"""You are helping to evaluate a verification tool by planting realistic bugs. You work ONLY in the scratch git worktree {wt} of the Python library sunpy/ndcube (an Astropy-based library of coordinate-aware N-D data containers). Never read or write anything under /repo or /verif.

How to run things there:
  cd {wt} && PYTHONPATH={wt} /venv/bin/python your_script.py        # uses the worktree's ndcube, not the installed one
  cd {wt} && /venv/bin/python -m pytest -q -p no:cacheprovider --timeout=900 --continue-on-collection-errors -o addopts="" 2>&1 | tail   # existing test suite (some tests already fail/err at HEAD in this environment because dependencies are newer; what matters is that the set of PASSING tests does not shrink)
  Check with: PYTHONPATH={wt} /venv/bin/python -c "import ndcube; print(ndcube.__file__)" that the worktree copy is the one imported.

The semantic property under study ({pid}): "{p['title']}"
Statement: {p['statement']}
Quantified over: {p['quantifier']['text']}

First confirm with a small script that the property holds at HEAD for ordinary inputs (if you find it already fails at HEAD for some input class, note that class in your report and avoid relying on it).

Task: produce {n} DIFFERENT changes to the library's source code (not its tests), each a separate small patch, each of which breaks this property while the package still imports and every test of the existing suite that passes at HEAD still passes with the change (compare the sets of passing tests before/after, e.g. with --junitxml or -rA output). Prefer realistic slips a maintainer could make (off-by-one at a boundary, a wrong comparison, a missing normalisation, reversed order, a shared mutable object, a dropped branch, wrong axis, stale cache...) and that need something specific to manifest - an unusual input, a particular boundary, a multi-step sequence of operations, or two cooperating sites that each look fine alone - rather than changes any ordinary use exposes at once. Spread them over different mechanisms/sites of the code that make the property hold.

For each change k = 1..{n} write, under {wt}/out/k/ :
  patch.diff  - `git diff` against HEAD (must apply to a clean checkout with `git apply`)
  demo.py     - a small self-contained program that exits 0 when the property holds on its scenario and exits non-zero (with a message) when it does not; it must exit 0 on the unmodified HEAD and non-zero with the patch applied. Run it as: cd {wt} && PYTHONPATH={wt} /venv/bin/python out/k/demo.py
  notes.txt   - which clause of the property it breaks, where, and what is needed for it to manifest
Never use `git stash` (the stash is shared between worktrees of the same repository); after finishing each change restore the tree with `git checkout -- .` or `git apply -R` (leave out/ untracked), and at the end verify each patch once more from a clean tree: apply, run demo (must fail), run the test suite (no newly failing test), un-apply, run demo (must pass).
Report briefly: for each k one line on the change and the verification you ran.""")
