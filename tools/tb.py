#!/venv/bin/python
"""tb.py <ID> <substring of oracle why> [n]: re-run failing cases of the last check in-process and print the implementation traceback"""
import sys, json, glob, importlib, traceback, warnings
warnings.simplefilter('ignore')
sys.path[:0]=['/repo','/verif']
pid, pat = sys.argv[1], sys.argv[2]
n = int(sys.argv[3]) if len(sys.argv)>3 else 1
mod = importlib.import_module(f'harness.props.{pid.lower()}')
fails=json.load(open(f'/verif/.work/{pid}/oracle_fail.json'))
cases={}
for f in glob.glob(f'/verif/.work/{pid}/in_*.json'):
    for c in json.load(open(f)):
        cases[json.dumps(c.get('show', c), sort_keys=True)]=c
import ndcube
for name in sys.argv[4:] or ['_get_crop_item','_get_crop_by_values_item','crop','crop_by_values','rebin','__getitem__','reproject_to']:
    for cls in (ndcube.NDCube, ndcube.NDCubeSequence):
        if hasattr(cls,name):
            f=getattr(cls,name)
            def mk(f):
                def g(*a,**k):
                    try: return f(*a,**k)
                    except Exception:
                        print('--- traceback (innermost frames):'); traceback.print_exc(limit=-5); raise
                return g
            setattr(cls,name,mk(f))
k=0
for x in fails:
    why=x['res'].get('crash') or x['res']['oracle']['why']
    if pat in why:
        c=cases.get(json.dumps(x['case'], sort_keys=True))
        print('=== case', json.dumps(x['case'])[:600]); print('    why:', why[:300])
        if c is not None:
            try: r=mod.run(c)
            except Exception: traceback.print_exc(limit=-6)
        k+=1
        if k>=n: break
