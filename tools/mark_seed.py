#!/usr/bin/env python3
"""mark_seed.py <name> <history text>: re-run the check on a stored seed, record detection + history in meta.json"""
import json, subprocess, sys
name, hist = sys.argv[1], sys.argv[2]
pid = name.split('-')[0]
d = f"/verif/seeded/{name}"
out = subprocess.run(["/verif/tools/try_seed.sh", pid, f"{d}/patch.diff", "quick", "6"], capture_output=True, text=True).stdout
meta = json.load(open(f"{d}/meta.json"))
meta["detected_by_check"] = "VIOLATION property=" + pid in out
meta["check_output_tail"] = out[-1500:]
meta["history"] = hist
json.dump(meta, open(f"{d}/meta.json", "w"), indent=1)
print(name, "detected:", meta["detected_by_check"])
