#!/venv/bin/python
"""Run /repo's pinned test command (guard NDCUBE_VERIF off) and compare with BASELINE.json stable_pass."""
import json, os, subprocess, sys, tempfile, xml.etree.ElementTree as ET
base = json.load(open('/root/.vp/BASELINE.json'))
fd, path = tempfile.mkstemp(suffix='.xml', dir='/var/tmp'); os.close(fd)
env = dict(os.environ); env.pop('NDCUBE_VERIF', None)
subprocess.run(['/venv/bin/python', '-m', 'pytest', '-ra', '-q', '-p', 'no:cacheprovider', '--timeout=900',
                '--continue-on-collection-errors', f'--junitxml={path}'], cwd='/repo', env=env,
               stdout=subprocess.DEVNULL, stderr=subprocess.DEVNULL)
passed = set()
for tc in ET.parse(path).getroot().iter('testcase'):
    if not any(ch.tag in ('failure', 'error', 'skipped') for ch in tc):
        passed.add(f"{tc.get('classname')}::{tc.get('name')}")
os.remove(path)
missing = [t for t in base['stable_pass'] if t not in passed]
print(f"baseline stable_pass={len(base['stable_pass'])} passing now={len(base['stable_pass']) - len(missing)}")
for m in missing:
    print('  NO LONGER PASSING:', m)
sys.exit(1 if missing else 0)
