#!/usr/bin/env python3
"""Writes /verif/MANIFEST.json from the table below (kept in one place so it is always valid)."""
import json
PROPS = [json.loads(l) for l in open('/verif/properties.jsonl')]
CLAIMED = {
 "C04": dict(
    category="proof",
    text="Coq theorems about the min / max / keepdims / refusal logic of get_crop_item_from_points for any number of points: C04_box (the emitted item selects exactly the positions from the smallest to the largest nearest-pixel index, both attained by points: containment and minimality), C04_keepdims (keepdims never changes which elements are selected), C04_on_array (a point off the array - below 0 or beyond the end - never excludes an on-array point), C04_untouched / C04_item (all-None axes are left whole; a one-element result is refused), C04_rounding (floor(x+1/2): an edge belongs to the upper pixel). The values-form pipeline (touched axes from the correlation matrix, fill of None components, inversion, rounding) is an executable Gallina model compared exactly with _get_crop_by_values_item on block-diagonal integer probe WCS incl. positions exactly on pixel edges and outside the array; crop / crop_by_values / extra_coords / combined_wcs / TAN and rotated families, unit spellings and the malformed stream are decided by a direct oracle.",
    design_ref="DESIGN.md §5.4",
    note="Trusted: Coq kernel + VM; Model/M_Crop.v transcription; astropy's SlicedLowLevelWCS fill-in of dropped world values, world-to-pixel inversion and floor(x+1/2) are dependency models validated by the same run. The association of high-level objects to axes (array_indices_for_world_objects) is covered by the oracle only (crop == crop_by_values == expected box).",
    technique="Coq proof over hand-written Gallina model + vm_compute correspondence check + direct oracle"),
 "C10": dict(
    category="proof",
    text="Coq theorems over cubes of ANY size with exact rational payloads and units as (scale, integer exponents): C10_add / C10_add_number / C10_add_keeps / C10_neg_keeps (after conversion to the cube's unit physical values add; unit, uncertainty, mask, coordinates and meta kept), C10_refuse_units / C10_refuse_bare / C10_refuse_other (inconvertible units, a bare number on a cube with a unit, a second cube or NDData on every operator), C10_mul_quantity / C10_mul_number / C10_mul_uncertainty / C10_mul_keeps (physical values multiply, dimensions add, a standard deviation scales by |k|), C10_pow, C10_to / C10_to_uncertainty (to(unit) preserves every physical value and the physical size of a standard deviation), C10_add_sub, C10_mul_div, C10_neg_neg, C10_mul_minus_one (the four identities, uncertainties included). Tied to /repo by an exact correspondence check over float / int / dask payloads of dyadic values, eight units (None, '', scaled dimensionless, m, 2 m, m/4, s, ct), five uncertainty kinds, masks, numbers / broadcast arrays / scalar and array Quantities / NDCube / NDData operands, all ten operators + ** + to(), plus a direct astropy oracle (incl. SI units with a tolerance, the identities, carried wcs / extra / global coords / meta).",
    design_ref="DESIGN.md §5.10",
    note="Trusted: Coq kernel + VM; Model/M_Arith.v transcription; astropy's unit algebra and numpy broadcasting are dependencies (the harness broadcasts the operand before the model sees it); the uncertainty of a power is not part of the property and is not compared; fractional exponents are checked by the direct oracle only.",
    technique="Coq proof over hand-written Gallina model + vm_compute correspondence check"),
 "C20": dict(
    category="proof",
    text="Coq theorems: C20_decision (a request is accepted exactly when the algorithm is known, adaptive / exact get a 2-D celestial target, the physical types agree in order and an output shape is available; the output shape is shape_out, else the target's own), C20_value / C20_footprint (for a target that is the source grid shifted by whole pixels, with ANY shapes and shift: every target element holds the source value at the coinciding element and nothing / footprint 0 where there is none), C20_same_world / C20_same_world_unique (the coinciding element is the one, and the only one, at the same world position), C20_identity. Tied to /repo by an exact correspondence check (decision, output shape, values and footprint for shifted linear FITS grids, carried unit / meta / global coords / target wcs) on 2-4-D cubes, targets as WCS / low-level wrapper / header / dict, all algorithm names, shape_out given / from target / missing / (), plus a direct oracle through the WCS world positions incl. TAN celestial cubes with the exact algorithm, rescaled targets, and source-unchanged snapshots.",
    design_ref="DESIGN.md §5.20",
    note="Trusted: Coq kernel + VM; Model/M_Reproject.v transcription; the regridding is the reproject package (dependency: on coinciding grids it returns the source value, no value without coverage - validated by every run, values canonicalised to the 1/2 grid of the payload within 1e-6); adaptive resampling smooths, so only its refusals, shape and attributes are checked.",
    technique="Coq proof over hand-written Gallina model + vm_compute correspondence check"),
 "C19": dict(
    category="proof",
    text="Coq theorems over tables of ANY length: C19_entries (entry i at integer pixel i, length 1 included), C19_linear (linear interpolation in between), C19_outside (no value outside the table), C19_inverse (a strictly increasing or decreasing table's entries map back to their pixel), C19_slice / C19_slice_int (every basic slice: entry k of the result is entry start + k*step of the table; an integer picks one entry), C19_interpolate (inside the table np.interp is the table's own linear interpolation), C19_resample_grid / C19_resample_values (the sampling positions of ExtraCoords.resample are exactly offset + k*factor while they stay on the axis, and the new table holds the interpolation there). Tied to /repo by an exact correspondence check over Quantity (1-2 meshed tables; m, pix, s), Time and SkyCoord (mesh and not) tables of length 1-8, joins of 1-3 coordinates with &, pixel->world at k/4 positions from below to above the table, world->pixel at entries and midpoints, all basic slice items (twice from the same parent), interpolate on grids, ExtraCoords.resample on 1-2-D cubes, plus a direct numpy oracle incl. declared names / physical types / units and parent-unchanged snapshots.",
    design_ref="DESIGN.md §5.19",
    note="Trusted: Coq kernel + VM; Model/M_Lookup.v + M_Resample.v transcription; astropy Tabular / np.interp are dependencies; Time and SkyCoord values are put on the 1/64 grid of the exact results (Time arithmetic and MJD interpolation carry up to ~1 microsecond); declared names / types / units are checked by the direct oracle only; 2-D (non-meshed) SkyCoord tables are not generated. Three known findings (sky-mesh-mixed-int, sky-step, q2-grid-shapes).",
    technique="Coq proof over hand-written Gallina model + vm_compute correspondence check"),
 "C07": dict(
    category="proof",
    text="Coq theorems over a store model (objects = records of references to mutable cells; an operation builds a new record whose fields share the source's cell or are fresh): C07_step (one operation leaves every observable of every existing object unchanged), C07_history (any history of operations and queries, of ANY length, on any of the objects made so far), C07_write (writing into a field an operation built afresh never reaches an earlier object, whatever happened in between), C07_table_wellformed, C07_arithmetic_data_fresh (for arithmetic the data is such a field). Tied to /repo by comparing, on every cube-level step of random histories (<= 6 steps from slicing, crop, rebin, arithmetic, squeeze, explode, reproject, WCS unwrapping, sequence / index_as_cube / collection slicing, collection copy, queries asked twice, on cubes / sequences / collections with every mask / uncertainty / extra-coord kind, pre-sliced and pre-rebinned), the sharing table sig_of with the sharing measured by identity / np.shares_memory, plus a direct oracle that re-observes EVERY object made so far after every step (data, mask, uncertainty, unit, meta, world coordinates under wcs and extra coords, global coords, common axis, aligned axes) and writes into arithmetic results.",
    design_ref="DESIGN.md §5.7",
    note="Trusted: Coq kernel + VM; Model/M_Store.v (the sharing table is a transcription validated by measurement); in-place writes inside an operation cannot be predicted by the model and are caught only by the snapshots of the direct oracle; a change of sharing without an observable change is reported through the correspondence (no-failing-input-found).",
    technique="Coq proof (invariant by induction over operation histories) over hand-written Gallina store model + vm_compute correspondence check"),
 "C17": dict(
    category="proof",
    text="Coq theorems for ANY number of cubes sharing one coordinate structure: C17_structure (common_axis_coords = one entry per coordinate object with a component on the common axis, each the concatenation in cube order of the object's slices along the common axis; includes the alignment of array_indices_for_world_objects with axis_world_coords), C17_length (as many entries as the cube-like length, ragged lengths included), C17_kth (entry k = cube j's coordinate at position i, (j,i) located by C12's index arithmetic), C17_entry (every entry of that slice is the WCS value at the pixel whose common-axis coordinate is i, whichever dimension of the coordinate array the common axis is), C17_sequence_axis_sound/complete (exactly the names on every cube, per-cube values in order). Tied to /repo by an exact correspondence check on sequences of 1-4 cubes over integer probe WCS with random correlation structures, grouped objects, linear extra coords, ragged common axes on any cube axis, user-added and slicing-produced global coords, plus a direct full-grid oracle incl. FITS TAN / rotated families.",
    design_ref="DESIGN.md §5.17",
    note="Trusted: Coq kernel + VM; Model/M_SeqCoords.v + M_WorldCoords.v transcription; take_at models numpy integer indexing; same_dep (components of an object depend on the same pixel axes) is an explicit premise and holds by construction of the generated cases; cubes with different coordinate structures in one sequence are not generated.",
    technique="Coq proof over hand-written Gallina model + vm_compute correspondence check"),
 "C18": dict(
    category="proof",
    text="Coq theorems for ANY number of cubes and axes: C18_contains (on every cube axis the common range starts at the smallest start and ends at the largest stop of the cubes' own boxes, so it contains every cube's own region), C18_sequence_axis (the sequence axis is kept whole). Tied to /repo by an exact correspondence check of NDCubeSequence._get_sequence_crop_item on sequences of 1-4 cubes over integer probe WCS shifted against one another by whole pixels (per-cube box = the C04 crop model evaluated on each cube's WCS), None components, one-pixel extents, objects and values forms, wcses given as name or list, plus a direct oracle (union of nearest-pixel boxes, equal shapes, each cube sliced by the common box).",
    design_ref="DESIGN.md §5.18",
    note="Trusted: Coq kernel + VM; Model/M_SeqCrop.v + M_Crop.v transcription; per-cube box correctness is C04's subject.",
    technique="Coq proof over hand-written Gallina model + vm_compute correspondence check"),
 "C06": dict(
    category="proof",
    text="Coq theorems over ANY two member WCS: C06_outputs (the combined wcs gives the primary's world values followed by the extra coordinates', each what the separate description gives for the same array element), C06_roundtrip (world -> pixel returns the position, on and between grid points, when both members round-trip and every extra-coord pixel dimension maps to a cube axis), C06_matrix (a matrix entry is set iff a member slot mapped to that pixel axis is set), C06_types (array_axis_physical_types lists per array axis, in array order, exactly the types whose matrix entry is set, in world order). Tied to /repo by the exact wrapper-expression evaluator of C14 on cubes over an invertible integer probe WCS with 0-4 linear lookup tables, plain / sliced / rebinned, at grid and k/4 positions, plus a direct oracle (separate descriptions, round trip, finite-difference matrix, physical types).",
    design_ref="DESIGN.md §5.6",
    note="Trusted: Coq kernel + VM; Model/M_Wrappers.v compound transcription (shared with C14); lookup tables are linear and single-axis so that lin_wcs is their exact twin; exactness of the members' matrices holds by construction (probe, tables) and is a hypothesis for FITS WCS.",
    technique="Coq proof over hand-written Gallina model + vm_compute correspondence check"),
 "C05": dict(
    category="proof",
    text="Coq theorems: C05_dims / C05_shape (each returned array has one dimension per dependent array axis, in increasing array-axis order, of the axis length, +1 for corners), C05_entries (for ANY WCS with a sound correlation matrix every entry equals the WCS value at the centre / corner of any element with those coordinates on the correlated axes: the zeros injected outside the block and index 0 on same-block-uncorrelated axes are harmless), C05_selection / C05_int_axis (the world axes returned are exactly those correlated with a requested array axis or uniquely named by a substring, once each, in world order; anything else refuses). Tied to /repo by an exact correspondence check over every correlation structure up to 3x3 (+ sampled 4x4) realised by integer probe WCS with distinct weights on non-cubic shapes, for wcs / extra_coords / combined_wcs, both corner settings, grouped two-component objects, and a full-grid direct oracle incl. TAN / rotated FITS families and the high-level form (classes, order, numeric agreement). For wcs = extra_coords whose pixel dimensions are mapped to the cube's in any order: C05_ec_axes / C05_ec_dims (one dimension per dependent CUBE array axis, increasing, of that axis' length), C05_ec_entries (every entry is the extra WCS's value at the element's centre / corner through the mapping) and C05_transpose (the transposition the code applies), tied to /repo by WCS-backed ExtraCoords over linear probes with any correlation matrix and any mapping.",
    design_ref="DESIGN.md §5.5",
    note="Trusted: Coq kernel + VM; Model/M_WorldCoords.v transcription; _split_matrix (component) and values_to_high_level_objects (objects_for) are astropy dependencies validated by the same run; corr_sound is an explicit premise; extra-coord corners fall outside lookup tables (NaN) and are left to the oracle; gWCS primary WCS not generated; 2-D per-pixel SkyCoord tables by the direct oracle only.",
    technique="Coq proof over hand-written Gallina model + vm_compute correspondence check (exhaustive small correlation structures)"),
 "C03": dict(
    category="proof",
    text="Coq theorems: C03_value (for ANY inner WCS with a sound correlation matrix the value listed for a dropped world coordinate is the value every element of the sliced cube had for it in the original cube), C03_agree_on_correlated (its key lemma: positions that agree on the correlated axes give the same value), C03_wcs_drops_accumulate / C03_extra_drops_accumulate (once dropped, always dropped under any further slice), C03_user_coords (after ANY interleaving of add / remove / slice the user coordinates are exactly the replay of the accepted adds and removes; refused operations change nothing). Tied to /repo by histories of <=5 operations compared against the model (raise bits, user coords, dropped wcs and extra coordinates with values; slices go through the C01 and C02 models) and a direct oracle incl. coupled celestial pairs.",
    design_ref="DESIGN.md §5.3",
    note="Trusted: Coq kernel + VM; Model/M_GlobalCoords.v transcription; astropy's dropped_world_dimensions (world_kept, dropped_value) is a dependency model validated by the same run; corr_sound is an explicit premise about the inner WCS; high-level object construction is astropy's (values read back numerically). A gWCS defect (clashing object keys when a 2-axis generic frame is joined with another generic frame) restricts the generator: two-table Quantity coordinates are only combined with Time / SkyCoord tables.",
    technique="Coq proof over hand-written Gallina model + vm_compute correspondence check over operation histories"),
 "C02": dict(
    category="proof",
    text="Coq theorems: C02_order (the kept tables are exactly the parent's surviving tables in the parent's order - the transcription has lists where the pinned code had sets), C02_renumber (a surviving axis is renumbered to its rank among surviving axes), C02_values with C02_box_order (element k of a sliced table of any dimensionality is the parent's entry at the source element of k, via row-major index arithmetic). Tied to /repo by a correspondence check over chains of 1-3 slices (tables, axes, names, mapping, per-component values), an element-wise direct oracle through extra_coords.wcs and the mapping, and order probes in fresh interpreter processes with different hash seeds and heap layouts.",
    design_ref="DESIGN.md §5.2",
    note="Trusted: Coq kernel + VM; Model/M_ExtraCoords.v transcription; Quantity / Time / SkyCoord slicing are numpy-selection dependencies; run-to-run order is a runtime fact observed by repetition (5 fresh processes per probe), the theorem only covers the list-based transcription. Meshed / 2-D SkyCoord tables and WCS-backed ExtraCoords are not generated (partial).",
    technique="Coq proof over hand-written Gallina model + vm_compute correspondence check + fresh-process order probes"),
 "C16": dict(
    category="proof",
    text="Coq theorems (squared domain): C16_sum_mean proves that the code's pairwise iteration seeded with the first block member equals the root-sum-square of the contributing members (divided by their number for means) for blocks of any length, any mask pattern incl. a masked first member, NaNs anywhere; C16_prod proves by an invariant (s2 = P^2 sum (s_k/x_k)^2, a = P) that the multiply-rule iteration gives the relative-error combination for unmasked products; C16_flat (shared with C08) describes what a propagation function receives. Tied to /repo by exact rational comparison of every output variance (StdDev / Variance), the no-uncertainty decision table with warnings, a spy propagation function, a source-not-altered check and a closed-form oracle. Masked products are a recorded known finding (outside the theorem guard).",
    design_ref="DESIGN.md §5.16",
    note="Trusted: Coq kernel + VM; Model/M_RebinUnc.v transcription; astropy's add / multiply propagation rules (correlation 0) are dependency recurrences validated by the same run; block membership comes from M_Rebin (C08). The clause about NaN data when operation_ignores_mask=True is treated as unspecified and not generated. Known finding prod-masked (pinned test enshrines the wrong value).",
    technique="Coq proof (fold invariants, field over Q) over hand-written Gallina model + vm_compute correspondence check"),
 "C15": dict(
    category="proof",
    text="Coq theorem C15_chain proves by induction over the wrapper chain (any depth, any order of slices with ints / ranges and resamples with any non-zero factors and any offsets, ANY PC matrix) that the FITS WCS produced by the transcription of unwrap_wcs_to_fitswcs / _slice_fitswcs / _resample_fitswcs has, at every pixel of the wrapped grid (0 on dropped placeholder axes), the same intermediate world coordinates as the chain; C15_resample_step / C15_slice_step are the per-wrapper laws; C15_old_crpix_rule_iff shows the pinned rule was right iff 2o = f-1. Tied to /repo by exact comparison of the returned CRPIX/CDELT/PC/NAXIS/dropped axes (chain read back from the wrapper objects), a full-grid + off-grid world-value oracle (incl. TAN / rotated celestial bases), a no-mutation check of the base WCS and refusal of non-FITS bases.",
    design_ref="DESIGN.md §5.15",
    note="Trusted: Coq kernel + VM; Model/M_Unwrap.v transcription; WCS.slice's CRPIX shift and numpy-length NAXIS are a dependency model (slice_axis) validated by the same run; the non-linear part of a FITS WCS is taken to be a function of the intermediate coordinates; raw negative items in hand-built SlicedLowLevelWCS excluded.",
    technique="Coq proof (field over Q, induction over the chain) over hand-written Gallina model + vm_compute correspondence check"),
 "C09": dict(
    category="proof",
    text="Coq theorems prove that the rebinned WCS reports, for ANY inner WCS, the inner coordinates at j*f+(f-1)/2 on every axis (C09_wcs, C09_block_centre_positions, C09_block_centre), that this registration holds iff the offset is (f-1)/2 (C09_centre_iff_offset), that output pixel edges are every f-th source edge, f=1 axes are untouched and rebin-of-rebin composes (C09_edges, C09_unit_factor, C09_rebin_of_rebin), and that the arange-and-filter grid of ExtraCoords.resample with that offset is exactly the M block centres for every integer factor and axis length M*f, where the tables are sampled by linear interpolation (C09_grid, C09_extra). Tied to /repo by exact decoding of the linear probe WCS at centres and edges, table comparison (Quantity / Time / SkyCoord, plain / sliced / rebinned sources) and a direct oracle on TAN / rotated families.",
    design_ref="DESIGN.md §5.9",
    note="Trusted: Coq kernel + VM; Model/M_Resample.v transcription; tab_eval is a dependency model of np.interp / interpn linear interpolation (validated by the same run); Time tables compared to 1e-5 s; one coordinate spanning several axes (2-D per-pixel SkyCoord table, two-table Quantity coordinate, WCS-backed ExtraCoords with any mapping) is checked by the direct oracle only; known findings q2-grid-shapes and sky2-length1.",
    technique="Coq proof (field/lra over Q, ceiling/arange lemma) over hand-written Gallina model + vm_compute correspondence check"),
 "C08": dict(
    category="proof",
    text="Coq theorems C08_block / C08_values prove, for every dimensionality and every bin shape dividing the array shape, that reading the array through the reshape to (m0,b0,m1,b1,...) and reducing over the odd axes gives for output j exactly the operation over the inputs at j*b+r (masked inputs excluded unless the operation ignores the mask); C08_plan is the acceptance / refusal / new-shape decision; C08_flat describes the block-major array handed to a propagation function. Proof rests on interleave_ravel + unravel_ravel (row-major index arithmetic, proved by induction/nia). Tied to /repo by a correspondence check (exact rational comparison of every output element, mask, unit, meta, identity for all-ones) plus an explicit-loop oracle.",
    design_ref="DESIGN.md §5.8",
    note="Trusted: Coq kernel + VM; Model/M_Rebin.v transcription; 'reduce' is a dependency model of numpy (masked) reductions incl. NaN behaviour, validated by the same correspondence run, not verified; rint model of np.rint; dask observed after compute().",
    technique="Coq proof (row-major index arithmetic) over hand-written Gallina model + vm_compute correspondence check"),
 "C14": dict(
    category="proof",
    text="Coq theorems over an ARBITRARY inner WCS (record of functions on rational vectors): resampled = inner at p*f+o with unchanged attributes, shape*f = inner shape, round trip for all non-zero factors; reordered = conjugation by the two permutations with every per-axis attribute transported, argsort of any permutation is its inverse, round trip; compound = routing + concatenation, round trip when members round-trip and the mapping is onto, refusal of inconsistent world inputs on shared axes and of wrong-length parameters / non-permutations. Tied to /repo by a correspondence check over wrapper expressions (nested to depth 2) on an exact linear probe WCS, rank 0-2 inputs, plus a FITS-family direct oracle.",
    design_ref="DESIGN.md §5.14",
    note="Trusted: Coq kernel + VM; Model/M_Wrappers.v transcription; section-free hypotheses 'roundtrips' and 'wellformed' of the inner WCS are explicit premises (satisfied by lin_wcs, see C14_nonvacuous); harness ProbeWCS; gWCS inner family not generated.",
    technique="Coq proof (field/ring over Q, permutation lemmas) over hand-written Gallina model + vm_compute correspondence check"),
 "C13": dict(
    category="proof",
    text="Coq theorems: C13_history (after ANY sequence, of any length, of supported edits - numeric slicing, selection by distinct keys, pop / del, update with a consistent set of members, copy - the invariant holds: keys distinct, every member's aligned axes are distinct axes that exist on that member, the i-th aligned axes of all members have equal length, no aligned axes listed when the collection has none; a refused edit leaves the collection as it was), C13_edit (one edit), C13_member_slice (a numerically sliced member: the renumbered aligned axes are distinct axes of the SLICED member and the lengths along them depend only on the old aligned lengths and the items), C13_inv_reflects (the boolean invariant evaluated on every reached state decides that proposition), C13_renumber (the loop of _update_aligned_axes equals the closed form 'same physical axes lowered by the number of dropped member axes below them', for any number of aligned axes, any ascending drops, any per-member order), C13_drops_wellformed. Tied to /repo by an exact correspondence check of the whole edit state machine (slice, select, copy, pop, del, update, refused operations) on every reached state (keys, shapes, aligned axes, unchanged-after-refusal), with numpy integers as indices in every fourth case and every collection an edit was derived from re-observed after later edits, plus a direct oracle (physical-axis identity via coded data).",
    design_ref="DESIGN.md §5.13",
    note="Trusted: Coq kernel + VM; Model/M_Collection.v transcription; M_Slicing for member shapes; harness + direct oracle. NDCubeSequence members are modelled by the flag mseq (C13_slice_member: an integer on the sequence axis yields a cube, nothing 0-d is left); slices that would leave an empty sequence are unspecified and not judged; items with None / Ellipsis are outside the history theorem (premise no_special).",
    technique="Coq proof over hand-written Gallina model + vm_compute correspondence check over edit histories"),
 "C11": dict(
    category="proof",
    text="Coq theorems (C11_tuple_slice, C11_tuple_int, C11_ellipsis_expanded, C11_common_axis, C11_explode_entries, C11_explode_count, C11_explode_common_axis, C11_cube_like_shape) prove for any number of cubes, any shapes (ragged along the common axis) and any item that sequence indexing is list indexing composed with per-cube slicing, that the new common axis is the rank of the old one among surviving axes (Ellipsis expanded first), and that exploding returns hyperplane j of cube k at position locate(lengths, m); the transcription is tied to /repo by a correspondence check over histories of <=3 ops and a numpy/list direct oracle.",
    design_ref="DESIGN.md §5.11",
    note="Trusted: Coq kernel + VM; Model/M_Sequence.v transcription (uses M_Slicing for per-cube slicing); PyIndex.v model of CPython list slicing (validated each run); harness + numpy oracle. Per-cube world coordinates are C01's subject. 0-d cubes (all axes integer-indexed) do not exist in ndcube and are excluded.",
    technique="Coq proof over hand-written Gallina model + vm_compute correspondence check against the implementation"),
 "C01": dict(
    category="proof",
    text="Coq theorems (C01_none_rejected, C01_data_is_numpy, C01_lockstep, C01_elementwise, C01_rank_shape) prove for every shape, every item (ints, open/negative/over-long slices, Ellipsis, None) and every inner WCS that the sliced WCS's per-axis offset and dropped flag equal numpy's start and dropped flag, so every surviving element reports the world coordinates of its source element; the transcription of NDCubeSlicingMixin.__getitem__ is tied to /repo by a correspondence check (probe linear WCS exact: shape, first element, WCS offsets, rank, array_shape) and an element-wise direct oracle over FITS families (TAN pair, split pair, rotated PC), numpy/dask payloads, mask/uncertainty/unit.",
    design_ref="DESIGN.md §5.1",
    note="Trusted: Coq kernel + VM; Model/M_Slicing.v transcription; dependency models of numpy indexing and SlicedLowLevelWCS offsets (np_axis_sel, wcs_axis_sel: validated against the implementation's observed offsets each run, not verified); floating-point evaluation of the inner WCS; gWCS family not in the generator yet.",
    technique="Coq proof over hand-written Gallina model + vm_compute correspondence check against the implementation"),
 "C12": dict(
    category="proof",
    text="Coq theorems (C12_int, C12_slice, C12_step_refused, C12_new_common_axis) prove, for any number of cubes of any positive lengths and every int / slice item, that the pieces the index_as_cube algorithm prescribes concatenate to numpy's result on the concatenated axis; the Gallina transcription is tied to /repo on every run by an exhaustive small-domain correspondence check evaluated inside Coq (vm_compute) plus a direct numpy oracle.",
    design_ref="DESIGN.md §5.12",
    note="Trusted: Coq kernel + VM; hand transcription Model/M_IndexAsCube.v (tied by correspondence only); PyIndex.v model of CPython slice/int semantics (validated each run against CPython); harness and numpy oracle. Theorems are axiom-free (Print Assumptions: closed). Cube slicing itself (data/WCS of each piece) is C01's subject.",
    technique="Coq proof over hand-written Gallina model + vm_compute correspondence check against the implementation"),
}
REASON_TODO = "no check registered yet: model and theorems for this property are still being built (see DESIGN.md §10 order of work); not claimed until its check runs clean"
def main():
    checks, na = [], []
    for p in PROPS:
        pid = p["id"]
        if pid in CLAIMED:
            c = CLAIMED[pid]
            checks.append({
                "property_id": pid,
                "quick_cmd": f"./check {pid} --tier quick",
                "thorough_cmd": f"./check {pid} --tier thorough",
                "evidence_file": f"/verif/evidence/{pid}.json",
                "replay_cmd_template": f"./check {pid} --replay {{path}}",
                "engine": "coq-corr",
                "level_claimed": {"category": c["category"], "text": c["text"], "design_ref": c["design_ref"]},
                "level_note": c["note"],
                "technique": c["technique"],
            })
        else:
            na.append({"property_id": pid, "reason": NA.get(pid, REASON_TODO)})
    m = {
        "version": 1,
        "setup_cmd": "/verif/tools/setup.sh",
        "hooks": {"guard": "NDCUBE_VERIF", "enable": "no hooks are needed: every observation point is public API; checks export NDCUBE_VERIF=1 for uniformity only",
                  "baseline_off_cmd": "/verif/tools/baseline_check.py", "source_commits": [], "add_only": True},
        "engines": [{"name": "coq-corr", "path": "/verif/check", "serves_properties": sorted(CLAIMED),
                     "kind_free_text": "Coq 8.16 proofs over hand-written Gallina models (coq/theories) + correspondence check: harness runs /repo's implementation and has coqc evaluate the model on the same inputs by vm_compute"}],
        "checks": checks,
        "notes": "See DESIGN.md. known_findings.json lists recorded defects; fix: commits in /repo repair the small ones.",
        "not_applicable": na,
    }
    json.dump(m, open('/verif/MANIFEST.json', 'w'), indent=1)
    print(f"claimed {len(checks)}, not claimed {len(na)}")
NA = {}
if __name__ == "__main__":
    main()
