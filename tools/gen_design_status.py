#!/usr/bin/env python3
"""Regenerates section 0 (as-built status) of DESIGN.md from known_findings.json, seeded/*/meta.json and Props/*.v."""
import json, glob, os, re, subprocess
kf = json.load(open('/verif/known_findings.json'))
seeds = {}
for d in sorted(glob.glob('/verif/seeded/C*-*'), key=lambda p: (p.split('/')[-1].split('-')[0], int(p.split('-')[-1]))):
    seeds[os.path.basename(d)] = json.load(open(d + '/meta.json'))
thm = {}
for f in sorted(glob.glob('/verif/coq/theories/Props/C*.v')):
    thm[os.path.basename(f)[:-2]] = re.findall(r'Theorem (\w+)', open(f).read())
nthm = sum(len(v) for v in thm.values())
nfiles = len(glob.glob('/verif/coq/theories/*/*.v'))
nfix = int(subprocess.check_output("git -C /repo log --oneline | grep -c ' fix:'", shell=True).decode())
models = {
 "C01": ("M_Slicing.v (+ Base/PyIndex.v, Base/Shape.v)", "cubes over sliced / resampled exact linear FITS WCS (lin_wcs) and probe WCS, all basic index items incl. negative / out-of-range / Ellipsis / None, Python and numpy integers, numpy + dask payloads; lookup-table gWCS, already-wrapped (resampled, high-level) WCS and already-sliced cubes (start > 0, explicit stops, recorded array shape) by the direct oracle; `array_shape None` read as 'no shape known'; ndcube's reordering wrapper (world order not the inverse of the pixel order) and compound wrapper (first member 1 pixel / 2 world axes) as primary WCS, with the correlation matrix stated from the construction"),
 "C02": ("M_ExtraCoords.v", "lookup tables (Quantity 1-3 tables, Time, SkyCoord mesh / not) on any axes, on a 1-D FITS grid, sky meshes; WCS-backed ExtraCoords with permuted / partial mappings, integer items (Python and numpy), chains, names; array dimensions spelled negative / as lists / as numpy ints; multi-table coordinates in either axis order; every cube is asked about itself before each slice in half the cases"),
 "C03": ("M_GlobalCoords.v", "histories of integer slices with branching, user-added global coords, 3-table Quantity coordinates; rot family restricted to 2-D; two generic gWCS frames whose dropped object keys clash (a gwcs limitation) are not generated"),
 "C04": ("M_Crop.v (reuses C14's wrapper evaluator)", "probe WCS with exact edges, TAN / rotated / tan_split families, lookup-table extra coords on 1-3-D cubes, None per independent group and all-None, float values in two unit spellings handed over as float / numpy scalar / 0-d array, Quantities, high-level objects, malformed requests; never-evaluated FITS WCS; meshed SkyCoord extra coords; per-point None layouts incl. points with no coordinate; cubes that are results of a rebin; the result cropped again with the same points (primary wcs, keepdims) must be the result itself (C04_recrop)"),
 "C05": ("M_WorldCoords.v (proofs in P_WorldCoords.v, P_WorldCoordsEC.v)", "every correlation structure up to 3x3 (+ sampled 4x4), wcs / extra_coords / combined_wcs, corners, grouped objects, ask / scribble / add / ask; extra coords coupled to several cube axes in any axis order: WCS-backed ExtraCoords with any correlation matrix and mapping (in the model: world_array_ec, the transposition `relabel`), 2-D per-pixel SkyCoord tables (direct oracle); gWCS primary WCS not generated"),
 "C06": ("M_Wrappers.v (compound), P_Combined.v", "probe WCS with 0-4 linear tables, plain / integer-sliced / rebinned / integer-sliced then rebinned, inspect-before-last-add; extra coords given as an invertible WCS with known shapes; the combined WCS's recorded shape"),
 "C07": ("M_Store.v", "random histories <= 6 steps on cubes / sequences / collections; sharing measured per cube-level step; snapshots of every object after every step; NaN payloads with nan-operations; reprojection of already sliced / rebinned cubes; C07_shared_cell: a Share field of a derived object is the source's own cell"),
 "C08": ("M_Rebin.v", "all bin shapes dividing shapes up to 4-D, operations mean / sum / min / max / custom, masks, handle_mask, dask (with dask or numpy masks; the result must stay lazy), new_unit; the mask switch as bool / numpy bool / int; pixel Quantities in pix or a pixel-convertible unit; C08_partition / C08_count: the blocks partition the input (no element used twice or lost)"),
 "C09": ("M_Resample.v", "lin / TAN / rotated WCS, lookup-table extra coords incl. SkyCoord in several units and Time, multi-step rebin; one coordinate spanning several axes in any axis order (2-D per-pixel SkyCoord table, two-table Quantity coordinate, WCS-backed ExtraCoords with any mapping) by the direct oracle, with two known findings (q2-grid-shapes, sky2-length1); a meshed SkyCoord (mesh=True) on two cube axes of plain / sliced / rebinned sources (both axes treated alike)"),
 "C10": ("M_Arith.v", "see MANIFEST; operands also as numpy unsigned / signed integers; global coords of result and source edited independently; uncertainties carrying a unit different from the cube's are not generated"),
 "C11": ("M_Sequence.v", "exhaustive small index domains; sequences of ragged cubes; Ellipsis alone (tuple and bare); numpy integers; the common axis also in its negative spelling; every second sequence is asked about itself before each step; out-of-range explode axes are unspecified and not judged"),
 "C12": ("M_IndexAsCube.v", "exhaustive: all length vectors up to 3 (4) cubes x length 3 (4), every int / slice item of both signs; 2-4-D cubes with ints on the leading axes; tuples that stop before the common axis; the result is indexed as a cube once more; every third sequence held and served another line-up of cubes before seq.data was edited in place"),
 "C13": ("M_Collection.v (proofs in P_Collection.v, P_CollectionInv.v)", "edit histories (slice, keys, pop, update, del, refused operations) on collections with 0-4 aligned axes in any per-member order; every collection an edit came from is re-observed; numpy integers; members that are NDCubeSequences (axis 0 = the sequence axis, aligned or not; an integer there turns the member into a cube); slices that would leave an empty sequence are unspecified and not judged"),
 "C14": ("M_Wrappers.v", "wrapper expressions of depth <= 3 over probe / lin WCS with exact rational evaluation (wexpr evaluator); scalar and integer-typed factor / offset arguments; compound members that are themselves compounds; orders as list / tuple / array / iterator; parameters the caller changes after construction; array world inputs with one inconsistent element; inner WCS with fewer pixel than world dimensions; C14_resample_compose: nested resampling wrappers equal one with factor f2*f1 and offset o2*f1+o1"),
 "C15": ("M_Unwrap.v", "chains of slices and resamplings over FITS WCS with PC or CD matrices; numpy integers in raw slice chains; raw negative items excluded (C01 normalises them before they reach the WCS)"),
 "C16": ("M_RebinUnc.v", "StdDev / Variance / InverseVariance, sum / mean / prod / nan-variants, masks, ignores-mask; NaN data together with operation_ignores_mask: either consistent reading is accepted (NaN members out of sum and divisor, or in both), a mixture is not; the mask switch as bool / numpy bool / int; the user's propagation function as function / partial / bound method / callable object, which must have been called; C16_order_independent: the value does not depend on which member of a block comes first"),
 "C17": ("M_SeqCoords.v (+ M_WorldCoords.v, M_IndexAsCube.v)", "see MANIFEST; cubes of one sequence share one coordinate structure (1-D tables; multi-table coordinates are C02's); tables dropped by slicing and cubes that went through arithmetic, with the expected global names stated independently"),
 "C18": ("M_SeqCrop.v (+ M_Crop.v)", "see MANIFEST; extra-coords wcses by the direct oracle only; wcses as a list of attribute names; cubes sharing one WCS object; per-point None layouts; all points in one pixel; an independent statement of the box; the result cropped again with the same arguments; C18_tight: every bound of the common box is a bound of some cube's own box"),
 "C19": ("M_Lookup.v (+ M_Resample.v)", "see MANIFEST; names / types / units and 2-D SkyCoord tables by the direct oracle only; a 'units' probe (tables in m / km / cm, numpy-integer items); resampling leaves its source unchanged and is repeatable; two-axis coordinates in either axis order; ExtraCoords.resample with whole factors as ints / integer arrays and fractional offsets, tuple / array arguments"),
 "C20": ("M_Reproject.v", "see MANIFEST; adaptive algorithm: refusals, shape and attributes only; int64 / float32 payloads; shape_out as tuple / list / array; the footprint flag as bool / numpy bool / int; the cube's own WCS as target; WCS objects and global coords of the source untouched"),
}
missed = [n for n, m in seeds.items() if 'missed' in m.get('history', '') or 'only through' in m.get('history', '')]
L = []
A = L.append
A("## 0. STATUS — what was built (this section is authoritative; sections 1-10 are the round-0 plan)\n")
A("All 20 properties are claimed in `MANIFEST.json` at level **proof**; nothing is listed under `not_applicable`.")
A("Every check passes on the current tree (`./check Cxx`, 10-25 s each in the quick tier), with `VERIF_SEED` 0, 1, 2 and 3.")
A(f"`/repo` carries {nfix} small `fix:` commits for genuine defects the checks (or the seeding agents' baseline probes)")
A(f"exposed (0.4); {len(kf['findings'])} genuine defects that cannot be repaired with a small patch are open known findings (0.5).")
A("No hook or instrumentation was needed in `/repo` (`MANIFEST.hooks` is empty; `NDCUBE_VERIF` is unused).")
A("This section is regenerated by `tools/gen_design_status.py`.\n")
A("### 0.1 Architecture as built\n")
A("* `coq/theories/Base` (Prelude, PyIndex, Shape), `Model/M_*.v` (definitions only), `Proof/P_*.v`, `Props/Cxx.v`")
A("  (only `Theorem ... Proof. exact lemma. Qed. Print Assumptions ...` plus one `vm_compute` non-vacuity `Example`),")
A(f"  `Corr/Cxx_corr.v` (`case`, `agree`, `dom`).  {nfiles} files, full `.vo` build by `coq_makefile`, under a minute on 8 jobs.")
A("* The tie is the **correspondence check** (hand-written model; no translator): `harness/main.py` builds the Coq")
A(f"  project, scans it for forbidden vernacular, re-compiles `Props/<ID>.v` and parses every `Print Assumptions` (all {nthm}")
A("  property theorems are *Closed under the global context*), validates the dependency model `PyIndex` against CPython")
A("  (4788 cases) where the property uses it, generates cases (plus `corpus/<ID>/*.json`), runs the implementation in 16")
A("  worker processes against `/repo`'s working tree (PYTHONPATH=/repo, PYTHONHASHSEED=0), writes `cases_k.v` files of <= 400")
A("  cases ending in `Eval vm_compute in (classify dom agree cases)`, and parses the `(index, code)` pairs back.")
A("* Every property also has a **direct oracle** in Python that is independent of the model (it restates the property on")
A("  the observable API).  Verdict: oracle failure -> `VIOLATION property=<id> replay=<file>` with the failing input;")
A("  model/implementation disagreement while the oracle accepts -> `VIOLATION ... no-failing-input-found` naming")
A("  `Cxx_corr.agree`; a proof obligation that no longer compiles or depends on an axiom -> the same with the theorem's")
A("  name; failures listed in `known_findings.json` by key -> `KNOWN-FINDING:` line, exit 0.")
A("* Deviation from the plan: no `Dep/D_*.v` family - numpy / astropy behaviour that the models rely on is written inside")
A("  the model files and named in each module's `ASSUMPTIONS` (copied into the evidence); only Python index semantics have")
A("  a separate validated dependency model.  No std++; association lists throughout.  No `_refuted` theorems: every defect")
A("  was repaired or recorded instead, and the models follow the repaired code.\n")
A("### 0.2 Per property: theorems, model, what the correspondence covers, limits\n")
A("| id | theorems (Props/Cxx.v) | model | generated domain and limits |")
A("|---|---|---|---|")
for pid in sorted(thm):
    A(f"| {pid} | {', '.join(t.replace(pid + '_', '') for t in thm[pid])} | {models[pid][0]} | {models[pid][1]} |")
A("")
A("Partial claims, stated here so that nobody reads more into a pass than it carries: C07 (the sharing table is measured,")
A("in-place writes inside an operation are only caught by snapshots), C16 (astropy's propagation formulas are")
A("transcribed, the NaN + ignores-mask clause is unspecified), C19 (declared names / types / units, 2-D SkyCoord tables:")
A("oracle only), C20 (the regridding is `reproject`; adaptive: no value check), dask clauses of C01 / C08 / C10 (payloads")
A("are computed before comparison; laziness itself is not modelled).\n")
A("### 0.3 Seeded changes: which checks catch which changes\n")
A(f"{len(seeds)} changes (four rounds of 3 per property, a fifth for ten of them and a sixth round of 2 for every property (4 for C06 C11 C13 C15); the later rounds asked for changes that only show through state, unusual argument")
A("forms, inputs that are themselves results, or coinciding circumstances) were produced by fresh sub-agents that saw")
A("only the property text and a scratch worktree, confirmed by me in that worktree (demo passes clean / fails patched, pinned")
A("suite's stable set still passes), stored under `seeded/<id>-<k>/` and run against the check with `tools/try_seed.sh` (apply")
A(f"to /repo, check, `git checkout -- .`).  All {len(seeds)} are detected by the current checks (`tools/rerun_seeds.py` re-runs them")
A("all; result in `seeded/STATUS.json`); four of them are caught by another property's check (`meta.json` names it in")
A("`detected_by`): C06-11 leaves every clause of C06 true and is caught by the C09 check, C17-14 needs a multi-table extra")
A("coordinate, which the C17 generator does not attach, and is caught by the C02 check; C18-17 sits in the cube-level\n`_get_crop_by_values_item` (units of a never-evaluated FITS WCS) and is caught by the C04 check.  C17-17 (a numpy-integer cube index in\n`NDCubeSequence.__getitem__` leaves the common axis unrenumbered) needs a sliced sequence, which the C17 generator does not build, and is caught by the C11 check.  One fourth-round change for C17 was")
A("neutralised by a repair made meanwhile (`extra_coords.add` now turns numpy-integer axes into ints) and is not stored.")
A(f"{len(missed)} were missed (or caught only through the model) by the first version of")
A("their check and led to the strengthening noted below; patches that no longer applied after a later repair of the same")
A("lines were rebased by hand onto the repaired tree and re-confirmed.\n")
A("After the round-6 generator changes the stored seeds of C01 and C09 (whose random streams shifted) were all re-run and are")
A("still detected; the entries of the other properties in `seeded/STATUS.json` date from the regression before round 6 plus")
A("the confirmation runs of the new seeds (their generators changed only in argument forms / pre-used objects).\n")
A("| seed | caught by | note |")
A("|---|---|---|")
for name, m in seeds.items():
    tail = m.get('check_output_tail', '')
    how = 'correspondence (no failing input)' if 'no-failing-input-found' in tail else 'direct oracle, replayable input'
    note = (m.get('history') or 'detected by the first version').replace('|', '/')
    A(f"| {name} | {how} | {note} |")
A("")
A("Recurring lessons (now applied in several modules): ask -> mutate / add -> ask again (stale caches: C05-3, C06-2, C17-3);")
A("integer-sliced and rebinned *source* cubes (C06-1/3, C10-3); operating on the *result* of an earlier operation rather")
A("than twice on the parent, and looking at the parent again afterwards (C19-2, C07-1, C13-4); units / scales / argument")
A("types other than the default (C02-2, C04-2, C09-3, C19-1, C14-4, numpy integers C01-5); argument variants of the same")
A("method (C07-2, C18-3); dimensionalities the quick tier skipped (C12-6, C19-3); oracles must not read the value under")
A("test through the same library path (C17-3, C18-8: a helper of the implementation used as oracle hides a defect in that")
A("helper, so its refusals are judged against the generator's own knowledge of validity); inputs that are themselves results")
A("(already-sliced cubes with a recorded array shape, C01-9); asking an object about itself BEFORE deriving from it (C11-9:")
A("a cache copied into the result; `poke()` now does this in nine modules); payload dtypes other than float64 (C20-9);")
A("'wrong in the same multiset' inputs (C13-8: right lengths on the wrong aligned axes); degenerate extents on every axis at")
A("once (C18-8); index tuples that stop before the interesting axis (C12-9); ndcube's own wrappers as the PRIMARY wcs with")
A("the expected correlation matrix stated from the construction, never asked of the wrapper (C01-13/14); a sequence object")
A("that held and served another line-up of cubes before its `data` list was edited in place (C12-13: stale per-list cache);")
A("whole factors as Python ints / integer arrays next to fractional offsets (C19-17), numpy bools as switches (C04-17), a meshed")
A("SkyCoord on two axes of an already sliced cube (C09-17); editing the RESULT's list of cubes in place and looking at the")
A("source (C11-16: seq[:] handed out the source's own list); numpy integers also in the slices that PREPARE a case (C06-19).\n")
A(f"### 0.4 Genuine defects repaired in /repo (`fix:` commits; the pinned suite passes 174/174 after each)\n")
for x in kf['fixed']:
    A("* " + x[len('fixed: '):])
A("")
A("### 0.5 Known findings (open; printed as `KNOWN-FINDING:` lines, exit 0; any other failure of the same property still alarms)\n")
for f in kf['findings']:
    A(f"* **{f['property']} `{f['key']}`** - {f['what']}  (region: {f['region']})")
A("")
A("Observed but outside the quantifier of the property concerned (not findings, not judged): crop with None on part of a")
A("correlated group through `combined_wcs`; reprojecting an integer-sliced cube does not carry the global coordinate of")
A("the dropped dimension (C20 quantifies over cubes on plain FITS WCS); an uncertainty that carries its own unit different")
A("from the cube's is mis-scaled by `*` / `to()`; `axis_world_coords_values(wcs=extra_coords)` raises for a multi-table")
A("Quantity coordinate without distinct physical types (duplicate namedtuple fields) and for an empty ExtraCoords;")
A("(2-D non-meshed SkyCoord tables with a dimension of length 1 cannot build their model: now the C09 finding sky2-length1); rebin by all ones with")
A("`handle_mask=None` returns the cube itself, mask included ('returns an equal cube' and 'mask absent' conflict there);")
A("an empty collection (last member popped) raises in `aligned_dimensions`; 0-d results are refused everywhere (no WCS);")
A("`common_axis_coords` pairs the coordinates of different cubes by position, so cubes whose common axis carries different")
A("sets of coordinates are mixed or raise (the harness gives all cubes of a sequence one coordinate structure); the mapping")
A("setter of a WCS-backed ExtraCoords refuses cube pixel axes >= the extra WCS's own pixel dimensions; the compound wrapper's")
A("`pixel_axis_names` raises when members name a shared pixel axis differently; `np.allclose`'s default rtol makes the")
A("compound wrapper's shared-axis consistency check looser far from the origin; an empty NDCubeSequence has no shape; a")
A("WCS-backed ExtraCoords all of whose pixel dimensions are indexed away becomes an empty ExtraCoords and its coordinates do")
A("not reach `global_coords` (C03 quantifies over lookup-table extra coords; partially dropped WCS-backed ones do get there).\n")
A("### 0.6 False alarms of my own checks (corrected in the machinery, never listed as findings)\n")
A("* The parser of Coq's output did not match `(313%Z, 2%Z)` (printed under `Open Scope Q_scope`), so the correspondence")
A("  of C09 / C14 / C15 / C16 was silently ignored for a while: regex fixed and a residue check added (anything left over")
A("  after removing the matched pairs is a MODEL-ERROR).")
A("* Oracles that demanded more than the property states were narrowed: C11 out-of-range explode axes and explode meta;")
A("  0-d cube results (not constructible) everywhere; C05 object order = first occurrence among the *selected* world axes;")
A("  C04 exact pixel edges only for the exactly invertible probe WCS, extra-coord positions kept inside their tables,")
A("  None groups computed on cube pixel axes; C09 coordinates identified by physical type, Time compared through the")
A("  tables, SkyCoord in a common unit; C03 rot family restricted to 2-D, angles compared mod 360; C20 values checked only")
A("  for identical / whole-pixel-shifted targets (the exact algorithm averages on rescaled grids), adaptive not value-checked;")
A("  C19 length-1 tables probed at their pixel or at least half a pixel away, Time tolerance 2 us (MJD doubles), world values")
A("  for Time computed through the table's own float arithmetic; C07 an operation that returns the object itself derives nothing.")
A("* The C04 'crop the result again' oracle (added with C04_recrop) first ran through extra_coords / combined_wcs too and alarmed")
A("  with ValueError on the unchanged tree: a point within half a pixel beyond the region's last element lies past the end of")
A("  the cropped lookup table, which has no values there (C19_outside) - the property does not promise idempotence through")
A("  tables; the oracle is restricted to the primary wcs, where C04_recrop applies.")
A("* Harness bugs that looked like violations: C18 None-group mapping for identity blocks; C19 resampled tables matched by")
A("  position instead of by name; C10 inverse variances divided by non-powers of two (inexact floats); C20 TAN 'other types'")
A("  target built an invalid WCS; C09 Time tolerance not applied; C13 (thorough tier only) histories continued on an empty")
A("  collection; C12 / C11 oracles classified numpy integers as non-integers when that variation was introduced; C14 the")
A("  comparator did not follow refusals through nested compounds.\n")
A("### 0.7 Trusted base as built\n")
A("1. Coq 8.16.1 kernel and its bytecode VM (`vm_compute` in the non-vacuity examples and in the comparator). No")
A("   `native_compute`, no extraction (the model is evaluated inside Coq), no kernel check switched off, full `.vo` builds.")
A(f"2. Axioms: none. `Print Assumptions` under each of the {nthm} property theorems reports *Closed under the global context*;")
A("   the check fails closed on anything else (`ALLOWED_AXIOMS` is empty for every property). Libraries imported: Coq's")
A("   `ZArith List Bool Lia String QArith Qabs Qround Qpower Qfield Lqa` only - no classical or extensionality axioms are")
A("   pulled in (`coqchk -o` over all `Props/*.vo`: `Axioms: <none>`, no type-in-type, no unsafe fixpoints, no assumed")
A("   positivity; log in `coq/coqchk.log`).")
A("3. Explicit premises of theorems about things that are not ndcube: WCS laws (`corr_sound`, member round trips, exact")
A("   member matrices) for C03 / C05 / C06 / C14; `same_dep` for C17; `no_special` / `edit_ok` for C13's history theorem;")
A("   each has a satisfied instance in the `Example`.")
A("4. Dependency behaviour written into the models and validated only by the runs: numpy basic indexing / broadcasting /")
A("   reshape / interp, CPython `slice.indices` (separately validated), astropy `sanitize_slices`, `SlicedLowLevelWCS`,")
A("   `_split_matrix`, `values_to_high_level_objects`, index rounding, unit algebra, uncertainty propagation, Tabular models,")
A("   gWCS frames, `reproject` on coinciding grids.")
A("5. The hand transcription `Model/M_*.v` and the sharing table `sig_of` (C07): tied to the working tree by the")
A("   correspondence check only; its strength is bounded by the generators, whose distributions are written to the evidence.")
A("6. The harness: generators, worker, exact `Fraction` printers, canonicalisation (values put on the dyadic grid of the")
A("   exact result within stated tolerances where a dependency introduces float noise: C19 Time / SkyCoord, C20), the parser")
A("   of Coq's answer, the direct oracles, `known_findings.json` handling, `tools/baseline_check.py`.")
A("7. Modelled rather than verified: every line of Python. Not modelled at all: visualization, `__str__` / `__repr__`,")
A("   deprecated `dimensions`, sphinx helpers, dask laziness, wcslib projections (used only through exact linear or probe WCS")
A("   in the correspondence and with tolerances in the oracles).\n")
A("---------------------------------------------------------------------------------------------------\n")
s = open('/verif/DESIGN.md').read()
marker = "## 1. The idea in one page"
assert marker in s
if "## 0. STATUS" in s:
    s = s[:s.index("## 0. STATUS")] + s[s.index(marker):]
s = s.replace(marker, "\n".join(L) + "\n" + marker, 1)
open('/verif/DESIGN.md', 'w').write(s)
print(len(L), "lines;", nthm, "theorems;", nfiles, "files;", nfix, "fix commits;", len(seeds), "seeds;", len(missed), "initially missed")
