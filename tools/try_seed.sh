#!/bin/bash
# usage: try_seed.sh <ID> <patch.diff> [tier]  -- apply a seeded change to /repo, run the check, undo it
id=$1; patch=$2; tier=${3:-quick}
cd /repo || exit 2
if [ -n "$(git status --porcelain --untracked-files=no)" ]; then echo "repo not clean"; exit 2; fi
git apply --3way "$patch" 2>/dev/null || { git reset -q; git checkout -- .; git apply "$patch"; } || { echo "PATCH DOES NOT APPLY"; git reset -q; git checkout -- .; exit 3; }
if git status --porcelain | grep -q '^UU\|^AA'; then echo "PATCH DOES NOT APPLY (conflict)"; git reset -q; git checkout -- .; exit 3; fi
git reset -q   # keep the change in the working tree only
cd /verif && ./check $id --tier $tier 2>&1 | tail -${4:-6}
rc=${PIPESTATUS[0]}
git -C /repo checkout -- .
echo "check exit=$rc; repo restored: $(git -C /repo status --porcelain --untracked-files=no | wc -l) modified files"
