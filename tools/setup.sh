#!/bin/bash
# MANIFEST.setup_cmd: full .vo build of the Coq development from files on disk (offline)
set -e
cd /verif/coq
find theories -name '*.v' | sort > .files.tmp
coq_makefile -f _CoqProject -o Makefile $(cat .files.tmp) 2>&1 | grep -v conda.cli || true
tr '\n' ' ' < .files.tmp | sed 's/ $//' | tr ' ' '\n' > .files; rm -f .files.tmp
# .files must match what harness/main.py writes (newline-joined, no trailing newline)
python3 - <<'P'
s=open('/verif/coq/.files').read().rstrip('\n'); open('/verif/coq/.files','w').write(s)
P
timeout 3000 make -j16 2>&1 | grep -v conda.cli | tail -5
echo "setup: coq development built"
