#!/bin/bash
# MANIFEST.setup_cmd: full .vo build of the Coq development from files on disk (offline)
cd /verif || exit 2
PYTHONPATH=/verif /venv/bin/python -W ignore - <<'P' 2> >(grep -v conda.cli >&2)
import sys
from harness.main import build_coq, hygiene
ok, log = build_coq()
print(log[-1500:])
bad = hygiene()
print("hygiene:", bad or "clean")
sys.exit(0 if ok and not bad else 1)
P
