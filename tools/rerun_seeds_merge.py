#!/usr/bin/env python3
"""rerun_seeds.py [ID ...]: apply every stored seeded change to /repo in turn (apply, check, undo) and report
whether it still applies and is detected; writes /verif/seeded/STATUS.json"""
import glob, json, os, subprocess, sys
only = set(sys.argv[1:])
out = {}
for d in sorted(glob.glob('/verif/seeded/C*-*')):
    name = os.path.basename(d); pid = name.split('-')[0]
    if only and pid not in only: continue
    try:
        pid = json.load(open(d + '/meta.json')).get('detected_by') or pid      # (a seed caught by another property's check)
    except Exception:
        pass
    r = subprocess.run(['/verif/tools/try_seed.sh', pid, d + '/patch.diff', 'quick', '6'], capture_output=True, text=True).stdout
    st = 'does-not-apply' if 'PATCH DOES NOT APPLY' in r else ('detected' if 'VIOLATION property=' + pid in r else 'MISSED')
    nfi = 'no-failing-input-found' in r
    out[name] = {'status': st, 'no_failing_input': nfi}
    print(name, st, '(correspondence only)' if nfi else '', flush=True)
old = json.load(open('/verif/seeded/STATUS.json')); old.update(out); json.dump(dict(sorted(old.items())), open('/verif/seeded/STATUS.json', 'w'), indent=1)
