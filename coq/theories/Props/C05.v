(* C05 — axis_world_coords(_values) report exactly what the WCS says for every pixel.
   corr : world x pixel correlation matrix; pixel axis p is array axis n-1-p; W any pixel->world map. *)
From NDV Require Import M_WorldCoords M_GlobalCoords P_GlobalCoords P_WorldCoords.
From Coq Require Import Sorted.
Open Scope Z_scope.

(* each returned array has one dimension per array axis the coordinate depends on, in increasing array-axis
   order, of the axis length (+1 for corners) *)
Theorem C05_dims : forall corr n w,
  StronglySorted lt (world_axes corr n w) /\
  forall a, In a (world_axes corr n w) <-> (a < n)%nat /\ cget corr w (n - 1 - a) = true.
Proof. exact world_axes_spec. Qed.
Print Assumptions C05_dims.

Theorem C05_shape : forall W corr shape corners w,
  fst (world_array W corr shape corners w) =
  map (fun a => wc_range_len corners (nth a shape 0)) (world_axes corr (length shape) w).
Proof. exact world_array_shape. Qed.
Print Assumptions C05_shape.

(* every entry equals the WCS value at the centre (corner) of any element with those coordinates on the
   correlated axes, for every WCS whose correlation matrix is sound *)
Theorem C05_entries : forall W corr n corners w e E, corr_sound W corr -> length E = n ->
  (forall a, (a < n)%nat -> cget corr w (n - 1 - a) = true -> nth a E 0 = lookup (world_axes corr n w) e a) ->
  (nth w (W (code_pixel corr n corners w e)) 0 == nth w (W (elem_pixel n corners E)) 0)%Q.
Proof. exact world_entry_correct. Qed.
Print Assumptions C05_entries.

(* the coordinates returned are exactly those correlated with a requested axis, each once, in world order *)
Theorem C05_selection : forall corr types n reqs ws, reqs <> [] -> world_indices corr types n reqs = Ok ws ->
  StronglySorted lt ws /\
  forall w, In w ws <-> (w < length corr)%nat /\ exists r sel, In r reqs /\ req_world corr types n r = Ok sel /\ In w sel.
Proof. exact world_indices_spec. Qed.
Print Assumptions C05_selection.

Theorem C05_int_axis : forall corr types n a sel, req_world corr types n (AInt a) = Ok sel ->
  let a' := if a <? 0 then a + Z.of_nat n else a in
  0 <= a' < Z.of_nat n /\ forall w, In w sel <-> (w < length corr)%nat /\ cget corr w (n - 1 - Z.to_nat a') = true.
Proof. exact req_int_spec. Qed.
Print Assumptions C05_int_axis.

Example C05_nonvacuous :
  let corr := [[true; true; false]; [true; true; false]; [false; false; true]] in
  world_axes corr 3 0 = [1; 2]%nat /\ world_axes corr 3 2 = [0]%nat
  /\ component corr 3 2 = [false; false; true]
  /\ world_indices corr ["pos.lon"; "pos.lat"; "em.wl"]%string 3 [AInt (-1)] = Ok [0; 1]%nat
  /\ world_indices corr ["pos.lon"; "pos.lat"; "em.wl"]%string 3 [AStr "pos"%string] = Err EValue
  /\ objects_for [7; 9; 7] [1; 2]%nat = [9; 7].
Proof. vm_compute. repeat split. Qed.
