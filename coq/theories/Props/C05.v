(* C05 — axis_world_coords(_values) report exactly what the WCS says for every pixel.
   corr : world x pixel correlation matrix; pixel axis p is array axis n-1-p; W any pixel->world map. *)
From NDV Require Import M_WorldCoords M_GlobalCoords P_GlobalCoords P_WorldCoords P_WorldCoordsEC.
From Coq Require Import Sorted.
Open Scope Z_scope.

(* each returned array has one dimension per array axis the coordinate depends on, in increasing array-axis
   order, of the axis length (+1 for corners) *)
Theorem C05_dims : forall corr n w,
  StronglySorted lt (world_axes corr n w) /\
  forall a, In a (world_axes corr n w) <-> (a < n)%nat /\ cget corr w (n - 1 - a) = true.
Proof. exact world_axes_spec. Qed.
Print Assumptions C05_dims.

Theorem C05_shape : forall W corr shape corners w,
  fst (world_array W corr shape corners w) =
  map (fun a => wc_range_len corners (nth a shape 0)) (world_axes corr (length shape) w).
Proof. exact world_array_shape. Qed.
Print Assumptions C05_shape.

(* every entry equals the WCS value at the centre (corner) of any element with those coordinates on the
   correlated axes, for every WCS whose correlation matrix is sound *)
Theorem C05_entries : forall W corr n corners w e E, corr_sound W corr -> length E = n ->
  (forall a, (a < n)%nat -> cget corr w (n - 1 - a) = true -> nth a E 0 = lookup (world_axes corr n w) e a) ->
  (nth w (W (code_pixel corr n corners w e)) 0 == nth w (W (elem_pixel n corners E)) 0)%Q.
Proof. exact world_entry_correct. Qed.
Print Assumptions C05_entries.

(* the coordinates returned are exactly those correlated with a requested axis, each once, in world order *)
Theorem C05_selection : forall corr types n reqs ws, reqs <> [] -> world_indices corr types n reqs = Ok ws ->
  StronglySorted lt ws /\
  forall w, In w ws <-> (w < length corr)%nat /\ exists r sel, In r reqs /\ req_world corr types n r = Ok sel /\ In w sel.
Proof. exact world_indices_spec. Qed.
Print Assumptions C05_selection.

Theorem C05_int_axis : forall corr types n a sel, req_world corr types n (AInt a) = Ok sel ->
  let a' := if a <? 0 then a + Z.of_nat n else a in
  0 <= a' < Z.of_nat n /\ forall w, In w sel <-> (w < length corr)%nat /\ cget corr w (n - 1 - Z.to_nat a') = true.
Proof. exact req_int_spec. Qed.
Print Assumptions C05_int_axis.

(* ---- wcs = extra_coords: coordinates coupled to several cube axes, extra pixel dimensions in any order -------------
   (extra pixel dimension j is the cube's pixel axis pm[j]; the code evaluates the extra WCS over its own
   dimensions and transposes the result into the cube's array-axis order: relabel) *)
Theorem C05_ec_axes : forall corr n pm w, StronglySorted lt (ec_axes corr n pm w) /\
  forall a, In a (ec_axes corr n pm w) <->
            (a < n)%nat /\ exists j, (j < length pm)%nat /\ nth j pm n = (n - 1 - a)%nat /\ cget corr w j = true.
Proof. exact ec_axes_spec. Qed.
Print Assumptions C05_ec_axes.

(* one dimension per dependent CUBE array axis, in increasing array-axis order, of that axis' length *)
Theorem C05_ec_dims : forall corr cshape pm w, NoDup pm -> Forall (fun p => (p < length cshape)%nat) pm -> forall W corners,
  fst (world_array_ec W corr cshape pm corners w)
  = map (fun a => wc_range_len corners (nth a cshape 0)) (ec_axes corr (length cshape) pm w).
Proof. exact world_array_ec_dims. Qed.
Print Assumptions C05_ec_dims.

(* every entry is the extra WCS's value at the centre (corner) of any cube element with the entry's coordinates on
   the dependent cube axes *)
Theorem C05_ec_entries : forall corr cshape pm w, NoDup pm -> Forall (fun p => (p < length cshape)%nat) pm ->
  forall W corners e' E, corr_sound W corr -> length E = length cshape ->
  in_box (fst (world_array_ec W corr cshape pm corners w)) e' ->
  (forall a, In a (ec_axes corr (length cshape) pm w) -> nth a E 0 = lookup (ec_axes corr (length cshape) pm w) e' a) ->
  (nth (Z.to_nat (ravel (fst (world_array_ec W corr cshape pm corners w)) e')) (snd (world_array_ec W corr cshape pm corners w)) 0
   == nth w (W (ec_elem_pixel (length cshape) pm corners E)) 0)%Q.
Proof. exact world_entry_ec_correct. Qed.
Print Assumptions C05_ec_entries.

(* the transposition itself: entry e' of the result is the source's entry at the index vector that gives each source
   dimension the component of e' with the same label *)
Theorem C05_transpose : forall (f : list Z -> Q) n labels sh e', NoDup labels -> Forall (fun a => (a < n)%nat) labels ->
  length sh = length labels -> in_box (map (lookup labels sh) (sorted_labels n labels)) e' ->
  nth (Z.to_nat (ravel (map (lookup labels sh) (sorted_labels n labels)) e')) (snd (relabel n labels sh (map f (box sh)))) 0%Q
  = f (map (lookup (sorted_labels n labels) e') labels).
Proof. exact relabel_entry. Qed.
Print Assumptions C05_transpose.

(* the array axes of a world OBJECT (utils.wcs.array_indices_for_world_objects, used by crop and by the sequence views):
   those of all its components, ascending - also when the components depend on different axes *)
Theorem C05_object_axes : forall corr n comps o, StronglySorted lt (object_axes corr n comps o) /\
  forall a, In a (object_axes corr n comps o) <->
            (a < n)%nat /\ exists w, (w < length comps)%nat /\ nth w comps (-1) = o /\ cget corr w (n - 1 - a) = true.
Proof. exact object_axes_spec. Qed.
Print Assumptions C05_object_axes.

(* non-vacuity: a (2, 3) cube, one extra world axis = 10 x0 + x1 over extra pixel dimensions (x0, x1) mapped to the
   cube's pixel axes (1, 0), i.e. to array axes (0, 1): the array is (2, 3) with entry [i][j] = 10 i + j *)
Example C05_ec_nonvacuous :
  world_array_ec (fun p => [(10 # 1) * nth 0 p 0 + nth 1 p 0]%Q) [[true; true]] [2; 3] [1%nat; 0%nat] false 0
  = ([2; 3], [0 # 1; 1 # 1; 2 # 1; 10 # 1; 11 # 1; 12 # 1]%Q)
  /\ ec_axes [[true; true]] 2 [1%nat; 0%nat] 0 = [0%nat; 1%nat].
Proof. vm_compute. split; reflexivity. Qed.

Example C05_nonvacuous :
  let corr := [[true; true; false]; [true; true; false]; [false; false; true]] in
  world_axes corr 3 0 = [1; 2]%nat /\ world_axes corr 3 2 = [0]%nat
  /\ component corr 3 2 = [false; false; true]
  /\ world_indices corr ["pos.lon"; "pos.lat"; "em.wl"]%string 3 [AInt (-1)] = Ok [0; 1]%nat
  /\ world_indices corr ["pos.lon"; "pos.lat"; "em.wl"]%string 3 [AStr "pos"%string] = Err EValue
  /\ objects_for [7; 9; 7] [1; 2]%nat = [9; 7].
Proof. vm_compute. repeat split. Qed.
