(* C16 — rebin propagates uncertainties as the textbook combination of each block.
   Everything is stated in the squared domain (sigma^2 or the variance). *)
From NDV Require Import M_RebinUnc P_RebinUnc M_Rebin P_Rebin P_RebinUncPerm.
From Coq Require Import Permutation.
Open Scope Q_scope.

(* sums and means (and their nan-variants): the pairwise iteration of the code, seeded with the first
   member, equals the root-sum-square of the contributing members (divided by their number for means);
   for blocks of any length >= 1, any mask pattern - first member masked included - and NaNs anywhere *)
Theorem C16_sum_mean : forall op um block, block <> [] -> add_code op um block == add_spec op um block.
Proof. exact add_code_is_textbook. Qed.
Print Assumptions C16_sum_mean.

(* products without a mask: the iteration with astropy's multiply rule gives P^2 * sum (sigma_i/x_i)^2 *)
Theorem C16_prod : forall block, block <> [] -> Forall (fun m => ~ mval m == 0) block ->
  prod_code block == prod_spec block.
Proof. exact prod_code_is_textbook. Qed.
Print Assumptions C16_prod.

(* what a propagation function receives: axis 0 enumerates the block members, rebinned shape behind it
   (shared with C08) *)
Theorem C16_flat : forall (A : Type) shape bins (x : list Z -> A) k j, divides_all shape bins ->
  in_box (zip2z Z.div shape bins) j -> (0 <= k < zprod bins)%Z ->
  exists r, in_box bins r /\ ravel bins r = k /\
            flat_block shape bins x k j = x (zip3z (fun j b r => (j * b + r)%Z) j bins r).
Proof. exact @flat_block_correct. Qed.
Print Assumptions C16_flat.

(* the code seeds its iteration with the first member of a block; the result nevertheless does not depend on the
   order of the members (which one is first, masked or NaN or not): any permutation of the block gives the same value *)
Theorem C16_order_independent : forall op um block block', block <> [] -> Permutation block block' ->
  add_code op um block == add_code op um block'.
Proof. exact add_code_perm. Qed.
Print Assumptions C16_order_independent.

Example C16_nonvacuous :
  Qeq_bool (add_code OMean true [mkMem (Some 1) (1 # 100) true; mkMem (Some 2) (4 # 100) false; mkMem None (9 # 100) false])
           ((13 # 100) / 4) = true
  /\ Qeq_bool (prod_code [mkMem (Some 3) (9 # 100) false; mkMem (Some 4) (1 # 100) false]) ((144 # 1) * ((1 # 100) + (1 # 1600))) = true
  /\ unc_plan UStd (MScalar true) false false = false /\ unc_plan UVar MArray false false = true.
Proof. vm_compute. repeat split. Qed.
