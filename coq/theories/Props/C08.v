(* C08 — rebin computes each output element from exactly its block of inputs *)
From NDV Require Import M_Rebin P_Rebin P_RebinPartition P_RebinOnes.
Open Scope Z_scope.

(* reading the array through the reshape to (m0,b0,m1,b1,...) and reducing over the odd axes visits,
   for output element j, exactly the inputs at j*b + r, r in the bin box: any dimensionality, any
   (non-square) bin shape dividing the array shape *)
Theorem C08_block : forall (A : Type) shape bins (x : list Z -> A) j, divides_all shape bins ->
  in_box (zip2z Z.div shape bins) j -> rebin_block shape bins x j = block_spec bins x j.
Proof. exact @rebin_block_correct. Qed.
Print Assumptions C08_block.

(* hence every output value is the chosen operation applied to its block, masked inputs excluded unless
   the operation is declared to ignore the mask *)
Theorem C08_values : forall op ignores m shape bins x marr, divides_all shape bins ->
  rebin_values op ignores m shape bins x marr =
  map (fun j => reduce op (use_mask_of m ignores)
                       (block_spec bins (fun idx => (x idx, masked_at m marr idx)) j))
      (box (zip2z Z.div shape bins)).
Proof. exact rebin_values_correct. Qed.
Print Assumptions C08_values.

(* accepted iff lengths match and every bin divides its axis; the new shape is the element-wise
   quotient; all-ones (with no change of unit) returns the cube itself; wrong lengths are refused first *)
Theorem C08_plan : forall su shape bins, Forall (fun b => 0 < b) bins -> Forall (fun s => 0 <= s) shape ->
  match rebin_plan_u su shape bins with
  | Ok PSelf => Forall (fun b => b = 1) bins /\ su = true /\ length bins = length shape
  | Ok (PBins ns bs) => bs = bins /\ divides_all shape bins /\ zip2z Z.mul ns bins = shape
  | Err _ => length bins <> length shape \/ exists s b, In (s, b) (combine shape bins) /\ s mod b <> 0
  end.
Proof. exact rebin_plan_spec. Qed.
Print Assumptions C08_plan.

(* the array handed to an uncertainty-propagation function: axis 0 enumerates the block members
   (row-major position k inside the bin), the rebinned shape is behind it *)
Theorem C08_flat : forall (A : Type) shape bins (x : list Z -> A) k j, divides_all shape bins ->
  in_box (zip2z Z.div shape bins) j -> 0 <= k < zprod bins ->
  exists r, in_box bins r /\ ravel bins r = k /\
            flat_block shape bins x k j = x (zip3z (fun j b r => j * b + r) j bins r).
Proof. exact @flat_block_correct. Qed.
Print Assumptions C08_flat.

(* the blocks partition the input: every input element lies in the block of exactly one output element, at exactly
   one position of it - no input is used twice, none is lost - and the sizes agree *)
Theorem C08_partition : forall shape bins idx, divides_all shape bins -> in_box shape idx ->
  exists j r, in_box (zip2z Z.div shape bins) j /\ in_box bins r /\ blk j bins r = idx /\
    forall j' r', in_box (zip2z Z.div shape bins) j' -> in_box bins r' -> blk j' bins r' = idx -> j' = j /\ r' = r.
Proof. exact block_partition. Qed.
Print Assumptions C08_partition.

Theorem C08_count : forall shape bins, divides_all shape bins ->
  zprod (zip2z Z.div shape bins) * zprod bins = zprod shape.
Proof. exact block_count. Qed.
Print Assumptions C08_count.

(* an all-ones bin shape that goes through the reduction (a new unit was asked for): same shape, and every block is
   the single input at the output's own position - the values are the source's *)
Theorem C08_ones : forall (A : Type) shape (x : list Z -> A) j, Forall (fun s => 0 <= s) shape -> in_box shape j ->
  zip2z Z.div shape (ones (length shape)) = shape /\ rebin_block shape (ones (length shape)) x j = [x j].
Proof. exact @rebin_block_ones. Qed.
Print Assumptions C08_ones.

Example C08_nonvacuous :
  rebin_plan [4; 6] [2; 3] = Ok (PBins [2; 2] [2; 3])
  /\ rebin_block [4; 6] [2; 3] (fun idx => idx) [1; 0] = [[2;0]; [2;1]; [2;2]; [3;0]; [3;1]; [3;2]]
  /\ map rint [(5 # 2)%Q; (7 # 2)%Q; (23 # 10)%Q] = [2; 4; 2].
Proof. vm_compute. repeat split. Qed.
