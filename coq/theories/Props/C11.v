(* C11 — sequence slicing and exploding equal doing it to the list and to every cube *)
From NDV Require Import M_Sequence P_IndexAsCube P_Sequence.

(* a slice on the sequence axis selects cubes exactly as python list slicing (slice_positions is the
   validated model of CPython's slice.indices/range) and applies the rest to every selected cube
   exactly as cube slicing (M_Slicing.cube_getitem, subject of C01) *)
Theorem C11_tuple_slice : forall s a b st rest, filter is_ellipsis (ISlice a b st :: rest) = [] ->
  seq_getitem s (STuple (ISlice a b st :: rest)) =
    match slice_positions (zlen (cubes s)) a b st with
    | Some ks => bind (mapr (fun c => cube_slice c rest) (select (cubes s) ks))
                      (fun cs => Ok (RS (mkSeq cs (new_common (common s) rest))))
    | None => Err EValue
    end.
Proof. exact getitem_tuple_slice. Qed.
Print Assumptions C11_tuple_slice.

(* an integer on the sequence axis returns the (sliced) cube itself; out of range is IndexError *)
Theorem C11_tuple_int : forall s i rest, filter is_ellipsis (IInt i :: rest) = [] ->
  seq_getitem s (STuple (IInt i :: rest)) =
    match norm_int (zlen (cubes s)) i with
    | Some k => bind (cube_slice (znth k (cubes s) (0, [])) rest) (fun c => Ok (RC c))
    | None => Err EIndex
    end.
Proof. exact getitem_tuple_int. Qed.
Print Assumptions C11_tuple_int.

(* an Ellipsis is replaced by whole-axis slices so that the item has one entry per axis
   (sequence axis + cube axes) before anything is counted *)
Theorem C11_ellipsis_expanded : forall nd its its', length (filter is_ellipsis its) = 1%nat ->
  seq_expand nd its = Ok its' -> length its' = S nd /\ filter is_ellipsis its' = [].
Proof. exact seq_expand_length. Qed.
Print Assumptions C11_ellipsis_expanded.

(* the new common axis: unset if the common axis itself is integer-indexed, otherwise its rank among
   the surviving cube axes (the old one lowered by the number of axes dropped in front of it) *)
Theorem C11_common_axis : forall a rest nd, (a < nd)%nat -> (length rest <= nd)%nat ->
  let rest' := rest ++ repeat full_slice (nd - length rest) in
  new_common (Some a) rest =
    if is_int (nth a rest' full_slice) then None else Some (Z.to_nat (rank_kept rest' a)).
Proof. exact new_common_spec. Qed.
Print Assumptions C11_common_axis.

(* exploding a sequence along axis a: the m-th returned cube is hyperplane j of cube k where (k, j)
   is the position of m in the concatenation of the cubes' own lengths along a (ragged lengths
   included), for any number of cubes; and there are exactly sum(lengths) of them *)
Theorem C11_explode_entries : forall a (cs : list cube) m k j,
  Forall (fun c => 0 <= ax_len a c) cs ->
  locate (map (ax_len a) cs) m = Some (k, j) -> 0 <= m ->
  znth m (flat_map (explode_cube a) cs) (0, 0, []) =
    (fst (nth k cs (0, [])), j, remove_nth a (snd (nth k cs (0, [])))).
Proof. exact explode_locate. Qed.
Print Assumptions C11_explode_entries.

Theorem C11_explode_count : forall a (cs : list cube), Forall (fun c => 0 <= ax_len a c) cs ->
  zlen (flat_map (explode_cube a) cs) = zsum (map (ax_len a) cs).
Proof. exact explode_count. Qed.
Print Assumptions C11_explode_count.

Theorem C11_explode_common_axis : forall s axis l nc, seq_explode s axis = Ok (l, nc) ->
  let a := Z.to_nat (norm_axis (seq_ndim s) axis) in
  l = flat_map (explode_cube a) (cubes s) /\
  nc = match common s with
       | None => None
       | Some c => if Nat.eqb c a then None else if Nat.ltb a c then Some (c - 1)%nat else Some c
       end.
Proof. exact explode_common_axis. Qed.
Print Assumptions C11_explode_common_axis.

(* cube_like_shape describes the cubes held: the common-axis entry is the sum of the cubes' lengths *)
Theorem C11_cube_like_shape : forall s a c cs sh, common s = Some a -> cubes s = c :: cs ->
  (a < length (snd c))%nat -> cube_like_shape s = Ok sh ->
  nth a sh 0 = zsum (map (ax_len a) (cubes s)) /\ forall m, m <> a -> nth m sh 0 = nth m (snd c) 0.
Proof. exact cube_like_shape_spec. Qed.
Print Assumptions C11_cube_like_shape.

Example C11_nonvacuous :
  seq_getitem (mkSeq [(0, [2; 3; 4]); (1, [2; 5; 4]); (2, [2; 1; 4])] (Some 1%nat))
              (STuple [ISlice (Some 1) None None; IInt (-1); IEllipsis])
  = Ok (RS (mkSeq [(1, [5; 4]); (2, [1; 4])] (Some 0%nat)))
  /\ seq_getitem (mkSeq [(0, [2; 3; 4]); (1, [2; 5; 4])] (Some 2%nat))
              (STuple [ISlice None None None; IEllipsis; IInt 0])
  = Ok (RS (mkSeq [(0, [2; 3]); (1, [2; 5])] None)).
Proof. vm_compute. split; reflexivity. Qed.
