(* C07 — deriving a new object never changes the one it was derived from *)
From NDV Require Import M_Store P_Store P_StoreShare.
Open Scope nat_scope.

(* one operation: every observable of every object that existed before it is unchanged *)
Theorem C07_step : forall sg k c st j, wf st -> j < length (objs st) -> observe j (derive sg k c st) = observe j st.
Proof. exact derive_preserves. Qed.
Print Assumptions C07_step.

(* any history of operations and read-only queries, of ANY length, applied to any of the objects made so far *)
Theorem C07_history : forall steps st j, wf st -> j < length (objs st) ->
  observe j (run steps st) = observe j st /\ wf (run steps st) /\ length (objs st) <= length (objs (run steps st)) /\
  nth j (objs (run steps st)) [] = nth j (objs st) [].
Proof. exact history_preserves. Qed.
Print Assumptions C07_history.

(* writing into a field that the operation built afresh never reaches an object that existed before, whatever happened
   in between; for arithmetic the data is such a field *)
Theorem C07_write : forall sg k c st steps f v j, wf st -> NoDup (map fst sg) -> mode_of sg f = Some Fresh ->
  j < length (objs st) ->
  observe j (write (length (objs st)) f v (run steps (derive sg k c st))) = observe j st.
Proof. exact fresh_write_safe. Qed.
Print Assumptions C07_write.
Theorem C07_table_wellformed : forall k, NoDup (map fst (sig_of k)).
Proof. exact sig_nodup. Qed.
Print Assumptions C07_table_wellformed.
Theorem C07_arithmetic_data_fresh : mode_of (sig_of KArith) FData = Some Fresh.
Proof. exact arith_data_fresh. Qed.
Print Assumptions C07_arithmetic_data_fresh.

(* the converse, which is why the sharing table is measured against the implementation: a field marked Share refers,
   in the derived object, to the very cell of its source (a slice's data is a view, its meta the same dict) *)
Theorem C07_shared_cell : forall sg k c st f l, NoDup (map fst sg) -> mode_of sg f = Some Share ->
  get_loc (nth k (objs st) []) f = Some l ->
  get_loc (nth (length (objs st)) (objs (derive sg k c st)) []) f = Some l.
Proof. exact shared_field_same_cell. Qed.
Print Assumptions C07_shared_cell.

Example C07_nonvacuous :
  let st0 := mkS [10; 20; 30]%Z [[(FData, 0); (FMeta, 1); (FGlobal, 2)]] in
  let st1 := derive (sig_of KSlice) 0 [7; 8; 9; 1; 2]%Z st0 in
  let st2 := derive (sig_of KArith) 1 [] st1 in
  observe 0 (write 2 FData 99%Z st2) = observe 0 st0            (* arithmetic result: writing its data is harmless *)
  /\ observe 0 (write 1 FData 99%Z st2) <> observe 0 st0        (* a slice is a view: writing it does reach the source *)
  /\ length (objs st2) = 3.
Proof. vm_compute. repeat split. discriminate. Qed.
