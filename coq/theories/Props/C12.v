(* C12 — index_as_cube behaves like indexing the concatenation along the common axis.
   Property-level statements only; each is closed by [exact] of a lemma proved in Proof/.
   Each cube is represented by the list of its hyperplanes along the common axis (element type A
   arbitrary), so [concat cubes] is the concatenated array seen along that axis. *)
From NDV Require Import M_IndexAsCube P_IndexAsCube P_IacIntSlice.

(* integer on the common axis: negative indices count from the end of the concatenation, positions
   past either end raise IndexError, otherwise exactly the element numpy would return, as one cube *)
Theorem C12_int : forall (A : Type) (d : A) (cubes : list (list A)) (i : Z),
  match norm_int (zlen (concat cubes)) i with
  | Some i' => exists k j, iac_common (map zlen cubes) (IInt i) = Ok (RCube k j) /\
                           (k < length cubes)%nat /\ 0 <= j < zlen (nth k cubes []) /\
                           znth j (nth k cubes []) d = znth i' (concat cubes) d
  | None => iac_common (map zlen cubes) (IInt i) = Err EIndex
  end.
Proof. exact @iac_int_correct. Qed.
Print Assumptions C12_int.

(* slice on the common axis, any bounds (open, negative, over-long), any number of cubes of any
   positive lengths: the pieces concatenate to numpy's slice of the concatenation; every piece is a
   non-empty range inside its source cube; source cubes appear in strictly increasing order *)
Theorem C12_slice : forall (A : Type) (cubes : list (list A)) (a b st : option Z),
  Forall (fun c => c <> []) cubes -> step_ok st = true ->
  exists ps, iac_common (map zlen cubes) (ISlice a b st) = Ok (RSeq ps) /\
             concat (map (extract cubes) ps) = np_slice (concat cubes) a b /\
             Forall (piece_ok (map zlen cubes)) ps /\ increasing_from O ps.
Proof. exact @iac_slice_correct. Qed.
Print Assumptions C12_slice.

(* steps other than 1 are refused, not ignored *)
Theorem C12_step_refused : forall lens a b st, step_ok st = false ->
  exists e, iac_common lens (ISlice a b st) = Err e.
Proof. exact iac_step_refused. Qed.
Print Assumptions C12_step_refused.

(* the common axis of a returned sequence is lowered by the number of integer-indexed axes in front
   of it, i.e. it is the rank of the old common axis among the axes that survive *)
Theorem C12_new_common_axis : forall ca its, (ca <= length its)%nat ->
  iac_new_common ca its = zlen (filter (fun x => negb (is_int x)) (firstn ca its)).
Proof. exact iac_new_common_rank. Qed.
Print Assumptions C12_new_common_axis.

(* an integer and the one-element slice at the same position agree: [i] is the cube (k, j) exactly where [i:i+1] is
   the sequence holding the single piece (k, j, 1) *)
Theorem C12_int_slice_agree : forall lens i, allpos lens -> 0 <= i < zsum lens ->
  exists k j, iac_common lens (IInt i) = Ok (RCube k j) /\
              iac_common lens (ISlice (Some i) (Some (i + 1)) None) = Ok (RSeq [(k, j, 1)]) /\
              0 <= j < nth k lens 0 /\ (k < length lens)%nat.
Proof. exact iac_int_slice. Qed.
Print Assumptions C12_int_slice_agree.

(* non-vacuity: three cubes of lengths 2,3,2; [-3:] yields the tail of cube 1 and all of cube 2 *)
Example C12_nonvacuous :
  iac_common [2; 3; 2] (ISlice (Some (-3)) None None) = Ok (RSeq [(1%nat, 2, 1); (2%nat, 0, 2)])
  /\ iac_common [2; 3; 2] (IInt (-1)) = Ok (RCube 2 1)
  /\ iac_common [2; 3; 2] (IInt 7) = Err EIndex
  /\ iac_common [2; 3; 2] (ISlice (Some 2) (Some 2) None) = Ok (RSeq []).
Proof. vm_compute. repeat split. Qed.
