(* C06 — combined_wcs and array_axis_physical_types truthfully describe the cube.
   combined_wcs = CompoundLowLevelWCS(primary, extra_coords.wcs, mapping = range(n) ++ extra_coords.mapping) *)
From NDV Require Import M_Wrappers P_Wrappers P_Combined.
Open Scope Q_scope.

(* one pixel axis per array axis; world outputs are the primary's followed by the extra coordinates', each
   equal to what the separate description gives at the same array element (for ANY two member WCS) *)
Theorem C06_outputs : forall W1 W2 ecmap p, length p = npix W1 -> length ecmap = npix W2 ->
  compound_p2w [W1; W2] (seq 0 (npix W1) ++ ecmap) p = p2w W1 p ++ p2w W2 (permute 0 ecmap p).
Proof. exact combined_p2w. Qed.
Print Assumptions C06_outputs.

(* converting the world values back returns the element's pixel position (on and between grid points: p is
   any rational vector), given that both members round-trip *)
Theorem C06_roundtrip : forall W1 W2 ecmap atol p, all_rt [W1; W2] -> length ecmap = npix W2 ->
  length p = npix W1 -> (0 < npix W1)%nat -> Forall (fun m => (m < npix W1)%nat) ecmap -> 0 <= atol ->
  exists p', compound_w2p [W1; W2] (seq 0 (npix W1) ++ ecmap) atol
                          (compound_p2w [W1; W2] (seq 0 (npix W1) ++ ecmap) p) = Ok p' /\ veq p' p.
Proof. exact combined_roundtrip. Qed.
Print Assumptions C06_roundtrip.

(* the correlation matrix marks (world w, pixel p) exactly when some member slot mapped to p is marked for w
   in that member's own matrix: nothing is lost and nothing invented by the combination *)
Theorem C06_matrix : forall ws mapping w p, (w < length (full_rows ws))%nat -> (p < n_inputs mapping)%nat ->
  nth p (nth w (compound_corr ws mapping) []) false =
  existsb (fun i => Nat.eqb (nth i mapping O) p && nth i (nth w (full_rows ws) []) false) (seq 0 (length mapping)).
Proof. exact compound_corr_entry. Qed.
Print Assumptions C06_matrix.

(* array_axis_physical_types lists, for each array axis in array order, the physical types of exactly the
   world axes whose matrix entry for that axis is set, in world order *)
Theorem C06_types : forall corr types n a, (a < n)%nat ->
  nth a (array_axis_types corr types n) [] =
  map (fun w => nth w types 0%Z) (filter (fun w => nth (n - 1 - a) (nth w corr []) false) (seq 0 (length corr))).
Proof. exact array_axis_types_spec. Qed.
Print Assumptions C06_types.

Example C06_nonvacuous :
  array_axis_types [[true; false]; [true; true]; [false; true]] [10; 11; 12]%Z 2 = [[11; 12]; [10; 11]]%Z
  /\ compound_corr [lin_wcs [[1; 0]; [1; 1]] [[1; 0]; [-(1); 1]] [0; 0] [0; 1]%Z [0; 1]%Z None None;
                    lin_wcs [[2]] [[1 # 2]] [5] [7]%Z [7]%Z None None] [0; 1; 0]%nat
     = [[true; false]; [true; true]; [true; false]].
Proof. vm_compute. split; reflexivity. Qed.
