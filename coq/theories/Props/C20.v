(* C20 — reprojection regrids values onto the target WCS and refuses ill-posed requests *)
From NDV Require Import M_Reproject P_Reproject.
Open Scope Z_scope.

(* a request is accepted exactly when the algorithm is known, the adaptive / exact algorithms get a 2-D celestial
   target, the physical types agree in order, and an output shape is available; the output shape is the requested one,
   otherwise the target's own array shape *)
Theorem C20_decision : forall src_types a t shape_out s, decide src_types a t shape_out = Ok s <->
  a <> AUnknown /\
  (needs_celestial a = true -> t_pix t = 2%nat /\ t_world t = 2%nat /\ t_celestial t = true) /\
  src_types = t_types t /\
  (match shape_out with Some (x :: r) => s = x :: r | _ => t_shape t = Some s end).
Proof. exact decide_ok. Qed.
Print Assumptions C20_decision.

(* target = source grid shifted by whole pixels: every target element holds the source's value at the coinciding
   element and nothing where the source has none; the footprint is 1 / 0 accordingly (any shapes, any shift) *)
Theorem C20_value : forall src_shape out_shape shift data t, in_box out_shape t ->
  nth (Z.to_nat (ravel out_shape t)) (regrid_shift src_shape out_shape shift data) None
  = (if in_boxb src_shape (zip2z Z.add t shift)
     then Some (nth (Z.to_nat (ravel src_shape (zip2z Z.add t shift))) data 0%Q) else None).
Proof. exact regrid_shift_value. Qed.
Print Assumptions C20_value.
Theorem C20_footprint : forall src_shape out_shape shift data t, in_box out_shape t ->
  nth (Z.to_nat (ravel out_shape t)) (footprint (regrid_shift src_shape out_shape shift data)) 0
  = if in_boxb src_shape (zip2z Z.add t shift) then 1 else 0.
Proof. exact footprint_value. Qed.
Print Assumptions C20_footprint.

(* the coinciding element is the one at the same world position, and the only one *)
Theorem C20_same_world : forall crval cdelt crpix s p,
  (lin_world crval cdelt (crpix - s) p == lin_world crval cdelt crpix (p + s))%Q.
Proof. exact same_world_position. Qed.
Print Assumptions C20_same_world.
Theorem C20_same_world_unique : forall crval cdelt crpix s p q, ~ (cdelt == 0)%Q ->
  (lin_world crval cdelt (crpix - s) p == lin_world crval cdelt crpix q)%Q -> (q == p + s)%Q.
Proof. exact coinciding_unique. Qed.
Print Assumptions C20_same_world_unique.

(* identical target: the source values *)
Theorem C20_identity : forall shape data t, in_box shape t ->
  nth (Z.to_nat (ravel shape t)) (regrid_shift shape shape (repeat 0 (length shape)) data) None
  = Some (nth (Z.to_nat (ravel shape t)) data 0%Q).
Proof. exact regrid_identity. Qed.
Print Assumptions C20_identity.

Example C20_nonvacuous :
  regrid_shift [2; 3] [2; 3] [0; 1] [1; 2; 3; 4; 5; 6]%Q = [Some 2; Some 3; None; Some 5; Some 6; None]%Q
  /\ decide ["a"; "b"]%string AInterp (mkT 2 2 false ["a"; "b"]%string (Some [2; 3])) None = Ok [2; 3]
  /\ decide ["a"; "b"]%string AExact (mkT 2 2 false ["a"; "b"]%string (Some [2; 3])) None = Err EValue
  /\ decide ["a"; "b"]%string AInterp (mkT 2 2 false ["b"; "a"]%string (Some [2; 3])) (Some [4; 4]) = Err EValue.
Proof. vm_compute. repeat split. Qed.
