(* C17 — sequence coordinate views line up with the cubes they summarise *)
From NDV Require Import M_SeqCoords P_SeqCoords.
Open Scope Z_scope.

(* Setting for all theorems on common_axis_coords: every cube of the sequence has the same coordinate structure
   (corr, comps), the components of one coordinate object depend on the same pixel axes (same_dep: a SkyCoord's
   lon/lat, a coupled pair), and the common axis ca is a cube axis. *)

(* one entry per coordinate object with a component on the common axis (first-occurrence order), each the
   concatenation, in cube order, of that object's slices along the common axis - for ANY number of cubes *)
Theorem C17_structure : forall corr comps n ca,
  (forall w w', comp_of comps w = comp_of comps w' -> nth w corr [] = nth w' corr []) -> (ca < n)%nat ->
  forall cubes : list ((list Q -> list Q) * list Z), cubes <> [] ->
  seq_common corr comps n (Z.of_nat ca) cubes
  = Ok (map (fun w => concat (map (pieces_of corr comps n ca w) cubes)) (reps corr comps n ca)).
Proof. exact seq_common_spec. Qed.
Print Assumptions C17_structure.

(* exactly as many entries as the cube-like length of the common axis (ragged lengths included) *)
Theorem C17_length : forall corr comps n ca,
  (forall w w', comp_of comps w = comp_of comps w' -> nth w corr [] = nth w' corr []) -> (ca < n)%nat ->
  forall (cubes : list ((list Q -> list Q) * list Z)) w,
  Forall (fun c => length (snd c) = n /\ 0 <= nth ca (snd c) 0) cubes -> In w (reps corr comps n ca) ->
  zlen (concat (map (pieces_of corr comps n ca w) cubes)) = zsum (common_lens ca cubes).
Proof. exact common_coord_length. Qed.
Print Assumptions C17_length.

(* the k-th entry is the coordinate of cube j at position i of its common axis, where (j, i) is where position k
   of the concatenated axis lies (cube order, then position within the cube: locate is C12's index arithmetic) *)
Theorem C17_kth : forall corr comps n ca,
  (forall w w', comp_of comps w = comp_of comps w' -> nth w corr [] = nth w' corr []) -> (ca < n)%nat ->
  forall (cubes : list ((list Q -> list Q) * list Z)) w k j i,
  Forall (fun c => length (snd c) = n /\ 0 <= nth ca (snd c) 0) cubes -> In w (reps corr comps n ca) ->
  0 <= k < zsum (common_lens ca cubes) -> locate (common_lens ca cubes) k = Some (j, i) ->
  exists c, nth_error cubes j = Some c /\ 0 <= i < nth ca (snd c) 0 /\
  nth (Z.to_nat k) (concat (map (pieces_of corr comps n ca w) cubes)) []
  = map (take_at (ax_of corr n ca w) i) (coord_of corr comps w c).
Proof. exact common_coord_kth. Qed.
Print Assumptions C17_kth.

(* ... and such a slice holds, at every entry e, the WCS value at the pixel whose common-axis coordinate is i
   (whichever dimension of the coordinate array the common axis is) *)
Theorem C17_entry : forall W corr shape w ca ax i e,
  index_of ca (world_axes corr (length shape) w) = Some ax -> 0 <= i < nth ca shape 0 ->
  in_box (remove_at ax (world_shape corr shape false w)) e ->
  nth (Z.to_nat (ravel (remove_at ax (world_shape corr shape false w)) e))
      (snd (take_at ax i (world_array W corr shape false w))) 0%Q
  = nth w (W (code_pixel corr (length shape) false w (insert_at ax i e))) 0%Q
  /\ lookup (world_axes corr (length shape) w) (insert_at ax i e) ca = i.
Proof. exact slice_entry. Qed.
Print Assumptions C17_entry.

(* sequence_axis_coords: exactly the names present on every cube, each with its per-cube values in sequence order *)
Theorem C17_sequence_axis_sound : forall (V : Type) (cubes : list (@gc V)) name vals,
  In (name, vals) (seq_axis_coords cubes) ->
  vals = map (fun g => gc_get g name) cubes /\ forall g, In g cubes -> gc_has g name = true.
Proof. exact @seq_axis_coords_sound. Qed.
Print Assumptions C17_sequence_axis_sound.

Theorem C17_sequence_axis_complete : forall (V : Type) (g0 : @gc V) gs name,
  (forall g, In g (g0 :: gs) -> gc_has g name = true) -> In name (map fst g0) ->
  In (name, map (fun g => gc_get g name) (g0 :: gs)) (seq_axis_coords (g0 :: gs)).
Proof. exact @seq_axis_coords_complete. Qed.
Print Assumptions C17_sequence_axis_complete.

(* non-vacuity: two ragged cubes (common axis 1 of lengths 2 and 1), one coordinate depending on both axes *)
Example C17_nonvacuous :
  let W0 := fun p : list Q => [(nth 0 p 0 + 10 * nth 1 p 0)%Q] in
  let W1 := fun p : list Q => [(nth 0 p 0 + 10 * nth 1 p 0 + 100)%Q] in
  match seq_common [[true; true]] [0] 2 1 [(W0, [2; 2]); (W1, [2; 1])] with
  | Ok [[ [([2], [a; b])]; [([2], [c; d])]; [([2], [e; f])] ]] =>
      (Qeq_bool a 0 && Qeq_bool b 10 && Qeq_bool c 1 && Qeq_bool d 11 && Qeq_bool e 100 && Qeq_bool f 110)%bool = true
  | _ => False
  end.
Proof. vm_compute. reflexivity. Qed.
