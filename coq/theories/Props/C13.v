(* C13 — NDCollection keeps its aligned-axis bookkeeping true under every edit *)
From NDV Require Import M_Collection P_Collection P_CollectionInv.

(* numeric slicing renumbers every member's aligned axes exactly as "the same physical axes,
   renumbered for the ones dropped": survivors in order, each lowered by the number of dropped member
   axes below it -- for ANY number of aligned axes, any ascending set of dropped aligned indices, any
   per-member order of (distinct) axes.  upd_axes is the transcription of the loop in
   _update_aligned_axes for one member (index array copied per member). *)
Theorem C13_renumber : forall drops axes, ascending drops ->
  Forall (fun d => 0 <= d < zlen axes) drops -> NoDup axes ->
  upd_axes axes drops = renumber_spec axes drops.
Proof. exact upd_axes_spec. Qed.
Print Assumptions C13_renumber.

(* the dropped aligned indices the slicer builds from an item are ascending and in range, i.e. the
   hypotheses of C13_renumber are met by every item *)
Theorem C13_drops_wellformed : forall its i,
  ascending (int_positions i its) /\ Forall (fun d => i <= d < i + zlen its) (int_positions i its).
Proof. exact int_positions_props. Qed.
Print Assumptions C13_drops_wellformed.

(* ---- the invariant and its preservation (P_CollectionInv.v) ------------------------------------------------------- *)
(* Inv: keys are distinct; with aligned axes every member's aligned axes are distinct axes that exist on that member
   and the i-th aligned axes of all members have the same length; without, no member lists any.  It is the
   proposition the boolean inv (evaluated by the correspondence check on every reached state) decides. *)
Theorem C13_inv_reflects : forall c, inv c = true <-> Inv c.
Proof. exact inv_spec. Qed.
Print Assumptions C13_inv_reflects.

(* one member under a numeric slice: the renumbered aligned axes are distinct axes of the SLICED member, and the
   lengths along them are a function of the old aligned lengths and the items only (hence equal across members) *)
Theorem C13_member_slice : forall m its sh', MemberOk m -> no_special its -> (length its <= length (mal m))%nat ->
  sliced_shape (mshape m) (member_item m its) = Ok sh' ->
  let drops := int_positions 0 its in
  forall is_sequence, let m' := mkM (mkey m) sh' (renumber_spec (mal m) drops) is_sequence in
  MemberOk m' /\
  aligned_lens m' = map (fun j => the_len (znth j (aligned_lens m) 0) (nth (Z.to_nat j) its full_slice))
                        (remove_positions 0 drops (iotaZ (length (mal m)))).
Proof. exact member_slice. Qed.
Print Assumptions C13_member_slice.

(* one member, cube or NDCubeSequence (axis 0 = the sequence axis), under its slice item: key and aligned-axes entry are
   kept, the shape is the sliced shape, an integer on the sequence axis turns a sequence into a cube, and what is
   left always has at least one cube dimension (0-d cubes do not exist: such a request is refused) *)
Theorem C13_slice_member : forall m its m', slice_member m its = Ok m' ->
  exists sh, sliced_shape (mshape m) (member_item m its) = Ok sh /\
    mkey m' = mkey m /\ mshape m' = sh /\ mal m' = mal m /\
    mseq m' = (mseq m && negb (match member_item m its with it :: _ => is_int it | [] => false end))%bool /\
    (if mseq m' then tl sh else sh) <> [].
Proof. exact slice_member_spec. Qed.
Print Assumptions C13_slice_member.

(* every supported edit - numeric slicing, selection by distinct keys, pop / del, update with a consistent set of
   members, copy - keeps the invariant, and a refused edit leaves the collection as it was *)
Theorem C13_edit : forall c e, Inv c -> edit_ok e -> Inv (step_edit c e).
Proof. exact edit_preserves. Qed.
Print Assumptions C13_edit.

(* ... hence after ANY sequence of supported edits, of any length *)
Theorem C13_history : forall es c, Inv c -> Forall edit_ok es -> Inv (fold_left step_edit es c).
Proof. exact history_preserves. Qed.
Print Assumptions C13_history.

(* non-vacuity, and the witness on which the pinned tree (shared, mutated index array) went wrong:
   members with aligned axes (0,1,2) and (0,1,3), aligned indices 0 and 2 dropped -> both (0,) *)
Example C13_nonvacuous :
  update_aligned_axes [0; 2] [mkM 0 [2;3;4;5] [0;1;2] false; mkM 1 [2;3;9;4] [0;1;3] true] = Some [[0]; [0]]
  /\ renumber_spec [0;1;3] [0;2] = [0]
  /\ upd_axes [3;0;2] [1] = [2;1]
  /\ (let c0 := mkColl [mkM 0 [2;3;4;5] [0;1;2] false; mkM 1 [2;3;9;4] [0;1;3] true] true in
      inv c0 && inv (fold_left step_edit [ESlice [IInt 1; ISlice None (Some 2) None]; ERemove 0; ECopy] c0))%bool = true.
Proof. vm_compute. repeat split. Qed.
