(* C13 — NDCollection keeps its aligned-axis bookkeeping true under every edit *)
From NDV Require Import M_Collection P_Collection.

(* numeric slicing renumbers every member's aligned axes exactly as "the same physical axes,
   renumbered for the ones dropped": survivors in order, each lowered by the number of dropped member
   axes below it -- for ANY number of aligned axes, any ascending set of dropped aligned indices, any
   per-member order of (distinct) axes.  upd_axes is the transcription of the loop in
   _update_aligned_axes for one member (index array copied per member). *)
Theorem C13_renumber : forall drops axes, ascending drops ->
  Forall (fun d => 0 <= d < zlen axes) drops -> NoDup axes ->
  upd_axes axes drops = renumber_spec axes drops.
Proof. exact upd_axes_spec. Qed.
Print Assumptions C13_renumber.

(* the dropped aligned indices the slicer builds from an item are ascending and in range, i.e. the
   hypotheses of C13_renumber are met by every item *)
Theorem C13_drops_wellformed : forall its i,
  ascending (int_positions i its) /\ Forall (fun d => i <= d < i + zlen its) (int_positions i its).
Proof. exact int_positions_props. Qed.
Print Assumptions C13_drops_wellformed.

(* non-vacuity, and the witness on which the pinned tree (shared, mutated index array) went wrong:
   members with aligned axes (0,1,2) and (0,1,3), aligned indices 0 and 2 dropped -> both (0,) *)
Example C13_nonvacuous :
  update_aligned_axes [0; 2] [mkM 0 [2;3;4;5] [0;1;2]; mkM 1 [2;3;9;4] [0;1;3]] = Some [[0]; [0]]
  /\ renumber_spec [0;1;3] [0;2] = [0]
  /\ upd_axes [3;0;2] [1] = [2;1].
Proof. vm_compute. repeat split. Qed.
