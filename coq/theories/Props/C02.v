(* C02 — slicing keeps extra coordinates on the right elements, in the same order *)
From NDV Require Import M_ExtraCoords P_ExtraCoords.
Open Scope Z_scope.

(* the extra coordinates that remain are the parent's whose axes were not all indexed away, in the
   parent's relative order (the transcription uses lists: no dependence on object addresses) *)
Theorem C02_order : forall items e e', ec_getitem items e = Ok e' ->
  map tid (tables e') = map tid (filter (survives items) (tables e)).
Proof. exact ec_getitem_order. Qed.
Print Assumptions C02_order.

(* a surviving axis is renumbered to its rank among the surviving cube axes *)
Theorem C02_renumber : forall items ax, 0 <= ax -> (Z.to_nat ax < length items)%nat ->
  is_int (item_at items ax) = false -> ax - n_dropped items ax = rank_kept items (Z.to_nat ax).
Proof. exact renumber_is_rank. Qed.
Print Assumptions C02_renumber.

(* values: element k of a sliced table is the parent's entry at the source element of k (numpy
   selection through row-major flat indices), for any dimensionality of the table *)
Theorem C02_values : forall (A : Type) (d : A) lens sels vals k, in_box (sels_shape sels) k ->
  nth (Z.to_nat (ravel (sels_shape sels) k)) (select_box d lens sels vals) d
  = nth (Z.to_nat (ravel lens (src_index sels k))) vals d.
Proof. exact @select_box_value. Qed.
Print Assumptions C02_values.

(* box enumerates index vectors in row-major order (used by C02_values) *)
Theorem C02_box_order : forall shape k, in_box shape k -> nth (Z.to_nat (ravel shape k)) (box shape) [] = k.
Proof. exact box_nth_ravel. Qed.
Print Assumptions C02_box_order.

Example C02_nonvacuous :
  match ec_getitem [IInt 1; ISlice None None None; ISlice (Some 2) (Some 4) None]
         (mkEc [mkT 7 KSep [0; 2] [3; 5] [70; 71] [[0; 1; 2]%Q; [0; 10; 20; 30; 40]%Q];
                mkT 8 KJoint [1] [4] [80] [[5; 6; 7; 8]%Q]] []) with
  | Ok e' => map tid (tables e') = [7; 8] /\ map taxes (tables e') = [[1]; [0]] /\ map tnames (tables e') = [[71]; [80]]
  | Err _ => False
  end.
Proof. vm_compute. repeat split. Qed.
