(* C14 — WCS wrappers are exact, invertible re-parameterisations.  The inner WCS is an arbitrary record of
   functions on rational vectors; "roundtrips" / "wellformed" are the assumed laws of the inner WCS. *)
From NDV Require Import M_Wrappers P_Wrappers P_ResampleCompose.
Open Scope Q_scope.

(* resampling wrapper: pixel p is sent to the inner WCS's value at p*factor+offset; attributes unchanged *)
Theorem C14_resampled_exact : forall W f o W', resampled W f o = Ok W' ->
  (forall p, p2w W' p = p2w W (scale f o p)) /\ npix W' = npix W /\ nworld W' = nworld W /\
  wtypes W' = wtypes W /\ corr W' = corr W.
Proof. exact resampled_exact. Qed.
Print Assumptions C14_resampled_exact.

Theorem C14_resampled_roundtrip : forall W f o W', resampled W f o = Ok W' -> roundtrips W ->
  Forall (fun x => ~ x == 0) f -> roundtrips W'.
Proof. exact resampled_roundtrip. Qed.
Print Assumptions C14_resampled_roundtrip.

Theorem C14_resampled_shape : forall W f o W' s, resampled W f o = Ok W' -> pshape W = Some s ->
  length s = length f -> Forall (fun x => ~ x == 0) f ->
  exists s', pshape W' = Some s' /\ veq (zip2 Qmult s' f) s.
Proof. exact resampled_shape. Qed.
Print Assumptions C14_resampled_shape.

Theorem C14_resampled_refuses : forall W f o,
  length f <> npix W \/ length o <> npix W -> resampled W f o = Err EValue.
Proof. exact resampled_refuses_wrong_length. Qed.
Print Assumptions C14_resampled_refuses.

(* reordering wrapper: conjugation by the two permutations, every per-axis attribute transported by
   the same permutation; for ALL permutations (argsort of a permutation is its inverse) *)
Theorem C14_reordered_conjugation : forall W po wo W', reordered W po wo = Ok W' ->
  (forall ps, p2w W' ps = permute 0 wo (p2w W (permute 0 (inv_perm po) ps))) /\
  wtypes W' = permute 0%Z wo (wtypes W) /\ ptypes W' = permute 0%Z po (ptypes W) /\
  corr W' = map (fun row => permute false po row) (permute [] wo (corr W)) /\
  pshape W' = option_map (permute 0 po) (pshape W) /\
  pbounds W' = option_map (permute (0, 0) po) (pbounds W).
Proof. exact reordered_conjugation. Qed.
Print Assumptions C14_reordered_conjugation.

Theorem C14_perm_inverse : forall (A : Type) (d : A) n order l, is_perm_b n order = true -> length l = n ->
  permute d order (permute d (inv_perm order) l) = l /\ permute d (inv_perm order) (permute d order l) = l.
Proof. intros; split; [eapply permute_permute_inv|eapply permute_inv_permute]; eassumption. Qed.
Print Assumptions C14_perm_inverse.

Theorem C14_reordered_roundtrip : forall W po wo W', reordered W po wo = Ok W' -> wellformed W ->
  roundtrips W -> roundtrips W'.
Proof. exact reordered_roundtrip. Qed.
Print Assumptions C14_reordered_roundtrip.

Theorem C14_reordered_refuses : forall W po wo,
  is_perm_b (npix W) po = false \/ is_perm_b (nworld W) wo = false -> reordered W po wo = Err EValue.
Proof. exact reordered_refuses_non_permutation. Qed.
Print Assumptions C14_reordered_refuses.

(* compound wrapper: each member is evaluated on its mapped pixel axes, worlds are concatenated *)
Theorem C14_compound_routing : forall w r m1 mr ps, length m1 = npix w ->
  compound_p2w (w :: r) (m1 ++ mr) ps = p2w w (permute 0 m1 ps) ++ compound_p2w r mr ps.
Proof. exact compound_p2w_cons. Qed.
Print Assumptions C14_compound_routing.

Theorem C14_compound_roundtrip : forall ws mapping atol ps, all_rt ws -> length mapping = total_npix ws ->
  length ps = n_inputs mapping -> (forall k, (k < n_inputs mapping)%nat -> In k mapping) -> 0 <= atol ->
  exists ps', compound_w2p ws mapping atol (compound_p2w ws mapping ps) = Ok ps' /\ veq ps' ps.
Proof. exact compound_roundtrip. Qed.
Print Assumptions C14_compound_roundtrip.

(* world inputs that imply different positions on a shared pixel axis are refused *)
Theorem C14_compound_refuses_inconsistent : forall ws mapping atol world i j,
  (i < length mapping)%nat -> (j < length mapping)%nat -> nth i mapping O = nth j mapping O ->
  ~ Qabs (nth i (comp_w2p_all ws world) 0 - nth j (comp_w2p_all ws world) 0) <= atol ->
  compound_w2p ws mapping atol world = Err EValue.
Proof. exact compound_w2p_refuses. Qed.
Print Assumptions C14_compound_refuses_inconsistent.

Theorem C14_compound_refuses_mapping_length : forall ws mapping,
  length mapping <> total_npix ws -> compound ws mapping = Err EValue.
Proof. exact compound_refuses_wrong_mapping_length. Qed.
Print Assumptions C14_compound_refuses_mapping_length.

(* non-vacuity: the linear probe WCS satisfies the assumed laws; an asymmetric permutation *)
(* already-wrapped inner WCS: a resampling wrapper over a resampling wrapper evaluates the innermost WCS at the same
   position as ONE resampling wrapper with factor f2*f1 and offset o2*f1+o1 (which is accepted whenever the two are) *)
Theorem C14_resample_compose : forall W f1 o1 f2 o2 W1 W2, resampled W f1 o1 = Ok W1 -> resampled W1 f2 o2 = Ok W2 ->
  exists W12, resampled W (comp_factor f1 f2) (comp_offset f1 o1 o2) = Ok W12 /\
    forall p, length p = npix W ->
      p2w W2 p = p2w W (scale f1 o1 (scale f2 o2 p)) /\
      p2w W12 p = p2w W (scale (comp_factor f1 f2) (comp_offset f1 o1 o2) p) /\
      veq (scale f1 o1 (scale f2 o2 p)) (scale (comp_factor f1 f2) (comp_offset f1 o1 o2) p).
Proof. exact resampled_compose. Qed.
Print Assumptions C14_resample_compose.

Example C14_nonvacuous :
  let W := lin_wcs [[1; 0]; [2; 1]] [[1; 0]; [-2 # 1; 1]] [3; 5] [0; 1]%Z [0; 1]%Z None None in
  list_eqb Qeq_bool (w2p W (p2w W [7; 1 # 2])) [7; 1 # 2] = true /\ inv_perm [1; 2; 0]%nat = [2; 0; 1]%nat /\
  is_perm_b 3 [1; 2; 0]%nat = true /\ is_perm_b 3 [1; 1; 0]%nat = false.
Proof. vm_compute. repeat split. Qed.
