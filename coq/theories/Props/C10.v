(* C10 — arithmetic and unit conversion act on physical values, not on coordinates *)
From NDV Require Import M_Arith P_Arith.
Open Scope Z_scope.

(* sums: after conversion to the cube's unit the physical values add; unit, uncertainty, mask, coordinates, meta kept *)
Theorem C10_add : forall c vals un r, let nb := length (exps un) in
  add c (OQty vals un) = Ok r -> ~ (scale (unit_or_dimless nb (cunit c)) == 0)%Q ->
  qeql (phys nb r) (zipq Qplus (phys nb c) (ophys (OQty vals un))) /\ dims nb r = dims nb c /\ dims nb c = exps un.
Proof. exact add_phys. Qed.
Print Assumptions C10_add.
Theorem C10_add_number : forall c vals r, add c (ONum vals) = Ok r -> data r = zipq Qplus (data c) vals.
Proof. exact add_num_data. Qed.
Print Assumptions C10_add_number.
Theorem C10_add_keeps : forall c o r, add c o = Ok r -> same_frame c r /\ unc r = unc c /\ cunit r = cunit c.
Proof. exact add_frame. Qed.
Print Assumptions C10_add_keeps.
Theorem C10_neg_keeps : forall c, same_frame c (neg c) /\ unc (neg c) = unc c /\ cunit (neg c) = cunit c.
Proof. exact neg_frame. Qed.
Print Assumptions C10_neg_keeps.

(* refusals: inconvertible units, a bare number on a cube with a unit, another cube / NDData on any operator *)
Theorem C10_refuse_units : forall c vals un cu, cunit c = Some cu -> exps un <> exps cu -> add c (OQty vals un) = Err EUnits.
Proof. exact add_units_refused. Qed.
Print Assumptions C10_refuse_units.
Theorem C10_refuse_bare : forall c vals cu, cunit c = Some cu -> is_unscaled_dimless cu = false -> add c (ONum vals) = Err EType.
Proof. exact add_bare_refused. Qed.
Print Assumptions C10_refuse_bare.
Theorem C10_refuse_other : forall c, add c OOther = Err EType /\ sub c OOther = Err EType /\ rsub c OOther = Err EType /\
  mul c OOther = Err EType /\ truediv c OOther = Err EType /\ rtruediv c OOther = Err EType.
Proof. exact other_refused. Qed.
Print Assumptions C10_refuse_other.

(* products: physical values multiply, dimensions add; a standard deviation scales by |k| *)
Theorem C10_mul_quantity : forall c vals un r, let nb := length (exps un) in
  mul c (OQty vals un) = Ok r ->
  qeql (phys nb r) (zipq Qmult (phys nb c) (ophys (OQty vals un))) /\
  dims nb r = map (fun '(x, y) => x + y) (combine (dims nb c) (exps un)).
Proof. exact mul_phys_qty. Qed.
Print Assumptions C10_mul_quantity.
Theorem C10_mul_number : forall c vals r nb, mul c (ONum vals) = Ok r ->
  qeql (phys nb r) (zipq Qmult (phys nb c) vals) /\ cunit r = cunit c.
Proof. exact mul_phys_num. Qed.
Print Assumptions C10_mul_number.
Theorem C10_mul_uncertainty : forall c o vals r us, (o = ONum vals \/ exists un, o = OQty vals un) -> unc c = Some (UStd, us) ->
  mul c o = Ok r -> unc r = Some (UStd, zipq (fun u v => u * Qabs v)%Q us vals).
Proof. exact mul_unc_std. Qed.
Print Assumptions C10_mul_uncertainty.
Theorem C10_mul_keeps : forall c o r, mul c o = Ok r -> same_frame c r.
Proof. exact mul_frame. Qed.
Print Assumptions C10_mul_keeps.

(* powers *)
Theorem C10_pow : forall c k nb, qeql (phys nb (pow c k)) (map (fun p => qpow p k) (phys nb c)) /\
  (forall un, cunit c = Some un -> dims nb (pow c k) = map (fun x => x * k) (exps un)) /\
  (cunit c = None -> cunit (pow c k) = None).
Proof. exact pow_phys. Qed.
Print Assumptions C10_pow.

(* to(unit) preserves every physical value and the physical size of a standard deviation *)
Theorem C10_to : forall c nu r cu, cunit c = Some cu -> to_unit c nu = Ok r ->
  ~ (scale cu == 0)%Q -> ~ (scale nu == 0)%Q -> let nb := length (exps cu) in
  qeql (phys nb r) (phys nb c) /\
  (exists ru, cunit r = Some ru /\ (scale ru == scale nu)%Q /\ (exps cu = exps nu) /\ same_frame c r).
Proof. exact to_phys. Qed.
Print Assumptions C10_to.
Theorem C10_to_uncertainty : forall c nu r cu us, cunit c = Some cu -> unc c = Some (UStd, us) -> length us = length (data c) ->
  to_unit c nu = Ok r -> (0 < scale cu)%Q -> (0 < scale nu)%Q ->
  exists us', unc r = Some (UStd, us') /\ qeql (map (fun x => x * scale nu)%Q us') (map (fun x => x * scale cu)%Q us).
Proof. exact to_unc_std. Qed.
Print Assumptions C10_to_uncertainty.

(* identities *)
Theorem C10_add_sub : forall c o r1, (exists vals, (o = ONum vals \/ exists un, o = OQty vals un) /\ length vals = length (data c)) ->
  add c o = Ok r1 -> exists r2, sub r1 o = Ok r2 /\ cube_eq c r2.
Proof. exact add_sub_id. Qed.
Print Assumptions C10_add_sub.
Theorem C10_mul_div : forall c vals r1, length vals = length (data c) -> Forall (fun v => ~ (v == 0)%Q) vals ->
  (forall k us, unc c = Some (k, us) -> length us = length vals) ->
  mul c (ONum vals) = Ok r1 -> exists r2, truediv r1 (ONum vals) = Ok r2 /\ cube_eq c r2.
Proof. exact mul_div_id. Qed.
Print Assumptions C10_mul_div.
Theorem C10_neg_neg : forall c, cube_eq c (neg (neg c)).
Proof. exact neg_neg_id. Qed.
Print Assumptions C10_neg_neg.
Theorem C10_mul_minus_one : forall c vals r, length vals = length (data c) -> Forall (fun v => (v == -1 # 1)%Q) vals ->
  (forall k us, unc c = Some (k, us) -> length us = length vals) ->
  mul c (ONum vals) = Ok r -> cube_eq (neg c) r.
Proof. exact mul_minus_one. Qed.
Print Assumptions C10_mul_minus_one.

Example C10_nonvacuous :
  let m := mkU 1 [1; 0] in let km := mkU 1000 [1; 0] in let s := mkU 1 [0; 1] in
  let c := mkC [1; 2]%Q (Some m) (Some (UStd, [1 # 2; 1 # 2]%Q)) None 7 in
  match add c (OQty [1; 1]%Q km), mul c (OQty [-2; -2]%Q s), add c (OQty [1; 1]%Q s), add c (ONum [1; 1]%Q), to_unit c km with
  | Ok r1, Ok r2, Err EUnits, Err EType, Ok r3 =>
      (list_eqb Qeq_bool (data r1) [1001; 1002]%Q && list_eqb Qeq_bool (data r2) [-2; -4]%Q
       && match unc r2 with Some (UStd, us) => list_eqb Qeq_bool us [1; 1]%Q | _ => false end
       && list_eqb Qeq_bool (data r3) [1 # 1000; 2 # 1000]%Q)%bool = true
  | _, _, _, _, _ => False
  end.
Proof. vm_compute. reflexivity. Qed.
