(* C18 — sequence crop applies one common box that contains every cube's own crop *)
From NDV Require Import M_SeqCrop P_SeqCrop P_SeqCropTight.
Open Scope Z_scope.

(* on every cube axis the common range starts at the smallest start and stops at the largest stop of the
   cubes' own boxes: it contains every cube's own region, for any number of cubes *)
Theorem C18_contains : forall (starts stops : list (list Z)) n, starts <> [] -> stops <> [] ->
  Forall (fun r => length r = n) starts -> Forall (fun r => length r = n) stops ->
  forall j, (j < n)%nat ->
  (forall r, In r starts -> nth j (col_min starts) 0 <= nth j r 0) /\
  (forall r, In r stops -> nth j r 0 <= nth j (col_max stops) 0).
Proof. exact common_box_contains. Qed.
Print Assumptions C18_contains.

(* ... and it is the SMALLEST such range: each of its bounds is a bound of some cube's own box *)
Theorem C18_tight : forall (starts stops : list (list Z)) n, starts <> [] -> stops <> [] ->
  Forall (fun r => length r = n) starts -> Forall (fun r => length r = n) stops ->
  forall j, (j < n)%nat ->
  (exists r, In r starts /\ nth j (col_min starts) 0 = nth j r 0) /\
  (exists r, In r stops /\ nth j (col_max stops) 0 = nth j r 0).
Proof. exact common_box_tight. Qed.
Print Assumptions C18_tight.

(* the sequence axis is untouched *)
Theorem C18_sequence_axis : forall cubes its, seq_crop_item cubes = Ok its ->
  hd full_slice its = ISlice (Some 0) (Some (zlen cubes)) None.
Proof. exact seq_crop_sequence_axis. Qed.
Print Assumptions C18_sequence_axis.

Example C18_nonvacuous :
  seq_crop_item [([6; 8], [ISlice (Some 1) (Some 4) None; full_slice]);
                 ([6; 8], [ISlice (Some 2) (Some 3) None; ISlice (Some 5) (Some 6) None])]
  = Ok [ISlice (Some 0) (Some 2) None; ISlice (Some 1) (Some 4) None; ISlice (Some 0) (Some 8) None].
Proof. vm_compute. reflexivity. Qed.
