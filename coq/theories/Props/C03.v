(* C03 — coordinates dropped by slicing survive as global coordinates *)
From NDV Require Import M_GlobalCoords P_GlobalCoords.
Open Scope Z_scope.

(* the value listed for a dropped primary-WCS coordinate is the value EVERY element of the sliced cube
   had for it in the original cube, for any inner WCS whose correlation matrix is sound: "the value it
   had at the index that was sliced away" does not depend on the zeros astropy puts on the kept axes *)
Theorem C03_value : forall W corr sel w e, corr_sound W corr -> world_kept corr sel w = false ->
  (nth w (W (embedq sel e)) 0 == dropped_value W sel w)%Q.
Proof. exact dropped_value_is_element_value. Qed.
Print Assumptions C03_value.

(* two pixel positions that agree on every axis a world coordinate is correlated with give it the same
   value (the lemma behind C03_value; also: a coordinate that is still listed as kept varies only along
   remaining axes) *)
Theorem C03_agree_on_correlated : forall W corr w, corr_sound W corr -> forall p p', length p = length p' ->
  (forall a, (a < length p)%nat -> nth a (nth w corr []) false = true ->
             (nth a p 0 == nth a p' 0)%Q /\ nth a p 0%Q = nth a p' 0%Q) ->
  (nth w (W p) 0 == nth w (W p') 0)%Q.
Proof. exact agree_on_correlated. Qed.
Print Assumptions C03_agree_on_correlated.

(* successive slices accumulate their drops: once dropped, always dropped (primary WCS and extra coords) *)
Theorem C03_wcs_drops_accumulate : forall corr sel new w, world_kept corr sel w = false ->
  world_kept corr (compose_sel sel new) w = false.
Proof. exact dropped_world_accumulates. Qed.
Print Assumptions C03_wcs_drops_accumulate.

Theorem C03_extra_drops_accumulate : forall items e e', ec_getitem items e = Ok e' ->
  exists extra, dropped e' = dropped e ++ extra.
Proof. exact ec_getitem_dropped_prefix. Qed.
Print Assumptions C03_extra_drops_accumulate.

(* user coordinates: after ANY interleaving of add / remove / slice the stored coordinates are exactly the
   replay of the adds and removes (slices never touch them; duplicate names, invalid physical types and
   removals of unknown names are refused and change nothing) *)
Theorem C03_user_coords : forall ops s, internal (fold_left gstep' ops s) = replay (internal s) ops.
Proof. exact internal_is_replay. Qed.
Print Assumptions C03_user_coords.

Example C03_nonvacuous :
  world_kept [[false; false; true]; [false; true; false]; [true; false; false]] [(1, true); (0, false); (2, true)] 0%nat = false
  /\ world_kept [[false; false; true]; [false; true; false]; [true; false; false]] [(1, true); (0, false); (2, true)] 1%nat = true
  /\ compose_sel [(1, true); (2, false); (0, false)] [(3, true); (1, false)] = [(1, true); (5, true); (1, false)].
Proof. vm_compute. repeat split. Qed.
