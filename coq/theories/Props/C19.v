(* C19 — lookup-table coordinates reproduce their tables *)
From NDV Require Import M_Lookup P_Resample P_Lookup.
Open Scope Q_scope.

(* table entry i at integer pixel i (any table, any length including 1) *)
Theorem C19_entries : forall t (i : nat), (i < length t)%nat -> tab_eval t (inject_Z (Z.of_nat i)) = Some (nth i t 0).
Proof. exact tab_at_knot. Qed.
Print Assumptions C19_entries.
(* the linear interpolation in between *)
Theorem C19_linear : forall t (i : nat) theta, (S i < length t)%nat -> 0 <= theta -> theta <= 1 ->
  exists v, tab_eval t (inject_Z (Z.of_nat i) + theta) = Some v /\
            v == (1 - theta) * nth i t 0 + theta * nth (S i) t 0.
Proof. exact tab_linear. Qed.
Print Assumptions C19_linear.
(* no value outside the table *)
Theorem C19_outside : forall t x, x < 0 \/ inject_Z (Z.of_nat (length t) - 1) < x -> tab_eval t x = None.
Proof. exact tab_outside. Qed.
Print Assumptions C19_outside.
(* a strictly monotonic table's entries map back to their pixel (increasing or decreasing, length 1 included) *)
Theorem C19_inverse : forall t (i : nat), strictly_inc t \/ strictly_dec t -> (i < length t)%nat ->
  exists v, tab_inv t (nth i t 0) = Some v /\ v == inject_Z (Z.of_nat i).
Proof. exact tab_inv_entry. Qed.
Print Assumptions C19_inverse.
(* slicing: the coordinate of the sliced table - entry k of the result is entry start + k*step of the table, for
   every basic slice (negative steps, open and out-of-range bounds included), and an integer picks one entry *)
Theorem C19_slice : forall t a b st t' s e step, slice_tab t (ISlice a b st) = Ok (inl t') ->
  slice_indices (Z.of_nat (length t)) a b st = Some (s, e, step) ->
  length t' = Z.to_nat (range_len s e step) /\
  forall k, (k < length t')%nat ->
    tab_eval t' (inject_Z (Z.of_nat k)) = Some (nth (Z.to_nat (s + Z.of_nat k * step)) t 0).
Proof. exact slice_tab_entries. Qed.
Print Assumptions C19_slice.
Theorem C19_slice_int : forall t i v, slice_tab t (IInt i) = Ok (inr v) ->
  exists j, norm_int (Z.of_nat (length t)) i = Some j /\ v = nth (Z.to_nat j) t 0.
Proof. exact slice_tab_int. Qed.
Print Assumptions C19_slice_int.
(* interpolate(grid): inside the table, np.interp is the table's own linear interpolation (what the WCS returns) *)
Theorem C19_interpolate : forall t x, (1 <= length t)%nat -> 0 <= x -> x <= inject_Z (Z.of_nat (length t) - 1) ->
  exists v, tab_eval t x = Some v /\ v == np_interp t x.
Proof. exact interp_is_tab_eval. Qed.
Print Assumptions C19_interpolate.
(* resample(factor, offset): the sampling positions are exactly offset + k*factor, k = 0, 1, ..., that lie on the axis *)
Theorem C19_resample_grid : forall c d f x, 0 < f ->
  (In x (resample_grid c d f) <-> exists k : nat, x = c + inject_Z (Z.of_nat k) * f /\ x <= d - 1).
Proof. exact resample_grid_members. Qed.
Print Assumptions C19_resample_grid.
Theorem C19_resample_values : forall t c d f, resample_tab t c d f = map (np_interp t) (resample_grid c d f).
Proof. exact resample_tab_values. Qed.
Print Assumptions C19_resample_values.

Example C19_nonvacuous :
  (match tc_p2w_multi [TQuantity [[1; 3; 4; 8]]; TSky true [1; 2] [10; 20; 40]] [3 # 2; 1; 1 # 2] with
   | [Some a; Some b; Some c] => Qeq_bool a (7 # 2) && Qeq_bool b 2 && Qeq_bool c 15
   | _ => false end
   && match tab_inv [8; 4; 3; 1] 3 with Some v => Qeq_bool v 2 | None => false end
   && match tab_eval [5] (1 # 2) with None => true | _ => false end
   && match slice_tab [1; 3; 4; 8] (ISlice None None (Some (-2)%Z)) with Ok (inl [a; b]) => Qeq_bool a 8 && Qeq_bool b 3 | _ => false end
   && match resample_grid (1 # 2) 6 2 with [a; b; c] => Qeq_bool a (1 # 2) && Qeq_bool b (5 # 2) && Qeq_bool c (9 # 2) | _ => false end)%bool = true.
Proof. vm_compute. reflexivity. Qed.
