(* C01 — index slicing keeps data and primary-WCS coordinates in lock-step.
   shape : list Z is the cube's array shape; raw the user's index item (tuple entries);
   cube_getitem is the transcription of NDCubeSlicingMixin.__getitem__ composed with the dependency
   models of numpy indexing (np_axis_sel) and SlicedLowLevelWCS (wcs_axis_sel). *)
From NDV Require Import M_Slicing P_Slicing P_SlicingChain P_SlicingIdentity.

(* None / newaxis anywhere in the item is rejected with IndexError *)
Theorem C01_none_rejected : forall shape raw, In INone raw -> cube_getitem shape raw = Err EIndex.
Proof. exact getitem_none_rejected. Qed.
Print Assumptions C01_none_rejected.

(* the elements kept are exactly numpy's selection for the user's (un-normalised) item: open,
   negative and over-long bounds, negative ints, Ellipsis *)
Theorem C01_data_is_numpy : forall shape raw r, Forall (fun n => 0 <= n) shape ->
  cube_getitem shape raw = Ok r ->
  exists its, sanitize (length shape) raw = Ok its /\ map2r np_axis_sel shape its = Ok (dsel r).
Proof. exact getitem_data_is_numpy. Qed.
Print Assumptions C01_data_is_numpy.

(* lock-step: on every axis the offset the sliced WCS applies is numpy's start, and the same axes
   are dropped *)
Theorem C01_lockstep : forall shape raw r, Forall (fun n => 0 <= n) shape ->
  cube_getitem shape raw = Ok r -> wsel r = dsel_off (dsel r).
Proof. exact getitem_lockstep. Qed.
Print Assumptions C01_lockstep.

(* hence, for EVERY inner WCS W (any function of the pixel vector), the world value the sliced cube
   reports for result element k is W at the source index of that element *)
Theorem C01_elementwise : forall shape raw r, Forall (fun n => 0 <= n) shape ->
  cube_getitem shape raw = Ok r ->
  forall (T : Type) (W : list Z -> T) (k : list Z), W (embed (wsel r) k) = W (src_index (dsel r) k).
Proof. exact getitem_elementwise. Qed.
Print Assumptions C01_elementwise.

(* one pixel axis per remaining array axis; the WCS's array shape is the sliced data's shape *)
Theorem C01_rank_shape : forall shape raw r, Forall (fun n => 0 <= n) shape ->
  cube_getitem shape raw = Ok r ->
  length (sitems r) = length shape /\ length (wsel r) = length shape /\
  length (filter kept (wsel r)) = length (wshape r) /\ wshape r = sels_shape (dsel r).
Proof. exact getitem_rank_shape. Qed.
Print Assumptions C01_rank_shape.

(* chains of slices: after ANY number of successive slices every element of the final cube reports, for every inner
   WCS, the world coordinates of the element of the original cube its data came from *)
Theorem C01_chain : forall raws shape ss, Forall (fun n => 0 <= n) shape -> chain shape raws = Ok ss ->
  forall (T : Type) (W : list Z -> T) (k : list Z), W (chain_wcs ss k) = W (chain_src ss k).
Proof. exact chain_elementwise. Qed.
Print Assumptions C01_chain.

(* the empty item (cube[()], cube[...], cube[:]) is the identity: every axis kept whole, offset 0, same shape, and
   every element is its own source element *)
Theorem C01_identity : forall shape, Forall (fun n => 0 <= n) shape ->
  exists r, cube_getitem shape [] = Ok r /\ dsel r = whole shape /\
            wsel r = map (fun _ => (0, false)) shape /\ wshape r = shape /\
            forall k, length k = length shape -> src_index (dsel r) k = k.
Proof. exact getitem_identity. Qed.
Print Assumptions C01_identity.

Example C01_nonvacuous :
  exists r, cube_getitem [4; 5; 6] [IInt (-1); IEllipsis; ISlice (Some (-2)) (Some 99) None] = Ok r /\
            dsel r = [(3, 1, true); (0, 5, false); (4, 2, false)] /\
            wsel r = [(3, true); (0, false); (4, false)] /\ wshape r = [5; 2].
Proof. eexists. vm_compute. repeat split. Qed.
