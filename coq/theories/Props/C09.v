(* C09 — rebin keeps the coordinate frame registered to the data *)
From NDV Require Import M_Wrappers P_Wrappers M_Resample P_Resample.
Open Scope Q_scope.

(* the rebinned WCS (ResampledLowLevelWCS with the factors and the offsets rebin passes) reports, for ANY
   inner WCS, the inner coordinates at scale f o j, and that position is j*f + (f-1)/2 on every axis *)
Theorem C09_wcs : forall W fs W', resampled W fs (map rebin_offset fs) = Ok W' ->
  forall js, p2w W' js = p2w W (scale fs (map rebin_offset fs) js).
Proof. exact rebin_wcs_centres. Qed.
Print Assumptions C09_wcs.

Theorem C09_block_centre_positions : forall fs js, length js = length fs ->
  veq (scale fs (map rebin_offset fs) js) (zip2 rebin_pix fs js).
Proof. exact scale_rebin. Qed.
Print Assumptions C09_block_centre_positions.

Theorem C09_block_centre : forall f j, rebin_pix f j == (j * f + ((j + 1) * f - 1)) / 2.
Proof. exact rebin_pix_is_block_centre. Qed.
Print Assumptions C09_block_centre.

(* the registration is right exactly for the offset (f-1)/2 (with offset 0, as on the pinned tree, it is
   right only for f = 1) *)
Theorem C09_centre_iff_offset : forall f o, (forall j, j * f + o == j * f + (f - 1) / 2) <-> o == (f - 1) / 2.
Proof. exact centre_iff_offset. Qed.
Print Assumptions C09_centre_iff_offset.

(* output pixel edges are every f-th source pixel edge, so the world footprint is preserved; axes with
   f = 1 keep their coordinates; rebinning twice registers like rebinning once by the product *)
Theorem C09_edges : forall f k, rebin_pix f (k - (1 # 2)) == k * f - (1 # 2).
Proof. exact rebin_edges. Qed.
Print Assumptions C09_edges.
Theorem C09_unit_factor : forall j, rebin_pix 1 j == j.
Proof. exact rebin_unit_factor. Qed.
Print Assumptions C09_unit_factor.
Theorem C09_rebin_of_rebin : forall f1 f2 j, rebin_pix f1 (rebin_pix f2 j) == rebin_pix (f1 * f2) j.
Proof. exact rebin_of_rebin. Qed.
Print Assumptions C09_rebin_of_rebin.

(* extra coords: the arange-and-filter grid of ExtraCoords.resample with that offset is exactly the M
   block centres (integer factor f >= 1, axis length M*f), and the lookup tables are sampled there *)
Theorem C09_grid : forall (f M : positive),
  let fq := inject_Z (Zpos f) in let n := inject_Z (Zpos M * Zpos f) in
  resample_grid (rebin_offset fq) n fq = map (fun k => rebin_offset fq + k * fq) (qupto (Pos.to_nat M)).
Proof. exact resample_grid_centres. Qed.
Print Assumptions C09_grid.

Theorem C09_extra : forall (t : list Q) (f M : positive),
  let fq := inject_Z (Zpos f) in
  rebin_table t (inject_Z (Zpos M * Zpos f)) fq =
  map (fun k => tab_eval t (rebin_offset fq + k * fq)) (qupto (Pos.to_nat M)).
Proof. exact rebin_table_centres. Qed.
Print Assumptions C09_extra.

(* WCS-backed extra coords: each pixel dimension of the extra WCS gets the factor and offset of the cube axis it is
   mapped to, so that - whatever the mapping - the resampled extra WCS asked at the extra-pixel position of cube position
   E' answers with the source extra WCS at the position of E' * factor + offset; for rebin that is the block centre *)
Theorem C09_extra_wcs_mapped : forall (W : list Q -> list Q) n pm factor offset E',
  length factor = n -> length offset = n -> length E' = n -> Forall (fun p => (p < n)%nat) pm ->
  ec_resampled W n pm factor offset (ec_pixel n pm E') = W (ec_pixel n pm (scale factor offset E')).
Proof. exact ec_resample_registered. Qed.
Print Assumptions C09_extra_wcs_mapped.

Theorem C09_extra_wcs_block_centres : forall (W : list Q -> list Q) n pm fs E',
  length fs = n -> length E' = n -> Forall (fun p => (p < n)%nat) pm ->
  ec_resampled W n pm fs (map rebin_offset fs) (ec_pixel n pm E') = W (ec_pixel n pm (scale fs (map rebin_offset fs) E')).
Proof. exact ec_rebin_registered. Qed.
Print Assumptions C09_extra_wcs_block_centres.

(* non-vacuity: a (4, 6) cube rebinned by (2, 3); the extra WCS has one pixel dimension, mapped to the cube's pixel axis 0
   (array axis 1, factor 3): output element (1, 1) sits at source extra pixel 1 * 3 + 1 = 4 *)
Example C09_extra_wcs_nonvacuous :
  ec_resampled (fun p => p) 2 [0%nat] [2; 3] (map rebin_offset [2; 3]) (ec_pixel 2 [0%nat] [1; 1]) = [1 * 3 + (3 - 1) / 2].
Proof. reflexivity. Qed.

Example C09_nonvacuous :
  list_eqb (option_eqb Qeq_bool) (rebin_table [0; 10; 20; 30; 40; 50] 6 2) [Some 5; Some 25; Some 45] = true
  /\ list_eqb Qeq_bool (resample_grid (rebin_offset 3) 6 3) [1; 4] = true.
Proof. vm_compute. split; reflexivity. Qed.
