(* C04 — crop returns exactly the smallest index box containing the world points *)
From NDV Require Import M_Crop P_Crop P_CropAgain P_CropMonotone.
Open Scope Z_scope.

(* on every touched axis the emitted item selects exactly the positions from the smallest to the largest
   nearest-pixel index of the points, both of which are indices of actual points: it contains every point
   and is contained in every range that does (any number of points) *)
Theorem C04_box : forall idxs keepdims len x, idxs <> [] -> Forall (fun i => 0 <= i < len) idxs ->
  let lo := zmin_l (tl idxs) (hd 0 idxs) in let hi := zmax_l (tl idxs) (hd 0 idxs) in
  (selects len (axis_item len idxs keepdims) x <-> lo <= x <= hi) /\ In lo idxs /\ In hi idxs.
Proof. exact axis_item_box. Qed.
Print Assumptions C04_box.

(* keepdims changes only whether length-1 axes are kept *)
Theorem C04_keepdims : forall idxs len x, idxs <> [] -> Forall (fun i => 0 <= i < len) idxs ->
  (selects len (axis_item len idxs true) x <-> selects len (axis_item len idxs false) x).
Proof. exact axis_item_keepdims. Qed.
Print Assumptions C04_keepdims.

(* points off the array never silently yield a region that excludes an on-array point *)
Theorem C04_on_array : forall idxs keepdims len k, In k idxs -> 0 <= k < len ->
  selects len (axis_item len idxs keepdims) k.
Proof. exact axis_item_on_array. Qed.
Print Assumptions C04_on_array.

(* with points off the array too (one of them on it): the region stays on the array, and without keepdims an axis
   survives as a slice only when its region is longer than one element - at the high edge as at the low edge *)
Theorem C04_clipped : forall idxs len k, In k idxs -> 0 <= k < len ->
  match axis_item len idxs false with
  | IInt i => 0 <= i < len
  | ISlice (Some lo) (Some hi) None => 0 <= lo /\ hi <= len /\ hi - lo >= 2
  | _ => False
  end.
Proof. exact axis_item_clipped. Qed.
Print Assumptions C04_clipped.
(* axes whose coordinates are all None are left whole; a one-element result without keepdims is refused *)
Theorem C04_untouched : forall len keepdims, axis_item len [] keepdims = full_slice.
Proof. exact axis_item_untouched. Qed.
Print Assumptions C04_untouched.

Theorem C04_item : forall shape per_axis keepdims its, crop_item shape per_axis keepdims = Ok its ->
  its = map (fun '(len, idxs) => axis_item len idxs keepdims) (combine shape per_axis) /\
  (its = [] \/ exists it, In it its /\ is_int it = false).
Proof. exact crop_item_spec. Qed.
Print Assumptions C04_item.

(* nearest pixel: a position exactly on the edge k - 1/2 belongs to pixel k *)
Theorem C04_rounding : forall q, (inject_Z (round_half_up q) - (1 # 2) <= q < inject_Z (round_half_up q) + (1 # 2))%Q.
Proof. exact round_half_up_spec. Qed.
Print Assumptions C04_rounding.

(* cropping the RESULT again with the same points changes nothing: in the cropped frame every index is the old one
   minus the region's start (C04_rounding_shift: nearest-pixel rounding commutes with the integer shift the sliced
   WCS applies), the second region corresponds element for element to the first and is the whole cropped axis *)
Theorem C04_recrop : forall idxs kd kd' len x, idxs <> [] -> Forall (fun i => 0 <= i < len) idxs ->
  let lo := zmin_l (tl idxs) (hd 0 idxs) in let hi := zmax_l (tl idxs) (hd 0 idxs) in
  let len' := hi - lo + 1 in
  (selects len (axis_item len idxs kd) x <-> selects len' (axis_item len' (map (fun i => i - lo) idxs) kd') (x - lo))
  /\ (selects len' (axis_item len' (map (fun i => i - lo) idxs) kd') (x - lo) <-> 0 <= x - lo < len').
Proof. exact axis_item_recrop. Qed.
Print Assumptions C04_recrop.

Theorem C04_rounding_shift : forall q c, round_half_up (q - inject_Z c) = round_half_up q - c.
Proof. exact round_half_up_shift. Qed.
Print Assumptions C04_rounding_shift.

(* one more point never shrinks the region *)
Theorem C04_monotone : forall idxs i kd kd' len x, idxs <> [] -> Forall (fun k => 0 <= k < len) (i :: idxs) ->
  selects len (axis_item len idxs kd) x -> selects len (axis_item len (i :: idxs) kd') x.
Proof. exact axis_item_monotone. Qed.
Print Assumptions C04_monotone.

Example C04_nonvacuous :
  crop_item [6; 6; 6] [[3; 1; 2]; []; [4]] false = Ok [ISlice (Some 1) (Some 4) None; full_slice; IInt 4]
  /\ crop_item [6; 6] [[2]; [0]] false = Err EValue
  /\ crop_item [6] [[-1; 3]] false = Ok [ISlice (Some 0) (Some 4) None]
  /\ crop_item [6; 3] [[6; 5]; []] false = Ok [IInt 5; full_slice]
  /\ round_half_up (3 # 2) = 2 /\ round_half_up (-(1 # 2)) = 0.
Proof. vm_compute. repeat split. Qed.
