(* C15 — unwrap_wcs_to_fitswcs returns a FITS WCS equivalent to the wrapper chain.
   interm F p is the FITS intermediate world coordinate vector of 0-based pixel p (the linear core
   cdelt_i * sum_j pc_ij (p_j + 1 - crpix_j)); chain_affine is the pixel map of the wrapper chain
   (slices add their start, resamples apply p*f + o; dropped axes are length-1 placeholders at 0). *)
From NDV Require Import M_Wrappers P_Wrappers M_Unwrap P_Unwrap.
Open Scope Q_scope.

(* any chain (any depth, any order of slices with ints / ranges and resamples with any non-zero factors
   and any offsets) over a FITS WCS with ANY PC matrix: the unwrapped WCS maps every pixel p of the
   wrapped grid to the coordinates the chain gives it *)
Theorem C15_chain : forall n steps st st', wf_state n st -> factors_nonzero steps ->
  unwrap st steps = Ok st' ->
  wf_state n st' /\
  forall p, length p = n -> exists q, chain_affine st steps p = Ok q /\ length q = n /\
                                     veq (interm (fst st') p) (interm (fst st) q).
Proof. exact unwrap_correct. Qed.
Print Assumptions C15_chain.

(* one resample step: the repaired rules crpix' = (crpix + f - 1 - o)/f, cdelt' = cdelt*f,
   pc'_ij = pc_ij f_j / f_i are right for coupled (rotated) PC and unequal factors *)
Theorem C15_resample_step : forall n F f o p, wf n F -> length f = n -> length o = n -> length p = n ->
  Forall (fun x => ~ x == 0) f -> veq (interm (resample_fits F f o) p) (interm F (scale f o p)).
Proof. exact resample_interm. Qed.
Print Assumptions C15_resample_step.

(* one slice step: CRPIX shifted by the start *)
Theorem C15_slice_step : forall F starts nax p, length (crpix F) = length p -> length starts = length p ->
  veq (interm (mkFits (zip2 (fun c s => c - s) (crpix F) starts) (cdelt F) (pc F) nax) p)
      (interm F (zip2 Qplus p starts)).
Proof. exact slice_interm. Qed.
Print Assumptions C15_slice_step.

(* the pinned tree's CRPIX rule (crpix + o)/f agrees with the right one exactly when 2o = f - 1, i.e.
   on the offsets of the one existing test and of rebinned cubes, and nowhere else *)
Theorem C15_old_crpix_rule_iff : forall c f o, ~ f == 0 ->
  ((c + o) / f == (c + f - 1 - o) / f <-> 2 * o == f - 1).
Proof. exact crpix_rule_iff. Qed.
Print Assumptions C15_old_crpix_rule_iff.

Example C15_nonvacuous :
  let F := mkFits [1; 2] [1; 1 # 2] [[1; 1 # 2]; [-(1 # 2); 1]] [6; 8]%Z in
  match unwrap (F, [false; false]) [USlice [ISlice (Some 2%Z) None None; IInt 1%Z]; UResample [3] [1 # 2]] with
  | Ok (F', d) => d = [false; true] /\ naxis F' = [1; 2]%Z
  | Err _ => False
  end.
Proof. vm_compute. split; reflexivity. Qed.
