(* Dependency-model suite: PyIndex.v against CPython's slice.indices / range / list indexing. *)
From NDV Require Import PyIndex.

Record case := mk { n : Z; a : option Z; b : option Z; st : option Z;
                    idx_out : option (Z * Z * Z);      (* slice(a,b,st).indices(n), None = ValueError *)
                    pos_out : option (list Z);         (* list(range(n))[a:b:st] *)
                    i : Z; int_out : option Z }.       (* list(range(n))[i], None = IndexError *)

Definition t3_eqb (x y : Z * Z * Z) : bool :=
  let '(p, q, r) := x in let '(p', q', r') := y in (p =? p') && (q =? q') && (r =? r').

Definition agree (c : case) : bool :=
  option_eqb t3_eqb (slice_indices (n c) (a c) (b c) (st c)) (idx_out c)
  && option_eqb (list_eqb Z.eqb) (slice_positions (n c) (a c) (b c) (st c)) (pos_out c)
  && option_eqb Z.eqb (norm_int (n c) (i c)) (int_out c)
  && (match st c with
      | None => let '(s, l) := sel1 (n c) (a c) (b c) in
                option_eqb (list_eqb Z.eqb) (Some (py_range s (s + l) 1)) (pos_out c)
      | _ => true end).
Definition dom (c : case) : bool := true.
