(* Correspondence interface for C03: histories of add / remove / slice on a cube with a linear primary
   WCS (world w = crval_w + cdelt_w * pixel of array axis ax_w) and lookup-table extra coords *)
From NDV Require Import M_Slicing M_ExtraCoords M_GlobalCoords.
Open Scope Z_scope.

Inductive hop := HAdd (name ptype : Z) (valid : bool) (v : Q) | HRemove (name : Z) | HSlice (raw : list item).

Record obs := mkObs {
  oraised : list bool;                 (* per op: did it raise? *)
  ointernal : list (Z * Q);            (* user coordinates, in order: name, value *)
  owcs : list (Z * Q);                 (* dropped primary-WCS coordinates: world index, value *)
  oec : list (Z * Q) }.                (* dropped extra coordinates: component name id, value *)

Record case := mk { shape0 : list Z; lin : list (Z * Q * Q) (* per world axis: array axis, crval, cdelt *);
                    ec0 : ec; hist : list hop; impl : obs }.

Definition qnear (a b : Q) : bool :=
  Qle_bool (Qabs (a - b)) ((1 # 1000000) * (if Qle_bool 1 (Qabs b) then Qabs b else 1))%Q.

Definition linW (l : list (Z * Q * Q)) (p : list Q) : list Q :=
  map (fun wl => let '(ax, crval, cdelt) := wl in (crval + cdelt * nth (Z.to_nat ax) p 0)%Q) l.
Definition lin_corr (n : nat) (l : list (Z * Q * Q)) : list (list bool) :=
  map (fun wl => map (fun a => Z.of_nat a =? fst (fst wl)) (seq 0 n)) l.

(* run the history; shape tracks the current cube shape so that every slice goes through the C01 model *)
Fixpoint run (s : gstate) (shape : list Z) (h : list hop) : list bool * gstate :=
  match h with
  | [] => ([], s)
  | HAdd n t valid v :: r =>
      match gstep s (GAdd n t valid v) with
      | Ok s' => let '(b, f) := run s' shape r in (false :: b, f)
      | Err _ => let '(b, f) := run s shape r in (true :: b, f)
      end
  | HRemove n :: r =>
      match gstep s (GRemove n) with
      | Ok s' => let '(b, f) := run s' shape r in (false :: b, f)
      | Err _ => let '(b, f) := run s shape r in (true :: b, f)
      end
  | HSlice raw :: r =>
      match cube_getitem shape raw with
      | Ok sl =>
          match gstep s (GSlice (sitems sl) (filter (fun _ => true) (wsel sl))) with
          | Ok s' => let '(b, f) := run s' (wshape sl) r in (false :: b, f)
          | Err _ => let '(b, f) := run s shape r in (true :: b, f)
          end
      | Err _ => let '(b, f) := run s shape r in (true :: b, f)
      end
  end.

(* dropped extra coordinates are compared as a set: sorted by component name *)
Fixpoint insert_by (x : Z * Q) (l : list (Z * Q)) : list (Z * Q) :=
  match l with
  | [] => [x]
  | y :: t => if fst x <=? fst y then x :: l else y :: insert_by x t
  end.
Definition sort_by (l : list (Z * Q)) : list (Z * Q) := fold_right insert_by [] l.

Definition zq_eqb (a b : Z * Q) : bool := (fst a =? fst b) && qnear (snd b) (snd a).

Definition agree (c : case) : bool :=
  let n := length (shape0 c) in
  let s0 := mkG [] (repeat (0, false) n) (ec0 c) in
  let '(raised, s) := run s0 (shape0 c) (hist c) in
  let corr := lin_corr n (lin c) in
  let dw := dropped_world corr (sel s) in
  list_eqb Bool.eqb raised (oraised (impl c))
  && list_eqb zq_eqb (map (fun e => (fst (fst e), snd e)) (internal s)) (ointernal (impl c))
  && list_eqb zq_eqb (map (fun w => (Z.of_nat w, dropped_value (linW (lin c)) (sel s) w)) dw) (owcs (impl c))
  && list_eqb zq_eqb (sort_by (ec_dropped_entries (gec s))) (sort_by (oec (impl c))).
Definition dom (c : case) : bool := true.
