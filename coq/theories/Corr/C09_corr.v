(* Correspondence interface for C09 *)
From NDV Require Import M_Wrappers M_Resample.
Open Scope Q_scope.

(* one lookup table: source values along its axis, axis length, factor, whether values are reported
   relative to the first entry (Time), tolerance, the implementation's rebinned values *)
Record tab := mkTab { tvals : list Q; tlen : Q; tf : Q; trel : bool; ttol : Q; timpl : list (option Q) }.

(* efs: bin factors in array order.  WCS-backed extra coords over an exact linear probe (world = A p + b in the extra WCS's own pixel dimensions), mapped to
   the cube's pixel axes epm: observed at cube output positions E' (array order) -> world values reported by the
   rebinned cube's extra coords through ITS mapping *)
Record ecobs := mkEc { en : nat; epm : list nat; efs : list Q; eA : list (list Q); eb : list Q; eobs : list (list Q * list Q) }.

Record case := mk {
  fs : list Q;                       (* bin factors, array order *)
  aff : list (Q * Q);                (* source: base pixel = a*p + b per array axis (observed on the source) *)
  nout : list nat;                   (* output length per array axis *)
  centres : list (list Q);           (* impl: base pixel reported at output centre j, per axis *)
  corners : list (list Q);           (* impl: base pixel reported at output edge k - 1/2, per axis, k = 0..n' *)
  tabs : list tab;
  ecs : list ecobs }.

Definition qnear_tol (tol a b : Q) : bool :=
  Qle_bool (Qabs (a - b)) (tol * (if Qle_bool 1 (Qabs b) then Qabs b else 1)).
Definition qn := qnear_tol (1 # 1000000000).

Fixpoint all2 {A B} (f : A -> B -> bool) (l1 : list A) (l2 : list B) : bool :=
  match l1, l2 with
  | [], [] => true
  | x :: xs, y :: ys => f x y && all2 f xs ys
  | _, _ => false
  end.

Definition unit_vec (n a : nat) (v : Q) : qvec := map (fun i => if Nat.eqb i a then v else 0) (seq 0 n).

Definition model_pos (c : case) (a : nat) (v : Q) : Q :=
  let n := length (fs c) in
  let p := nth a (scale (fs c) (map rebin_offset (fs c)) (unit_vec n a v)) 0 in
  let ab := nth a (aff c) (1, 0) in fst ab * p + snd ab.

Definition axis_ok (c : case) (a : nat) : bool :=
  let n' := nth a (nout c) O in
  all2 qn (nth a (centres c) []) (map (fun j => model_pos c a j) (qupto n'))
  && all2 qn (nth a (corners c) []) (map (fun k => model_pos c a (k - (1 # 2))) (qupto (S n'))).

Definition tab_ok (t : tab) : bool :=
  let m := rebin_table (tvals t) (tlen t) (tf t) in
  let base := match m with Some v :: _ => v | _ => 0 end in
  all2 (fun mv iv => match mv, iv with
                     | Some a, Some b => qnear_tol (ttol t) b (if trel t then a - base else a)
                     | None, None => true
                     | _, _ => false end) m (timpl t).

Definition dotq (u v : list Q) : Q := fold_right Qplus 0 (map (fun '(x, y) => x * y) (combine u v)).
Definition linW (A : list (list Q)) (b : list Q) (p : list Q) : list Q := map (fun '(row, bi) => dotq row p + bi) (combine A b).
Definition ec_ok (e : ecobs) : bool :=
  forallb (fun '(E', w) =>
             all2 qn w (ec_resampled (linW (eA e) (eb e)) (en e) (epm e) (efs e) (map rebin_offset (efs e)) (ec_pixel (en e) (epm e) E')))
          (eobs e).

Definition agree (c : case) : bool :=
  forallb (axis_ok c) (seq 0 (length (fs c))) && forallb tab_ok (tabs c) && forallb ec_ok (ecs c).
Definition dom (c : case) : bool := true.
