(* Correspondence interface for C19: probes of lookup-table coordinates *)
From NDV Require Import M_Lookup.
Open Scope Q_scope.

Inductive sliced := SErr | STable (t : list Q) | SScalar (v : Q).
Inductive case :=
| PP2W (cs : list tcoord) (pix : list Q) (impl : list (option Q))
| PW2P (c : tcoord) (w : list Q) (impl : list (option Q))
| PSlice (t : list Q) (it : item) (impl : sliced)
| PInterp (cs : list tcoord) (grids : list (list Q)) (impl : list (list (list Q)))
| PResample (t : list Q) (c d f : Q) (impl : list Q).

Definition oq_eqb (x y : option Q) : bool :=
  match x, y with None, None => true | Some u, Some v => Qeq_bool u v | _, _ => false end.
Definition tables_of (c : tcoord) : list (list Q) :=
  match c with TQuantity ts => ts | TTime d => [d] | TSky _ lon lat => [lon; lat] end.

Definition agree (x : case) : bool :=
  match x with
  | PP2W cs pix impl => list_eqb oq_eqb (tc_p2w_multi cs pix) impl
  | PW2P c w impl => list_eqb oq_eqb (tc_w2p c w) impl
  | PSlice t it impl =>
      match slice_tab t it, impl with
      | Ok (inl t'), STable t'' => list_eqb Qeq_bool t' t''
      | Ok (inr v), SScalar v' => Qeq_bool v v'
      | Err _, SErr => true
      | _, _ => false
      end
  | PInterp cs grids impl => list_eqb (list_eqb (list_eqb Qeq_bool)) (map tables_of (interpolate_multi cs grids)) impl
  | PResample t c d f impl => list_eqb Qeq_bool (resample_tab t c d f) impl
  end.
Definition dom (x : case) : bool := true.
