(* Correspondence interface for C16 *)
From NDV Require Import M_Rebin M_RebinUnc.
Open Scope Q_scope.

Inductive out :=
| ONoUnc                                  (* result has no uncertainty *)
| OUnc (same_kind : bool) (s2 : list Q)   (* squared uncertainty (or variance) per output element, row-major *)
| OErr (e : err).

Record case := mk { shape : list Z; bins : list Z; op : opk; ignores : bool; mk_ : mask_in; kind : unc_kind;
                    data : list (option Q); sig2 : list Q; marr : list bool; impl : out }.

Definition qnear (a b : Q) : bool :=
  Qle_bool (Qabs (a - b)) ((1 # 1000000000) * (if Qle_bool 1 (Qabs b) then Qabs b else 1)).

Fixpoint all2 {A B} (f : A -> B -> bool) (l1 : list A) (l2 : list B) : bool :=
  match l1, l2 with
  | [], [] => true
  | x :: xs, y :: ys => f x y && all2 f xs ys
  | _, _ => false
  end.

Definition model (c : case) : option (list Q) :=
  let at_ {A} (l : list A) (d : A) idx := nth (Z.to_nat (ravel (shape c) idx)) l d in
  let um := use_mask_of (mk_ c) (ignores c) in
  let all_masked := forallb (fun b => b) (marr c) in
  if unc_plan (kind c) (mk_ c) all_masked (ignores c) then
    let memf := fun idx => mkMem (at_ (data c) None idx) (at_ (sig2 c) 0 idx) (masked_at (mk_ c) (at_ (marr c) false) idx) in
    Some (map (fun j => propagate (op c) um (rebin_block (shape c) (bins c) memf j)) (box (zip2z Z.div (shape c) (bins c))))
  else None.

Definition agree (c : case) : bool :=
  match model c, impl c with
  | None, ONoUnc => true
  | Some m, OUnc sk s2 => sk && all2 (fun a b => qnear b a) m s2
  | _, _ => false
  end.

(* guard of the theorems: products only without an effective mask and without zero / NaN data
   (the masked product path of the implementation is a recorded finding) *)
Definition dom (c : case) : bool :=
  match op c with
  | OProd => negb (use_mask_of (mk_ c) (ignores c))
             && forallb (fun o => match o with Some q => negb (Qeq_bool q 0) | None => false end) (data c)
  | _ => true
  end.
