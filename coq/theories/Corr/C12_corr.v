(* Correspondence interface for C12: a case = input + the implementation's canonicalised output. *)
From NDV Require Import M_IndexAsCube.

Inductive out :=
| OCube (k : nat) (j : Z)
| OSeq (ps : list piece) (newca : Z)
| OErr (e : err).

Record case := mk { lens : list Z; nd : nat; ca : nat; its : list item; impl : out }.

Definition piece_eqb (p q : piece) : bool :=
  let '(k, s, l) := p in let '(k', s', l') := q in Nat.eqb k k' && (s =? s') && (l =? l').

Definition agree (c : case) : bool :=
  match iac_getitem (lens c) (nd c) (ca c) (its c), impl c with
  | Ok (RCube k j, _), OCube k' j' => Nat.eqb k k' && (j =? j')
  | Ok (RSeq ps, nc), OSeq ps' nc' => list_eqb piece_eqb ps ps' && (nc =? nc')
  | Err EIndex, OErr e => err_eqb e EIndex
  | Err _, OErr _ => true
  | _, _ => false
  end.

(* guard of the proved theorems: all cube lengths positive, common axis inside the cube *)
Definition dom (c : case) : bool := forallb (fun l => 0 <? l) (lens c) && Nat.ltb (ca c) (nd c).
