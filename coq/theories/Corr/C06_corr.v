(* Correspondence interface for C06: reuses the wrapper-expression evaluator of C14 *)
From NDV Require Import M_Wrappers C14_corr.
Open Scope Q_scope.

Record case := mk { c14 : C14_corr.case; ndim : nat; aatypes : option (list (list Z)) }.

Definition agree (c : case) : bool :=
  C14_corr.agree (c14 c)
  && match C14_corr.build (C14_corr.e (c14 c)), aatypes c with
     | Ok W, Some t => list_eqb (list_eqb Z.eqb) t (array_axis_types (corr W) (wtypes W) (ndim c))
     | Err _, None => true
     | _, _ => false
     end.
Definition dom (c : case) : bool := true.
