(* Correspondence interface for C04: crop_by_values over an exact linear probe WCS (evaluator of C14) *)
From NDV Require Import M_Wrappers M_Crop C14_corr.
Open Scope Z_scope.

Inductive out := OItem (its : list item) | OErr (e : err).
Record case := mk { e : C14_corr.wexpr; shape : list Z; points : list (list (option Q)); keepdims : bool; impl : out }.

Definition agree (c : case) : bool :=
  match C14_corr.build (e c) with
  | Err _ => false
  | Ok W =>
      match crop_by_values_item W (shape c) (points c) (keepdims c), impl c with
      | Ok its, OItem its' => list_eqb item_eqb its its'
      | Err _, OErr _ => true
      | _, _ => false
      end
  end.
Definition dom (c : case) : bool := true.
