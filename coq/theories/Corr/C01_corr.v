(* Correspondence interface for C01 *)
From NDV Require Import M_Slicing.

Inductive out :=
| OOk (shape : list Z)             (* shape of the sliced data (= mask = uncertainty) *)
      (first : option (list Z))    (* source index of the first element; None when the result is empty *)
      (woffs : option (list (Z * bool)))   (* per source axis (array order): pixel offset applied by the
                                      sliced WCS and dropped flag; None when not observed (non-linear WCS) *)
      (npix : Z) (wshape : option (list Z))
| OErr (e : err).

Record case := mk { shape : list Z; raw : list item; impl : out }.

Definition zb_eqb (x y : Z * bool) : bool := (fst x =? fst y) && Bool.eqb (snd x) (snd y).
Definition lz_eqb := list_eqb Z.eqb.

Definition agree (c : case) : bool :=
  match cube_getitem (shape c) (raw c), impl c with
  | Ok r, OOk sh first woffs npix wsh =>
      lz_eqb sh (sels_shape (dsel r))
      && match first with Some f => lz_eqb f (map (fun '(s, _, _) => s) (dsel r)) | None => true end
      && match woffs with Some w => list_eqb zb_eqb w (wsel r) | None => true end
      && (npix =? zlen (wshape r))
      && match wsh with Some w => lz_eqb w (wshape r) | None => true end
  | Err _, OErr e => if existsb is_none (raw c) then err_eqb e EIndex else true
  | _, _ => false
  end.

Definition dom (c : case) : bool := forallb (fun n => 0 <=? n) (shape c).
