(* Correspondence interface for C08 *)
From NDV Require Import M_Rebin.
Open Scope Z_scope.

Inductive out :=
| OSelf
| OOk (shape : list Z) (vals : list (option Q)) (mo : mask_out) (unit_meta_ok : bool)
| OErr (e : err).

Record case := mk { shape : list Z; same_unit : bool; bins : bin_input; op : opk; ignores : bool; hm : handle; mk_ : mask_in;
                    data : list (option Q); marr : list bool; impl : out }.

Definition qnear (a b : Q) : bool :=
  Qle_bool (Qabs (a - b)) ((1 # 1000000000) * (if Qle_bool 1 (Qabs b) then Qabs b else 1)).

Definition val_ok (m : option (option Q)) (i : option Q) : bool :=
  match m, i with
  | None, _ => true                         (* fully masked block: value not specified *)
  | Some None, None => true
  | Some (Some a), Some b => qnear b a
  | _, _ => false
  end.

Fixpoint all2 {A B} (f : A -> B -> bool) (l1 : list A) (l2 : list B) : bool :=
  match l1, l2 with
  | [], [] => true
  | x :: xs, y :: ys => f x y && all2 f xs ys
  | _, _ => false
  end.

Definition mo_eqb (a b : mask_out) : bool :=
  match a, b with
  | MoNone, MoNone => true
  | MoScalar x, MoScalar y => Bool.eqb x y
  | MoArray x, MoArray y => list_eqb Bool.eqb x y
  | _, _ => false
  end.

Definition agree (c : case) : bool :=
  let x := fun idx => nth (Z.to_nat (ravel (shape c) idx)) (data c) None in
  let mf := fun idx => nth (Z.to_nat (ravel (shape c) idx)) (marr c) false in
  match bind (sanitize_bins (bins c)) (rebin_plan_u (same_unit c) (shape c)), impl c with
  | Ok PSelf, OSelf => true
  | Ok (PBins ns bs), OOk sh vals mo um =>
      list_eqb Z.eqb sh ns
      && all2 val_ok (rebin_values (op c) (ignores c) (mk_ c) (shape c) bs x mf) vals
      && mo_eqb (rebin_mask (hm c) (mk_ c) (shape c) bs mf) mo && um
  | Err _, OErr _ => true
  | _, _ => false
  end.

Definition dom (c : case) : bool :=
  match sanitize_bins (bins c) with Ok bs => forallb (fun b => 0 <? b) bs | Err _ => true end.
