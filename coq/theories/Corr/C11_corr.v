(* Correspondence interface for C11: histories of sequence slicing / exploding *)
From NDV Require Import M_Sequence.

Inductive op := OGet (i : seq_in) | OExplode (axis : Z) | OCubeExplode (k : Z) (axis : Z).

Inductive out :=
| OCubeR (c : cube)
| OSeqR (cs : list cube) (ca : option Z) (cls : option (list Z))
| OErrR (e : err).

Record case := mk { s0 : seqm; ops : list op; impl : out }.

Definition strip (l : list (Z * Z * list Z)) : list cube := map (fun '(i, _, sh) => (i, sh)) l.

Fixpoint run_ops (s : seqm) (os : list op) : result seq_res :=
  match os with
  | [] => Ok (RS s)
  | OGet i :: rest =>
      match seq_getitem s i with
      | Ok (RS s') => run_ops s' rest
      | Ok (RC c) => match rest with [] => Ok (RC c) | _ => Err EOther end
      | Err e => Err e
      end
  | OExplode ax :: rest =>
      match seq_explode s ax with
      | Ok (l, nc) => run_ops (mkSeq (strip l) nc) rest
      | Err e => Err e
      end
  | OCubeExplode k ax :: rest =>
      match norm_int (zlen (cubes s)) k with
      | Some k' => match cube_explode (znth k' (cubes s) (0, [])) ax with
                   | Ok l => run_ops (mkSeq (strip l) None) rest
                   | Err e => Err e
                   end
      | None => Err EIndex
      end
  end.

(* an empty cube's source id is not observable (-1) *)
Definition cube_eqb (x y : cube) : bool := ((fst y =? -1) || (fst x =? fst y)) && list_eqb Z.eqb (snd x) (snd y).
Definition onat_eqb := option_eqb Nat.eqb.

Definition agree (c : case) : bool :=
  match run_ops (s0 c) (ops c), impl c with
  | Ok (RC x), OCubeR y => cube_eqb x y
  | Ok (RS s), OSeqR cs ca cls =>
      list_eqb cube_eqb (cubes s) cs && option_eqb Z.eqb (option_map Z.of_nat (common s)) ca
      && match cls, cube_like_shape s with
         | Some l, Ok l' => list_eqb Z.eqb l l'
         | None, Err _ => true
         | None, Ok _ => match cubes s with [] => true | _ => false end
         | _, _ => false
         end
  | Err _, OErrR _ => true
  | _, _ => false
  end.

(* guard of the theorems: cubes of equal ndim >= 1; common axis inside the cubes *)
Definition dom (c : case) : bool :=
  let nd := seq_ndim (s0 c) in
  forallb (fun x => Nat.eqb (length (snd x)) nd && forallb (fun n => 0 <=? n) (snd x)) (cubes (s0 c))
  && match common (s0 c) with Some a => Nat.ltb a nd | None => true end.
