(* Correspondence interface for C02: a chain of <=3 slices applied to a cube with lookup-table extra coords *)
From NDV Require Import M_ExtraCoords.
Open Scope Z_scope.

(* observed table: id, new axes, names, per-component values over its own grid *)
Record otab := mkO { oid : Z; oaxes : list Z; onames : list Z; ovals : list (list Q) }.
Inductive out := OOk (tabs : list otab) (mapping : list Z) (names : list Z) (ndropped : Z) | OErr (e : err).
Record case := mk { nd0 : Z; e0 : ec; chain : list (list item * Z) (* items, cube ndim after the slice *); impl : out }.

Definition qnear (a b : Q) : bool :=
  Qle_bool (Qabs (a - b)) ((1 # 1000000000) * (if Qle_bool 1 (Qabs b) then Qabs b else 1))%Q.

Fixpoint run (e : ec) (nd : Z) (ch : list (list item * Z)) : result (ec * Z) :=
  match ch with
  | [] => Ok (e, nd)
  | (its, nd') :: r => match ec_getitem its e with Ok e' => run e' nd' r | Err er => Err er end
  end.

Definition tab_eqb (t : table) (o : otab) : bool :=
  (tid t =? oid o) && list_eqb Z.eqb (taxes t) (oaxes o) && list_eqb Z.eqb (tnames t) (onames o)
  && list_eqb (list_eqb qnear) (ovals o) (tvals t).

Fixpoint all2 {A B} (f : A -> B -> bool) (l1 : list A) (l2 : list B) : bool :=
  match l1, l2 with
  | [], [] => true
  | x :: xs, y :: ys => f x y && all2 f xs ys
  | _, _ => false
  end.

Definition agree (c : case) : bool :=
  match run (e0 c) (nd0 c) (chain c), impl c with
  | Ok (e, nd), OOk tabs mp names nd_ =>
      all2 tab_eqb (tables e) tabs && list_eqb Z.eqb mp (ec_mapping nd e)
      && list_eqb Z.eqb names (ec_names e)
      (* the number of dropped tables is not compared here: what becomes of dropped coordinates is C03's subject *)
  | Err _, OErr _ => true
  | _, _ => false
  end.
Definition dom (c : case) : bool := true.
