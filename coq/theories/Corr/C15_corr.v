(* Correspondence interface for C15 *)
From NDV Require Import M_Wrappers M_Unwrap.
Open Scope Q_scope.

Inductive out := OOk (F : fits) (dropped : list bool) | OErr (e : err).
Record case := mk { F0 : fits; steps : list step; impl : out }.

Definition qnear (a b : Q) : bool :=
  Qle_bool (Qabs (a - b)) ((1 # 1000000000) * (if Qle_bool 1 (Qabs b) then Qabs b else 1)).
Definition v_near := list_eqb qnear.

Definition lin_matrix (F : fits) : list qvec := zip2 (fun cd row => map (Qmult cd) row) (cdelt F) (pc F).

Definition agree (c : case) : bool :=
  match unwrap (F0 c, repeat false (length (crpix (F0 c)))) (steps c), impl c with
  | Ok (F, d), OOk F' d' =>
      (* the linear part is compared as the product matrix cdelt_i * pc_ij, which is what a FITS WCS
         means by its CDELT+PC or by its CD representation *)
      v_near (crpix F') (crpix F) && list_eqb v_near (lin_matrix F') (lin_matrix F)
      && list_eqb Z.eqb (naxis F') (naxis F) && list_eqb Bool.eqb d' d
  | Err _, OErr _ => true
  | _, _ => false
  end.
Definition dom (c : case) : bool := true.
