(* Correspondence interface for C14: wrapper expressions over the linear probe WCS *)
From NDV Require Import M_Wrappers.
Open Scope Q_scope.

Inductive wexpr :=
| WLin (A Ainv : list qvec) (b : qvec) (tw tp : list Z) (shape : option (list Q)) (bounds : option (list (Q * Q)))
| WResampled (w : wexpr) (f o : qvec)
| WReordered (w : wexpr) (po wo : list nat)
| WCompound (ws : list wexpr) (mapping : list nat).

Fixpoint build (e : wexpr) : result wcs :=
  match e with
  | WLin A Ainv b tw tp sh bd => Ok (lin_wcs A Ainv b tw tp sh bd)
  | WResampled w f o => match build w with Ok W => resampled W f o | Err e => Err e end
  | WReordered w po wo => match build w with Ok W => reordered W po wo | Err e => Err e end
  | WCompound ws mapping =>
      let fix all (l : list wexpr) : result (list wcs) :=
        match l with
        | [] => Ok []
        | x :: r => match build x with
                    | Err e => Err e
                    | Ok W => match all r with Ok Ws => Ok (W :: Ws) | Err e => Err e end
                    end
        end in
      match all ws with Ok Ws => compound Ws mapping | Err e => Err e end
  end.

Inductive out :=
| OOk (np nw : nat) (p2ws : list qvec) (w2ps : list (option qvec)) (wt : list Z) (pt : option (list Z))
      (cm : list (list bool)) (sh : option (list Q)) (bd : option (list (Q * Q)))
| OErr (e : err).

Record case := mk { e : wexpr; pins : list qvec; wins : list qvec; impl : out }.

Definition qnear (a b : Q) : bool :=
  Qle_bool (Qabs (a - b)) ((1 # 1000000000) * (if Qle_bool 1 (Qabs b) then Qabs b else 1)).
Definition v_near (u v : qvec) : bool := list_eqb qnear u v.
Definition lz_eqb := list_eqb Z.eqb.
Definition qq_near (a b : Q * Q) : bool := qnear (fst a) (fst b) && qnear (snd a) (snd b).

(* the w2p of a compound raises on inconsistent input; a compound nested as a member of another one raises likewise,
   so acceptance is decided recursively through the members (a reordering wrapper around a compound is not generated) *)
Definition members_of (ws : list wexpr) : list wcs :=
  (fix all (l : list wexpr) : list wcs :=
     match l with [] => [] | x :: r => match build x with Ok Wx => Wx :: all r | Err _ => all r end end) ws.
Fixpoint w2p_ok (e : wexpr) (world : qvec) : bool :=
  match e with
  | WCompound ws mapping =>
      (fix go (l : list wexpr) (world : qvec) : bool :=
         match l with
         | [] => true
         | x :: r => match build x with
                     | Ok Wx => w2p_ok x (firstn (nworld Wx) world) && go r (skipn (nworld Wx) world)
                     | Err _ => false
                     end
         end) ws world
      && match compound_w2p (members_of ws) mapping (1 # 100000000) world with Ok _ => true | Err _ => false end
  | WResampled w _ _ => w2p_ok w world
  | _ => true
  end.
Definition w2p_res (e : wexpr) (W : wcs) (world : qvec) : option qvec :=
  if w2p_ok e world then
    match e with
    | WCompound ws mapping =>
        match compound_w2p (members_of ws) mapping (1 # 100000000) world with Ok p => Some p | Err _ => None end
    | _ => Some (w2p W world)
    end
  else None.

Definition agree (c : case) : bool :=
  match build (e c), impl c with
  | Ok W, OOk np nw p2ws w2ps wt pt cm sh bd =>
      Nat.eqb np (npix W) && Nat.eqb nw (nworld W)
      && list_eqb v_near (map (p2w W) (pins c)) p2ws
      && list_eqb (option_eqb v_near) (map (w2p_res (e c) W) (wins c)) w2ps
      && lz_eqb wt (wtypes W)
      && match pt with Some p => lz_eqb p (ptypes W) | None => true end
      && list_eqb (list_eqb Bool.eqb) cm (corr W)
      && option_eqb v_near sh (pshape W)
      && option_eqb (list_eqb qq_near) bd (pbounds W)
  | Err _, OErr _ => true
  | _, _ => false
  end.

Definition dom (c : case) : bool := true.
