(* Correspondence interface for C07: the sharing the implementation was measured to have, per operation instance *)
From NDV Require Import M_Store.
Open Scope Z_scope.

(* measured: for each field, Some Share (same object / overlapping memory), Some Fresh (distinct), None (absent) *)
Record case := mk { ops : list (opk * list (field * option mode)) }.      (* one history: its cube-level operations *)

Definition agree_op (km : opk * list (field * option mode)) : bool :=
  forallb (fun fm => match snd fm, mode_of (sig_of (fst km)) (fst fm) with
                     | None, _ => true                       (* the field is absent on source or result *)
                     | Some m, Some m' => mode_eqb m m'
                     | Some _, None => false
                     end) (snd km).
Definition agree (c : case) : bool := forallb agree_op (ops c).
Definition dom (c : case) : bool := true.
