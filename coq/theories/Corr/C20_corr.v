(* Correspondence interface for C20 *)
From NDV Require Import M_Reproject.
Open Scope Z_scope.

Inductive out :=
| ORes (shape : list Z) (data : list (option Q)) (fp : option (list Z)) (attrs_ok : bool)
| OErr (e : err).
Record case := mk {
  src_shape : list Z; data : list Q; src_types : list string;
  a : alg; t : target; shape_out : option (list Z);
  shift : option (list Z);              (* Some: the target is the source grid shifted by whole pixels (array order) *)
  impl : out }.

Definition oq_eqb (x y : option Q) : bool :=
  match x, y with None, None => true | Some u, Some v => Qeq_bool u v | _, _ => false end.

Definition agree (c : case) : bool :=
  match decide (src_types c) (a c) (t c) (shape_out c), impl c with
  | Err _, OErr _ => true
  | Ok s, ORes s' d fp ok =>
      list_eqb Z.eqb s s' && ok &&
      match shift c with
      | None => true
      | Some sh =>
          let r := regrid_shift (src_shape c) s sh (data c) in
          list_eqb oq_eqb r d && match fp with None => true | Some f => list_eqb Z.eqb (footprint r) f end
      end
  | _, _ => false
  end.
Definition dom (c : case) : bool := true.
