(* Correspondence interface for C05: a cube over an exact linear probe WCS (world = A pixel + b) *)
From NDV Require Import M_WorldCoords.
Open Scope Z_scope.

Record case := mk {
  n : nat;                         (* cube ndim *)
  shape : list Z;                  (* the cube's shape *)
  pm : option (list nat);          (* Some mapping for wcs = extra_coords *)
  A : list (list Q); b : list Q;   (* the linear wcs *)
  types : list string; comps : list Z;
  corners : bool; reqs : list axis_req;
  (* implementation: values form as (world index, shape, row-major values) in returned order; high-level form
     as the object ids in returned order *)
  vimpl : option (list (nat * list Z * list Q));
  himpl : option (list Z);
  oimpl : option (list (list nat)) }.   (* utils.wcs.array_indices_for_world_objects on the same WCS: array axes per object *)

Definition dotq (u v : list Q) : Q := fold_right Qplus 0%Q (map (fun '(x, y) => (x * y)%Q) (combine u v)).
Definition linW (A : list (list Q)) (b : list Q) (p : list Q) : list Q :=
  map (fun '(row, bi) => (dotq row p + bi)%Q) (combine A b).
Definition corr_of (A : list (list Q)) : list (list bool) := map (map (fun x => negb (Qeq_bool x 0))) A.

Definition sel (c : case) : result (list nat) :=
  match pm c with
  | Some m => world_indices_ec (corr_of (A c)) (types c) (n c) m (reqs c)
  | None => world_indices (corr_of (A c)) (types c) (n c) (reqs c)
  end.

Definition arr_eqb (x y : nat * list Z * list Q) : bool :=
  Nat.eqb (fst (fst x)) (fst (fst y)) && list_eqb Z.eqb (snd (fst x)) (snd (fst y)) && list_eqb Qeq_bool (snd x) (snd y).

Definition objects_ok (c : case) : bool :=
  match oimpl c with
  | Some l => list_eqb (list_eqb Nat.eqb) l (objects_axes (corr_of (A c)) (n c) (comps c))
  | None => true
  end.

Definition agree (c : case) : bool :=
  objects_ok c &&
  match sel c with
  | Err _ => match vimpl c, himpl c with None, None => true | _, _ => false end
  | Ok ws =>
      let corr := corr_of (A c) in
      match vimpl c with
      | Some v => list_eqb arr_eqb v (map (fun w => let '(sh, vals) := match pm c with
                                                                         | Some m => world_array_ec (linW (A c) (b c)) corr (shape c) m (corners c) w
                                                                         | None => world_array (linW (A c) (b c)) corr (shape c) (corners c) w
                                                                         end in (w, sh, vals))
                                          (values_order ws))
      | None => false
      end
      && match himpl c with
         | Some h => list_eqb Z.eqb h (objects_for (comps c) ws)
         | None => false
         end
  end.
Definition dom (c : case) : bool := true.
