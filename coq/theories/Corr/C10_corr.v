(* Correspondence interface for C10: one arithmetic operation on a cube with exact (dyadic) payloads *)
From NDV Require Import M_Arith.
Open Scope Z_scope.

Inductive op := OpNeg | OpAdd | OpRadd | OpSub | OpRsub | OpMul | OpRmul | OpDiv | OpRdiv | OpPow (k : Z) | OpTo (nu : unit).

(* what the implementation returned: data, unit (scale, exps) if any, uncertainty (kind, values) if any, mask, and
   whether wcs / extra coords / global coords / meta are those of the source; the uncertainty of a power is not compared *)
Record res := mkR { rdata : list Q; runit : option unit; runc : option (ukind * list Q); rmask : option (list bool); rcarried : Z }.
Inductive out := ORes (r : res) | OErr (e : err).
Record case := mk { c : cube; o : op; v : operand; impl : out }.

Definition apply (c : cube) (o : op) (v : operand) : result cube :=
  match o with
  | OpNeg => Ok (neg c)
  | OpAdd | OpRadd => add c v
  | OpSub => sub c v
  | OpRsub => rsub c v
  | OpMul | OpRmul => mul c v
  | OpDiv => truediv c v
  | OpRdiv => rtruediv c v
  | OpPow k => Ok (pow c k)
  | OpTo nu => to_unit c nu
  end.

Definition unit_eqb (a b : option unit) : bool :=
  match a, b with
  | None, None => true
  | Some x, Some y => Qeq_bool (scale x) (scale y) && exps_eqb (exps x) (exps y)
  | _, _ => false
  end.
Definition kind_eqb (a b : ukind) : bool :=
  match a, b with UStd, UStd | UVar, UVar | UInvVar, UInvVar | UUnknown, UUnknown => true | _, _ => false end.
Definition unc_eqb (a b : option (ukind * list Q)) : bool :=
  match a, b with
  | None, None => true
  | Some (k, us), Some (k', us') => kind_eqb k k' && list_eqb Qeq_bool us us'
  | _, _ => false
  end.
Definition is_pow (o : op) : bool := match o with OpPow _ | OpRdiv => true | _ => false end.

Definition agree (x : case) : bool :=
  match apply (c x) (o x) (v x), impl x with
  | Ok r, ORes r' =>
      list_eqb Qeq_bool (data r) (rdata r') && unit_eqb (cunit r) (runit r')
      && (is_pow (o x) || unc_eqb (unc r) (runc r'))
      && option_eqb (list_eqb Bool.eqb) (mask r) (rmask r') && (carried r =? rcarried r')
  | Err e, OErr e' => err_eqb e e'
  | _, _ => false
  end.
Definition dom (x : case) : bool := true.
