(* Correspondence interface for C18: a sequence of cubes over shifted exact linear probe WCS *)
From NDV Require Import M_Wrappers M_Crop M_SeqCrop C14_corr.
Open Scope Z_scope.

Inductive out := OItem (its : list item) | OErr (e : err).
Record case := mk { cubes : list (C14_corr.wexpr * list Z); n : nat; points : list (list (option Q)); impl : out }.

Definition agree (c : case) : bool :=
  let per_cube := mapr (fun cw => match C14_corr.build (fst cw) with
                                  | Ok W => match crop_by_values_item W (snd cw) (points c) true with
                                            | Ok its => Ok (snd cw, its) | Err e => Err e end
                                  | Err e => Err e end) (cubes c) in
  match per_cube with
  | Err _ => match impl c with OErr _ => true | _ => false end
  | Ok l => match seq_crop_item l, impl c with
            | Ok its, OItem its' => list_eqb item_eqb its its'
            | Err _, OErr _ => true
            | _, _ => false
            end
  end.
Definition dom (c : case) : bool := true.
