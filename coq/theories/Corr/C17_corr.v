(* Correspondence interface for C17: a sequence of cubes over exact linear probe WCS (+ linear extra coords) that
   share one coordinate structure *)
From NDV Require Import M_SeqCoords C05_corr.
Open Scope Z_scope.

Record case := mk {
  n : nat; ca : Z;
  cubes : list (list (list Q) * list Q * list Z);      (* A, b, shape of every cube *)
  comps : list Z;
  cimpl : option (list (list (list (list Z * list Q))));    (* coordinate -> position -> components (shape, values) *)
  gcs : list (list (string * Q));
  gimpl : option (list (string * list Q)) }.

Definition arr_eqb (x y : list Z * list Q) : bool := list_eqb Z.eqb (fst x) (fst y) && list_eqb Qeq_bool (snd x) (snd y).
Definition oq_eqb (x : option Q) (y : Q) : bool := match x with Some v => Qeq_bool v y | None => false end.
Fixpoint list_eqb2 {A B} (eqb : A -> B -> bool) (l1 : list A) (l2 : list B) : bool :=
  match l1, l2 with [], [] => true | x :: xs, y :: ys => eqb x y && list_eqb2 eqb xs ys | _, _ => false end.

Definition agree (c : case) : bool :=
  let corr := match cubes c with (A, _, _) :: _ => C05_corr.corr_of A | [] => [] end in
  match seq_common corr (comps c) (n c) (ca c) (map (fun '(A, b, sh) => (C05_corr.linW A b, sh)) (cubes c)), cimpl c with
  | Ok r, Some r' => list_eqb (list_eqb (list_eqb arr_eqb)) r r'
  | Err _, None => true
  | _, _ => false
  end
  && match gimpl c with
     | Some g => list_eqb2 (fun x y => String.eqb (fst x) (fst y) && list_eqb2 oq_eqb (snd x) (snd y)) (seq_axis_coords (gcs c)) g
     | None => false
     end.
Definition dom (c : case) : bool := true.
