(* Correspondence interface for C13: histories of collection edits *)
From NDV Require Import M_Collection.

Inductive op :=
| CSlice (its : list item)
| CSelect (ks : list Z)
| CCopy
| CPop (k : Z)
| CDel (k : Z)
| CUpdate (new : list member) (new_aligned : bool)
| CRefused.                      (* __setitem__, setdefault, popitem, mixing keys and indices *)

(* observed per step: Some state after the op, or None if the op raised (then the state must be unchanged:
   the harness reports the state it re-observed) *)
Record obs := mkObs { raised : bool; state : coll }.
Record case := mk { c0 : coll; ops : list op; trace : list obs }.

Definition member_eqb (a b : member) : bool :=
  (mkey a =? mkey b) && list_eqb Z.eqb (mshape a) (mshape b) && list_eqb Z.eqb (mal a) (mal b) && Bool.eqb (mseq a) (mseq b).
Definition coll_eqb (a b : coll) : bool :=
  list_eqb member_eqb (members a) (members b) && Bool.eqb (aligned a) (aligned b).

Definition step (c : coll) (o : op) : result coll :=
  match o with
  | CSlice its => coll_slice c its
  | CSelect ks => coll_select c ks
  | CCopy => Ok c
  | CPop k | CDel k => coll_remove c k
  | CUpdate new na => coll_update c new na
  | CRefused => Err ENotImpl
  end.

(* the derived collection (slice / select / copy) is a new object: the history continues on it;
   pop / del / update edit in place; a refused op leaves the collection unchanged *)
Fixpoint run (c : coll) (os : list op) (tr : list obs) : bool :=
  match os, tr with
  | [], [] => true
  | o :: os', ob :: tr' =>
      match step c o with
      | Ok c' => negb (raised ob) && coll_eqb c' (state ob) && inv c' && run c' os' tr'
      | Err _ => raised ob && coll_eqb c (state ob) && run c os' tr'
      end
  | _, _ => false
  end.

Definition agree (c : case) : bool := run (c0 c) (ops c) (trace c).
Definition dom (c : case) : bool := inv (c0 c).
