(* Row-major N-d index arithmetic: ravel (Horner / accumulator form), unravel, index boxes. *)
From NDV Require Export Prelude.
Open Scope Z_scope.

Fixpoint zprod (l : list Z) : Z := match l with [] => 1 | x :: t => x * zprod t end.

Fixpoint ravel_acc (acc : Z) (shape idx : list Z) : Z :=
  match shape, idx with
  | s :: ss, i :: is_ => ravel_acc (acc * s + i) ss is_
  | _, _ => acc
  end.
Definition ravel (shape idx : list Z) : Z := ravel_acc 0 shape idx.

Fixpoint unravel (shape : list Z) (flat : Z) : list Z :=
  match shape with
  | [] => []
  | s :: ss => let p := zprod ss in (flat / p) :: unravel ss (flat mod p)
  end.

Fixpoint zip2z (f : Z -> Z -> Z) (a b : list Z) : list Z :=
  match a, b with x :: a', y :: b' => f x y :: zip2z f a' b' | _, _ => [] end.
Fixpoint zip3z (f : Z -> Z -> Z -> Z) (a b c : list Z) : list Z :=
  match a, b, c with x :: a', y :: b', z :: c' => f x y z :: zip3z f a' b' c' | _, _, _ => [] end.
Fixpoint interleave {A} (a b : list A) : list A :=
  match a, b with x :: a', y :: b' => x :: y :: interleave a' b' | _, _ => [] end.

(* all index vectors of a box, in row-major order *)
Fixpoint box (shape : list Z) : list (list Z) :=
  match shape with
  | [] => [[]]
  | s :: ss => flat_map (fun i => map (cons i) (box ss)) (map Z.of_nat (seq 0 (Z.to_nat s)))
  end.

Inductive in_box : list Z -> list Z -> Prop :=
| ib_nil : in_box [] []
| ib_cons s ss i is_ : 0 <= i < s -> in_box ss is_ -> in_box (s :: ss) (i :: is_).

Lemma in_box_length shape idx : in_box shape idx -> length idx = length shape.
Proof. induction 1; cbn [length]; congruence. Qed.

Lemma zprod_pos shape idx : in_box shape idx -> 0 < zprod shape.
Proof. induction 1; cbn [zprod]; nia. Qed.

Lemma ravel_acc_split : forall shape idx acc, length idx = length shape ->
  ravel_acc acc shape idx = acc * zprod shape + ravel_acc 0 shape idx.
Proof.
  induction shape as [|s ss IH]; intros [|i is_] acc H; cbn [length] in H; try discriminate; cbn [ravel_acc zprod].
  - lia.
  - rewrite (IH is_ (acc * s + i)) by lia. rewrite (IH is_ (0 * s + i)) by lia. ring.
Qed.

Lemma ravel_bounds shape idx : in_box shape idx -> 0 <= ravel shape idx < zprod shape.
Proof.
  unfold ravel. induction 1 as [|s ss i is_ Hi Hb IH]; cbn [ravel_acc zprod]; [lia|].
  rewrite ravel_acc_split by (apply in_box_length; assumption).
  pose proof (zprod_pos _ _ Hb). nia.
Qed.

Theorem unravel_ravel shape idx : in_box shape idx -> unravel shape (ravel shape idx) = idx.
Proof.
  unfold ravel. induction 1 as [|s ss i is_ Hi Hb IH]; cbn [ravel_acc unravel]; [reflexivity|].
  rewrite ravel_acc_split by (apply in_box_length; assumption).
  pose proof (ravel_bounds _ _ Hb) as Hr. unfold ravel in Hr.
  pose proof (zprod_pos _ _ Hb) as Hp.
  replace (0 * s + i) with i by lia.
  rewrite Z.div_add_l by lia. rewrite Z.div_small by lia.
  rewrite (Z.add_comm (i * zprod ss)), Z.mod_add by lia. rewrite Z.mod_small by lia.
  rewrite IH. f_equal. lia.
Qed.

(* the reshape trick of rebin: viewing shape (m0*b0, m1*b1, ...) as (m0, b0, m1, b1, ...) keeps the flat index *)
Theorem interleave_ravel : forall ms bs js rs acc,
  length ms = length bs -> length js = length ms -> length rs = length ms ->
  ravel_acc acc (zip2z Z.mul ms bs) (zip3z (fun j b r => j * b + r) js bs rs)
  = ravel_acc acc (interleave ms bs) (interleave js rs).
Proof.
  induction ms as [|m ms IH]; intros [|b bs] [|j js] [|r rs] acc H1 H2 H3; cbn [length] in *; try discriminate;
    cbn [zip2z zip3z interleave ravel_acc]; [reflexivity|].
  rewrite IH by lia. f_equal. ring.
Qed.

Lemma in_box_block ms bs js rs : in_box ms js -> in_box bs rs -> length ms = length bs ->
  in_box (zip2z Z.mul ms bs) (zip3z (fun j b r => j * b + r) js bs rs).
Proof.
  intros Hj. revert bs rs. induction Hj as [|m ms j js Hj Hjs IH]; intros bs rs Hr Hl.
  - inversion Hr; subst; cbn; constructor.
  - inversion Hr as [|b bs' r rs' Hrb Hrs]; subst; [discriminate|]. cbn [zip2z zip3z]. constructor.
    + nia.
    + apply IH; [assumption|cbn [length] in Hl; lia].
Qed.

Lemma box_in : forall shape idx, In idx (box shape) -> in_box shape idx.
Proof.
  induction shape as [|s ss IH]; intros idx H; cbn [box] in H.
  - destruct H as [<-|[]]. constructor.
  - apply in_flat_map in H. destruct H as (i & Hi & Hidx). apply in_map_iff in Hidx.
    destruct Hidx as (t & <- & Ht). apply in_map_iff in Hi. destruct Hi as (n & <- & Hn). apply in_seq in Hn.
    constructor; [lia|apply IH; assumption].
Qed.

Lemma in_box_in : forall shape idx, in_box shape idx -> In idx (box shape).
Proof.
  induction 1 as [|s ss i is_ Hi Hb IH]; cbn [box]; [left; reflexivity|].
  apply in_flat_map. exists i. split.
  - apply in_map_iff. exists (Z.to_nat i). split; [lia|apply in_seq; lia].
  - apply in_map. assumption.
Qed.
