(* Model of CPython / numpy basic index items (a dependency model: validated against CPython by
   harness/props/pyindex.py, not verified). *)
From NDV Require Export Prelude.

Inductive item :=
| IInt (i : Z)
| ISlice (a b st : option Z)
| IEllipsis
| INone.

Definition full_slice : item := ISlice None None None.

Definition oz_eqb := option_eqb Z.eqb.
Definition item_eqb (x y : item) : bool :=
  match x, y with
  | IInt i, IInt j => i =? j
  | ISlice a b s, ISlice a' b' s' => oz_eqb a a' && oz_eqb b b' && oz_eqb s s'
  | IEllipsis, IEllipsis | INone, INone => true
  | _, _ => false
  end.

Definition is_int (it : item) : bool := match it with IInt _ => true | _ => false end.

(* list.__getitem__(int) / ndarray axis int index: negative counts from the end, IndexError outside *)
Definition norm_int (n i : Z) : option Z :=
  let j := if i <? 0 then i + n else i in
  if (0 <=? j) && (j <? n) then Some j else None.

Definition clamp (lo hi x : Z) : Z := Z.max lo (Z.min hi x).

(* slice.indices(n) for step > 0: (start, stop) with 0 <= start, stop <= n *)
Definition adj_pos (n : Z) (dflt : Z) (x : option Z) : Z :=
  match x with
  | None => dflt
  | Some v => clamp 0 n (if v <? 0 then v + n else v)
  end.
Definition slice_bounds (n : Z) (a b : option Z) : Z * Z := (adj_pos n 0 a, adj_pos n n b).
(* slice.indices(n) for step < 0: start, stop in [-1, n-1] *)
Definition adj_neg (n : Z) (dflt : Z) (x : option Z) : Z :=
  match x with
  | None => dflt
  | Some v => clamp (-1) (n - 1) (if v <? 0 then v + n else v)
  end.

(* general: Some (start, stop, step); None for step = 0 (ValueError) *)
Definition slice_indices (n : Z) (a b st : option Z) : option (Z * Z * Z) :=
  let s := match st with None => 1 | Some s => s end in
  if s =? 0 then None
  else if 0 <? s then Some (adj_pos n 0 a, adj_pos n n b, s)
  else Some (adj_neg n (n - 1) a, adj_neg n (-1) b, s).

(* len(range(start, stop, step)) *)
Definition range_len (start stop step : Z) : Z :=
  if 0 <? step then (if start <? stop then (stop - start - 1) / step + 1 else 0)
  else if step <? 0 then (if stop <? start then (start - stop - 1) / (- step) + 1 else 0)
  else 0.

Fixpoint range_from (fuel : nat) (start step : Z) : list Z :=
  match fuel with O => [] | S f => start :: range_from f (start + step) step end.
Definition py_range (start stop step : Z) : list Z :=
  range_from (Z.to_nat (range_len start stop step)) start step.

(* positions selected by a slice on a length-n axis, in order *)
Definition slice_positions (n : Z) (a b st : option Z) : option (list Z) :=
  match slice_indices n a b st with
  | None => None
  | Some (s, e, k) => Some (py_range s e k)
  end.

(* step-1 selection on an axis of length n: (start, length) *)
Definition sel1 (n : Z) (a b : option Z) : Z * Z :=
  let '(s, e) := slice_bounds n a b in (s, Z.max 0 (e - s)).

Lemma adj_pos_range n d x : 0 <= n -> 0 <= d <= n -> 0 <= adj_pos n d x <= n.
Proof. intros Hn Hd; destruct x as [v|]; cbn [adj_pos]; [unfold clamp; lia | lia]. Qed.

Lemma sel1_bounds n a b : 0 <= n ->
  let '(s, l) := sel1 n a b in 0 <= s /\ 0 <= l /\ s + l <= n.
Proof.
  intros Hn. unfold sel1, slice_bounds.
  pose proof (adj_pos_range n 0 a Hn ltac:(lia)).
  pose proof (adj_pos_range n n b Hn ltac:(lia)). lia.
Qed.

Lemma norm_int_range n i j : norm_int n i = Some j -> 0 <= j < n.
Proof.
  unfold norm_int. destruct (i <? 0) eqn:?;
  match goal with |- context [if ?c then _ else _] => destruct c eqn:Hc end; try discriminate;
  intros E; inversion E; subst; lia.
Qed.

Lemma norm_int_nonneg n i : 0 <= i < n -> norm_int n i = Some i.
Proof.
  intros H. unfold norm_int. destruct (i <? 0) eqn:E; [lia|].
  replace ((0 <=? i) && (i <? n)) with true; [reflexivity|]. symmetry; apply andb_true_iff; lia.
Qed.

Lemma norm_int_neg n i : - n <= i < 0 -> norm_int n i = Some (i + n).
Proof.
  intros H. unfold norm_int. destruct (i <? 0) eqn:E; [|lia].
  replace ((0 <=? i + n) && (i + n <? n)) with true; [reflexivity|]. symmetry; apply andb_true_iff; lia.
Qed.

(* ---------- N-d items: None check, astropy's sanitize_slices (Ellipsis expansion, padding) ------ *)
Definition is_none (it : item) : bool := match it with INone => true | _ => false end.
Definition is_ellipsis (it : item) : bool := match it with IEllipsis => true | _ => false end.

Fixpoint expand_at (fill : nat) (its : list item) : list item :=
  match its with
  | [] => []
  | IEllipsis :: rest => repeat full_slice fill ++ rest
  | x :: rest => x :: expand_at fill rest
  end.

Definition item_valid (it : item) : bool :=
  match it with
  | IInt _ => true
  | ISlice _ _ None => true
  | ISlice _ _ (Some s) => (s =? 1) || (s =? 0)      (* "if slc.step and slc.step != 1" *)
  | _ => false
  end.

(* NDCubeSlicingMixin.__getitem__'s None check followed by sanitize_slices(item, nd) *)
Definition strip_redundant_ellipsis (nd : nat) (raw : list item) : list item :=
  if Nat.eqb (length raw) (S nd) && Nat.eqb (length (filter is_ellipsis raw)) 1
  then filter (fun x => negb (is_ellipsis x)) raw else raw.

Definition sanitize (nd : nat) (raw0 : list item) : result (list item) :=
  if existsb is_none raw0 then Err EIndex
  else let raw := strip_redundant_ellipsis nd raw0 in
  if Nat.ltb nd (length raw) then Err EValue
  else
    let ne := length (filter is_ellipsis raw) in
    if Nat.ltb 1 ne then Err EIndex
    else
      let its := if Nat.eqb ne 1 then expand_at (nd - (length raw - 1)) raw else raw in
      if forallb item_valid its then Ok (its ++ repeat full_slice (nd - length its))
      else Err EIndex.

(* rank of axis a among the axes that survive (are not integer-indexed) *)
Definition rank_kept (its : list item) (a : nat) : Z :=
  zlen (filter (fun x => negb (is_int x)) (firstn a its)).

(* numpy's selection on one axis of length n: (start, length, dropped) *)
Definition np_axis_sel (n : Z) (it : item) : result (Z * Z * bool) :=
  match it with
  | IInt i => match norm_int n i with Some j => Ok (j, 1, true) | None => Err EIndex end
  | ISlice a b None | ISlice a b (Some 1) => let '(s, l) := sel1 n a b in Ok (s, l, false)
  | ISlice _ _ (Some _) => Err EValue
  | _ => Err EIndex
  end.

Fixpoint map2r {A B C} (f : A -> B -> result C) (l1 : list A) (l2 : list B) : result (list C) :=
  match l1, l2 with
  | [], [] => Ok []
  | x :: xs, y :: ys =>
      match f x y with
      | Err e => Err e
      | Ok c => match map2r f xs ys with Ok cs => Ok (c :: cs) | Err e => Err e end
      end
  | _, _ => Err EOther
  end.

Fixpoint mapr {A B} (f : A -> result B) (l : list A) : result (list B) :=
  match l with
  | [] => Ok []
  | x :: xs => match f x with
               | Err e => Err e
               | Ok y => match mapr f xs with Ok ys => Ok (y :: ys) | Err e => Err e end
               end
  end.
Definition sels_shape (sels : list (Z * Z * bool)) : list Z :=
  map (fun '(_, l, _) => l) (filter (fun '(_, _, d) => negb d) sels).

Lemma expand_at_length fill its : length (filter is_ellipsis its) = 1%nat ->
  length (expand_at fill its) = (length its - 1 + fill)%nat.
Proof.
  induction its as [|x xs IH]; cbn [filter length expand_at]; [discriminate|].
  destruct x; cbn [is_ellipsis length]; intros H;
    try (rewrite IH by assumption; destruct xs; [cbn in H; discriminate | cbn [length]; lia]).
  rewrite app_length, repeat_length. lia.
Qed.

Lemma sanitize_length nd raw its : sanitize nd raw = Ok its -> length its = nd.
Proof.
  unfold sanitize. destruct (existsb is_none raw); [discriminate|].
  generalize (strip_redundant_ellipsis nd raw). clear raw. intros raw. cbv zeta.
  destruct (Nat.ltb nd (length raw)) eqn:E1; [discriminate|]. apply Nat.ltb_ge in E1.
  destruct (Nat.ltb 1 (length (filter is_ellipsis raw))) eqn:E2; [discriminate|].
  destruct (Nat.eqb (length (filter is_ellipsis raw)) 1) eqn:E3.
  - apply Nat.eqb_eq in E3.
    destruct (forallb item_valid _); [|discriminate]. intros H; inversion H; subst; clear H.
    rewrite app_length, repeat_length, expand_at_length by assumption.
    assert (1 <= length raw)%nat.
    { destruct raw; [cbn in E3; discriminate | cbn [length]; lia]. }
    lia.
  - destruct (forallb item_valid raw); [|discriminate]. intros H; inversion H; subst; clear H.
    rewrite app_length, repeat_length. lia.
Qed.
