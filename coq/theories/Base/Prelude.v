(* Shared prelude: Z-indexed list helpers, result type, comparator plumbing.
   No axioms, no proofs that matter for properties here: only definitions and small lemmas. *)
From Coq Require Export String.
From Coq Require Export ZArith List Bool Lia.
Export ListNotations.
Open Scope Z_scope.

(* Outcome of a modelled Python call: value or exception class. *)
Inductive err := EIndex | EValue | EType | EUnits | ENotImpl | EAttr | EOther.
Inductive result (A : Type) := Ok (a : A) | Err (e : err).
Arguments Ok {A} a.
Arguments Err {A} e.

Definition err_eqb (a b : err) : bool :=
  match a, b with
  | EIndex, EIndex | EValue, EValue | EType, EType | EUnits, EUnits
  | ENotImpl, ENotImpl | EAttr, EAttr | EOther, EOther => true
  | _, _ => false
  end.

Definition bind {A B} (r : result A) (f : A -> result B) : result B :=
  match r with Ok a => f a | Err e => Err e end.

Definition zlen {A} (l : list A) : Z := Z.of_nat (length l).
Definition zskipn {A} (i : Z) (l : list A) : list A := skipn (Z.to_nat i) l.
Definition zfirstn {A} (i : Z) (l : list A) : list A := firstn (Z.to_nat i) l.
Definition znth {A} (i : Z) (l : list A) (d : A) : A := nth (Z.to_nat i) l d.
(* sub l s n : n elements starting at s *)
Definition zsub {A} (s n : Z) (l : list A) : list A := zfirstn n (zskipn s l).

Fixpoint zsum (l : list Z) : Z := match l with [] => 0 | x :: xs => x + zsum xs end.

Lemma zlen_nonneg {A} (l : list A) : 0 <= zlen l.
Proof. unfold zlen; lia. Qed.
Lemma zlen_app {A} (l1 l2 : list A) : zlen (l1 ++ l2) = zlen l1 + zlen l2.
Proof. unfold zlen; rewrite app_length; lia. Qed.
Lemma zlen_cons {A} (x : A) l : zlen (x :: l) = 1 + zlen l.
Proof. unfold zlen; cbn [length]; lia. Qed.
Lemma zlen_concat {A} (ls : list (list A)) : zlen (concat ls) = zsum (map zlen ls).
Proof. induction ls as [|l ls IH]; cbn [concat map zsum]; [reflexivity|]. rewrite zlen_app, IH; reflexivity. Qed.

Fixpoint list_eqb {A} (eqb : A -> A -> bool) (l1 l2 : list A) : bool :=
  match l1, l2 with
  | [], [] => true
  | x :: xs, y :: ys => eqb x y && list_eqb eqb xs ys
  | _, _ => false
  end.

Definition option_eqb {A} (eqb : A -> A -> bool) (a b : option A) : bool :=
  match a, b with
  | None, None => true
  | Some x, Some y => eqb x y
  | _, _ => false
  end.

Lemma list_eqb_eq {A} (eqb : A -> A -> bool) :
  (forall a b, eqb a b = true <-> a = b) -> forall l1 l2, list_eqb eqb l1 l2 = true <-> l1 = l2.
Proof.
  intros H l1; induction l1 as [|x xs IH]; intros [|y ys]; cbn [list_eqb].
  - split; reflexivity.
  - split; discriminate.
  - split; discriminate.
  - rewrite andb_true_iff, H, IH. split; [intros [-> ->]; reflexivity | intros E; inversion E; auto].
Qed.

(* --- comparator plumbing used by generated cases_*.v files ----------------------------------- *)
(* classify: for every case, 0 = agrees inside dom; 1 = disagrees inside dom; 2 = outside dom and
   agrees; 3 = outside dom and disagrees.  Only non-zero entries are printed.                      *)
Fixpoint classify_from {C} (dom agree : C -> bool) (i : Z) (cs : list C) : list (Z * Z) :=
  match cs with
  | [] => []
  | c :: cs' =>
      let code := (if dom c then 0 else 2) + (if agree c then 0 else 1) in
      if code =? 0 then classify_from dom agree (i + 1) cs'
      else (i, code) :: classify_from dom agree (i + 1) cs'
  end.
Definition classify {C} (dom agree : C -> bool) (cs : list C) : list (Z * Z) :=
  classify_from dom agree 0 cs.
