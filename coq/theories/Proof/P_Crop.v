From NDV Require Import M_Crop.
From Coq Require Import Lia Lqa.
Open Scope Z_scope.

Lemma zmin_le l d : zmin_l l d <= d /\ Forall (fun x => zmin_l l d <= x) l.
Proof. induction l as [|x l [IH1 IH2]]; cbn [zmin_l fold_right]; [split; [lia|constructor]|]. fold (zmin_l l d). split; [lia|]. constructor; [lia|]. eapply Forall_impl; [|exact IH2]. cbn; intros; lia. Qed.
Lemma zmax_ge l d : d <= zmax_l l d /\ Forall (fun x => x <= zmax_l l d) l.
Proof. induction l as [|x l [IH1 IH2]]; cbn [zmax_l fold_right]; [split; [lia|constructor]|]. fold (zmax_l l d). split; [lia|]. constructor; [lia|]. eapply Forall_impl; [|exact IH2]. cbn; intros; lia. Qed.
Lemma zmin_in l d : zmin_l l d = d \/ In (zmin_l l d) l.
Proof. induction l as [|x l IH]; cbn [zmin_l fold_right]; [left; reflexivity|]. fold (zmin_l l d). destruct (Z.min_spec x (zmin_l l d)) as [[_ ->]|[_ ->]]; [right; left; reflexivity|]. destruct IH; [left; assumption|right; right; assumption]. Qed.
Lemma zmax_in l d : zmax_l l d = d \/ In (zmax_l l d) l.
Proof. induction l as [|x l IH]; cbn [zmax_l fold_right]; [left; reflexivity|]. fold (zmax_l l d). destruct (Z.max_spec x (zmax_l l d)) as [[_ ->]|[_ ->]]; [|right; left; reflexivity]. destruct IH; [left; assumption|right; right; assumption]. Qed.

(* the positions numpy selects on an axis of length len for the emitted item *)
Definition selects (len : Z) (it : item) (k : Z) : Prop :=
  match np_axis_sel len it with Ok (s, l, _) => s <= k < s + l | Err _ => False end.

(* the emitted range runs from the smallest to the largest index of the points (all on the array): it
   contains every point and any other range containing them all contains it *)
Theorem axis_item_box idxs keepdims len x : idxs <> [] -> Forall (fun i => 0 <= i < len) idxs ->
  let lo := zmin_l (tl idxs) (hd 0 idxs) in let hi := zmax_l (tl idxs) (hd 0 idxs) in
  (selects len (axis_item len idxs keepdims) x <-> lo <= x <= hi) /\ In lo idxs /\ In hi idxs.
Proof.
  destruct idxs as [|i0 r]; [congruence|]. intros _ Hall. cbn [tl hd].
  set (lo := zmin_l r i0). set (hi := zmax_l r i0).
  inversion Hall as [|? ? H0 Hr]; subst.
  destruct (zmin_le r i0) as [Hm1 Hm2]. destruct (zmax_ge r i0) as [HM1 HM2].
  assert (Hlo : 0 <= lo < len).
  { destruct (zmin_in r i0) as [E|E]; unfold lo; [rewrite E; lia|]. eapply Forall_forall in Hr; [|exact E]. lia. }
  assert (Hhi : 0 <= hi < len).
  { destruct (zmax_in r i0) as [E|E]; unfold hi; [rewrite E; lia|]. eapply Forall_forall in Hr; [|exact E]. lia. }
  assert (Hle : lo <= hi) by (unfold lo, hi; lia).
  split; [|split].
  - unfold selects, axis_item. fold lo. fold hi.
    replace (Z.max lo 0) with lo by lia. replace (Z.max (Z.min (hi + 1) len) lo) with (hi + 1) by lia.
    destruct ((hi + 1 - lo =? 1) && negb keepdims) eqn:E.
    + apply andb_true_iff in E. destruct E as [E _]. cbn [np_axis_sel]. rewrite norm_int_nonneg by lia. lia.
    + cbn [np_axis_sel]. unfold sel1, slice_bounds. cbn [adj_pos]. unfold clamp.
      destruct (lo <? 0) eqn:E1; [lia|]. destruct (hi + 1 <? 0) eqn:E2; [lia|]. lia.
  - destruct (zmin_in r i0) as [E|E]; [left; symmetry; exact E|right; exact E].
  - destruct (zmax_in r i0) as [E|E]; [left; symmetry; exact E|right; exact E].
Qed.

(* keepdims changes only whether a length-1 axis is kept, never which elements are selected *)
Theorem axis_item_keepdims idxs len x : idxs <> [] -> Forall (fun i => 0 <= i < len) idxs ->
  (selects len (axis_item len idxs true) x <-> selects len (axis_item len idxs false) x).
Proof.
  intros Hne Hall. destruct (axis_item_box idxs true len x Hne Hall) as [H1 _].
  destruct (axis_item_box idxs false len x Hne Hall) as [H2 _]. cbv zeta in *. rewrite H1, H2. reflexivity.
Qed.

(* points off the array never exclude an on-array point: every index that lies on the array is selected,
   whatever the other points are (below 0 or beyond the end) *)
Theorem axis_item_on_array idxs keepdims len k : In k idxs -> 0 <= k < len -> selects len (axis_item len idxs keepdims) k.
Proof.
  intros Hin Hk. destruct idxs as [|i0 r]; [destruct Hin|]. unfold selects, axis_item.
  destruct (zmin_le r i0) as [Hm1 Hm2]. destruct (zmax_ge r i0) as [HM1 HM2].
  set (mn := zmin_l r i0) in *. set (mx := zmax_l r i0) in *.
  assert (Hk' : mn <= k <= mx).
  { destruct Hin as [<-|Hin]; [lia|]. eapply Forall_forall in Hm2; [|exact Hin]. eapply Forall_forall in HM2; [|exact Hin]. lia. }
  set (lo := Z.max mn 0). set (hi := Z.max (Z.min (mx + 1) len) lo).
  assert (lo <= k < hi) by (unfold lo, hi; lia).
  destruct ((hi - lo =? 1) && negb keepdims) eqn:E.
  - apply andb_true_iff in E. destruct E as [E _]. assert (lo = k) by lia. subst lo. cbn [np_axis_sel].
    rewrite H0. rewrite norm_int_nonneg by lia. lia.
  - cbn [np_axis_sel]. unfold sel1, slice_bounds. cbn [adj_pos]. unfold clamp.
    assert (0 <= lo) by (unfold lo; lia).
    destruct (lo <? 0) eqn:E1; [lia|]. destruct (hi <? 0) eqn:E2; [lia|]. lia.
Qed.

(* untouched axes are left whole; a result that would be a single element (every axis an int) is refused *)
Theorem crop_item_spec shape per_axis keepdims its : crop_item shape per_axis keepdims = Ok its ->
  its = map (fun '(len, idxs) => axis_item len idxs keepdims) (combine shape per_axis) /\
  (its = [] \/ exists it, In it its /\ is_int it = false).
Proof.
  unfold crop_item. set (l := map (fun '(len, idxs) => axis_item len idxs keepdims) (combine shape per_axis)).
  destruct (forallb is_int l && negb match l with [] => true | _ => false end) eqn:E; [discriminate|].
  intros H; inversion H; subst. split; [reflexivity|].
  apply andb_false_iff in E. destruct E as [E|E].
  - right. clear -E. induction l as [|x l IH]; [discriminate|]. cbn [forallb] in E. apply andb_false_iff in E.
    destruct E as [E|E]; [exists x; split; [left; reflexivity|exact E]|].
    destruct (IH E) as (it & Hin & Hit). exists it. split; [right; assumption|assumption].
  - left. destruct l; [reflexivity|discriminate].
Qed.

(* whatever the points (on or off the array, as long as one of them is on it): the emitted region lies on the array,
   and without keepdims an axis is kept as a slice only if the region is longer than one element *)
Theorem axis_item_clipped idxs len k : In k idxs -> 0 <= k < len ->
  match axis_item len idxs false with
  | IInt i => 0 <= i < len
  | ISlice (Some lo) (Some hi) None => 0 <= lo /\ hi <= len /\ hi - lo >= 2
  | _ => False
  end.
Proof.
  intros Hin Hk. destruct idxs as [|i0 r]; [destruct Hin|]. unfold axis_item.
  destruct (zmin_le r i0) as [Hm1 Hm2]. destruct (zmax_ge r i0) as [HM1 HM2].
  set (mn := zmin_l r i0) in *. set (mx := zmax_l r i0) in *.
  assert (Hk' : mn <= k <= mx).
  { destruct Hin as [<-|Hin]; [lia|]. eapply Forall_forall in Hm2; [|exact Hin]. eapply Forall_forall in HM2; [|exact Hin]. lia. }
  set (lo := Z.max mn 0). set (hi := Z.max (Z.min (mx + 1) len) lo).
  assert (lo <= k < hi) by (unfold lo, hi; lia).
  assert (hi <= len) by (unfold hi, lo; lia).
  destruct ((hi - lo =? 1) && negb false) eqn:E.
  - unfold lo in *. lia.
  - rewrite andb_true_r in E. unfold lo in *. lia.
Qed.

Theorem axis_item_untouched len keepdims : axis_item len [] keepdims = full_slice.
Proof. reflexivity. Qed.

(* nearest-pixel rounding: floor(x + 1/2), so a position exactly on a pixel edge k - 1/2 belongs to pixel k *)
Theorem round_half_up_spec q : (inject_Z (round_half_up q) - (1 # 2) <= q < inject_Z (round_half_up q) + (1 # 2))%Q.
Proof.
  unfold round_half_up. pose proof (Qfloor_le (q + (1 # 2))) as H1. pose proof (Qlt_floor (q + (1 # 2))) as H2.
  rewrite inject_Z_plus in H2. change (inject_Z 1) with 1%Q in H2. split; lra.
Qed.
