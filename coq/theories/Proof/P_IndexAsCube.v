(* Proofs about the index_as_cube model: the pieces prescribed by the code concatenate to numpy's
   slice of the concatenation, for any number of cubes of any (positive) lengths. *)
From NDV Require Import M_IndexAsCube.

Section ZList.
Context {A : Type}.
Implicit Types l : list A.

Lemma zskipn_app_right l1 l2 s : zlen l1 <= s -> zskipn s (l1 ++ l2) = zskipn (s - zlen l1) l2.
Proof.
  intros H. unfold zskipn, zlen in *. rewrite skipn_app.
  rewrite (skipn_all2 l1) by lia. cbn [app]. f_equal. lia.
Qed.

Lemma zskipn_app_left l1 l2 s : 0 <= s <= zlen l1 -> zskipn s (l1 ++ l2) = zskipn s l1 ++ l2.
Proof.
  intros H. unfold zskipn, zlen in *. rewrite skipn_app.
  replace (Z.to_nat s - length l1)%nat with O by lia. reflexivity.
Qed.

Lemma zsub_app_right l1 l2 s n : zlen l1 <= s -> zsub s n (l1 ++ l2) = zsub (s - zlen l1) n l2.
Proof. intros H. unfold zsub. rewrite zskipn_app_right by assumption. reflexivity. Qed.

Lemma zlen_zskipn l s : 0 <= s <= zlen l -> zlen (zskipn s l) = zlen l - s.
Proof. intros H. unfold zlen, zskipn in *. rewrite skipn_length. lia. Qed.

Lemma zsub_app_left l1 l2 s n : 0 <= s -> 0 <= n -> s + n <= zlen l1 -> zsub s n (l1 ++ l2) = zsub s n l1.
Proof.
  intros Hs Hn H. unfold zsub. rewrite zskipn_app_left by lia.
  unfold zfirstn. rewrite firstn_app.
  pose proof (zlen_zskipn l1 s ltac:(lia)) as Hl. unfold zlen in *.
  replace (Z.to_nat n - length (zskipn s l1))%nat with O by lia.
  cbn [firstn]. apply app_nil_r.
Qed.

Lemma zsub_app_mid l1 l2 s n : 0 <= s <= zlen l1 -> zlen l1 <= s + n ->
  zsub s n (l1 ++ l2) = zskipn s l1 ++ zsub 0 (s + n - zlen l1) l2.
Proof.
  intros Hs H. unfold zsub. rewrite zskipn_app_left by lia.
  unfold zfirstn. rewrite firstn_app.
  pose proof (zlen_zskipn l1 s ltac:(lia)) as Hl. unfold zlen in *.
  rewrite firstn_all2 by lia. f_equal. unfold zskipn at 2. cbn [Z.to_nat skipn].
  f_equal. unfold zlen in *. lia.
Qed.

Lemma zsub_to_end l s : 0 <= s <= zlen l -> zsub s (zlen l - s) l = zskipn s l.
Proof.
  intros H. unfold zsub, zfirstn. apply firstn_all2.
  pose proof (zlen_zskipn l s H) as Hl. unfold zlen in *. lia.
Qed.

Lemma zsub_nil s n : zsub s n (@nil A) = [].
Proof. unfold zsub, zskipn, zfirstn. rewrite skipn_nil, firstn_nil. reflexivity. Qed.

Lemma zsub_zero_len l s : zsub s 0 l = [].
Proof. unfold zsub, zfirstn. reflexivity. Qed.

Lemma zsub_whole l : zsub 0 (zlen l) l = l.
Proof. unfold zsub, zskipn, zfirstn, zlen. cbn [Z.to_nat skipn]. rewrite Nat2Z.id. apply firstn_all. Qed.
End ZList.

(* ---------- structural pieces ---------------------------------------------------------------- *)
Fixpoint struct_pieces (lens : list Z) (a b : Z) : list piece :=
  match lens with
  | [] => []
  | l :: ls =>
      if l <=? a then shiftp (struct_pieces ls (a - l) (b - l))
      else if b <=? l then [(O, a, b - a)]
      else (O, a, l - a) :: shiftp (struct_pieces ls 0 (b - l))
  end.

Lemma extract_shiftp {A} (c : list A) cs ps :
  map (extract (c :: cs)) (shiftp ps) = map (extract cs) ps.
Proof.
  unfold shiftp. rewrite map_map. apply map_ext. intros [[k s] l]. reflexivity.
Qed.

Lemma struct_pieces_spec {A} (cubes : list (list A)) : forall a b, 0 <= a <= b ->
  concat (map (extract cubes) (struct_pieces (map zlen cubes) a b)) = zsub a (b - a) (concat cubes).
Proof.
  induction cubes as [|c cs IH]; intros a b Hab; cbn [map struct_pieces concat].
  - symmetry; apply zsub_nil.
  - pose proof (zlen_nonneg c) as Hc.
    destruct (zlen c <=? a) eqn:E1.
    + rewrite extract_shiftp, IH by lia. rewrite zsub_app_right by lia. f_equal. lia.
    + destruct (b <=? zlen c) eqn:E2.
      * cbn [map concat extract nth]. rewrite app_nil_r. symmetry. apply zsub_app_left; lia.
      * cbn [map concat]. rewrite extract_shiftp, IH by lia.
        cbn [extract nth]. rewrite zsub_to_end by lia.
        rewrite zsub_app_mid by lia. f_equal. f_equal; lia.
Qed.

(* ---------- the code's pieces are the structural pieces ------------------------------------- *)
Definition allpos (lens : list Z) : Prop := Forall (fun l => 0 < l) lens.

Lemma locate_cons l ls i :
  locate (l :: ls) i = if i <? l then Some (O, i)
                       else match locate ls (i - l) with Some (k, j) => Some (S k, j) | None => None end.
Proof. reflexivity. Qed.

Lemma locate_some lens : allpos lens -> forall i, 0 <= i < zsum lens ->
  exists k j, locate lens i = Some (k, j) /\ 0 <= j < nth k lens 0 /\ (k < length lens)%nat.
Proof.
  induction 1 as [|l ls Hl Hls IH]; intros i Hi; cbn [zsum] in Hi; [lia|].
  rewrite locate_cons. destruct (i <? l) eqn:E.
  - exists O, i. cbn [nth length]. repeat split; lia.
  - destruct (IH (i - l) ltac:(lia)) as (k & j & -> & Hj & Hk).
    exists (S k), j. cbn [nth length]. repeat split; lia.
Qed.

Lemma zsum_nonneg lens : Forall (fun l => 0 <= l) lens -> 0 <= zsum lens.
Proof. induction 1; cbn [zsum]; lia. Qed.

Lemma locate_none lens : forall i, zsum lens <= i -> Forall (fun l => 0 <= l) lens -> locate lens i = None.
Proof.
  induction lens as [|l ls IH]; intros i Hi Hp; [reflexivity|].
  inversion Hp as [|? ? Hl Hls]; subst. cbn [zsum] in Hi. rewrite locate_cons.
  pose proof (zsum_nonneg ls Hls).
  destruct (i <? l) eqn:E; [lia|]. rewrite IH; [reflexivity|lia|assumption].
Qed.

Lemma locate_zero l ls : 0 < l -> locate (l :: ls) 0 = Some (O, 0).
Proof. intros H. rewrite locate_cons. destruct (0 <? l) eqn:E; [reflexivity|lia]. Qed.

Lemma map_seq_shift {B} (f : nat -> B) s n : map f (seq (S s) n) = map (fun i => f (S i)) (seq s n).
Proof. rewrite <- seq_shift, map_map. reflexivity. Qed.

Lemma shiftp_app p q : shiftp (p ++ q) = shiftp p ++ shiftp q.
Proof. apply map_app. Qed.

Lemma Some_inj {B} (x y : B) : Some x = Some y -> x = y.
Proof. congruence. Qed.

Lemma map_nth_shift (l : Z) ls s n :
  map (fun i => (i, 0, nth i (l :: ls) 0)) (seq (S s) n) =
  shiftp (map (fun i => (i, 0, nth i ls 0)) (seq s n)).
Proof. unfold shiftp. rewrite map_map, map_seq_shift. apply map_ext. reflexivity. Qed.

Lemma code_pieces_cons_skip l ls a b : l <= a -> a < b ->
  code_pieces (l :: ls) a b = option_map shiftp (code_pieces ls (a - l) (b - l)).
Proof.
  intros Ha Hb. unfold code_pieces. rewrite !locate_cons.
  destruct (a <? l) eqn:E1; [lia|]. destruct (b - 1 <? l) eqn:E2; [lia|].
  replace (b - 1 - l) with (b - l - 1) by lia.
  destruct (locate ls (a - l)) as [[k1 j1]|]; [|reflexivity].
  destruct (locate ls (b - l - 1)) as [[k2 j2]|]; [|reflexivity].
  cbn [Nat.eqb]. destruct (Nat.eqb k1 k2); cbn [option_map shiftp map]; [reflexivity|].
  f_equal. cbn [nth]. f_equal. unfold shiftp. rewrite map_app, map_map. cbn [map]. f_equal.
  replace (S k2 - S k1 - 1)%nat with (k2 - k1 - 1)%nat by lia.
  rewrite map_seq_shift. apply map_ext. intros i. reflexivity.
Qed.

Lemma code_pieces_struct lens : allpos lens -> forall a b, 0 <= a < b -> b <= zsum lens ->
  code_pieces lens a b = Some (struct_pieces lens a b).
Proof.
  induction 1 as [|l ls Hl Hls IH]; intros a b Hab Hb; cbn [zsum] in Hb; [lia|].
  cbn [struct_pieces]. destruct (l <=? a) eqn:E1.
  - rewrite code_pieces_cons_skip by lia. rewrite IH by lia. reflexivity.
  - destruct (b <=? l) eqn:E2.
    + unfold code_pieces. rewrite !locate_cons.
      destruct (a <? l) eqn:E3; [|lia]. destruct (b - 1 <? l) eqn:E4; [|lia].
      cbn [Nat.eqb]. do 3 f_equal. lia.
    + (* a < l < b : first cube to its end, then continue from 0 in the tail *)
      specialize (IH 0 (b - l) ltac:(lia) ltac:(lia)).
      unfold code_pieces in IH |- *. rewrite !locate_cons.
      destruct (a <? l) eqn:E3; [|lia]. destruct (b - 1 <? l) eqn:E4; [lia|].
      replace (b - 1 - l) with (b - l - 1) by lia.
      destruct ls as [|l' ls']; [cbn [zsum] in Hb; lia|].
      inversion Hls as [|? ? Hl' Hls']; subst.
      rewrite (locate_zero l' ls' Hl') in IH.
      destruct (locate (l' :: ls') (b - l - 1)) as [[k2 j2]|]; [|discriminate].
      cbn [Nat.eqb]. change (nth 0 (l :: l' :: ls') 0) with l.
      remember (struct_pieces (l' :: ls') 0 (b - l)) as sp eqn:Hsp. clear Hsp.
      destruct k2 as [|k2']; cbn [Nat.eqb] in IH; apply Some_inj in IH; subst sp.
      * replace (1 - 0 - 1)%nat with O by lia. cbn [seq map app shiftp].
        do 4 f_equal. lia.
      * replace (S (S k2') - 0 - 1)%nat with (S k2') by lia.
        replace (S k2' - 0 - 1)%nat with k2' by lia.
        f_equal. f_equal. rewrite map_nth_shift. cbn [seq]. unfold shiftp. cbn [map].
        rewrite !map_app. cbn [map].
        replace (nth 0 (l' :: ls') 0 - 0) with (nth 0 (l' :: ls') 0) by lia. reflexivity.
Qed.

(* ---------- shape of the pieces: non-empty, inside their cube, strictly increasing cube index -- *)
Definition piece_ok (lens : list Z) (p : piece) : Prop :=
  let '(k, s, l) := p in 0 <= s /\ 0 < l /\ s + l <= nth k lens 0 /\ (k < length lens)%nat.

Definition piece_idx (p : piece) : nat := fst (fst p).

Inductive increasing_from : nat -> list piece -> Prop :=
| inc_nil m : increasing_from m []
| inc_cons m p ps : (m <= piece_idx p)%nat -> increasing_from (S (piece_idx p)) ps ->
                    increasing_from m (p :: ps).

Lemma increasing_shiftp m ps : increasing_from m ps -> increasing_from (S m) (shiftp ps).
Proof.
  induction 1 as [|m [[k s] l] ps Hm Hps IH]; cbn [shiftp map]; constructor; cbn [piece_idx fst] in *; [lia|exact IH].
Qed.

Lemma increasing_weaken m m' ps : (m' <= m)%nat -> increasing_from m ps -> increasing_from m' ps.
Proof. intros H Hi. destruct Hi; constructor; [lia|assumption]. Qed.

Lemma piece_ok_shiftp l ls ps : Forall (piece_ok ls) ps -> Forall (piece_ok (l :: ls)) (shiftp ps).
Proof.
  intros H. unfold shiftp. apply Forall_map. eapply Forall_impl; [|exact H].
  intros [[k s] n] Hp. cbn [piece_ok nth length] in *. lia.
Qed.

Lemma struct_pieces_ok lens : allpos lens -> forall a b, 0 <= a < b -> b <= zsum lens ->
  Forall (piece_ok lens) (struct_pieces lens a b) /\ increasing_from O (struct_pieces lens a b).
Proof.
  induction 1 as [|l ls Hl Hls IH]; intros a b Hab Hb; cbn [zsum] in Hb; [lia|].
  cbn [struct_pieces]. destruct (l <=? a) eqn:E1.
  - destruct (IH (a - l) (b - l) ltac:(lia) ltac:(lia)) as [H1 H2]. split.
    + apply piece_ok_shiftp; assumption.
    + eapply increasing_weaken; [|apply increasing_shiftp; exact H2]. lia.
  - destruct (b <=? l) eqn:E2.
    + split; [constructor; [cbn [piece_ok nth length]; lia|constructor]|].
      constructor; [cbn; lia|constructor].
    + destruct (IH 0 (b - l) ltac:(lia) ltac:(lia)) as [H1 H2]. split.
      * constructor; [cbn [piece_ok nth length]; lia|]. apply piece_ok_shiftp; assumption.
      * constructor; [cbn; lia|]. cbn [piece_idx fst]. apply increasing_shiftp; exact H2.
Qed.

Lemma all_pieces_spec {A} (cubes : list (list A)) :
  concat (map (extract cubes) (all_pieces (map zlen cubes))) = concat cubes.
Proof.
  induction cubes as [|c cs IH]; [reflexivity|]. cbn [map all_pieces concat].
  rewrite extract_shiftp, IH. cbn [extract nth]. rewrite zsub_whole. reflexivity.
Qed.

Lemma all_pieces_ok lens : allpos lens ->
  Forall (piece_ok lens) (all_pieces lens) /\ increasing_from O (all_pieces lens).
Proof.
  induction 1 as [|l ls Hl Hls [IH1 IH2]]; cbn [all_pieces]; [split; constructor|]. split.
  - constructor; [cbn [piece_ok nth length]; lia|]. apply piece_ok_shiftp; assumption.
  - constructor; [cbn; lia|]. cbn [piece_idx fst]. apply increasing_shiftp; exact IH2.
Qed.

(* ---------- integer index ------------------------------------------------------------------- *)
Lemma locate_elem {A} (d : A) (cubes : list (list A)) : forall i, 0 <= i < zlen (concat cubes) ->
  exists k j, locate (map zlen cubes) i = Some (k, j) /\ 0 <= j < zlen (nth k cubes []) /\
              (k < length cubes)%nat /\ znth j (nth k cubes []) d = znth i (concat cubes) d.
Proof.
  induction cubes as [|c cs IH]; intros i Hi; cbn [concat] in Hi.
  - unfold zlen in Hi; cbn in Hi; lia.
  - cbn [map]. rewrite locate_cons. rewrite zlen_app in Hi. pose proof (zlen_nonneg c).
    destruct (i <? zlen c) eqn:E.
    + exists O, i. cbn [nth length concat]. repeat split; try lia.
      unfold znth. rewrite app_nth1; [reflexivity|]. unfold zlen in *; lia.
    + destruct (IH (i - zlen c) ltac:(lia)) as (k & j & -> & Hj & Hk & Hv).
      exists (S k), j. cbn [nth length concat]. repeat split; try lia.
      rewrite Hv. unfold znth. rewrite app_nth2; [|unfold zlen in *; lia].
      f_equal. unfold zlen in *. lia.
Qed.

Lemma allpos_of_nonempty {A} (cubes : list (list A)) :
  Forall (fun c => c <> []) cubes -> allpos (map zlen cubes).
Proof.
  intros H. unfold allpos. apply Forall_map. eapply Forall_impl; [|exact H].
  intros c Hc. destruct c; [congruence|]. rewrite zlen_cons. pose proof (zlen_nonneg c). lia.
Qed.

Lemma nonneg_lens {A} (cubes : list (list A)) : Forall (fun l => 0 <= l) (map zlen cubes).
Proof. apply Forall_map. apply Forall_forall. intros c _. apply zlen_nonneg. Qed.

(* ---------- top-level statements about iac_common ------------------------------------------- *)
Definition np_slice {A} (l : list A) (a b : option Z) : list A :=
  let '(s, n) := sel1 (zlen l) a b in zsub s n l.

Theorem iac_int_correct {A} (d : A) (cubes : list (list A)) (i : Z) :
  match norm_int (zlen (concat cubes)) i with
  | Some i' => exists k j, iac_common (map zlen cubes) (IInt i) = Ok (RCube k j) /\
                           (k < length cubes)%nat /\ 0 <= j < zlen (nth k cubes []) /\
                           znth j (nth k cubes []) d = znth i' (concat cubes) d
  | None => iac_common (map zlen cubes) (IInt i) = Err EIndex
  end.
Proof.
  cbn [iac_common]. rewrite <- zlen_concat.
  destruct (norm_int (zlen (concat cubes)) i) as [i'|] eqn:E; [|reflexivity].
  apply norm_int_range in E.
  destruct (locate_elem d cubes i' E) as (k & j & -> & Hj & Hk & Hv).
  exists k, j. repeat split; try assumption; lia.
Qed.

Theorem iac_slice_correct {A} (cubes : list (list A)) (a b st : option Z) :
  Forall (fun c => c <> []) cubes -> step_ok st = true ->
  exists ps, iac_common (map zlen cubes) (ISlice a b st) = Ok (RSeq ps) /\
             concat (map (extract cubes) ps) = np_slice (concat cubes) a b /\
             Forall (piece_ok (map zlen cubes)) ps /\ increasing_from O ps.
Proof.
  intros Hne Hst. pose proof (allpos_of_nonempty cubes Hne) as Hpos.
  assert (Hgen : exists ps,
     (if step_ok st then
        let '(s, e) := slice_bounds (zsum (map zlen cubes)) a b in
        if e <=? s then Ok (RSeq [])
        else match code_pieces (map zlen cubes) s e with Some ps => Ok (RSeq ps) | None => Err EIndex end
      else Err EIndex) = Ok (RSeq ps) /\
     concat (map (extract cubes) ps) = np_slice (concat cubes) a b /\
     Forall (piece_ok (map zlen cubes)) ps /\ increasing_from O ps).
  { rewrite Hst. unfold np_slice, sel1. rewrite zlen_concat.
    set (L := zsum (map zlen cubes)).
    assert (HL : 0 <= L) by (unfold L; rewrite <- zlen_concat; apply zlen_nonneg).
    pose proof (sel1_bounds L a b HL) as Hb. unfold sel1 in Hb.
    destruct (slice_bounds L a b) as [s e]. destruct Hb as (Hs & Hl & Hle).
    destruct (e <=? s) eqn:E.
    - exists []. replace (Z.max 0 (e - s)) with 0 by lia. rewrite zsub_zero_len.
      repeat split; constructor.
    - rewrite (code_pieces_struct _ Hpos s e) by (unfold L in *; lia).
      exists (struct_pieces (map zlen cubes) s e).
      replace (Z.max 0 (e - s)) with (e - s) by lia.
      rewrite struct_pieces_spec by lia.
      destruct (struct_pieces_ok _ Hpos s e) as [H1 H2]; [lia|unfold L in *; lia|].
      repeat split; assumption. }
  destruct a as [a|]; [exact Hgen|]. destruct b as [b|]; [exact Hgen|].
  destruct st as [st|]; [exact Hgen|].
  cbn [iac_common]. exists (all_pieces (map zlen cubes)).
  destruct (all_pieces_ok _ Hpos) as [H1 H2].
  repeat split; try assumption.
  rewrite all_pieces_spec. unfold np_slice, sel1, slice_bounds. cbn [adj_pos].
  replace (Z.max 0 (zlen (concat cubes) - 0)) with (zlen (concat cubes)) by (pose proof (zlen_nonneg (concat cubes)); lia).
  symmetry; apply zsub_whole.
Qed.

Theorem iac_step_refused lens a b st : step_ok st = false ->
  exists e, iac_common lens (ISlice a b st) = Err e.
Proof.
  intros H. exists EIndex. destruct st as [s|]; [|discriminate].
  cbn [iac_common]. destruct a, b; rewrite H; reflexivity.
Qed.

(* new common axis = rank of the common axis among the axes that survive *)
Lemma count_split (its : list item) :
  zlen (filter is_int its) + zlen (filter (fun x => negb (is_int x)) its) = zlen its.
Proof.
  induction its as [|x xs IH]; [reflexivity|]. cbn [filter]. destruct (is_int x); cbn [negb];
  rewrite ?zlen_cons; lia.
Qed.

Theorem iac_new_common_rank ca its : (ca <= length its)%nat ->
  iac_new_common ca its = zlen (filter (fun x => negb (is_int x)) (firstn ca its)).
Proof.
  intros H. unfold iac_new_common, count_ints.
  pose proof (count_split (firstn ca its)) as Hc.
  assert (zlen (firstn ca its) = Z.of_nat ca) by (unfold zlen; rewrite firstn_length; lia). lia.
Qed.
