From NDV Require Import M_Slicing.

Lemma norm_bound_range n v : 0 <= n -> 0 <= norm_bound n v <= n.
Proof. intros H. unfold norm_bound, clamp. lia. Qed.

Lemma adj_pos_norm n d v : 0 <= n -> adj_pos n d (Some (norm_bound n v)) = adj_pos n d (Some v).
Proof.
  intros H. pose proof (norm_bound_range n v H) as Hr. cbn [adj_pos].
  destruct (norm_bound n v <? 0) eqn:E; [lia|]. unfold norm_bound in *. unfold clamp in *. lia.
Qed.

Lemma adj_pos_normed n d v : 0 <= n -> adj_pos n d (Some (norm_bound n v)) = norm_bound n v.
Proof.
  intros H. pose proof (norm_bound_range n v H) as Hr. cbn [adj_pos].
  destruct (norm_bound n v <? 0) eqn:E; [lia|]. unfold clamp. lia.
Qed.

Lemma adj_pos_omap n d a : 0 <= n -> adj_pos n d (option_map (norm_bound n) a) = adj_pos n d a.
Proof. intros H. destruct a as [v|]; [apply adj_pos_norm; assumption|reflexivity]. Qed.

Lemma sel1_norm n a b : 0 <= n ->
  sel1 n (option_map (norm_bound n) a) (option_map (norm_bound n) b) = sel1 n a b.
Proof. intros H. unfold sel1, slice_bounds. rewrite !adj_pos_omap by assumption. reflexivity. Qed.

(* numpy selects the same elements with the normalised item as with the user's item *)
Lemma norm_item_numpy n it it' : 0 <= n -> norm_item n it = Ok it' ->
  np_axis_sel n it' = np_axis_sel n it.
Proof.
  intros Hn. destruct it as [i|a b st| |]; cbn [norm_item]; try discriminate.
  - destruct (norm_int n i) as [j|] eqn:E; [|discriminate]. intros H; inversion H; subst.
    cbn [np_axis_sel]. rewrite E. rewrite norm_int_nonneg; [reflexivity|].
    eapply norm_int_range; eassumption.
  - intros H; inversion H; subst. cbn [np_axis_sel].
    destruct st as [s|]; rewrite ?sel1_norm by assumption; reflexivity.
Qed.

(* lock-step on one axis: numpy's start is the sliced WCS's offset, same dropped flag *)
Lemma lockstep_axis n it it' s l d : 0 <= n -> norm_item n it = Ok it' ->
  np_axis_sel n it' = Ok (s, l, d) -> wcs_axis_sel it' = (s, d).
Proof.
  intros Hn. destruct it as [i|a b st| |]; cbn [norm_item]; try discriminate.
  - destruct (norm_int n i) as [j|] eqn:E; [|discriminate]. intros H; inversion H; subst.
    cbn [np_axis_sel wcs_axis_sel]. rewrite norm_int_nonneg by (eapply norm_int_range; eassumption).
    intros H'; inversion H'; reflexivity.
  - intros H; inversion H; subst. cbn [np_axis_sel].
    assert (Hs : forall s0 l0, sel1 n (option_map (norm_bound n) a) (option_map (norm_bound n) b) = (s0, l0) ->
                 wcs_axis_sel (ISlice (option_map (norm_bound n) a) (option_map (norm_bound n) b) st) = (s0, false)).
    { intros s0 l0. unfold sel1, slice_bounds. destruct a as [v|]; cbn [option_map wcs_axis_sel].
      - rewrite adj_pos_normed by assumption. intros E; inversion E; reflexivity.
      - cbn [adj_pos]. intros E; inversion E; reflexivity. }
    destruct st as [st|].
    + destruct st as [|p|p]; try discriminate. destruct p; try discriminate.
      destruct (sel1 n _ _) as [s0 l0] eqn:E. intros H'; inversion H'; subst. eapply Hs; reflexivity.
    + destruct (sel1 n _ _) as [s0 l0] eqn:E. intros H'; inversion H'; subst. eapply Hs; reflexivity.
Qed.

Lemma map2r_length {A B C} (f : A -> B -> result C) : forall l1 l2 r,
  map2r f l1 l2 = Ok r -> length l1 = length l2 /\ length r = length l1.
Proof.
  induction l1 as [|x xs IH]; intros [|y ys] r; cbn [map2r]; try discriminate.
  - intros H; inversion H; split; reflexivity.
  - destruct (f x y); [|discriminate]. destruct (map2r f xs ys) eqn:E; [|discriminate].
    intros H; inversion H; subst. destruct (IH _ _ E). cbn [length]. split; congruence.
Qed.

Lemma numpy_same_list : forall shape its its', Forall (fun n => 0 <= n) shape ->
  map2r norm_item shape its = Ok its' ->
  map2r np_axis_sel shape its' = map2r np_axis_sel shape its.
Proof.
  induction shape as [|n ns IH]; intros [|x xs] its' Hp; cbn [map2r]; try discriminate.
  - intros H; inversion H; reflexivity.
  - inversion Hp as [|? ? Hn Hns]; subst.
    destruct (norm_item n x) as [x'|] eqn:E; [|discriminate].
    destruct (map2r norm_item ns xs) as [xs'|] eqn:E2; [|discriminate].
    intros H; inversion H; subst. cbn [map2r].
    rewrite (norm_item_numpy n x x' Hn E). rewrite (IH xs xs' Hns E2). reflexivity.
Qed.

Lemma lockstep_list : forall shape its its' ds, Forall (fun n => 0 <= n) shape ->
  map2r norm_item shape its = Ok its' -> map2r np_axis_sel shape its' = Ok ds ->
  map wcs_axis_sel its' = dsel_off ds.
Proof.
  induction shape as [|n ns IH]; intros [|x xs] its' ds Hp; cbn [map2r]; try discriminate.
  - intros H; inversion H; subst. cbn [map2r]. intros H'; inversion H'; reflexivity.
  - inversion Hp as [|? ? Hn Hns]; subst.
    destruct (norm_item n x) as [x'|] eqn:E; [|discriminate].
    destruct (map2r norm_item ns xs) as [xs'|] eqn:E2; [|discriminate].
    intros H; inversion H; subst. cbn [map2r].
    destruct (np_axis_sel n x') as [[[s l] d]|] eqn:E3; [|discriminate].
    destruct (map2r np_axis_sel ns xs') as [ds'|] eqn:E4; [|discriminate].
    intros H'; inversion H'; subst. cbn [map dsel_off].
    rewrite (lockstep_axis n x x' s l d Hn E E3). f_equal. apply (IH xs xs' ds' Hns E2 E4).
Qed.

Lemma cube_getitem_inv shape raw r : cube_getitem shape raw = Ok r ->
  exists its, sanitize (length shape) raw = Ok its /\ map2r norm_item shape its = Ok (sitems r) /\
              map2r np_axis_sel shape (sitems r) = Ok (dsel r) /\
              wsel r = map wcs_axis_sel (sitems r) /\ wshape r = sels_shape (dsel r).
Proof.
  unfold cube_getitem, bind. destruct (sanitize (length shape) raw) as [its|] eqn:E1; [|discriminate].
  destruct (map2r norm_item shape its) as [its'|] eqn:E2; [|discriminate].
  destruct (map2r np_axis_sel shape its') as [ds|] eqn:E3; [|discriminate].
  intros H; inversion H; subst; cbn. exists its. repeat split; assumption.
Qed.

Theorem getitem_none_rejected shape raw : In INone raw -> cube_getitem shape raw = Err EIndex.
Proof.
  intros H. unfold cube_getitem, sanitize, bind.
  replace (existsb is_none raw) with true; [reflexivity|].
  symmetry. apply existsb_exists. exists INone. split; [assumption|reflexivity].
Qed.

Theorem getitem_data_is_numpy shape raw r : Forall (fun n => 0 <= n) shape ->
  cube_getitem shape raw = Ok r ->
  exists its, sanitize (length shape) raw = Ok its /\ map2r np_axis_sel shape its = Ok (dsel r).
Proof.
  intros Hp H. destruct (cube_getitem_inv _ _ _ H) as (its & H1 & H2 & H3 & _).
  exists its. split; [assumption|]. rewrite <- (numpy_same_list shape its (sitems r) Hp H2). assumption.
Qed.

Theorem getitem_lockstep shape raw r : Forall (fun n => 0 <= n) shape ->
  cube_getitem shape raw = Ok r -> wsel r = dsel_off (dsel r).
Proof.
  intros Hp H. destruct (cube_getitem_inv _ _ _ H) as (its & H1 & H2 & H3 & H4 & _).
  rewrite H4. eapply lockstep_list; eassumption.
Qed.

Theorem getitem_elementwise shape raw r : Forall (fun n => 0 <= n) shape ->
  cube_getitem shape raw = Ok r ->
  forall (T : Type) (W : list Z -> T) (k : list Z), W (embed (wsel r) k) = W (src_index (dsel r) k).
Proof.
  intros Hp H T W k. unfold src_index. rewrite (getitem_lockstep shape raw r Hp H). reflexivity.
Qed.

Definition kept (x : Z * bool) : bool := negb (snd x).

Lemma kept_count ds : length (filter kept (dsel_off ds)) = length (sels_shape ds).
Proof.
  unfold sels_shape, dsel_off. rewrite map_length.
  induction ds as [|[[s l] d] ds IH]; [reflexivity|]. cbn [map filter kept snd].
  destruct d; cbn [negb length]; rewrite <- IH; reflexivity.
Qed.

Theorem getitem_rank_shape shape raw r : Forall (fun n => 0 <= n) shape ->
  cube_getitem shape raw = Ok r ->
  length (sitems r) = length shape /\ length (wsel r) = length shape /\
  length (filter kept (wsel r)) = length (wshape r) /\ wshape r = sels_shape (dsel r).
Proof.
  intros Hp H. pose proof (getitem_lockstep shape raw r Hp H) as HL.
  destruct (cube_getitem_inv _ _ _ H) as (its & H1 & H2 & H3 & H4 & H5).
  destruct (map2r_length _ _ _ _ H2) as [Ha Hb].
  repeat split.
  - congruence.
  - rewrite H4, map_length. congruence.
  - rewrite HL, H5. apply kept_count.
  - assumption.
Qed.
