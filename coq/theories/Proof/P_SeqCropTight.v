(* "Smallest": every bound of the common box is attained by some cube's own box, so no smaller box contains them all. *)
From NDV Require Import M_SeqCrop P_SeqCrop.
From Coq Require Import Lia.
Open Scope Z_scope.

Lemma zip2_nth (f : Z -> Z -> Z) : forall (a b : list Z), length b = length a ->
  length (zip2 f a b) = length a /\ forall j, (j < length a)%nat -> nth j (zip2 f a b) 0 = f (nth j a 0) (nth j b 0).
Proof.
  induction a as [|x a IHa]; intros [|y b] Hab; cbn [length] in Hab; try discriminate; cbn [zip2 length]; [split; [reflexivity|intros; lia]|].
  destruct (IHa b ltac:(lia)) as [I1 I2]. split; [lia|]. intros [|j] Hj; cbn [nth]; [reflexivity|]. apply I2. lia.
Qed.

Lemma col_min_attained : forall (l : list (list Z)) n, l <> [] -> Forall (fun r => length r = n) l ->
  forall j, (j < n)%nat -> exists r, In r l /\ nth j (col_min l) 0 = nth j r 0.
Proof.
  induction l as [|r0 rest IH]; intros n Hne Hl j Hj; [congruence|]. inversion Hl as [|? ? H0 Hr]; subst.
  destruct rest as [|r1 rest'].
  - exists r0. split; [left; reflexivity|reflexivity].
  - destruct (col_min_le (r1 :: rest') (length r0) ltac:(discriminate) Hr) as [IL _].
    change (col_min (r0 :: r1 :: rest')) with (zip2 Z.min r0 (col_min (r1 :: rest'))).
    destruct (zip2_nth Z.min r0 (col_min (r1 :: rest')) IL) as [_ Z2]. rewrite Z2 by assumption.
    destruct (Z.min_spec (nth j r0 0) (nth j (col_min (r1 :: rest')) 0)) as [[_ ->]|[_ ->]].
    + exists r0. split; [left; reflexivity|reflexivity].
    + destruct (IH (length r0) ltac:(discriminate) Hr j Hj) as [r [Hin E]]. exists r. split; [right; exact Hin|exact E].
Qed.

Lemma col_max_attained : forall (l : list (list Z)) n, l <> [] -> Forall (fun r => length r = n) l ->
  forall j, (j < n)%nat -> exists r, In r l /\ nth j (col_max l) 0 = nth j r 0.
Proof.
  induction l as [|r0 rest IH]; intros n Hne Hl j Hj; [congruence|]. inversion Hl as [|? ? H0 Hr]; subst.
  destruct rest as [|r1 rest'].
  - exists r0. split; [left; reflexivity|reflexivity].
  - destruct (col_max_ge (r1 :: rest') (length r0) ltac:(discriminate) Hr) as [IL _].
    change (col_max (r0 :: r1 :: rest')) with (zip2 Z.max r0 (col_max (r1 :: rest'))).
    destruct (zip2_nth Z.max r0 (col_max (r1 :: rest')) IL) as [_ Z2]. rewrite Z2 by assumption.
    destruct (Z.max_spec (nth j r0 0) (nth j (col_max (r1 :: rest')) 0)) as [[_ ->]|[_ ->]].
    + destruct (IH (length r0) ltac:(discriminate) Hr j Hj) as [r [Hin E]]. exists r. split; [right; exact Hin|exact E].
    + exists r0. split; [left; reflexivity|reflexivity].
Qed.

Theorem common_box_tight (starts stops : list (list Z)) n : starts <> [] -> stops <> [] ->
  Forall (fun r => length r = n) starts -> Forall (fun r => length r = n) stops ->
  forall j, (j < n)%nat ->
  (exists r, In r starts /\ nth j (col_min starts) 0 = nth j r 0) /\
  (exists r, In r stops /\ nth j (col_max stops) 0 = nth j r 0).
Proof. intros H1 H2 L1 L2 j Hj. split; [eapply col_min_attained|eapply col_max_attained]; eassumption. Qed.
