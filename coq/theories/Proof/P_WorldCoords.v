From NDV Require Import M_WorldCoords M_GlobalCoords P_GlobalCoords.
From Coq Require Import Lia Sorted.
Open Scope Z_scope.

(* ---------- dimensions ---------------------------------------------------------------------------- *)
Lemma filter_seq_sorted (f : nat -> bool) : forall n s, StronglySorted lt (filter f (seq s n)).
Proof.
  induction n as [|n IH]; intros s; cbn [seq filter]; [constructor|].
  destruct (f s); [|apply IH]. constructor; [apply IH|].
  apply Forall_forall. intros x Hx. apply filter_In in Hx. destruct Hx as [Hx _]. apply in_seq in Hx. lia.
Qed.

Theorem world_axes_spec corr n w :
  StronglySorted lt (world_axes corr n w) /\
  forall a, In a (world_axes corr n w) <-> (a < n)%nat /\ cget corr w (n - 1 - a) = true.
Proof.
  split; [apply filter_seq_sorted|]. intros a. unfold world_axes. rewrite filter_In, in_seq. split; intros [H1 H2]; split; try assumption; lia.
Qed.

Theorem world_array_shape W corr shape corners w :
  fst (world_array W corr shape corners w) =
  map (fun a => wc_range_len corners (nth a shape 0)) (world_axes corr (length shape) w).
Proof. reflexivity. Qed.

(* ---------- entries ---------------------------------------------------------------------------------- *)
Lemma nth_map_seq {A} (f : nat -> A) (d : A) n p : (p < n)%nat -> nth p (map f (seq 0 n)) d = f p.
Proof.
  intros H. rewrite (nth_indep _ d (f O)) by (rewrite map_length, seq_length; assumption).
  rewrite (map_nth f (seq 0 n) O p). rewrite seq_nth by assumption. reflexivity.
Qed.

(* every entry of the returned array equals the WCS value at the centre (corner) of ANY element whose
   coordinates on the correlated axes are those of the entry: the zeros injected outside the block and the
   index 0 taken on same-block-but-uncorrelated axes are harmless *)
Theorem world_entry_correct W corr n corners w e E : corr_sound W corr -> length E = n ->
  (forall a, (a < n)%nat -> cget corr w (n - 1 - a) = true -> nth a E 0 = lookup (world_axes corr n w) e a) ->
  (nth w (W (code_pixel corr n corners w e)) 0 == nth w (W (elem_pixel n corners E)) 0)%Q.
Proof.
  intros Hs HE Hag. apply (agree_on_correlated W corr w Hs).
  - unfold code_pixel, elem_pixel. rewrite !map_length. reflexivity.
  - intros p Hp Hc. unfold code_pixel in Hp. rewrite map_length, seq_length in Hp.
    unfold code_pixel, elem_pixel. rewrite !(nth_map_seq _ 0%Q) by assumption.
    unfold cget. rewrite Hc.
    assert (Heq : lookup (world_axes corr n w) e (n - 1 - p) = nth (n - 1 - p) E 0).
    { symmetry. apply Hag; [lia|]. unfold cget. replace (n - 1 - (n - 1 - p))%nat with p by lia. exact Hc. }
    rewrite Heq. split; reflexivity.
Qed.

(* ---------- selection --------------------------------------------------------------------------------- *)
Lemma collect_in {A B} (f : A -> result (list B)) : forall l r, collect f l = Ok r ->
  forall y, In y r <-> exists x ys, In x l /\ f x = Ok ys /\ In y ys.
Proof.
  induction l as [|x l IH]; intros r H y; cbn [collect] in H.
  - inversion H; subst. split; [intros []|intros (x & ys & [] & _)].
  - destruct (f x) as [ys|] eqn:Ex; [|discriminate]. destruct (collect f l) as [rs|] eqn:Er; [|discriminate].
    inversion H; subst; clear H. rewrite in_app_iff. split.
    + intros [Hy|Hy]; [exists x, ys; repeat split; [left; reflexivity|assumption|assumption]|].
      destruct (proj1 (IH rs eq_refl y) Hy) as (x' & ys' & Hin & Hf & Hy'). exists x', ys'. repeat split; [right; assumption|assumption|assumption].
    + intros (x' & ys' & [<-|Hin] & Hf & Hy'); [left; congruence|]. right. apply (IH rs eq_refl y). exists x', ys'. repeat split; assumption.
Qed.

(* the world axes returned are exactly those some requested axis selects, each once, in increasing world
   index (the values form then lists them in decreasing index); an invalid request refuses the whole call *)
Theorem world_indices_spec corr types n reqs ws : reqs <> [] -> world_indices corr types n reqs = Ok ws ->
  StronglySorted lt ws /\
  forall w, In w ws <-> (w < length corr)%nat /\ exists r sel, In r reqs /\ req_world corr types n r = Ok sel /\ In w sel.
Proof.
  intros Hne. unfold world_indices. destruct reqs as [|r0 rs]; [congruence|].
  destruct (collect (req_world corr types n) (r0 :: rs)) as [l|] eqn:E; [|discriminate].
  intros H; inversion H; subst; clear H. split; [apply filter_seq_sorted|].
  intros w. rewrite filter_In, in_seq. split.
  - intros [Hw Hex]. split; [lia|]. apply existsb_exists in Hex. destruct Hex as (x & Hx & Hxe). apply Nat.eqb_eq in Hxe. subst x.
    apply (collect_in _ _ _ E w). assumption.
  - intros [Hw Hex]. split; [lia|]. apply existsb_exists. exists w. split; [|apply Nat.eqb_refl].
    apply (collect_in _ _ _ E w). assumption.
Qed.

Theorem req_int_spec corr types n a sel : req_world corr types n (AInt a) = Ok sel ->
  let a' := if a <? 0 then a + Z.of_nat n else a in
  0 <= a' < Z.of_nat n /\ forall w, In w sel <-> (w < length corr)%nat /\ cget corr w (n - 1 - Z.to_nat a') = true.
Proof.
  cbn [req_world]. cbv zeta. set (a' := if a <? 0 then a + Z.of_nat n else a).
  destruct ((a' <? 0) || (Z.of_nat n - 1 <? a')) eqn:E; [discriminate|].
  apply orb_false_iff in E. destruct E as [E1 E2]. intros H; inversion H; subst; clear H. split; [lia|].
  intros w. rewrite filter_In, in_seq. split; intros [H1 H2]; split; try assumption; lia.
Qed.
