From NDV Require Import M_SeqCoords P_IndexAsCube P_ExtraCoords.
Open Scope Z_scope.

(* ---------- explode: as many entries as the axis is long, the i-th being the slice at i ----------------------- *)
Lemma zrange_from_length f s : length (zrange_from f s) = f.
Proof. revert s; induction f as [|f IH]; intros s; cbn [zrange_from length]; [reflexivity | rewrite IH; reflexivity]. Qed.
Lemma zrange_from_nth f : forall s k, (k < f)%nat -> nth k (zrange_from f s) 0 = s + Z.of_nat k.
Proof.
  induction f as [|f IH]; intros s k Hk; [lia|]. cbn [zrange_from]. destruct k as [|k]; cbn [nth]; [lia|].
  rewrite IH by lia. lia.
Qed.

Lemma explode_length ax c : 0 <= nth ax (coord_shape c) 0 -> zlen (explode ax c) = nth ax (coord_shape c) 0.
Proof. intros H. unfold explode, zlen, zrange. rewrite map_length, zrange_from_length. lia. Qed.

Lemma explode_nth ax c i : 0 <= i < nth ax (coord_shape c) 0 ->
  nth (Z.to_nat i) (explode ax c) [] = map (take_at ax i) c.
Proof.
  intros H. unfold explode, zrange.
  rewrite (nth_indep _ [] ((fun i0 => map (take_at ax i0) c) 0)) by (rewrite map_length, zrange_from_length; lia).
  rewrite (map_nth (fun i0 => map (take_at ax i0) c)). rewrite zrange_from_nth by lia. f_equal. f_equal. lia.
Qed.

(* ---------- take_at: entry e of the slice at i is entry (e with i inserted at ax) of the array ---------------- *)
Lemma in_box_insert : forall sh ax i e, (ax < length sh)%nat -> 0 <= i < nth ax sh 0 ->
  in_box (remove_at ax sh) e -> in_box sh (insert_at ax i e).
Proof.
  induction sh as [|s ss IH]; intros ax i e Hax Hi He; cbn [length] in Hax; [lia|].
  destruct ax as [|ax].
  - unfold remove_at, insert_at in *. cbn [firstn skipn app nth] in *. constructor; assumption.
  - unfold remove_at, insert_at in *. cbn [firstn skipn app nth] in *.
    inversion He as [|s' ss' i' is' Hi' Hb']; subst. cbn [firstn skipn app]. constructor; [assumption|].
    apply IH; [lia|assumption|assumption].
Qed.

Theorem take_at_entry (f : list Z -> Q) sh ax i e : (ax < length sh)%nat -> 0 <= i < nth ax sh 0 ->
  in_box (remove_at ax sh) e ->
  nth (Z.to_nat (ravel (remove_at ax sh) e)) (snd (take_at ax i (sh, map f (box sh)))) 0%Q = f (insert_at ax i e).
Proof.
  intros Hax Hi He. unfold take_at. cbn [fst snd].
  set (g := fun e0 => nth (Z.to_nat (ravel sh (insert_at ax i e0))) (map f (box sh)) 0%Q).
  pose proof (ravel_bounds _ _ He) as Hr.
  assert (Hnn : Forall (fun x => 0 <= x) (remove_at ax sh)).
  { clear -He. induction He; constructor; [lia|assumption]. }
  pose proof (box_length _ Hnn) as HL. unfold zlen in HL.
  rewrite (nth_indep _ 0%Q (g [])) by (rewrite map_length; lia).
  rewrite (map_nth g). rewrite box_nth_ravel by assumption. unfold g.
  pose proof (in_box_insert sh ax i e Hax Hi He) as Hin.
  pose proof (ravel_bounds _ _ Hin) as Hr2.
  assert (Hnn2 : Forall (fun x => 0 <= x) sh).
  { clear -Hin. induction Hin; constructor; [lia|assumption]. }
  pose proof (box_length _ Hnn2) as HL2. unfold zlen in HL2.
  rewrite (nth_indep _ 0%Q (f [])) by (rewrite map_length; lia).
  rewrite (map_nth f). rewrite box_nth_ravel by assumption. reflexivity.
Qed.

(* ---------- where the inserted index lands: the common axis reads i, every other axis reads e ----------------- *)
Lemma lookup_insert_hit : forall axes ca ax i e, index_of ca axes = Some ax -> (ax <= length e)%nat ->
  lookup axes (insert_at ax i e) ca = i.
Proof.
  induction axes as [|x xs IH]; intros ca ax i e H Hl; cbn [index_of] in H; [discriminate|].
  destruct (Nat.eqb ca x) eqn:E.
  - inversion H; subst. unfold insert_at. cbn [firstn skipn app lookup]. rewrite Nat.eqb_sym, E. reflexivity.
  - destruct (index_of ca xs) as [k|] eqn:Ek; [|discriminate]. inversion H; subst.
    destruct e as [|v vs]; cbn [length] in Hl; [lia|].
    unfold insert_at. cbn [firstn skipn app lookup]. rewrite Nat.eqb_sym, E. apply IH; [assumption|lia].
Qed.

Lemma lookup_insert_miss : forall axes ca ax i e a, index_of ca axes = Some ax -> (ax <= length e)%nat -> a <> ca ->
  lookup axes (insert_at ax i e) a = lookup (remove_at ax axes) e a.
Proof.
  induction axes as [|x xs IH]; intros ca ax i e a H Hl Ha; cbn [index_of] in H; [discriminate|].
  destruct (Nat.eqb ca x) eqn:E.
  - inversion H; subst. apply Nat.eqb_eq in E; subst x.
    unfold insert_at, remove_at. cbn [firstn skipn app lookup].
    destruct (Nat.eqb ca a) eqn:E2; [apply Nat.eqb_eq in E2; congruence | reflexivity].
  - destruct (index_of ca xs) as [k|] eqn:Ek; [|discriminate]. inversion H; subst.
    destruct e as [|v vs]; cbn [length] in Hl; [lia|].
    unfold insert_at, remove_at. cbn [firstn skipn app lookup].
    destruct (Nat.eqb x a); [reflexivity|]. apply (IH ca k i vs a Ek); [lia|assumption].
Qed.

(* ---------- concatenation over cubes -------------------------------------------------------------------------- *)
Theorem concat_locate {A} (d : A) (parts : list (list A)) k j i :
  Forall (fun p => parts <> [] -> 0 < zlen p) parts ->
  0 <= k < zlen (concat parts) -> locate (map zlen parts) k = Some (j, i) ->
  nth (Z.to_nat k) (concat parts) d = nth (Z.to_nat i) (nth j parts []) d.
Proof.
  intros _ Hk Hl. destruct (locate_elem d parts k Hk) as (k' & j' & H1 & _ & _ & H4).
  rewrite Hl in H1. inversion H1; subst. unfold znth in H4. symmetry. exact H4.
Qed.

(* ---------- alignment of coordinate objects and their array-axis mappings ------------------------------------- *)
Lemma uniq_in x l : In x (uniq l) -> In x l.
Proof.
  revert x; induction l as [|y r IH]; intros x H; cbn [uniq] in H; [contradiction|].
  destruct H as [H|H]; [left; assumption|]. apply filter_In in H. right; apply IH; tauto.
Qed.
Lemma filter_all {A} (f : A -> bool) l : (forall x, In x l -> f x = true) -> filter f l = l.
Proof.
  induction l as [|y r IH]; intros H; cbn [filter]; [reflexivity|].
  rewrite (H y (or_introl eq_refl)). f_equal. apply IH. intros x Hx; apply H; right; assumption.
Qed.
Lemma filter_none {A} (f : A -> bool) l : (forall x, In x l -> f x = false) -> filter f l = [].
Proof.
  induction l as [|y r IH]; intros H; cbn [filter]; [reflexivity|].
  rewrite (H y (or_introl eq_refl)). apply IH. intros x Hx; apply H; right; assumption.
Qed.
Lemma filter_and {A} (f g : A -> bool) l : filter (fun x => f x && g x) l = filter f (filter g l).
Proof.
  induction l as [|y r IH]; cbn [filter]; [reflexivity|].
  destruct (g y); cbn [filter]; [|rewrite andb_false_r; assumption].
  rewrite andb_true_r. destruct (f y); [f_equal|]; assumption.
Qed.
Lemma rev_head_in {A} (l : list A) x r : rev l = x :: r -> In x l.
Proof. intros H. apply in_rev. rewrite H. left; reflexivity. Qed.
Lemma index_of_in x l : In x l -> exists k, index_of x l = Some k.
Proof.
  induction l as [|y r IH]; intros H; [contradiction|]. cbn [index_of].
  destruct (Nat.eqb x y) eqn:E; [eexists; reflexivity|].
  destruct H as [H|H]; [subst; rewrite Nat.eqb_refl in E; discriminate|].
  destruct (IH H) as [k Hk]. rewrite Hk. eexists; reflexivity.
Qed.
Lemma index_of_nth x l k d : index_of x l = Some k -> nth k l d = x /\ (k < length l)%nat.
Proof.
  revert k; induction l as [|y r IH]; intros k H; cbn [index_of] in H; [discriminate|].
  destruct (Nat.eqb x y) eqn:E.
  - inversion H; subst. apply Nat.eqb_eq in E. cbn [nth length]. split; [congruence|lia].
  - destruct (index_of x r) as [k'|]; [|discriminate]. inversion H; subst. cbn [nth length].
    destruct (IH k' eq_refl). split; [assumption|lia].
Qed.

Section Align.
Variables (corr : list (list bool)) (comps : list Z) (n ca : nat).
Hypothesis same_dep : forall w w', comp_of comps w = comp_of comps w' -> nth w corr [] = nth w' corr [].
Hypothesis Hca : (ca < n)%nat.

Let cmp := comp_of comps.
Let nw := length corr.
Let selb (w : nat) : bool := cget corr w (n - 1 - ca).
Let notin (pre : list nat) (o : Z) : bool := negb (existsb (fun w' => cmp w' =? o) pre).

Lemma selb_same w w' : cmp w = cmp w' -> selb w = selb w'.
Proof. intros H. unfold selb, cget. rewrite (same_dep w w' H). reflexivity. Qed.
Lemma axes_same w w' : cmp w = cmp w' -> world_axes corr n w = world_axes corr n w'.
Proof. intros H. unfold world_axes, cget. rewrite (same_dep w w' H). reflexivity. Qed.
Lemma selb_axes w : selb w = true -> In ca (world_axes corr n w).
Proof. intros H. unfold world_axes. apply filter_In. split; [apply in_seq; lia | exact H]. Qed.

(* the objects with a selected component, each represented by its first world axis *)
Definition reps : list nat := filter (fun w => first_occ comps w && selb w) (seq 0 nw).

Fixpoint fo (pre l : list nat) : list nat :=
  match l with
  | [] => []
  | w :: r => (if notin pre (cmp w) && selb w then [w] else []) ++ fo (pre ++ [w]) r
  end.

Lemma notin_snoc pre w o : notin (pre ++ [w]) o = notin pre o && negb (o =? cmp w).
Proof. unfold notin. rewrite existsb_app. cbn [existsb]. rewrite orb_false_r, negb_orb, (Z.eqb_sym (cmp w) o). reflexivity. Qed.

Lemma fo_spec : forall l pre, map cmp (fo pre l) = filter (notin pre) (uniq (map cmp (filter selb l))).
Proof.
  induction l as [|w r IH]; intros pre; [reflexivity|]. cbn [fo filter].
  rewrite map_app, IH. destruct (selb w) eqn:Es.
  - cbn [map uniq filter]. rewrite andb_true_r.
    replace (filter (notin (pre ++ [w])) (uniq (map cmp (filter selb r))))
      with (filter (notin pre) (filter (fun y => negb (y =? cmp w)) (uniq (map cmp (filter selb r))))).
    + destruct (notin pre (cmp w)); reflexivity.
    + rewrite <- filter_and. apply filter_ext. intros o. apply eq_sym, notin_snoc.
  - rewrite andb_false_r. cbn [map app]. apply filter_ext_in. intros o Ho.
    rewrite notin_snoc. apply uniq_in, in_map_iff in Ho. destruct Ho as (w' & Hw' & Hin).
    apply filter_In in Hin. destruct Hin as [_ Hs'].
    destruct (o =? cmp w) eqn:E; [|apply andb_true_r].
    apply Z.eqb_eq in E. rewrite (selb_same w w') in Es by congruence. congruence.
Qed.

Lemma fo_seq : forall k s, fo (seq 0 s) (seq s k) = filter (fun w => first_occ comps w && selb w) (seq s k).
Proof.
  induction k as [|k IH]; intros s; [reflexivity|]. cbn [seq fo filter].
  replace (seq 0 s ++ [s]) with (seq 0 (S s)) by (rewrite seq_S; reflexivity).
  rewrite IH. unfold notin, first_occ, cmp.
  destruct (negb (existsb (fun w' => comp_of comps w' =? comp_of comps s) (seq 0 s)) && selb s); reflexivity.
Qed.

Lemma objects_reps : objects_for comps (filter selb (seq 0 nw)) = map cmp reps.
Proof.
  unfold objects_for, reps. rewrite <- (fo_seq nw O). cbn [seq]. rewrite fo_spec.
  cbn [filter]. symmetry. apply filter_all. intros; reflexivity.
Qed.

Lemma filter_map_if {A B} (c : A -> bool) (h : A -> list B) l : (forall x, In x l -> c x = true -> h x <> []) ->
  filter (fun m => negb (is_nil m)) (map (fun x => if c x then h x else []) l) = map h (filter c l).
Proof.
  induction l as [|y r IH]; intros H; cbn [map filter]; [reflexivity|].
  destruct (c y) eqn:E.
  - destruct (h y) eqn:Eh; [exfalso; apply (H y (or_introl eq_refl) E Eh)|]. cbn [is_nil negb map]. rewrite <- Eh.
    f_equal. apply IH. intros x Hx; apply H; right; assumption.
  - cbn [is_nil negb]. apply IH. intros x Hx; apply H; right; assumption.
Qed.

Lemma mapping_reps : mapping corr comps n (filter selb (seq 0 nw)) = map (world_axes corr n) reps.
Proof.
  unfold mapping, reps. fold nw.
  rewrite <- (filter_map_if (fun w => first_occ comps w && selb w) (world_axes corr n)).
  2:{ intros w _ Hc. apply andb_true_iff in Hc. destruct Hc as [_ Hs]. apply selb_axes in Hs.
      intros E. rewrite E in Hs. contradiction. }
  f_equal. apply map_ext_in. intros w0 Hw0.
  destruct (first_occ comps w0); [|reflexivity]. cbn [andb].
  destruct (selb w0) eqn:Es.
  - destruct (rev (filter (fun w => comp_of comps w =? comp_of comps w0) (filter selb (seq 0 nw)))) as [|w r] eqn:Er.
    + exfalso.
      assert (Hin : In w0 (filter (fun w => comp_of comps w =? comp_of comps w0) (filter selb (seq 0 nw)))).
      { apply filter_In. split; [apply filter_In; split; assumption | apply Z.eqb_refl]. }
      apply in_rev in Hin. rewrite Er in Hin. contradiction.
    + apply rev_head_in, filter_In in Er. destruct Er as [_ E]. apply Z.eqb_eq in E. apply axes_same. exact E.
  - rewrite filter_none; [reflexivity|]. intros w Hw. apply filter_In in Hw. destruct Hw as [_ Hs].
    destruct (comp_of comps w =? comp_of comps w0) eqn:E; [|reflexivity].
    apply Z.eqb_eq in E. rewrite (selb_same w w0 E) in Hs. congruence.
Qed.

Lemma world_indices_common : world_indices corr [] n [AInt (Z.of_nat ca)] = Ok (filter selb (seq 0 nw)).
Proof.
  unfold world_indices. cbn [collect req_world].
  destruct (Z.of_nat ca <? 0) eqn:E1; [lia|].
  replace ((Z.of_nat ca <? 0) || (Z.of_nat n - 1 <? Z.of_nat ca)) with false by (symmetry; apply orb_false_iff; split; lia).
  rewrite Nat2Z.id, app_nil_r. f_equal. fold nw. apply filter_ext_in. intros w Hw. unfold selb.
  destruct (cget corr w (n - 1 - ca)) eqn:Ec.
  - apply existsb_exists. exists w. split; [apply filter_In; split; assumption | apply Nat.eqb_refl].
  - destruct (existsb (Nat.eqb w) (filter (fun w0 => cget corr w0 (n - 1 - ca)) (seq 0 nw))) eqn:Ex; [|reflexivity].
    apply existsb_exists in Ex. destruct Ex as (x & Hx & Hxe). apply Nat.eqb_eq in Hxe; subst x.
    apply filter_In in Hx. destruct Hx as [_ Hx]. congruence.
Qed.

Definition ax_of (w : nat) : nat := match index_of ca (world_axes corr n w) with Some k => k | None => O end.

Lemma explode_all_reps (WA : nat -> arr) : forall l, (forall w, In w l -> selb w = true) ->
  explode_all ca (map (fun o => map WA (obj_ws corr comps o)) (map cmp l)) (map (world_axes corr n) l)
  = Ok (map (fun w => explode (ax_of w) (map WA (obj_ws corr comps (cmp w)))) l).
Proof.
  induction l as [|w r IH]; intros H; [reflexivity|]. cbn [map explode_all].
  destruct (index_of_in ca _ (selb_axes w (H w (or_introl eq_refl)))) as [k Hk].
  unfold ax_of at 1. rewrite Hk. rewrite IH by (intros x Hx; apply H; right; assumption). reflexivity.
Qed.

Theorem cube_common_spec W shape :
  cube_common corr comps n (Z.of_nat ca) W shape
  = Ok (map (fun w => explode (ax_of w) (map (world_array W corr shape false) (obj_ws corr comps (cmp w)))) reps).
Proof.
  unfold cube_common. rewrite world_indices_common, Nat2Z.id. unfold cube_coords.
  rewrite objects_reps, mapping_reps. apply explode_all_reps.
  intros w Hw. unfold reps in Hw. apply filter_In in Hw. destruct Hw as [_ Hw]. apply andb_true_iff in Hw. tauto.
Qed.

(* the number of positions the coordinate of representative w is broken into is the cube's common-axis length *)
Lemma obj_ws_first w : (w < nw)%nat -> exists w' r, obj_ws corr comps (cmp w) = w' :: r /\ cmp w' = cmp w.
Proof.
  intros Hw. unfold obj_ws. fold nw.
  destruct (filter (fun w0 => comp_of comps w0 =? cmp w) (seq 0 nw)) as [|w' r] eqn:E.
  - exfalso. assert (Hin : In w (filter (fun w0 => comp_of comps w0 =? cmp w) (seq 0 nw))).
    { apply filter_In. split; [apply in_seq; lia | apply Z.eqb_refl]. }
    rewrite E in Hin. contradiction.
  - exists w', r. split; [reflexivity|].
    assert (Hin : In w' (w' :: r)) by (left; reflexivity). rewrite <- E in Hin. apply filter_In in Hin.
    destruct Hin as [_ Hc]. apply Z.eqb_eq in Hc. exact Hc.
Qed.

Theorem positions_per_cube W shape w : length shape = n -> In w reps ->
  nth (ax_of w) (coord_shape (map (world_array W corr shape false) (obj_ws corr comps (cmp w)))) 0 = nth ca shape 0.
Proof.
  intros Hlen Hw. unfold reps in Hw. apply filter_In in Hw. destruct Hw as [Hin Hc]. apply in_seq in Hin.
  apply andb_true_iff in Hc. destruct Hc as [_ Hs].
  destruct (obj_ws_first w ltac:(lia)) as (w' & r & E & Ecmp). rewrite E. cbn [map coord_shape].
  unfold world_array. cbv zeta. cbn [fst]. unfold world_shape. rewrite Hlen, (axes_same w' w Ecmp).
  destruct (index_of_in ca _ (selb_axes w Hs)) as [k Hk]. unfold ax_of. rewrite Hk.
  destruct (index_of_nth ca _ k O Hk) as [Hn Hl].
  rewrite (nth_indep _ 0 ((fun a => wc_range_len false (nth a shape 0)) O)) by (rewrite map_length; assumption).
  rewrite (map_nth (fun a => wc_range_len false (nth a shape 0))). rewrite Hn. reflexivity.
Qed.
End Align.

(* ---------- the whole sequence ---------------------------------------------------------------------------------- *)
Lemma mapr_ok {A B} (f : A -> result B) (g : A -> B) l : (forall x, In x l -> f x = Ok (g x)) -> mapr f l = Ok (map g l).
Proof.
  induction l as [|x r IH]; intros H; [reflexivity|]. cbn [mapr map].
  rewrite (H x (or_introl eq_refl)), IH by (intros y Hy; apply H; right; assumption). reflexivity.
Qed.
Lemma map_seq_nth {A B} (F : A -> B) (d : A) l : map (fun k => F (nth k l d)) (seq 0 (length l)) = map F l.
Proof.
  induction l as [|x r IH]; [reflexivity|]. cbn [length seq map nth]. f_equal.
  rewrite map_seq_shift. exact IH.
Qed.

Section Sequence.
Variables (corr : list (list bool)) (comps : list Z) (n ca : nat).
Hypothesis same_dep : forall w w', comp_of comps w = comp_of comps w' -> nth w corr [] = nth w' corr [].
Hypothesis Hca : (ca < n)%nat.
Let cube := ((list Q -> list Q) * list Z)%type.

(* the coordinate object of representative world axis w on one cube, and its pieces along the common axis *)
Definition coord_of (w : nat) (c : cube) : list arr :=
  map (world_array (fst c) corr (snd c) false) (obj_ws corr comps (comp_of comps w)).
Definition pieces_of (w : nat) (c : cube) : list (list arr) := explode (ax_of corr n ca w) (coord_of w c).

Theorem seq_common_spec (cubes : list cube) : cubes <> [] ->
  seq_common corr comps n (Z.of_nat ca) cubes
  = Ok (map (fun w => concat (map (pieces_of w) cubes)) (reps corr comps n ca)).
Proof.
  intros Hne. unfold seq_common.
  rewrite (mapr_ok _ (fun c => map (fun w => pieces_of w c) (reps corr comps n ca))).
  2:{ intros c _. apply (cube_common_spec corr comps n ca same_dep Hca). }
  destruct cubes as [|c0 cs]; [congruence|]. cbn [map]. rewrite map_length. f_equal.
  rewrite <- (map_seq_nth (fun w => concat (map (pieces_of w) (c0 :: cs))) O).
  apply map_ext_in. intros k Hk. apply in_seq in Hk. f_equal.
  assert (Hn : forall c, nth k (map (fun w => pieces_of w c) (reps corr comps n ca)) [] = pieces_of (nth k (reps corr comps n ca) O) c).
  { intros c. rewrite (nth_indep _ [] ((fun w => pieces_of w c) O)) by (rewrite map_length; lia).
    apply (map_nth (fun w => pieces_of w c)). }
  cbn [map]. rewrite Hn. f_equal. rewrite map_map. apply map_ext. intros c. apply Hn.
Qed.

Definition common_lens (cubes : list cube) : list Z := map (fun c => nth ca (snd c) 0) cubes.

Lemma pieces_len w c : length (snd c) = n -> 0 <= nth ca (snd c) 0 -> In w (reps corr comps n ca) ->
  zlen (pieces_of w c) = nth ca (snd c) 0.
Proof.
  intros Hl Hnn Hw. unfold pieces_of. pose proof (positions_per_cube corr comps n ca same_dep Hca (fst c) (snd c) w Hl Hw) as P.
  unfold coord_of. rewrite explode_length; rewrite P; [reflexivity|assumption].
Qed.

(* as many entries as the cube-like length of the common axis *)
Theorem common_coord_length (cubes : list cube) w :
  Forall (fun c => length (snd c) = n /\ 0 <= nth ca (snd c) 0) cubes -> In w (reps corr comps n ca) ->
  zlen (concat (map (pieces_of w) cubes)) = zsum (common_lens cubes).
Proof.
  intros Hc Hw. rewrite zlen_concat, map_map. unfold common_lens. f_equal.
  apply map_ext_in. intros c Hin. rewrite Forall_forall in Hc. destruct (Hc c Hin). apply pieces_len; assumption.
Qed.

(* the k-th entry is the coordinate of cube j sliced at position i of its common axis, (j, i) being where the k-th
   position of the concatenated axis lies *)
Theorem common_coord_kth (cubes : list cube) w k j i :
  Forall (fun c => length (snd c) = n /\ 0 <= nth ca (snd c) 0) cubes -> In w (reps corr comps n ca) ->
  0 <= k < zsum (common_lens cubes) -> locate (common_lens cubes) k = Some (j, i) ->
  exists c, nth_error cubes j = Some c /\ 0 <= i < nth ca (snd c) 0 /\
  nth (Z.to_nat k) (concat (map (pieces_of w) cubes)) [] = map (take_at (ax_of corr n ca w) i) (coord_of w c).
Proof.
  intros Hc Hw Hk Hl.
  assert (Hlens : map zlen (map (pieces_of w) cubes) = common_lens cubes).
  { rewrite map_map. unfold common_lens. apply map_ext_in. intros c Hin. rewrite Forall_forall in Hc.
    destruct (Hc c Hin). apply pieces_len; assumption. }
  assert (Hk' : 0 <= k < zlen (concat (map (pieces_of w) cubes))) by (rewrite common_coord_length; assumption).
  destruct (locate_elem [] (map (pieces_of w) cubes) k Hk') as (j' & i' & H1 & H2 & H3 & H4).
  rewrite Hlens, Hl in H1. inversion H1; subst j' i'. rewrite map_length in H3.
  destruct (nth_error cubes j) as [c|] eqn:Ec; [|apply nth_error_None in Ec; lia].
  exists c. split; [reflexivity|].
  assert (Hn : nth j (map (pieces_of w) cubes) [] = pieces_of w c).
  { rewrite (nth_indep _ [] (pieces_of w c)) by (rewrite map_length; lia).
    rewrite (map_nth (pieces_of w)). f_equal. apply nth_error_nth. exact Ec. }
  rewrite Hn in H2, H4. rewrite Forall_forall in Hc. destruct (Hc c (nth_error_In _ _ Ec)) as [Hlen Hnn].
  rewrite pieces_len in H2 by assumption. split; [assumption|].
  unfold znth in H4. rewrite <- H4. unfold pieces_of. apply explode_nth.
  unfold coord_of. rewrite (positions_per_cube corr comps n ca same_dep Hca (fst c) (snd c) w Hlen Hw). assumption.
Qed.
End Sequence.

(* what one entry of a slice holds: the WCS evaluated with the common-axis pixel at position i *)
Theorem slice_entry W corr shape w ca ax i e :
  index_of ca (world_axes corr (length shape) w) = Some ax -> 0 <= i < nth ca shape 0 ->
  in_box (remove_at ax (world_shape corr shape false w)) e ->
  nth (Z.to_nat (ravel (remove_at ax (world_shape corr shape false w)) e))
      (snd (take_at ax i (world_array W corr shape false w))) 0%Q
  = nth w (W (code_pixel corr (length shape) false w (insert_at ax i e))) 0%Q
  /\ lookup (world_axes corr (length shape) w) (insert_at ax i e) ca = i.
Proof.
  intros Hax Hi He. destruct (index_of_nth _ _ _ O Hax) as [Hn Hl].
  assert (Hlen : length (world_shape corr shape false w) = length (world_axes corr (length shape) w)).
  { unfold world_shape. apply map_length. }
  assert (Hsh : nth ax (world_shape corr shape false w) 0 = nth ca shape 0).
  { unfold world_shape. rewrite (nth_indep _ 0 ((fun a => wc_range_len false (nth a shape 0)) O)) by (rewrite map_length; assumption).
    rewrite (map_nth (fun a => wc_range_len false (nth a shape 0))). rewrite Hn. reflexivity. }
  split.
  - unfold world_array. cbv zeta.
    apply (take_at_entry (fun e0 => nth w (W (code_pixel corr (length shape) false w e0)) 0%Q)); [lia|lia|assumption].
  - apply lookup_insert_hit; [assumption|].
    apply in_box_length in He. rewrite He. unfold remove_at. rewrite app_length, firstn_length, skipn_length. lia.
Qed.

(* ---------- sequence_axis_coords -------------------------------------------------------------------------------- *)
Section GlobalP.
Context {V : Type}.
Theorem seq_axis_coords_sound (cubes : list (@gc V)) name vals : In (name, vals) (seq_axis_coords cubes) ->
  vals = map (fun g => gc_get g name) cubes /\ forall g, In g cubes -> gc_has g name = true.
Proof.
  destruct cubes as [|g0 gs]; [contradiction|]. unfold seq_axis_coords. intros H.
  apply in_map_iff in H. destruct H as (nm & E & Hin). inversion E; subst. split; [reflexivity|].
  apply filter_In in Hin. destruct Hin as [_ Hall]. rewrite forallb_forall in Hall. exact Hall.
Qed.
Theorem seq_axis_coords_complete (g0 : @gc V) gs name : (forall g, In g (g0 :: gs) -> gc_has g name = true) ->
  In name (map fst g0) -> In (name, map (fun g => gc_get g name) (g0 :: gs)) (seq_axis_coords (g0 :: gs)).
Proof.
  intros Hall Hin. unfold seq_axis_coords. apply in_map_iff. exists name. split; [reflexivity|].
  apply filter_In. split; [assumption|]. apply forallb_forall. exact Hall.
Qed.
Lemma gc_has_in (g : @gc V) name : gc_has g name = true -> In name (map fst g).
Proof.
  unfold gc_has. induction g as [|[k v] r IH]; cbn [gc_get map fst]; [discriminate|].
  destruct (String.eqb k name) eqn:E; [apply String.eqb_eq in E; left; assumption | intros H; right; apply IH; exact H].
Qed.
End GlobalP.
