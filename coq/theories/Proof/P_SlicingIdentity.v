(* The empty item (cube[()] / cube[...] / cube[:]) is the identity: every axis kept whole with offset 0. *)
From NDV Require Import M_Slicing P_Slicing.
From Coq Require Import Lia.
Open Scope Z_scope.

Definition whole (shape : list Z) : list (Z * Z * bool) := map (fun n => (0, n, false)) shape.

Lemma sanitize_nil nd : sanitize nd [] = Ok (repeat full_slice nd).
Proof. unfold sanitize, strip_redundant_ellipsis. cbn. rewrite Nat.sub_0_r. reflexivity. Qed.

Lemma norm_full : forall shape, map2r norm_item shape (repeat full_slice (length shape)) = Ok (repeat full_slice (length shape)).
Proof. induction shape as [|n ss IH]; cbn [length repeat map2r]; [reflexivity|]. cbn [norm_item full_slice option_map]. fold full_slice. rewrite IH. reflexivity. Qed.

Lemma sel_full : forall shape, Forall (fun n => 0 <= n) shape ->
  map2r np_axis_sel shape (repeat full_slice (length shape)) = Ok (whole shape).
Proof.
  induction 1 as [|n ss Hn H IH]; cbn [length repeat map2r whole map]; [reflexivity|].
  fold (whole ss). rewrite IH. unfold full_slice at 1. cbn [np_axis_sel]. unfold sel1, slice_bounds. cbn [adj_pos].
  replace (Z.max 0 (n - 0)) with n by lia. reflexivity.
Qed.

Lemma shape_whole : forall shape, sels_shape (whole shape) = shape.
Proof. induction shape as [|n ss IH]; [reflexivity|]. unfold sels_shape, whole in *. cbn [map filter negb]. rewrite IH. reflexivity. Qed.

Theorem getitem_identity shape : Forall (fun n => 0 <= n) shape ->
  exists r, cube_getitem shape [] = Ok r /\ dsel r = whole shape /\
            wsel r = map (fun _ => (0, false)) shape /\ wshape r = shape /\
            forall k, length k = length shape -> src_index (dsel r) k = k.
Proof.
  intros Hs. unfold cube_getitem. rewrite sanitize_nil. cbn [bind]. rewrite norm_full. cbn [bind]. rewrite (sel_full shape Hs). cbn [bind].
  eexists. split; [reflexivity|]. cbn [dsel wsel wshape]. split; [reflexivity|]. split; [|split].
  - clear Hs. induction shape as [|n ss IH]; [reflexivity|]. cbn [length repeat map]. rewrite IH. reflexivity.
  - apply shape_whole.
  - clear Hs. unfold src_index, dsel_off, whole. induction shape as [|n ss IH]; intros [|k0 ks] Hk; cbn [length] in Hk; try discriminate; [reflexivity|].
    cbn [map embed]. rewrite IH by lia. f_equal.
Qed.
