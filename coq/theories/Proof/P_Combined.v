(* Proofs for C06 on top of the compound-wrapper model (M_Wrappers) *)
From NDV Require Import M_Wrappers P_Wrappers.
From Coq Require Import Lia.
Open Scope Q_scope.

Lemma permute_seq_id {A} (d : A) : forall (p : list A), permute d (seq 0 (length p)) p = p.
Proof.
  intros p. apply (nth_ext _ _ d d); [rewrite permute_length, seq_length; reflexivity|].
  intros j Hj. rewrite permute_length, seq_length in Hj.
  rewrite nth_permute by (rewrite seq_length; assumption). rewrite seq_nth by assumption. reflexivity.
Qed.

(* combined wcs = Compound(primary, extra coords, mapping = range(n) ++ ecmap): world outputs are the primary's
   followed by the extra coordinates', each what the separate description gives for the same array element *)
Theorem combined_p2w W1 W2 ecmap p : length p = npix W1 -> length ecmap = npix W2 ->
  compound_p2w [W1; W2] (seq 0 (npix W1) ++ ecmap) p = p2w W1 p ++ p2w W2 (permute 0 ecmap p).
Proof.
  intros Hp He. rewrite compound_p2w_cons by (apply seq_length).
  rewrite <- Hp, permute_seq_id. f_equal.
  replace ecmap with (ecmap ++ []) at 1 by apply app_nil_r.
  rewrite compound_p2w_cons by assumption. unfold compound_p2w. cbn [comp_p2w]. apply app_nil_r.
Qed.

(* converting those world values back returns the element's pixel position *)
Theorem combined_roundtrip W1 W2 ecmap atol p : all_rt [W1; W2] -> length ecmap = npix W2 ->
  length p = npix W1 -> (0 < npix W1)%nat -> Forall (fun m => (m < npix W1)%nat) ecmap -> 0 <= atol ->
  exists p', compound_w2p [W1; W2] (seq 0 (npix W1) ++ ecmap) atol
                          (compound_p2w [W1; W2] (seq 0 (npix W1) ++ ecmap) p) = Ok p' /\ veq p' p.
Proof.
  intros Hrt He Hp Hpos Hm Hat.
  assert (Hni : n_inputs (seq 0 (npix W1) ++ ecmap) = npix W1).
  { unfold n_inputs. set (n := npix W1) in *.
    assert (Hmax : forall l, Forall (fun m => (m < n)%nat) l -> (fold_right Nat.max O l < n)%nat).
    { induction 1; cbn [fold_right]; lia. }
    assert (Hseq : forall k, (k <= n)%nat -> (0 < k)%nat -> fold_right Nat.max O (seq 0 k ++ ecmap) = Nat.max (k - 1) (fold_right Nat.max O ecmap)).
    { intros k Hk Hk0. rewrite fold_right_app.
      assert (forall s m acc, fold_right Nat.max acc (seq s m) = if Nat.eqb m 0 then acc else Nat.max (s + m - 1) acc).
      { intros s m; revert s; induction m as [|m IHm]; intros s acc; [reflexivity|]. cbn [seq fold_right Nat.eqb].
        rewrite IHm. destruct (Nat.eqb m 0) eqn:E; [apply Nat.eqb_eq in E; subst; lia|]. apply Nat.eqb_neq in E. lia. }
      rewrite H. destruct (Nat.eqb k 0) eqn:E; [apply Nat.eqb_eq in E; lia|]. f_equal; lia. }
    rewrite Hseq by lia. pose proof (Hmax ecmap Hm). lia. }
  apply compound_roundtrip; try assumption.
  - rewrite app_length, seq_length. cbn [total_npix fold_right]. lia.
  - rewrite Hni. assumption.
  - rewrite Hni. intros k Hk. apply in_or_app. left. apply in_seq. lia.
Qed.

(* the correlation matrix of the compound: entry (w, p) is the OR, over the member slots mapped to pixel
   axis p, of the members' block-diagonal matrix *)
Definition full_rows (ws : list wcs) : list (list bool) :=
  (fix rows (ws : list wcs) (before : nat) : list (list bool) :=
     match ws with
     | [] => []
     | w :: r => map (fun row => repeat false before ++ row ++ repeat false (total_npix r)) (corr w)
                 ++ rows r (before + npix w)%nat
     end) ws O.

Theorem compound_corr_entry ws mapping w p : (w < length (full_rows ws))%nat -> (p < n_inputs mapping)%nat ->
  nth p (nth w (compound_corr ws mapping) []) false =
  existsb (fun i => Nat.eqb (nth i mapping O) p && nth i (nth w (full_rows ws) []) false) (seq 0 (length mapping)).
Proof.
  intros Hw Hp. unfold compound_corr. fold (full_rows ws).
  set (f := fun row => map (fun ix => existsb (fun i => Nat.eqb (nth i mapping O) ix && nth i row false) (seq 0 (length mapping)))
                           (seq 0 (n_inputs mapping))).
  rewrite (nth_indep _ [] (f [])) by (rewrite map_length; assumption).
  rewrite (map_nth f). unfold f.
  rewrite (nth_indep _ false ((fun ix => existsb (fun i => Nat.eqb (nth i mapping O) ix && nth i (nth w (full_rows ws) []) false) (seq 0 (length mapping))) O))
    by (rewrite map_length, seq_length; assumption).
  rewrite (map_nth (fun ix => existsb (fun i => Nat.eqb (nth i mapping O) ix && nth i (nth w (full_rows ws) []) false) (seq 0 (length mapping)))).
  rewrite seq_nth by assumption. reflexivity.
Qed.

Theorem array_axis_types_spec corr types n a : (a < n)%nat ->
  nth a (array_axis_types corr types n) [] =
  map (fun w => nth w types 0%Z) (filter (fun w => nth (n - 1 - a) (nth w corr []) false) (seq 0 (length corr))).
Proof.
  intros Ha. unfold array_axis_types.
  set (g := fun p => map (fun w => nth w types 0%Z) (filter (fun w => nth p (nth w corr []) false) (seq 0 (length corr)))).
  rewrite rev_nth by (rewrite map_length, seq_length; assumption). rewrite map_length, seq_length.
  rewrite (nth_indep _ [] (g O)) by (rewrite map_length, seq_length; lia).
  rewrite (map_nth g). rewrite seq_nth by lia. unfold g.
  replace (0 + (n - S a))%nat with (n - 1 - a)%nat by lia. reflexivity.
Qed.
