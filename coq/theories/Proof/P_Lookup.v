From NDV Require Import M_Lookup P_Resample.
From Coq Require Import Lqa Lia.
Open Scope Q_scope.

Lemma Qfloor_unique x z : inject_Z z <= x -> x < inject_Z z + 1 -> Qfloor x = z.
Proof.
  intros H1 H2. pose proof (Qfloor_le x) as Hf1. pose proof (Qlt_floor x) as Hf2.
  assert (H3 : (Qfloor x < z + 1)%Z).
  { rewrite Zlt_Qlt, inject_Z_plus. eapply Qle_lt_trans; [exact Hf1|exact H2]. }
  assert (H4 : (z < Qfloor x + 1)%Z).
  { rewrite Zlt_Qlt. eapply Qle_lt_trans; [exact H1|exact Hf2]. }
  lia.
Qed.

Lemma qle_true a b : a <= b -> Qle_bool a b = true.
Proof. apply Qle_bool_iff. Qed.
Lemma qle_false a b : b < a -> Qle_bool a b = false.
Proof. intros H. destruct (Qle_bool a b) eqn:E; [|reflexivity]. apply Qle_bool_iff in E. lra. Qed.
Lemma qeq_false a b : ~ a == b -> Qeq_bool a b = false.
Proof. intros H. destruct (Qeq_bool a b) eqn:E; [|reflexivity]. apply Qeq_bool_iff in E. contradiction. Qed.
Lemma qeq_true a b : a == b -> Qeq_bool a b = true.
Proof. apply Qeq_bool_iff. Qed.

(* ---------- the table is reproduced: linear between the entries, nothing outside -------------------------------- *)
Theorem tab_linear t (i : nat) theta : (S i < length t)%nat -> 0 <= theta -> theta <= 1 ->
  exists v, tab_eval t (inject_Z (Z.of_nat i) + theta) = Some v /\
            v == (1 - theta) * nth i t 0 + theta * nth (S i) t 0.
Proof.
  intros Hi H0 H1. unfold tab_eval.
  set (x := inject_Z (Z.of_nat i) + theta).
  assert (Hi0 : 0 <= inject_Z (Z.of_nat i)) by (rewrite <- (Zle_Qle 0); lia).
  assert (Hin : inject_Z (Z.of_nat i) + 1 <= inject_Z (Z.of_nat (length t) - 1)).
  { change 1 with (inject_Z 1). rewrite <- inject_Z_plus, <- Zle_Qle. lia. }
  rewrite (qle_true 0 x) by (unfold x; lra).
  rewrite (qle_true x (inject_Z (Z.of_nat (length t) - 1))) by (unfold x; lra). cbn [andb].
  destruct (Qlt_le_dec theta 1) as [Hlt|Hge].
  - assert (Hfl : Qfloor x = Z.of_nat i) by (apply Qfloor_unique; unfold x; lra).
    rewrite Hfl, Nat2Z.id. replace (Z.to_nat (Z.of_nat i + 1)) with (S i) by lia.
    destruct (Qeq_bool x (inject_Z (Z.of_nat i))) eqn:E.
    + apply Qeq_bool_iff in E. eexists; split; [reflexivity|]. assert (theta == 0) by (unfold x in E; lra). rewrite H. ring.
    + eexists; split; [reflexivity|]. unfold x. ring.
  - assert (Ht : theta == 1) by lra.
    assert (Hx : x == inject_Z (Z.of_nat i + 1)) by (unfold x; rewrite inject_Z_plus; change (inject_Z 1) with 1; lra).
    assert (Hfl : Qfloor x = (Z.of_nat i + 1)%Z).
    { apply Qfloor_unique; rewrite Hx; [apply Qle_refl | lra]. }
    rewrite Hfl. rewrite (qeq_true x _ Hx). replace (Z.to_nat (Z.of_nat i + 1)) with (S i) by lia.
    eexists; split; [reflexivity|]. rewrite Ht. ring.
Qed.

Theorem tab_outside t x : x < 0 \/ inject_Z (Z.of_nat (length t) - 1) < x -> tab_eval t x = None.
Proof.
  intros [H|H]; unfold tab_eval.
  - rewrite (qle_false 0 x H). reflexivity.
  - rewrite (qle_false x _ H). rewrite andb_false_r. reflexivity.
Qed.

(* ---------- a strictly monotonic table's entries map back to their pixel ---------------------------------------- *)
Lemma inc_head_lt a l : strictly_inc (a :: l) -> forall j, (j < length l)%nat -> a < nth j l 0.
Proof.
  revert a; induction l as [|b r IH]; intros a H j Hj; cbn [length] in Hj; [lia|].
  cbn [strictly_inc] in H. destruct H as [Hab Hr]. destruct j as [|j]; cbn [nth]; [exact Hab|].
  eapply Qlt_trans; [exact Hab|]. apply IH; [exact Hr|lia].
Qed.
Lemma dec_head_gt a l : strictly_dec (a :: l) -> forall j, (j < length l)%nat -> nth j l 0 < a.
Proof.
  revert a; induction l as [|b r IH]; intros a H j Hj; cbn [length] in Hj; [lia|].
  cbn [strictly_dec] in H. destruct H as [Hab Hr]. destruct j as [|j]; cbn [nth]; [exact Hab|].
  eapply Qlt_trans; [|exact Hab]. apply IH; [exact Hr|lia].
Qed.

Lemma seg_inv_mono (inc : bool) : forall t k i, (if inc then strictly_inc t else strictly_dec t) -> (2 <= length t)%nat -> (i < length t)%nat ->
  exists v, seg_inv t k (nth i t 0) = Some v /\ v == inject_Z k + inject_Z (Z.of_nat i).
Proof.
  induction t as [|a t IH]; intros k i Hm Hl Hi; cbn [length] in *; [lia|].
  destruct t as [|b r]; cbn [length] in *; [lia|].
  assert (Hab : if inc then a < b else b < a) by (destruct inc; cbn in Hm; tauto).
  assert (Hne : ~ a == b) by (destruct inc; lra).
  cbn [seg_inv]. destruct i as [|[|i]]; cbn [nth].
  - assert (Hb : between a b a = true).
    { unfold between. destruct inc; [rewrite (qle_true a a), (qle_true a b) by lra; reflexivity |
                                     rewrite (qle_true b a), (qle_true a a) by lra; apply orb_true_r]. }
    rewrite Hb, (qeq_false a b Hne). eexists; split; [reflexivity|]. change (inject_Z (Z.of_nat 0)) with 0. field. lra.
  - assert (Hb : between a b b = true).
    { unfold between. destruct inc; [rewrite (qle_true a b), (qle_true b b) by lra; reflexivity |
                                     rewrite (qle_true b b), (qle_true b a) by lra; apply orb_true_r]. }
    rewrite Hb, (qeq_false a b Hne). eexists; split; [reflexivity|]. change (inject_Z (Z.of_nat 1)) with 1. field. lra.
  - set (w := nth i r 0).
    assert (Hw : if inc then b < w else w < b).
    { destruct inc; cbn in Hm; destruct Hm as [_ Hm]; [apply (inc_head_lt b r Hm) | apply (dec_head_gt b r Hm)]; lia. }
    assert (Hb : between a b w = false).
    { unfold between. destruct inc.
      - rewrite (qle_false w b) by lra. rewrite andb_false_r. rewrite (qle_false w a) by lra. rewrite andb_false_r. reflexivity.
      - rewrite (qle_false a w) by lra. cbn [andb orb]. rewrite (qle_false b w) by lra. reflexivity. }
    rewrite Hb.
    destruct (IH (k + 1)%Z (S i)) as (v & Hv & Hv2).
    + destruct inc; cbn in Hm; tauto.
    + destruct r; cbn [length] in *; lia.
    + cbn [length]. lia.
    + cbn [nth] in Hv. fold w in Hv. exists v. split; [exact Hv|].
      rewrite Hv2. rewrite inject_Z_plus. rewrite !Nat2Z.inj_succ. unfold Z.succ. rewrite !inject_Z_plus. change (inject_Z 1) with 1. ring.
Qed.

Theorem tab_inv_entry t (i : nat) : strictly_inc t \/ strictly_dec t -> (i < length t)%nat ->
  exists v, tab_inv t (nth i t 0) = Some v /\ v == inject_Z (Z.of_nat i).
Proof.
  intros Hm Hi. destruct t as [|a [|b r]]; cbn [length] in Hi; [lia| |].
  - assert (i = O) by lia. subst. cbn [tab_inv nth]. rewrite (qeq_true a a (Qeq_refl a)). eexists; split; reflexivity.
  - unfold tab_inv.
    destruct Hm as [Hm|Hm];
      [destruct (seg_inv_mono true (a :: b :: r) 0%Z i Hm) as (v & Hv & Hv2) | destruct (seg_inv_mono false (a :: b :: r) 0%Z i Hm) as (v & Hv & Hv2)];
      try (cbn [length]; lia); exists v; (split; [exact Hv|]); rewrite Hv2; change (inject_Z 0) with 0; ring.
Qed.

(* ---------- slicing: the coordinate of the sliced table --------------------------------------------------------- *)
Lemma range_from_nth f : forall s step k d, (k < f)%nat -> nth k (range_from f s step) d = (s + Z.of_nat k * step)%Z.
Proof.
  induction f as [|f IH]; intros s step k d Hk; [lia|]. cbn [range_from]. destruct k as [|k]; cbn [nth]; [lia|].
  rewrite IH by lia. lia.
Qed.
Lemma range_from_length f s step : length (range_from f s step) = f.
Proof. revert s; induction f as [|f IH]; intros s; cbn [range_from length]; [reflexivity | rewrite IH; reflexivity]. Qed.

Theorem slice_tab_entries t a b st t' s e step : slice_tab t (ISlice a b st) = Ok (inl t') ->
  slice_indices (Z.of_nat (length t)) a b st = Some (s, e, step) ->
  length t' = Z.to_nat (range_len s e step) /\
  forall k, (k < length t')%nat ->
    tab_eval t' (inject_Z (Z.of_nat k)) = Some (nth (Z.to_nat (s + Z.of_nat k * step)) t 0).
Proof.
  unfold slice_tab, slice_positions. intros H Hs. rewrite Hs in H. inversion H; subst t'; clear H.
  unfold py_range. rewrite map_length, range_from_length. split; [reflexivity|].
  intros k Hk. rewrite tab_at_knot by (rewrite map_length, range_from_length; exact Hk).
  rewrite (nth_indep _ 0 ((fun p => nth (Z.to_nat p) t 0) 0%Z)) by (rewrite map_length, range_from_length; exact Hk).
  rewrite (map_nth (fun p => nth (Z.to_nat p) t 0)). rewrite range_from_nth by exact Hk. reflexivity.
Qed.
Theorem slice_tab_int t i v : slice_tab t (IInt i) = Ok (inr v) ->
  exists j, norm_int (Z.of_nat (length t)) i = Some j /\ v = nth (Z.to_nat j) t 0.
Proof.
  unfold slice_tab. destruct (norm_int (Z.of_nat (length t)) i) as [j|]; [|discriminate].
  intros H; inversion H; subst. exists j. split; reflexivity.
Qed.

(* ---------- interpolate(grid): inside the table np.interp is the linear interpolation of the table -------------- *)
Theorem interp_is_tab_eval t x : (1 <= length t)%nat -> 0 <= x -> x <= inject_Z (Z.of_nat (length t) - 1) ->
  exists v, tab_eval t x = Some v /\ v == np_interp t x.
Proof.
  intros Hl H0 H1. unfold tab_eval, np_interp.
  rewrite (qle_true 0 x H0), (qle_true x _ H1). cbn [andb].
  destruct (Qle_bool x 0) eqn:E0.
  - apply Qle_bool_iff in E0. assert (Hx : x == 0) by lra.
    assert (Hfl : Qfloor x = 0%Z) by (apply Qfloor_unique; change (inject_Z 0) with 0; lra).
    rewrite Hfl. change (inject_Z 0) with 0. rewrite (qeq_true x 0 Hx). eexists; split; reflexivity.
  - destruct (Qle_bool (inject_Z (Z.of_nat (length t) - 1)) x) eqn:E1.
    + apply Qle_bool_iff in E1. assert (Hx : x == inject_Z (Z.of_nat (length t) - 1)) by lra.
      assert (Hfl : Qfloor x = (Z.of_nat (length t) - 1)%Z) by (apply Qfloor_unique; lra).
      rewrite Hfl, (qeq_true x _ Hx). eexists; split; reflexivity.
    + destruct (Qeq_bool x (inject_Z (Qfloor x))) eqn:E; eexists; (split; [reflexivity|]); [|reflexivity].
      apply Qeq_bool_iff in E. rewrite E at 3. ring.
Qed.

(* ---------- ExtraCoords.resample: the grid is offset + k * factor, k = 0, 1, ... while it stays on the axis ----- *)
Lemma in_qupto q n : In q (qupto n) <-> exists k, (k < n)%nat /\ q = inject_Z (Z.of_nat k).
Proof.
  induction n as [|n IH]; cbn [qupto]; [split; [contradiction | intros (k & Hk & _); lia]|].
  rewrite in_app_iff, IH. cbn [In]. split.
  - intros [(k & Hk & E)|[E|[]]]; [exists k; split; [lia|exact E] | exists n; split; [lia|symmetry; exact E]].
  - intros (k & Hk & E). destruct (Nat.eq_dec k n) as [->|Hne]; [right; left; symmetry; exact E | left; exists k; split; [lia|exact E]].
Qed.

Theorem resample_grid_members c d f x : 0 < f ->
  (In x (resample_grid c d f) <-> exists k : nat, x = c + inject_Z (Z.of_nat k) * f /\ x <= d - 1).
Proof.
  intros Hf. unfold resample_grid, arange. rewrite filter_In, in_map_iff. split.
  - intros ((q & Hq & Hin) & Hle). apply in_qupto in Hin. destruct Hin as (k & _ & ->).
    exists k. split; [symmetry; exact Hq | apply Qle_bool_iff; exact Hle].
  - intros (k & -> & Hle). split; [|apply Qle_bool_iff; exact Hle].
    exists (inject_Z (Z.of_nat k)). split; [reflexivity|]. apply in_qupto. exists k. split; [|reflexivity].
    set (y := (d + f - c) / f). pose proof (Qle_ceiling y) as Hc.
    assert (Hky : inject_Z (Z.of_nat k) < y).
    { unfold y. apply Qlt_shift_div_l; [exact Hf|]. lra. }
    assert (Hlt : (Z.of_nat k < Qceiling y)%Z) by (rewrite Zlt_Qlt; lra).
    lia.
Qed.

(* the resampled table holds, for each of those positions inside the table, the table's linear interpolation there *)
Theorem resample_tab_values t c d f : resample_tab t c d f = map (np_interp t) (resample_grid c d f).
Proof. reflexivity. Qed.
