(* Adding a point never shrinks the region: every position selected for a set of on-array points is still selected
   when one more on-array point is given (in any position of the argument list this is the head: the region depends
   on the points only through their minimum and maximum). *)
From NDV Require Import M_Crop P_Crop.
From Coq Require Import Lia.
Open Scope Z_scope.

Lemma zmin_glb l d y : y <= zmin_l l d <-> y <= d /\ Forall (fun x => y <= x) l.
Proof.
  induction l as [|x l IH]; cbn [zmin_l fold_right].
  - split; [intros H; split; [exact H|constructor]|intros [H _]; exact H].
  - fold (zmin_l l d). split.
    + intros H. assert (H' : y <= zmin_l l d) by lia. apply IH in H'. destruct H' as [H1 H2]. split; [exact H1|]. constructor; [lia|exact H2].
    + intros [H1 H2]. inversion H2 as [|? ? Hx Hl]; subst. assert (y <= zmin_l l d) by (apply IH; split; assumption). lia.
Qed.
Lemma zmax_lub l d y : zmax_l l d <= y <-> d <= y /\ Forall (fun x => x <= y) l.
Proof.
  induction l as [|x l IH]; cbn [zmax_l fold_right].
  - split; [intros H; split; [exact H|constructor]|intros [H _]; exact H].
  - fold (zmax_l l d). split.
    + intros H. assert (H' : zmax_l l d <= y) by lia. apply IH in H'. destruct H' as [H1 H2]. split; [exact H1|]. constructor; [lia|exact H2].
    + intros [H1 H2]. inversion H2 as [|? ? Hx Hl]; subst. assert (zmax_l l d <= y) by (apply IH; split; assumption). lia.
Qed.

Theorem axis_item_monotone idxs i kd kd' len x : idxs <> [] -> Forall (fun k => 0 <= k < len) (i :: idxs) ->
  selects len (axis_item len idxs kd) x -> selects len (axis_item len (i :: idxs) kd') x.
Proof.
  intros Hne Hall Hsel. inversion Hall as [|? ? Hi Hrest]; subst.
  destruct (axis_item_box idxs kd len x Hne Hrest) as [H1 _]. cbv zeta in H1. apply H1 in Hsel.
  destruct (axis_item_box (i :: idxs) kd' len x ltac:(discriminate) Hall) as [H2 _]. cbv zeta in H2. cbn [tl hd] in H2. apply H2.
  destruct idxs as [|j r]; [congruence|]. cbn [tl hd] in Hsel.
  assert (A : zmin_l (j :: r) i <= zmin_l r j).
  { apply zmin_glb. destruct (zmin_le (j :: r) i) as [_ F]. inversion F as [|? ? Fj Fr]; subst. split; [exact Fj|exact Fr]. }
  assert (B : zmax_l r j <= zmax_l (j :: r) i).
  { apply zmax_lub. destruct (zmax_ge (j :: r) i) as [_ F]. inversion F as [|? ? Fj Fr]; subst. split; [exact Fj|exact Fr]. }
  lia.
Qed.
