From NDV Require Import M_GlobalCoords.
From Coq Require Import Lia.
Open Scope Z_scope.

(* ---------- a world value that is not correlated with an axis does not change along it ------------ *)
Fixpoint upd {A} (i : nat) (x : A) (l : list A) : list A :=
  match i, l with
  | _, [] => []
  | O, _ :: t => x :: t
  | S j, h :: t => h :: upd j x t
  end.

Definition indep (W : list Q -> list Q) (w a : nat) : Prop :=
  forall p x, (nth w (W (upd a x p)) 0 == nth w (W p) 0)%Q.
Definition corr_sound (W : list Q -> list Q) (corr : list (list bool)) : Prop :=
  forall w a, nth a (nth w corr []) false = false -> indep W w a.

Definition morph {A} (k : nat) (p p' : list A) : list A := firstn k p' ++ skipn k p.

Lemma upd_same {A} (d : A) : forall i l, upd i (nth i l d) l = l.
Proof. induction i as [|i IH]; intros [|h t]; cbn [upd nth]; try reflexivity. f_equal. apply IH. Qed.

Lemma morph_step {A} (d : A) : forall k p p', length p = length p' -> (k < length p)%nat ->
  morph (S k) p p' = upd k (nth k p' d) (morph k p p').
Proof.
  unfold morph. induction k as [|k IH]; intros [|x p] [|y p'] Hl Hk; cbn [length] in *; try lia.
  - reflexivity.
  - cbn [firstn skipn app upd nth]. f_equal. apply (IH p p'); lia.
Qed.

Lemma morph_full {A} : forall (p p' : list A), length p = length p' -> morph (length p) p p' = p'.
Proof.
  intros p p' H. unfold morph. rewrite H, firstn_all. rewrite <- H, skipn_all. apply app_nil_r.
Qed.

Lemma nth_morph_ge {A} (d : A) : forall k p p' a, length p = length p' -> (k <= a)%nat ->
  nth a (morph k p p') d = nth a p d.
Proof.
  unfold morph. induction k as [|k IH]; intros p p' a Hl Ha; [reflexivity|].
  destruct p as [|x p], p' as [|y p']; cbn [length] in *; try lia; [destruct a; reflexivity|].
  destruct a as [|a]; [lia|]. cbn [firstn skipn app nth]. apply IH; lia.
Qed.

Theorem agree_on_correlated W corr w : corr_sound W corr -> forall p p', length p = length p' ->
  (forall a, (a < length p)%nat -> nth a (nth w corr []) false = true -> (nth a p 0 == nth a p' 0)%Q /\ nth a p 0%Q = nth a p' 0%Q) ->
  (nth w (W p) 0 == nth w (W p') 0)%Q.
Proof.
  intros Hs p p' Hl Hag.
  assert (Hk : forall k, (k <= length p)%nat -> (nth w (W (morph k p p')) 0 == nth w (W p) 0)%Q).
  { induction k as [|k IH]; intros Hk; [unfold morph; cbn; reflexivity|].
    rewrite (morph_step 0%Q) by (try assumption; lia).
    destruct (nth k (nth w corr []) false) eqn:E.
    - destruct (Hag k ltac:(lia) E) as [_ Heq]. rewrite <- Heq.
      rewrite <- (nth_morph_ge 0%Q k p p' k Hl (le_n k)). rewrite upd_same. apply IH. lia.
    - etransitivity; [apply (Hs w k E)|apply IH; lia]. }
  rewrite <- (Hk (length p) (le_n _)). rewrite morph_full by assumption. reflexivity.
Qed.

(* element positions: the base pixel (array order) of element e of the sliced cube *)
Definition embedq (sel : list (Z * bool)) (e : list Z) : list Q := map inject_Z (embed sel e).

Lemma embed_length : forall sel e, length (embed sel e) = length sel.
Proof.
  induction sel as [|[o d] r IH]; intros e; [reflexivity|]. destruct d; cbn [embed length].
  - f_equal. apply IH.
  - destruct e; cbn [length]; f_equal; apply IH.
Qed.

Lemma embed_dropped : forall sel e a, snd (nth a sel (0, false)) = true ->
  nth a (embed sel e) 0 = fst (nth a sel (0, false)).
Proof.
  induction sel as [|[o d] r IH]; intros e a H; [destruct a; cbn in H; discriminate|].
  destruct a as [|a].
  - cbn [nth snd fst] in *. subst d. reflexivity.
  - cbn [nth] in H |- *. destruct d; cbn [embed nth]; [apply IH; assumption|].
    destruct e; cbn [nth]; apply IH; assumption.
Qed.

(* the value listed for a dropped world coordinate is the value EVERY element of the sliced cube had
   for it in the original cube ("the value it had at the index that was sliced away") *)
Theorem dropped_value_is_element_value W corr sel w e : corr_sound W corr ->
  world_kept corr sel w = false ->
  (nth w (W (embedq sel e)) 0 == dropped_value W sel w)%Q.
Proof.
  intros Hs Hk. unfold dropped_value. apply (agree_on_correlated W corr w Hs).
  - unfold embedq, sel_pixel. rewrite !map_length. apply embed_length.
  - intros a Ha Hc. unfold embedq in Ha. rewrite map_length, embed_length in Ha.
    unfold world_kept in Hk.
    assert (Hd : snd (nth a sel (0, false)) = true).
    { destruct (snd (nth a sel (0, false))) eqn:E; [reflexivity|]. exfalso.
      assert (existsb (fun a0 => nth a0 (nth w corr []) false && negb (snd (nth a0 sel (0, false)))) (seq 0 (length sel)) = true).
      { apply existsb_exists. exists a. split; [apply in_seq; lia|]. rewrite Hc, E. reflexivity. }
      congruence. }
    assert (Heq : nth a (embedq sel e) 0%Q = nth a (sel_pixel sel) 0%Q).
    { unfold embedq, sel_pixel.
      rewrite (nth_indep _ 0%Q (inject_Z 0)) by (rewrite map_length, embed_length; assumption).
      rewrite (map_nth inject_Z).
      rewrite (nth_indep (map _ sel) 0%Q ((fun s : Z * bool => inject_Z (fst s)) (0, false))) by (rewrite map_length; assumption).
      rewrite (map_nth (fun s : Z * bool => inject_Z (fst s))). rewrite embed_dropped by assumption. reflexivity. }
    split; [rewrite Heq; reflexivity|exact Heq].
Qed.

(* ---------- successive slices accumulate their drops --------------------------------------------- *)
Lemma compose_dropped_mono : forall sel new a, snd (nth a sel (0, false)) = true ->
  snd (nth a (compose_sel sel new) (0, false)) = true.
Proof.
  induction sel as [|[o d] r IH]; intros new a H; [destruct a; cbn in H; discriminate|].
  destruct a as [|a]; cbn [nth] in H.
  - cbn [snd] in H. subst d. reflexivity.
  - destruct d; cbn [compose_sel nth]; [apply IH; assumption|].
    destruct new as [|[o' d'] n']; cbn [nth]; apply IH; assumption.
Qed.

Lemma compose_length : forall sel new, length (compose_sel sel new) = length sel.
Proof.
  induction sel as [|[o d] r IH]; intros new; [reflexivity|]. destruct d; cbn [compose_sel length].
  - f_equal. apply IH.
  - destruct new as [|[o' d'] n']; cbn [length]; f_equal; apply IH.
Qed.

Theorem dropped_world_accumulates corr sel new w : world_kept corr sel w = false ->
  world_kept corr (compose_sel sel new) w = false.
Proof.
  unfold world_kept. intros H. rewrite compose_length.
  destruct (existsb _ (seq 0 (length sel))) eqn:E in |- *; [|reflexivity]. exfalso.
  apply existsb_exists in E. destruct E as (a & Ha & Hb). apply andb_true_iff in Hb. destruct Hb as [Hc Hn].
  assert (Hx : existsb (fun a0 => nth a0 (nth w corr []) false && negb (snd (nth a0 sel (0, false)))) (seq 0 (length sel)) = true).
  { apply existsb_exists. exists a. split; [assumption|]. rewrite Hc. cbn [andb].
    destruct (snd (nth a sel (0, false))) eqn:Es; [|reflexivity].
    rewrite (compose_dropped_mono sel new a Es) in Hn. discriminate. }
  congruence.
Qed.

(* ---------- user coordinates: slicing never touches them; refused adds change nothing ------------- *)
Fixpoint replay (l : list (Z * Z * Q)) (ops : list gop) : list (Z * Z * Q) :=
  match ops with
  | [] => l
  | GAdd n t valid v :: r => if has_name n l || negb valid then replay l r else replay (l ++ [(n, t, v)]) r
  | GRemove n :: r => replay (filter (fun e => negb (fst (fst e) =? n)) l) r
  | GSlice _ _ :: r => replay l r
  end.

Theorem internal_is_replay : forall ops s, internal (fold_left gstep' ops s) = replay (internal s) ops.
Proof.
  induction ops as [|o ops IH]; intros s; [reflexivity|]. cbn [fold_left]. rewrite IH. clear IH.
  unfold gstep', gstep. destruct o as [n t valid v|n|items new]; cbn [replay].
  - destruct (has_name n (internal s)); cbn [orb]; [reflexivity|]. destruct valid; cbn [negb]; reflexivity.
  - destruct (has_name n (internal s)) eqn:E; cbn [internal]; [reflexivity|].
    f_equal. clear -E. induction (internal s) as [|e l IHl]; [reflexivity|].
    cbn [has_name existsb] in E. apply orb_false_iff in E. destruct E as [E1 E2]. cbn [filter]. rewrite E1. cbn [negb].
    f_equal. apply IHl. exact E2.
  - destruct (ec_getitem items (gec s)); reflexivity.
Qed.

Lemma ec_getitem_dropped_prefix items e e' : ec_getitem items e = Ok e' ->
  exists extra, dropped e' = dropped e ++ extra.
Proof.
  unfold ec_getitem. destruct (mapr (slice_table items) (tables e)) as [l|]; [|discriminate].
  intros H; inversion H; subst. eexists; reflexivity.
Qed.
