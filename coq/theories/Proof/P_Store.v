From NDV Require Import M_Store.
From Coq Require Import Lia.
Open Scope nat_scope.

Definition locs_of (o : obj) : list loc := map snd o.

Lemma build_spec : forall sg src next o n, build sg src next = (o, n) ->
  next <= n /\ Forall (fun fl => In (snd fl) (locs_of src) \/ (next <= snd fl < n)) o.
Proof.
  induction sg as [|[f m] r IH]; intros src next o n H; cbn [build] in H.
  - inversion H; subst. split; [lia | constructor].
  - destruct m.
    + destruct (get_loc src f) as [l|] eqn:El.
      * destruct (build r src next) as [o' n'] eqn:Eb. inversion H; subst. destruct (IH _ _ _ _ Eb) as [H1 H2].
        split; [exact H1|]. constructor; [|exact H2]. left. cbn [snd].
        clear -El. induction src as [|[g l'] s IHs]; cbn [get_loc] in El; [discriminate|].
        destruct (field_eqb f g); [inversion El; subst; left; reflexivity | right; apply IHs; exact El].
      * apply IH in H. exact H.
    + destruct (build r src (S next)) as [o' n'] eqn:Eb. inversion H; subst. destruct (IH _ _ _ _ Eb) as [H1 H2].
      split; [lia|]. constructor; [right; cbn [snd]; lia|].
      eapply Forall_impl; [|exact H2]. intros fl [Hin|Hr]; [left; exact Hin | right; lia].
Qed.

Lemma field_eqb_eq a b : field_eqb a b = true <-> a = b.
Proof. destruct a, b; cbn; split; intros H; try reflexivity; try discriminate. Qed.

(* a field built afresh gets a cell beyond everything that existed *)
Lemma build_fresh : forall sg src next o n f, build sg src next = (o, n) -> NoDup (map fst sg) ->
  mode_of sg f = Some Fresh -> exists l, get_loc o f = Some l /\ next <= l.
Proof.
  induction sg as [|[g m] r IH]; intros src next o n f H Hnd Hm; [discriminate|].
  inversion Hnd as [|? ? Hnotin Hnd']; subst. unfold mode_of in Hm. cbn [filter fst] in Hm.
  destruct (field_eqb f g) eqn:E.
  - apply field_eqb_eq in E; subst g. inversion Hm; subst m. cbn [build] in H.
    destruct (build r src (S next)) as [o' n'] eqn:Eb. inversion H; subst.
    exists next. cbn [get_loc]. rewrite (proj2 (field_eqb_eq f f) eq_refl). split; [reflexivity|lia].
  - assert (Hm' : mode_of r f = Some Fresh) by exact Hm.
    cbn [build] in H. destruct m.
    + destruct (get_loc src g) as [l|].
      * destruct (build r src next) as [o' n'] eqn:Eb. inversion H; subst.
        destruct (IH _ _ _ _ f Eb Hnd' Hm') as (l' & Hl' & Hle). exists l'. cbn [get_loc]. rewrite E. split; assumption.
      * apply (IH _ _ _ _ f H Hnd' Hm').
    + destruct (build r src (S next)) as [o' n'] eqn:Eb. inversion H; subst.
      destruct (IH _ _ _ _ f Eb Hnd' Hm') as (l' & Hl' & Hle). exists l'. cbn [get_loc]. rewrite E. split; [assumption|lia].
Qed.

Lemma firstn_exact {A} (l : list A) n : n <= length l -> length (firstn n l) = n.
Proof. intros H. rewrite firstn_length. lia. Qed.

(* a derive step appends one object and some cells; nothing that existed is touched *)
Lemma derive_shape sg k c st : wf st -> exists o extra,
  objs (derive sg k c st) = objs st ++ [o] /\ heap (derive sg k c st) = heap st ++ extra /\
  Forall (fun fl => snd fl < length (heap st ++ extra)) o /\
  (forall f, NoDup (map fst sg) -> mode_of sg f = Some Fresh -> exists l, get_loc o f = Some l /\ length (heap st) <= l).
Proof.
  intros Hwf. unfold derive. destruct (build sg (nth k (objs st) []) (length (heap st))) as [o n] eqn:Eb. cbn [objs heap].
  exists o. eexists. split; [reflexivity|]. split; [reflexivity|].
  destruct (build_spec _ _ _ _ _ Eb) as [Hle Hall]. split.
  - rewrite app_length, firstn_exact by (rewrite app_length, repeat_length; lia).
    eapply Forall_impl; [|exact Hall]. intros fl [Hin|Hr]; [|unfold loc in *; destruct fl as [ff ll]; cbn [snd] in *; lia].
    assert (Hsrc : Forall (fun fl0 => snd fl0 < length (heap st)) (nth k (objs st) [])).
    { destruct (Nat.lt_ge_cases k (length (objs st))) as [Hk|Hk].
      - unfold wf in Hwf. rewrite Forall_forall in Hwf. apply Hwf. apply nth_In. exact Hk.
      - rewrite nth_overflow by exact Hk. constructor. }
    unfold locs_of in Hin. apply in_map_iff in Hin. destruct Hin as (fl0 & E & Hin0).
    rewrite Forall_forall in Hsrc. specialize (Hsrc fl0 Hin0). unfold loc in *. destruct fl as [ff ll]; destruct fl0 as [ff0 ll0]; cbn [snd] in *. lia.
  - intros f Hnd Hm. apply (build_fresh _ _ _ _ _ f Eb Hnd Hm).
Qed.

Lemma wf_derive sg k c st : wf st -> wf (derive sg k c st).
Proof.
  intros Hwf. destruct (derive_shape sg k c st Hwf) as (o & extra & Ho & Hh & Hall & _).
  unfold wf. rewrite Ho, Hh. apply Forall_app. split.
  - eapply Forall_impl; [|exact Hwf]. intros ob Hob. eapply Forall_impl; [|exact Hob]. intros fl Hfl. cbn in *. rewrite app_length. destruct fl as [ff ll]; cbn [snd] in *; unfold loc in *; lia.
  - constructor; [exact Hall | constructor].
Qed.

Lemma observe_ext j st st' : nth j (objs st') [] = nth j (objs st) [] ->
  (forall l, In l (locs_of (nth j (objs st) [])) -> nth l (heap st') 0%Z = nth l (heap st) 0%Z) ->
  observe j st' = observe j st.
Proof.
  intros Ho Hh. unfold observe. rewrite Ho. apply map_ext_in. intros [f l] Hin. f_equal. apply Hh.
  unfold locs_of. apply in_map_iff. exists (f, l). split; [reflexivity | exact Hin].
Qed.

(* one derive step leaves every observation of every existing object unchanged *)
Theorem derive_preserves sg k c st j : wf st -> j < length (objs st) -> observe j (derive sg k c st) = observe j st.
Proof.
  intros Hwf Hj. destruct (derive_shape sg k c st Hwf) as (o & extra & Ho & Hh & _ & _).
  apply observe_ext.
  - rewrite Ho. apply app_nth1. exact Hj.
  - intros l Hl. rewrite Hh. apply app_nth1.
    unfold wf in Hwf. rewrite Forall_forall in Hwf. specialize (Hwf _ (nth_In _ [] Hj)).
    unfold locs_of in Hl. apply in_map_iff in Hl. destruct Hl as (fl & E & Hin). rewrite Forall_forall in Hwf. specialize (Hwf fl Hin). destruct fl as [ff ll]; cbn [snd] in *; unfold loc in *; subst; lia.
Qed.

Lemma derive_objs_len sg k c st : wf st -> length (objs (derive sg k c st)) = S (length (objs st)).
Proof. intros Hwf. destruct (derive_shape sg k c st Hwf) as (o & extra & Ho & _). rewrite Ho, app_length. cbn. lia. Qed.

(* any history of derive steps and queries, of any length, on any objects *)
Theorem history_preserves steps : forall st j, wf st -> j < length (objs st) ->
  observe j (run steps st) = observe j st /\ wf (run steps st) /\ length (objs st) <= length (objs (run steps st)) /\
  nth j (objs (run steps st)) [] = nth j (objs st) [].
Proof.
  induction steps as [|s steps IH]; intros st j Hwf Hj; [unfold run; cbn [fold_left]; repeat split; try assumption; lia|].
  unfold run. cbn [fold_left]. fold (run steps (run_step s st)).
  destruct s as [sg k c|k]; cbn [run_step].
  - pose proof (wf_derive sg k c st Hwf) as Hwf'. pose proof (derive_objs_len sg k c st Hwf) as Hlen.
    destruct (IH (derive sg k c st) j Hwf' ltac:(lia)) as (H1 & H2 & H3 & H4).
    split; [rewrite H1; apply derive_preserves; assumption|]. split; [exact H2|]. split; [lia|].
    rewrite H4. destruct (derive_shape sg k c st Hwf) as (o & extra & Ho & _). rewrite Ho. apply app_nth1. exact Hj.
  - apply IH; assumption.
Qed.

(* writing into a cell that object j does not refer to leaves object j as it was *)
Lemma set_nth_other : forall l i i' v, i <> i' -> nth i' (set_nth l i v) 0%Z = nth i' l 0%Z.
Proof.
  induction l as [|x l IH]; intros i i' v Hne; [destruct i; reflexivity|].
  destruct i as [|i]; destruct i' as [|i']; cbn [set_nth nth]; try reflexivity; [lia | apply IH; lia].
Qed.
Theorem write_elsewhere k f v st j l : get_loc (nth k (objs st) []) f = Some l -> ~ In l (locs_of (nth j (objs st) [])) ->
  observe j (write k f v st) = observe j st.
Proof.
  intros Hl Hnot. unfold write. rewrite Hl. apply observe_ext; cbn [objs heap]; [reflexivity|].
  intros l' Hin. apply set_nth_other. intros E; subst. contradiction.
Qed.

(* writing into a field that an operation built afresh never changes any object that existed before the operation,
   whatever further derive steps and queries happened in between *)
Theorem fresh_write_safe sg k c st steps f v j : wf st -> NoDup (map fst sg) -> mode_of sg f = Some Fresh ->
  j < length (objs st) ->
  observe j (write (length (objs st)) f v (run steps (derive sg k c st))) = observe j st.
Proof.
  intros Hwf Hnd Hm Hj.
  destruct (derive_shape sg k c st Hwf) as (o & extra & Ho & Hh & Hall & Hfresh).
  destruct (Hfresh f Hnd Hm) as (l & Hl & Hge).
  pose proof (wf_derive sg k c st Hwf) as Hwf1. pose proof (derive_objs_len sg k c st Hwf) as Hlen1.
  set (st1 := derive sg k c st) in *.
  destruct (history_preserves steps st1 j Hwf1 ltac:(lia)) as (Hobs & _ & _ & Hnthj).
  destruct (history_preserves steps st1 (length (objs st)) Hwf1 ltac:(lia)) as (_ & _ & _ & Hnthn).
  assert (Hnew : nth (length (objs st)) (objs st1) [] = o) by (rewrite Ho, app_nth2, Nat.sub_diag by lia; reflexivity).
  assert (Hold : nth j (objs st1) [] = nth j (objs st) []) by (rewrite Ho; apply app_nth1; exact Hj).
  rewrite (write_elsewhere _ f v _ j l).
  - rewrite Hobs. apply derive_preserves; assumption.
  - rewrite Hnthn, Hnew. exact Hl.
  - rewrite Hnthj, Hold. intros Hin.
    unfold wf in Hwf. rewrite Forall_forall in Hwf. specialize (Hwf _ (nth_In _ [] Hj)).
    unfold locs_of in Hin. apply in_map_iff in Hin. destruct Hin as (fl & E & Hin'). rewrite Forall_forall in Hwf. specialize (Hwf fl Hin'). destruct fl as [ff ll]; cbn [snd] in *; unfold loc in *; subst; lia.
Qed.

(* the table of the implementation: every operation's signature names each field once, and arithmetic builds its data afresh *)
Theorem sig_nodup k : NoDup (map fst (sig_of k)).
Proof. destruct k; cbn; repeat constructor; cbn; intuition discriminate. Qed.
Theorem arith_data_fresh : mode_of (sig_of KArith) FData = Some Fresh.
Proof. reflexivity. Qed.
