From NDV Require Import M_Wrappers P_Wrappers M_Unwrap.
From Coq Require Import Lqa Lia.
Open Scope Q_scope.

Lemma dot_proper : forall r u v, veq u v -> dot r u == dot r v.
Proof.
  intros r u v H. revert r. induction H as [|a b u v Hab Huv IH]; intros [|x r]; cbn; try reflexivity.
  unfold dot in IH. rewrite Hab, (IH r). reflexivity.
Qed.

Lemma rows_proper : forall cds rows U V, veq U V ->
  veq (zip2 (fun cd row => cd * dot row U) cds rows) (zip2 (fun cd row => cd * dot row V) cds rows).
Proof.
  induction cds as [|cd cds IH]; intros [|row rows] U V H; cbn; try constructor.
  - rewrite (dot_proper row U V H). reflexivity.
  - apply IH. assumption.
Qed.

Definition wf (n : nat) (F : fits) : Prop :=
  length (crpix F) = n /\ length (cdelt F) = n /\ length (pc F) = n /\
  Forall (fun r => length r = n) (pc F) /\ length (naxis F) = n.

(* ---- slicing shifts the reference pixel: x' (p) == x (p + start) ---------------------------- *)
Lemma shift_vec : forall p c s, length c = length p -> length s = length p ->
  veq (zip2 (fun pj cj => pj + 1 - cj) p (zip2 (fun c s => c - s) c s))
      (zip2 (fun pj cj => pj + 1 - cj) (zip2 Qplus p s) c).
Proof.
  induction p as [|x p IH]; intros [|y c] [|z s] Hc Hs; cbn [length] in *; try discriminate; cbn; constructor.
  - ring.
  - apply IH; lia.
Qed.

Theorem slice_interm F starts nax p : length (crpix F) = length p -> length starts = length p ->
  veq (interm (mkFits (zip2 (fun c s => c - s) (crpix F) starts) (cdelt F) (pc F) nax) p)
      (interm F (zip2 Qplus p starts)).
Proof.
  intros Hc Hs. unfold interm. cbn. apply rows_proper. apply shift_vec; assumption.
Qed.

(* ---- resampling: x' (p) == x (p*f + o) with the repaired CRPIX and PC rules ---------------------- *)
Lemma dot_scaled : forall row f u fi, ~ fi == 0 -> length f = length row -> length u = length row ->
  dot (zip2 (fun a fj => a * fj / fi) row f) u == dot row (zip2 Qmult f u) / fi.
Proof.
  induction row as [|a row IH]; intros [|fj f] [|x u] fi Hfi Hf Hu; cbn [length] in *; try discriminate; cbn.
  - field. assumption.
  - unfold dot in IH. rewrite (IH f u fi Hfi) by lia. field. assumption.
Qed.

Lemma resample_vec : forall p c f o, length c = length p -> length f = length p -> length o = length p ->
  Forall (fun x => ~ x == 0) f ->
  veq (zip2 Qmult f (zip2 (fun pj cj => pj + 1 - cj) p (zip3 (fun c f o => (c + f - 1 - o) / f) c f o)))
      (zip2 (fun pj cj => pj + 1 - cj) (scale f o p) c).
Proof.
  induction p as [|x p IH]; intros [|y c] [|fj f] [|oj o] Hc Hf Ho Hnz; cbn [length] in *; try discriminate; cbn; constructor.
  - inversion Hnz; subst. field. assumption.
  - inversion Hnz; subst. apply IH; try lia. assumption.
Qed.

Lemma resample_rows : forall cds rows fo f U V, length rows = length cds -> length fo = length cds ->
  Forall (fun x => ~ x == 0) fo -> Forall (fun r => length r = length f) rows -> length U = length f ->
  veq (zip2 Qmult f U) V ->
  veq (zip2 (fun cd row => cd * dot row U) (zip2 Qmult cds fo)
            (zip2 (fun row fi => zip2 (fun a fj => a * fj / fi) row f) rows fo))
      (zip2 (fun cd row => cd * dot row V) cds rows).
Proof.
  induction cds as [|cd cds IH]; intros [|row rows] [|fi fo] f U V Hr Hfo Hnz Hrows HU HV;
    cbn [length] in *; try discriminate; cbn [zip2]; constructor.
  - inversion Hnz; subst. inversion Hrows; subst.
    rewrite dot_scaled by (try assumption; congruence). rewrite (dot_proper row _ _ HV). field. assumption.
  - inversion Hnz; subst. inversion Hrows; subst. apply IH; try assumption; lia.
Qed.

Theorem resample_interm n F f o p : wf n F -> length f = n -> length o = n -> length p = n ->
  Forall (fun x => ~ x == 0) f ->
  veq (interm (resample_fits F f o) p) (interm F (scale f o p)).
Proof.
  intros (Hc & Hcd & Hpc & Hrows & _) Hf Ho Hp Hnz. unfold interm, resample_fits. cbn.
  assert (Hlen : forall (c f o p : list Q) m, length c = m -> length f = m -> length o = m -> length p = m ->
            length (zip2 (fun pj cj => pj + 1 - cj) p (zip3 (fun c f0 o0 => (c + f0 - 1 - o0) / f0) c f o)) = m).
  { induction c as [|y c IH]; intros [|fj f'] [|oj o'] [|x p'] m H1 H2 H3 H4; cbn [length] in *; subst; try discriminate; cbn [zip2 zip3 length]; [reflexivity|].
    f_equal. apply IH; lia. }
  apply resample_rows.
  - transitivity n; [exact Hpc | symmetry; exact Hcd].
  - transitivity n; [exact Hf | symmetry; exact Hcd].
  - assumption.
  - rewrite Hf. exact Hrows.
  - transitivity n; [apply Hlen; assumption | symmetry; exact Hf].
  - apply resample_vec; try assumption; congruence.
Qed.

(* the code's own CRPIX rule (crpix + o)/f coincides with the correct one exactly on the block-centre
   offsets that rebin uses *)
Theorem crpix_rule_iff c f o : ~ f == 0 -> ((c + o) / f == (c + f - 1 - o) / f <-> 2 * o == f - 1).
Proof.
  intros Hf.
  assert (Hi : ~ / f == 0) by (intro E; apply Hf; rewrite <- (Qinv_involutive f), E; reflexivity).
  split; intros H.
  - unfold Qdiv in H. apply (proj1 (Qmult_inj_r _ _ (/ f) Hi)) in H. lra.
  - assert (Ho : o == (f - 1) * (1 # 2)) by lra. rewrite Ho. field. assumption.
Qed.

(* ================= the whole chain ============================================================== *)
From NDV Require Import P_Slicing.

Lemma zip2_length {A B C} (f : A -> B -> C) : forall a b, length b = length a -> length (zip2 f a b) = length a.
Proof. induction a as [|x a IH]; intros [|y b] H; cbn [length] in *; try discriminate; cbn [zip2 length]; [reflexivity|]. f_equal. apply IH. lia. Qed.
Lemma zip3_length {A B C D} (f : A -> B -> C -> D) : forall a b c, length b = length a -> length c = length a ->
  length (zip3 f a b c) = length a.
Proof.
  induction a as [|x a IH]; intros [|y b] [|z c] H1 H2; cbn [length] in *; try discriminate; cbn [zip3 length]; [reflexivity|].
  f_equal. apply IH; lia.
Qed.
Lemma spread_length {A} (d : A) : forall dropped vals, length (spread d dropped vals) = length dropped.
Proof.
  induction dropped as [|b r IH]; intros vals; [reflexivity|]. destruct b; cbn [spread length].
  - f_equal. apply IH.
  - destruct vals; cbn [length]; f_equal; apply IH.
Qed.

Lemma interm_proper F u v : veq u v -> veq (interm F u) (interm F v).
Proof.
  intros H. unfold interm. apply rows_proper.
  revert H. generalize (crpix F). intros c H. revert c.
  induction H as [|a b u v Hab Huv IH]; intros [|y c]; cbn [zip2]; try constructor.
  - rewrite Hab. reflexivity.
  - apply IH.
Qed.

Lemma scaled_rows_length n (f : list Q) : length f = n -> forall (rows : list (list Q)) (fo : list Q),
  Forall (fun r => length r = n) rows ->
  Forall (fun r => length r = n) (zip2 (fun row fi => zip2 (fun a fj => a * fj / fi) row f) rows fo).
Proof.
  intros Hf. induction rows as [|row rows IH]; intros [|fi fo] Hr; cbn [zip2]; try constructor; inversion Hr; subst.
  - rewrite zip2_length; [assumption|symmetry; assumption].
  - apply IH. assumption.
Qed.

Lemma Ok_inj' {A} (x y : A) : Ok x = Ok y -> x = y.
Proof. congruence. Qed.

(* per-axis affine map (a, b) of one wrapper, pixel order, full length *)
Definition step_affine (st : state) (s : step) : result (list (Q * Q)) :=
  let '(F, dropped) := st in
  match s with
  | USlice items =>
      match map2r slice_axis (rev (naxis F)) (spread full_slice dropped items) with
      | Ok sels => Ok (map (fun s => (1, zq (fst (fst s)))) (rev sels))
      | Err e => Err e
      end
  | UResample f o =>
      let dp := rev dropped in Ok (combine (spread 1 dp f) (spread 0 dp o))
  end.

Definition wf_state (n : nat) (st : state) : Prop := wf n (fst st) /\ length (snd st) = n.

Lemma affine_slice : forall p (sels : list (Z * Z * bool)), length sels = length p ->
  veq (zip2 Qplus p (map (fun s => zq (fst (fst s))) sels))
      (affine (map (fun s => (1, zq (fst (fst s)))) sels) p).
Proof.
  induction p as [|x p IH]; intros [|s sels] H; cbn [length] in *; try discriminate; cbn [map zip2 affine]; constructor.
  - cbn [fst snd]. ring.
  - apply IH. lia.
Qed.

Lemma affine_resample : forall p f o, length f = length p -> length o = length p ->
  veq (scale f o p) (affine (combine f o) p).
Proof.
  induction p as [|x p IH]; intros [|fj f] [|oj o] H1 H2; cbn [length] in *; try discriminate; cbn [scale zip3 combine affine zip2]; constructor.
  - cbn [fst snd]. ring.
  - apply IH; lia.
Qed.

Theorem step_correct n st s st' : wf_state n st -> do_step st s = Ok st' ->
  (match s with UResample f _ => Forall (fun x => ~ x == 0) f | _ => True end) ->
  wf_state n st' /\
  exists ab, step_affine st s = Ok ab /\ length ab = n /\
             forall p, length p = n -> veq (interm (fst st') p) (interm (fst st) (affine ab p)).
Proof.
  destruct st as [F dropped]. intros [(Hc & Hcd & Hpc & Hrows & Hnax) Hd] Hs Hnz. cbn [fst snd] in *. unfold qvec in *.
  destruct s as [items|f o]; cbn [do_step step_affine] in *.
  - (* slice *)
    unfold slice_step in Hs.
    destruct (map2r slice_axis (rev (naxis F)) (spread full_slice dropped items)) as [sels|] eqn:E; [|discriminate].
    apply Ok_inj' in Hs; subst st'.
    destruct (map2r_length _ _ _ _ E) as [_ Hl]. rewrite rev_length in Hl.
    assert (Hls : length (rev sels) = n) by (rewrite rev_length; congruence).
    split.
    + split; cbn [fst snd].
      * repeat split; cbn [crpix cdelt pc naxis]; try assumption.
        -- rewrite zip2_length; [assumption|congruence].
        -- rewrite map_length. assumption.
      * rewrite map_length, combine_length, map_length, Hd. lia.
    + eexists. split; [reflexivity|]. split; [rewrite map_length; assumption|].
      intros p Hp. cbn [fst].
      eapply veq_trans.
      * replace (zip2 (fun c s => c - zq (fst (fst s))) (crpix F) (rev sels))
          with (zip2 (fun c s => c - s) (crpix F) (map (fun s => zq (fst (fst s))) (rev sels))).
        -- apply slice_interm; [congruence|rewrite map_length; congruence].
        -- clear. generalize (rev sels) as ss. generalize (crpix F) as cs.
           induction cs as [|c cs IH]; intros [|s ss]; cbn [map zip2]; try reflexivity.
           f_equal. apply IH.
      * apply interm_proper. apply affine_slice. congruence.
  - (* resample *)
    unfold resample_step in Hs.
    destruct (Nat.eqb (length f) _ && Nat.eqb (length o) _) eqn:E; [|discriminate].
    apply Ok_inj' in Hs; subst st'.
    set (fs := spread 1 (rev dropped) f). set (os := spread 0 (rev dropped) o).
    assert (Hfs : length fs = n) by (unfold fs; rewrite spread_length, rev_length; assumption).
    assert (Hos : length os = n) by (unfold os; rewrite spread_length, rev_length; assumption).
    assert (Hnzs : Forall (fun x => ~ x == 0) fs).
    { unfold fs. clear -Hnz. generalize (rev dropped). intros dp. revert f Hnz.
      induction dp as [|b r IH]; intros f Hnz; cbn [spread]; [constructor|].
      destruct b.
      - constructor; [intro H; discriminate H|apply IH; assumption].
      - destruct f as [|x f]; [constructor; [intro H; discriminate H|apply IH; constructor]|].
        inversion Hnz; subst. constructor; [assumption|apply IH; assumption]. }
    split.
    + split; cbn [fst snd]; [|assumption]. unfold resample_fits. repeat split; cbn [crpix cdelt pc naxis].
      * rewrite zip3_length; congruence.
      * rewrite zip2_length; congruence.
      * rewrite zip2_length; congruence.
      * apply scaled_rows_length; assumption.
      * rewrite zip2_length; congruence.
    + exists (combine fs os). split; [reflexivity|]. split; [rewrite combine_length; lia|].
      intros p Hp. cbn [fst]. eapply veq_trans.
      * apply (resample_interm n); try assumption. repeat split; assumption.
      * apply interm_proper. apply affine_resample; congruence.
Qed.

Fixpoint chain_affine (st : state) (steps : list step) (p : qvec) : result qvec :=
  match steps with
  | [] => Ok p
  | s :: r =>
      match do_step st s, step_affine st s with
      | Ok st', Ok ab => match chain_affine st' r p with Ok q => Ok (affine ab q) | Err e => Err e end
      | Err e, _ | _, Err e => Err e
      end
  end.

Definition factors_nonzero (steps : list step) : Prop :=
  Forall (fun s => match s with UResample f _ => Forall (fun x => ~ x == 0) f | _ => True end) steps.

Lemma affine_length ab p : length ab = length p -> length (affine ab p) = length p.
Proof. intros H. unfold affine. apply zip2_length. assumption. Qed.

(* the FITS WCS returned for a chain of wrappers reproduces the chain: x'(p) == x(chain(p)) for every
   pixel p of the wrapped grid (placeholder 0 on dropped axes), any depth, any order of slices and resamples *)
Theorem unwrap_correct n : forall steps st st', wf_state n st -> factors_nonzero steps ->
  unwrap st steps = Ok st' ->
  wf_state n st' /\
  forall p, length p = n -> exists q, chain_affine st steps p = Ok q /\ length q = n /\
                                     veq (interm (fst st') p) (interm (fst st) q).
Proof.
  induction steps as [|s r IH]; intros st st' Hwf Hnz Hu; cbn [unwrap chain_affine] in *.
  - inversion Hu; subst. split; [assumption|]. intros p Hp. exists p. repeat split; [assumption|apply veq_refl].
  - inversion Hnz as [|? ? Hs Hr]; subst.
    destruct (do_step st s) as [st1|] eqn:E; [|discriminate].
    destruct (step_correct n st s st1 Hwf E Hs) as (Hwf1 & ab & Hab & Hlab & Hstep).
    destruct (IH st1 st' Hwf1 Hr Hu) as (Hwf' & Hchain).
    split; [assumption|]. intros p Hp. destruct (Hchain p Hp) as (q & Hq & Hlq & Hv).
    rewrite Hab, Hq. exists (affine ab q). repeat split.
    + rewrite affine_length; congruence.
    + eapply veq_trans; [exact Hv|]. apply Hstep. assumption.
Qed.
