(* An all-ones bin shape that still goes through the reduction (a new unit was asked for): every block is the
   single input element at the output's own position, so the values are those of the source. *)
From NDV Require Import M_Rebin P_Rebin.
From Coq Require Import Lia.
Open Scope Z_scope.

Definition ones (n : nat) : list Z := repeat 1 n.

Lemma box_ones n : box (ones n) = [repeat 0 n].
Proof. induction n as [|n IH]; cbn [ones repeat box]; [reflexivity|]. fold (ones n). rewrite IH. reflexivity. Qed.

Lemma blk_ones : forall j, zip3z (fun j b r => j * b + r) j (ones (length j)) (repeat 0 (length j)) = j.
Proof. induction j as [|x j IH]; cbn [length ones repeat zip3z]; [reflexivity|]. fold (ones (length j)). rewrite IH. f_equal. lia. Qed.

Theorem block_spec_ones {A} (x : list Z -> A) j : block_spec (ones (length j)) x j = [x j].
Proof. unfold block_spec. rewrite box_ones. cbn [map]. rewrite blk_ones. reflexivity. Qed.

Lemma divides_ones : forall shape, Forall (fun s => 0 <= s) shape -> divides_all shape (ones (length shape)).
Proof.
  induction 1 as [|s ss Hs H IH]; cbn [length ones repeat]; [constructor|]. constructor; [|exact IH].
  repeat split; try lia. apply Z.mod_1_r.
Qed.

Lemma div_ones : forall shape, zip2z Z.div shape (ones (length shape)) = shape.
Proof. induction shape as [|s ss IH]; cbn [length ones repeat zip2z]; [reflexivity|]. fold (ones (length ss)). rewrite IH, Z.div_1_r. reflexivity. Qed.

Theorem rebin_block_ones {A} shape (x : list Z -> A) j : Forall (fun s => 0 <= s) shape -> in_box shape j ->
  zip2z Z.div shape (ones (length shape)) = shape /\ rebin_block shape (ones (length shape)) x j = [x j].
Proof.
  intros Hs Hj. split; [apply div_ones|].
  rewrite rebin_block_correct; [|apply divides_ones; exact Hs|rewrite div_ones; exact Hj].
  rewrite <- (in_box_length _ _ Hj). apply block_spec_ones.
Qed.
