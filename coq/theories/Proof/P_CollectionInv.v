(* C13: the collection invariant is preserved by every supported edit, hence by every edit history *)
From NDV Require Import M_Collection P_Collection P_Slicing P_Sequence.
From Coq Require Import Lia.
Open Scope Z_scope.

(* ---------- the invariant as a proposition ------------------------------------------------------------------------ *)
Definition MemberOk (m : member) : Prop := NoDup (mal m) /\ Forall (fun a => 0 <= a < zlen (mshape m)) (mal m).
Definition Inv (c : coll) : Prop :=
  NoDup (map mkey (members c)) /\
  if aligned c
  then (forall m, In m (members c) -> MemberOk m) /\
       (forall m m', In m (members c) -> In m' (members c) -> aligned_lens m = aligned_lens m')
  else forall m, In m (members c) -> mal m = [].

Lemma nodupb_spec l : nodupb l = true <-> NoDup l.
Proof.
  induction l as [|x t IH]; cbn [nodupb]; [split; [constructor | reflexivity]|].
  rewrite andb_true_iff, negb_true_iff, IH. split.
  - intros [H1 H2]. constructor; [|exact H2]. intros Hin.
    assert (existsb (Z.eqb x) t = true) by (apply existsb_exists; exists x; split; [exact Hin | apply Z.eqb_refl]). congruence.
  - intros H. inversion H as [|? ? Hn Hd]; subst. split; [|exact Hd].
    destruct (existsb (Z.eqb x) t) eqn:E; [|reflexivity]. apply existsb_exists in E. destruct E as (y & Hy & Ey).
    apply Z.eqb_eq in Ey; subst. contradiction.
Qed.

Lemma member_ok_spec m : member_ok m = true <-> MemberOk m.
Proof.
  unfold member_ok, MemberOk. rewrite andb_true_iff, nodupb_spec, forallb_forall, Forall_forall.
  split; intros [H1 H2]; (split; [exact H1|]); intros a Ha; specialize (H2 a Ha).
  - apply andb_true_iff in H2. lia.
  - apply andb_true_iff. lia.
Qed.

Lemma zlist_eqb_eq l1 l2 : list_eqb Z.eqb l1 l2 = true <-> l1 = l2.
Proof. apply list_eqb_eq. apply Z.eqb_eq. Qed.

Theorem inv_spec c : inv c = true <-> Inv c.
Proof.
  unfold inv, Inv. rewrite andb_true_iff, nodupb_spec. destruct (aligned c).
  - rewrite andb_true_iff, forallb_forall. split.
    + intros (Hk & Hok & Hl). split; [exact Hk|]. split; [intros m Hm; apply member_ok_spec, Hok, Hm|].
      destruct (members c) as [|m0 t]; [intros ? ? []|]. rewrite forallb_forall in Hl.
      assert (Hall : forall m, In m (m0 :: t) -> aligned_lens m = aligned_lens m0).
      { intros m [<-|Hm]; [reflexivity | apply zlist_eqb_eq, Hl, Hm]. }
      intros m m' Hm Hm'. rewrite (Hall m Hm), (Hall m' Hm'). reflexivity.
    + intros (Hk & Hok & Hl). split; [exact Hk|]. split; [intros m Hm; apply member_ok_spec, Hok, Hm|].
      destruct (members c) as [|m0 t]; [reflexivity|]. apply forallb_forall. intros m Hm.
      apply zlist_eqb_eq, Hl; [right; exact Hm | left; reflexivity].
  - rewrite forallb_forall. split; intros [Hk H]; (split; [exact Hk|]); intros m Hm; specialize (H m Hm);
      destruct (mal m); try reflexivity; try discriminate.
Qed.

(* ---------- key edits ---------------------------------------------------------------------------------------------- *)
Lemma nodup_map_filter {A} (f : A -> Z) (p : A -> bool) l : NoDup (map f l) -> NoDup (map f (filter p l)).
Proof.
  induction l as [|x t IH]; intros H; [constructor|]. cbn [map] in H. inversion H as [|? ? Hn Hd]; subst. cbn [filter].
  destruct (p x); [|apply IH, Hd]. cbn [map]. constructor; [|apply IH, Hd].
  intros Hin. apply Hn. apply in_map_iff in Hin. destruct Hin as (y & Ey & Hy). apply filter_In in Hy.
  apply in_map_iff. exists y. tauto.
Qed.

Lemma inv_sub c ms' : Inv c -> NoDup (map mkey ms') -> (forall m, In m ms' -> In m (members c)) -> Inv (mkColl ms' (aligned c)).
Proof.
  unfold Inv. cbn [members aligned]. intros [_ H] Hk Hsub. split; [exact Hk|]. destruct (aligned c).
  - destruct H as [H1 H2]. split; [intros x Hx; apply H1, Hsub, Hx | intros x x' Hx Hx'; apply H2; apply Hsub; assumption].
  - intros x Hx. apply H, Hsub, Hx.
Qed.

Theorem remove_preserves c k c' : Inv c -> coll_remove c k = Ok c' -> Inv c'.
Proof.
  intros HI H. unfold coll_remove in H. destruct (find_member k (members c)) as [mf|]; [|discriminate]. inversion H; subst; clear H.
  apply inv_sub; [exact HI | apply nodup_map_filter; exact (proj1 HI) | intros x Hx; apply filter_In in Hx; tauto].
Qed.

Lemma mapr_find ks ms ms' : mapr (fun k => match find_member k ms with Some m => Ok m | None => Err EOther end) ks = Ok ms' ->
  map mkey ms' = ks /\ forall m, In m ms' -> In m ms.
Proof.
  revert ms'; induction ks as [|k ks IH]; intros ms' H; cbn [mapr] in H; [inversion H; split; [reflexivity | intros ? []]|].
  destruct (find_member k ms) as [m|] eqn:Ef; [|discriminate].
  destruct (mapr _ ks) as [r|] eqn:Er; [|discriminate]. inversion H; subst; clear H. destruct (IH r eq_refl) as [IH1 IH2].
  unfold find_member in Ef. apply find_some in Ef. destruct Ef as [Hin Hk]. apply Z.eqb_eq in Hk.
  split; [cbn [map]; rewrite IH1, Hk; reflexivity | intros m' [<-|Hm']; [exact Hin | apply IH2, Hm']].
Qed.

Theorem select_preserves c ks c' : Inv c -> NoDup ks -> coll_select c ks = Ok c' -> Inv c'.
Proof.
  intros HI Hnd H. unfold coll_select in H. destruct (mapr _ ks) as [ms'|] eqn:Em; [|discriminate]. inversion H; subst; clear H.
  destruct (mapr_find _ _ _ Em) as [Hk Hsub]. apply inv_sub; [exact HI | rewrite Hk; exact Hnd | exact Hsub].
Qed.

(* dict.update *)
Lemma dict_put_in ms m x : In x (dict_put ms m) -> x = m \/ In x ms.
Proof.
  induction ms as [|h t IH]; cbn [dict_put]; [intros [<-|[]]; left; reflexivity|].
  destruct (mkey h =? mkey m); intros [<-|H]; try (left; reflexivity); try (right; left; reflexivity); try (right; right; exact H).
  destruct (IH H); [left; assumption | right; right; assumption].
Qed.
Lemma dict_put_keys ms m : NoDup (map mkey ms) -> NoDup (map mkey (dict_put ms m)) /\
  (forall k, In k (map mkey (dict_put ms m)) -> k = mkey m \/ In k (map mkey ms)).
Proof.
  induction ms as [|h t IH]; intros H; cbn [dict_put map].
  - split; [constructor; [intros []|constructor] | intros k [<-|[]]; left; reflexivity].
  - inversion H as [|? ? Hn Hd]; subst. destruct (mkey h =? mkey m) eqn:E.
    + apply Z.eqb_eq in E. cbn [map]. split; [rewrite <- E; exact H | intros k [<-|Hk]; [left; reflexivity | right; right; exact Hk]].
    + destruct (IH Hd) as [IH1 IH2]. cbn [map]. split.
      * constructor; [|exact IH1]. intros Hin. destruct (IH2 _ Hin) as [Ek|Hk]; [apply Z.eqb_neq in E; congruence | contradiction].
      * intros k [<-|Hk]; [right; left; reflexivity|]. destruct (IH2 _ Hk); [left; assumption | right; right; assumption].
Qed.
Lemma fold_put_spec new : forall ms, NoDup (map mkey ms) ->
  NoDup (map mkey (fold_left dict_put new ms)) /\ (forall x, In x (fold_left dict_put new ms) -> In x new \/ In x ms).
Proof.
  induction new as [|n r IH]; intros ms H; cbn [fold_left]; [split; [exact H | intros x Hx; right; exact Hx]|].
  destruct (dict_put_keys ms n H) as [H1 _]. destruct (IH _ H1) as [IH1 IH2]. split; [exact IH1|].
  intros x Hx. destruct (IH2 x Hx) as [Hr|Hp]; [left; right; exact Hr|].
  destruct (dict_put_in _ _ _ Hp) as [->|Hm]; [left; left; reflexivity | right; exact Hm].
Qed.

Theorem update_preserves c new na c' : Inv c -> Inv (mkColl new na) -> coll_update c new na = Ok c' -> Inv c'.
Proof.
  intros HI HN H. unfold coll_update in H.
  destruct (members c) as [|m0 t] eqn:Em; [discriminate|]. destruct new as [|n0 r]; [discriminate|].
  destruct (Bool.eqb (aligned c) na) eqn:Ea; [|discriminate]. apply Bool.eqb_prop in Ea. subst na.
  destruct HI as [Hk HI]. destruct HN as [_ HN]. cbn [members aligned] in HN. rewrite Em in Hk, HI.
  destruct (fold_put_spec (n0 :: r) (m0 :: t) Hk) as [Hk' Hin'].
  destruct (aligned c) eqn:Eal.
  - destruct (Nat.eqb (length (mal m0)) (length (mal n0)) && list_eqb Z.eqb (aligned_lens m0) (aligned_lens n0)) eqn:Ec; [|discriminate].
    inversion H; subst; clear H. apply andb_true_iff in Ec. destruct Ec as [_ El]. apply zlist_eqb_eq in El.
    destruct HI as [HI1 HI2]. destruct HN as [HN1 HN2].
    assert (Hl : forall x, In x (fold_left dict_put (n0 :: r) (m0 :: t)) -> aligned_lens x = aligned_lens m0).
    { intros x Hx. destruct (Hin' x Hx) as [Hn|Hm].
      - rewrite (HN2 x n0 Hn (or_introl eq_refl)). symmetry. exact El.
      - apply HI2; [exact Hm | left; reflexivity]. }
    split; [exact Hk'|]. cbn [aligned members]. split.
    + intros x Hx. destruct (Hin' x Hx); [apply HN1 | apply HI1]; assumption.
    + intros x x' Hx Hx'. rewrite (Hl x Hx), (Hl x' Hx'). reflexivity.
  - inversion H; subst; clear H. split; [exact Hk'|]. cbn [aligned members].
    intros x Hx. destruct (Hin' x Hx); [apply HN | apply HI]; assumption.
Qed.

(* ---------- numeric slicing ---------------------------------------------------------------------------------------- *)
Lemma map2r_nth {A B C} (f : A -> B -> result C) : forall l1 l2 r a da db dc, map2r f l1 l2 = Ok r -> (a < length l1)%nat ->
  f (nth a l1 da) (nth a l2 db) = Ok (nth a r dc).
Proof.
  induction l1 as [|x xs IH]; intros [|y ys] r a da db dc H Ha; cbn [map2r length] in *; try discriminate; try lia.
  destruct (f x y) as [c|] eqn:E; [|discriminate]. destruct (map2r f xs ys) as [cs|] eqn:Er; [|discriminate].
  inversion H; subst. destruct a as [|a]; cbn [nth]; [exact E|]. apply (IH _ _ _ _ _ _ Er). lia.
Qed.

Lemma nth_filter_rank {A B} (p : A -> bool) (g : A -> B) : forall (l : list A) a d d', (a < length l)%nat -> p (nth a l d) = true ->
  nth (length (filter p (firstn a l))) (map g (filter p l)) d' = g (nth a l d).
Proof.
  induction l as [|x xs IH]; intros a d d' Ha Hp; cbn [length] in Ha; [lia|].
  destruct a as [|a]; cbn [firstn filter nth] in *.
  - rewrite Hp. reflexivity.
  - destruct (p x); cbn [length map nth]; apply IH; try assumption; lia.
Qed.

Definition no_special (its : list item) : Prop := Forall (fun it => is_none it = false /\ is_ellipsis it = false) its.

Lemma filter_none_nil {A} (p : A -> bool) l : Forall (fun x => p x = false) l -> filter p l = [].
Proof. induction 1 as [|x t Hx Ht IH]; cbn [filter]; [reflexivity | rewrite Hx; exact IH]. Qed.

Lemma sanitize_full nd items its : length items = nd -> no_special items -> sanitize nd items = Ok its -> its = items.
Proof.
  intros Hl Hs H. unfold sanitize in H.
  assert (Hn : existsb is_none items = false).
  { destruct (existsb is_none items) eqn:E; [|reflexivity]. apply existsb_exists in E. destruct E as (x & Hx & Ex).
    unfold no_special in Hs. rewrite Forall_forall in Hs. destruct (Hs x Hx). congruence. }
  rewrite Hn in H.
  assert (He : filter is_ellipsis items = []) by (apply filter_none_nil; eapply Forall_impl; [|exact Hs]; cbv beta; tauto).
  unfold strip_redundant_ellipsis in H. rewrite He in H. cbn [length] in H. rewrite andb_false_r in H.
  rewrite He in H. cbn [length] in H. rewrite Hl, Nat.ltb_irrefl in H. cbn [Nat.ltb Nat.leb Nat.eqb] in H.
  destruct (forallb item_valid items); [|discriminate]. rewrite Hl, Nat.sub_diag in H. cbn [repeat] in H. rewrite app_nil_r in H.
  inversion H. reflexivity.
Qed.

(* what one axis contributes: None if it is dropped (integer item), else its new length *)
Definition axis_len (n : Z) (it : item) : result (option Z) :=
  match norm_item n it with
  | Err e => Err e
  | Ok it' => match np_axis_sel n it' with
              | Ok (_, l, d) => Ok (if d then None else Some l)
              | Err e => Err e
              end
  end.

Lemma axis_len_dropped n it r : axis_len n it = Ok r -> (r = None <-> is_int it = true).
Proof.
  unfold axis_len. destruct it as [i|a b st| |]; cbn [norm_item]; try discriminate.
  - destruct (norm_int n i) as [j|]; [|discriminate]. cbn [np_axis_sel].
    destruct (norm_int n j); [|discriminate]. intros H; inversion H; subst. cbn. tauto.
  - cbn [np_axis_sel]. destruct st as [[| |]|]; try (intros H; discriminate H);
      try (destruct (sel1 n _ _) as [s l]; intros H; inversion H; subst; cbn; split; [discriminate | discriminate]).
    all: destruct p; try (intros H; discriminate H);
      try (destruct (sel1 n _ _) as [s l]; intros H; inversion H; subst; cbn; split; discriminate).
Qed.

Lemma firstn_S_filter {A} (p : A -> bool) : forall (l : list A) n d, (n < length l)%nat ->
  filter p (firstn (S n) l) = filter p (firstn n l) ++ (if p (nth n l d) then [nth n l d] else []).
Proof.
  induction l as [|x xs IH]; intros n d H; cbn [length] in H; [lia|].
  destruct n as [|n].
  - cbn [firstn filter nth]. destruct (p x); reflexivity.
  - rewrite !firstn_cons. cbn [filter nth]. rewrite (IH n d) by lia. destruct (p x); reflexivity.
Qed.

Lemma count_agree {A B} (p : A -> bool) (q : B -> bool) (l1 : list A) (l2 : list B) da db :
  length l1 = length l2 -> (forall i, (i < length l1)%nat -> p (nth i l1 da) = q (nth i l2 db)) ->
  forall a, (a <= length l1)%nat -> length (filter p (firstn a l1)) = length (filter q (firstn a l2)).
Proof.
  intros Hl Hp. induction a as [|a IH]; intros Ha; [reflexivity|].
  rewrite (firstn_S_filter p l1 a da), (firstn_S_filter q l2 a db) by lia.
  rewrite !app_length, IH by lia. rewrite (Hp a) by lia. destruct (q (nth a l2 db)); reflexivity.
Qed.

Definition nonint (it : item) : bool := negb (is_int it).
Definition rankn (items : list item) (a : nat) : nat := length (filter nonint (firstn a items)).

(* the shape of a sliced member: one axis per non-integer item, in order, each of the length its item selects *)
Theorem sliced_shape_axis shape items sh' : length items = length shape -> no_special items ->
  sliced_shape shape items = Ok sh' ->
  length sh' = length (filter nonint items) /\
  forall a, (a < length shape)%nat -> is_int (nth a items full_slice) = false ->
    exists l, axis_len (nth a shape 0) (nth a items full_slice) = Ok (Some l) /\ nth (rankn items a) sh' 0 = l.
Proof.
  intros Hl Hs H. unfold sliced_shape in H. destruct (cube_getitem shape items) as [r|] eqn:Eg; [|discriminate].
  inversion H; subst sh'; clear H.
  destruct (cube_getitem_inv _ _ _ Eg) as (its & H1 & H2 & H3 & H4 & H5).
  apply (sanitize_full _ _ _ Hl Hs) in H1. subst its.
  destruct (map2r_length _ _ _ _ H2) as [_ Hl2]. destruct (map2r_length _ _ _ _ H3) as [_ Hl3].
  (* pointwise: the numpy selection of axis p and whether it is dropped *)
  assert (Hpt : forall p, (p < length shape)%nat ->
            exists s l d, nth p (dsel r) (0, 0, false) = (s, l, d) /\ d = is_int (nth p items full_slice) /\
                          axis_len (nth p shape 0) (nth p items full_slice) = Ok (if d then None else Some l)).
  { intros p Hpl.
    pose proof (map2r_nth norm_item _ _ _ p 0 full_slice full_slice H2 Hpl) as E2.
    pose proof (map2r_nth np_axis_sel _ _ _ p 0 full_slice (0, 0, false) H3 Hpl) as E3.
    destruct (nth p (dsel r) (0, 0, false)) as [[s l] d] eqn:Ed. exists s, l, d. split; [reflexivity|].
    unfold axis_len. rewrite E2, E3. split; [|reflexivity].
    destruct (nth p items full_slice) as [i|a0 b0 st| |] eqn:Ei; cbn [norm_item] in E2; try discriminate.
    - destruct (norm_int (nth p shape 0) i) as [j|]; [|discriminate]. inversion E2 as [E2']. rewrite <- E2' in E3. cbn [np_axis_sel] in E3.
      destruct (norm_int (nth p shape 0) j); [|discriminate]. inversion E3; reflexivity.
    - inversion E2 as [E2']. rewrite <- E2' in E3. cbn [np_axis_sel] in E3.
      destruct st as [[| |]|]; try discriminate; try (destruct (sel1 _ _ _); inversion E3; reflexivity);
        destruct p0; try discriminate; destruct (sel1 _ _ _); inversion E3; reflexivity. }
  rewrite H5. unfold sels_shape.
  set (nd := fun x : Z * Z * bool => let '(_, _, d) := x in negb d).
  assert (Hcnt : forall a, (a <= length shape)%nat -> length (filter nd (firstn a (dsel r))) = length (filter nonint (firstn a items))).
  { rewrite <- Hl3. apply (count_agree nd nonint (dsel r) items (0, 0, false) full_slice); [lia|].
    intros i Hi. destruct (Hpt i ltac:(lia)) as (s & l & d & E & Ed & _). rewrite E. unfold nd, nonint. rewrite Ed. reflexivity. }
  split.
  - rewrite map_length. pose proof (Hcnt (length shape) (le_n _)) as Hc.
    rewrite !firstn_all2 in Hc by lia. exact Hc.
  - intros a Ha Hint. destruct (Hpt a Ha) as (s & l & d & E & Ed & El). rewrite Hint in Ed. subst d.
    exists l. split; [exact El|]. unfold rankn. rewrite <- Hcnt by lia.
    rewrite (nth_filter_rank nd (fun '(_, l0, _) => l0) (dsel r) a (0, 0, false) 0) by (try lia; rewrite E; reflexivity).
    rewrite E. reflexivity.
Qed.

(* ---- where the items of a collection slice land in a member's own item ---- *)
Lemma zset_nth_length {A} : forall n (x : A) l, length (zset_nth n x l) = length l.
Proof. induction n as [|n IH]; intros x [|h t]; cbn [zset_nth length]; try reflexivity. rewrite IH. reflexivity. Qed.
Lemma zset_nth_same {A} : forall n (x : A) l d, (n < length l)%nat -> nth n (zset_nth n x l) d = x.
Proof. induction n as [|n IH]; intros x [|h t] d H; cbn [length] in H; try lia; cbn [zset_nth nth]; [reflexivity | apply IH; lia]. Qed.
Lemma zset_nth_other {A} : forall n m (x : A) l d, n <> m -> nth m (zset_nth n x l) d = nth m l d.
Proof.
  induction n as [|n IH]; intros m x [|h t] d H; cbn [zset_nth]; try reflexivity.
  - destruct m; [lia | reflexivity].
  - destruct m as [|m]; cbn [nth]; [reflexivity | apply IH; lia].
Qed.

Lemma place_spec d : forall al its acc, NoDup (map Z.to_nat al) -> Forall (fun a => (Z.to_nat a < length acc)%nat) al ->
  length (place al its acc) = length acc /\
  (forall j, (j < length al)%nat -> (j < length its)%nat -> nth (Z.to_nat (nth j al 0)) (place al its acc) d = nth j its d) /\
  (forall p, (forall j, (j < length al)%nat -> (j < length its)%nat -> Z.to_nat (nth j al 0) <> p) -> nth p (place al its acc) d = nth p acc d).
Proof.
  induction al as [|a al IH]; intros its acc Hnd Hr; cbn [place].
  - split; [reflexivity|]. split; [intros j Hj; cbn in Hj; lia | reflexivity].
  - destruct its as [|it its]; [split; [reflexivity|]; split; [intros j _ Hj; cbn in Hj; lia | reflexivity]|].
    cbn [map] in Hnd. inversion Hnd as [|? ? Hnotin Hnd']; subst. inversion Hr as [|? ? Ha Hr']; subst.
    destruct (IH its (zset_nth (Z.to_nat a) it acc) Hnd') as (L1 & L2 & L3).
    { eapply Forall_impl; [|exact Hr']. intros x Hx. cbv beta. rewrite zset_nth_length. exact Hx. }
    split; [rewrite L1; apply zset_nth_length|]. split.
    + intros [|j] Hj Hj'; cbn [length nth] in *.
      * rewrite L3; [apply zset_nth_same; exact Ha|].
        intros j Hj2 _ E. apply Hnotin. rewrite <- E. apply in_map. apply nth_In. exact Hj2.
      * apply L2; lia.
    + intros p Hp. rewrite L3.
      * apply zset_nth_other. apply (Hp O); cbn [length]; lia.
      * intros j Hj Hj'. apply (Hp (S j)); cbn [length]; lia.
Qed.

(* ---- counting the dropped axes below a surviving one ---- *)
Lemma filter_lt_S (dv : list nat) x : NoDup dv ->
  length (filter (fun v => Nat.ltb v (S x)) dv) = (length (filter (fun v => Nat.ltb v x) dv) + (if existsb (Nat.eqb x) dv then 1 else 0))%nat.
Proof.
  induction dv as [|v t IH]; intros H; [reflexivity|]. inversion H as [|? ? Hn Hd]; subst. cbn [filter existsb].
  destruct (Nat.eqb x v) eqn:E.
  - apply Nat.eqb_eq in E; subst v. cbn [orb].
    replace (Nat.ltb x (S x)) with true by (symmetry; apply Nat.ltb_lt; lia). replace (Nat.ltb x x) with false by (symmetry; apply Nat.ltb_ge; lia).
    cbn [length]. rewrite IH by exact Hd.
    replace (existsb (Nat.eqb x) t) with false; [lia|]. symmetry. destruct (existsb (Nat.eqb x) t) eqn:Ex; [|reflexivity].
    apply existsb_exists in Ex. destruct Ex as (y & Hy & Ey). apply Nat.eqb_eq in Ey; subst. contradiction.
  - cbn [orb]. apply Nat.eqb_neq in E.
    destruct (Nat.ltb v (S x)) eqn:E1; destruct (Nat.ltb v x) eqn:E2; cbn [length]; rewrite IH by exact Hd;
      try lia; [apply Nat.ltb_lt in E1; apply Nat.ltb_ge in E2; lia | apply Nat.ltb_ge in E1; apply Nat.ltb_lt in E2; lia].
Qed.

Lemma ints_below (items : list item) (dv : list nat) : NoDup dv ->
  (forall p, (p < length items)%nat -> (is_int (nth p items full_slice) = true <-> In p dv)) ->
  forall x, (x <= length items)%nat -> length (filter is_int (firstn x items)) = length (filter (fun v => Nat.ltb v x) dv).
Proof.
  intros Hnd Hiff. induction x as [|x IH]; intros Hx.
  - cbn [firstn filter length]. symmetry. rewrite (filter_none_nil (fun v => Nat.ltb v 0) dv); [reflexivity|].
    apply Forall_forall. intros v _. apply Nat.ltb_ge. lia.
  - rewrite (firstn_S_filter is_int items x full_slice) by lia. rewrite app_length, IH by lia. rewrite filter_lt_S by exact Hnd.
    f_equal. destruct (is_int (nth x items full_slice)) eqn:E.
    + replace (existsb (Nat.eqb x) dv) with true; [reflexivity|]. symmetry. apply existsb_exists. exists x. split; [apply Hiff; [lia|exact E] | apply Nat.eqb_refl].
    + replace (existsb (Nat.eqb x) dv) with false; [reflexivity|]. symmetry. destruct (existsb (Nat.eqb x) dv) eqn:Ex; [|reflexivity].
      apply existsb_exists in Ex. destruct Ex as (y & Hy & Ey). apply Nat.eqb_eq in Ey; subst y. apply Hiff in Hy; [congruence|lia].
Qed.

Lemma rankn_plus_ints items x : (rankn items x + length (filter is_int (firstn x items)) = length (firstn x items))%nat.
Proof. unfold rankn, nonint. apply count_nonint. Qed.

Lemma rankn_mono items p q : (p < q)%nat -> (q <= length items)%nat -> is_int (nth p items full_slice) = false ->
  (rankn items p < rankn items q)%nat.
Proof.
  intros Hpq Hq Hp. unfold rankn.
  assert (H : forall k, (S p + k <= length items)%nat -> (length (filter nonint (firstn p items)) < length (filter nonint (firstn (S p + k) items)))%nat).
  { induction k as [|k IH]; intros Hk.
    - rewrite Nat.add_0_r, (firstn_S_filter nonint items p full_slice) by lia. unfold nonint at 3. rewrite Hp. cbn [negb]. rewrite app_length. cbn [length]. lia.
    - replace (S p + S k)%nat with (S (S p + k)) by lia. rewrite (firstn_S_filter nonint items (S p + k) full_slice) by lia.
      rewrite app_length. specialize (IH ltac:(lia)). lia. }
  replace q with (S p + (q - S p))%nat by lia. apply H. lia.
Qed.

Lemma rankn_bound items p : (p < length items)%nat -> is_int (nth p items full_slice) = false ->
  (rankn items p < length (filter nonint items))%nat.
Proof.
  intros Hp Hi. pose proof (rankn_mono items p (length items) Hp (le_n _) Hi) as H. unfold rankn in H at 2. rewrite firstn_all in H. exact H.
Qed.

Lemma int_positions_in its : forall i d, In d (int_positions i its) <-> (i <= d < i + zlen its /\ is_int (nth (Z.to_nat (d - i)) its full_slice) = true).
Proof.
  induction its as [|it r IH]; intros i d; cbn [int_positions].
  - unfold zlen; cbn. split; [intros [] | lia].
  - rewrite zlen_cons. pose proof (zlen_nonneg r) as Hz. destruct (is_int it) eqn:E.
    + cbn [In]. rewrite IH. split.
      * intros [<-|[H1 H2]]; [rewrite Z.sub_diag; cbn [Z.to_nat nth]; split; [lia|exact E]|].
        split; [lia|]. replace (Z.to_nat (d - i)) with (S (Z.to_nat (d - (i + 1)))) by lia. exact H2.
      * intros [H1 H2]. destruct (Z.eq_dec d i) as [->|Hne]; [left; reflexivity|]. right. split; [lia|].
        replace (Z.to_nat (d - i)) with (S (Z.to_nat (d - (i + 1)))) in H2 by lia. exact H2.
    + rewrite IH. split.
      * intros [H1 H2]. split; [lia|]. replace (Z.to_nat (d - i)) with (S (Z.to_nat (d - (i + 1)))) by lia. exact H2.
      * intros [H1 H2]. destruct (Z.eq_dec d i) as [->|Hne]; [rewrite Z.sub_diag in H2; cbn [Z.to_nat nth] in H2; congruence|].
        split; [lia|]. replace (Z.to_nat (d - i)) with (S (Z.to_nat (d - (i + 1)))) in H2 by lia. exact H2.
Qed.

Lemma mapr_Forall2 {A B} (f : A -> result B) : forall l r, mapr f l = Ok r -> Forall2 (fun x y => f x = Ok y) l r.
Proof.
  induction l as [|x xs IH]; intros r H; cbn [mapr] in H; [inversion H; constructor|].
  destruct (f x) as [y|] eqn:E; [|discriminate]. destruct (mapr f xs) as [ys|] eqn:Er; [|discriminate].
  inversion H; subst. constructor; [exact E | apply IH; reflexivity].
Qed.

(* ---- one member under a collection slice ---- *)
Definition iotaZ (k : nat) : list Z := map Z.of_nat (seq 0 k).
Definition the_len (n : Z) (it : item) : Z := match axis_len n it with Ok (Some l) => l | _ => 0 end.

Lemma list_as_map (l : list Z) : l = map (fun j => znth j l 0) (iotaZ (length l)).
Proof.
  unfold iotaZ. rewrite map_map.
  apply nth_ext with (d := 0) (d' := (fun x => znth (Z.of_nat x) l 0) O); [rewrite map_length, seq_length; reflexivity|].
  intros n Hn. rewrite (map_nth (fun x => znth (Z.of_nat x) l 0)), seq_nth by exact Hn. unfold znth. rewrite Nat2Z.id. reflexivity.
Qed.

Lemma nodup_to_nat (l : list Z) : NoDup l -> Forall (fun a => 0 <= a) l -> NoDup (map Z.to_nat l).
Proof.
  induction l as [|x t IH]; intros Hn Hp; [constructor|]. inversion Hn as [|? ? Hx Ht]; subst. inversion Hp as [|? ? Hx0 Ht0]; subst.
  cbn [map]. constructor; [|apply IH; assumption]. intros Hin. apply in_map_iff in Hin. destruct Hin as (y & Ey & Hy).
  rewrite Forall_forall in Ht0. specialize (Ht0 y Hy). assert (x = y) by lia. subst. contradiction.
Qed.

Lemma nodup_map_mono (F : Z -> Z) (l : list Z) : NoDup l -> (forall x y, In x l -> In y l -> x < y -> F x < F y) -> NoDup (map F l).
Proof.
  induction l as [|x t IH]; intros Hn HF; [constructor|]. inversion Hn as [|? ? Hx Ht]; subst. cbn [map]. constructor.
  - intros Hin. apply in_map_iff in Hin. destruct Hin as (y & Ey & Hy).
    assert (x <> y) by (intros ->; contradiction).
    destruct (Z.lt_total x y) as [Hlt|[Heq|Hgt]]; [|contradiction|].
    + pose proof (HF x y (or_introl eq_refl) (or_intror Hy) Hlt). lia.
    + pose proof (HF y x (or_intror Hy) (or_introl eq_refl) Hgt). lia.
  - apply IH; [exact Ht|]. intros a b Ha Hb. apply HF; right; assumption.
Qed.

Lemma filter_ltb_to_nat (dvZ : list Z) x : Forall (fun a => 0 <= a) dvZ -> 0 <= x ->
  zlen (filter (fun v => v <? x) dvZ) = Z.of_nat (length (filter (fun v => Nat.ltb v (Z.to_nat x)) (map Z.to_nat dvZ))).
Proof.
  intros Hp Hx. induction Hp as [|v t Hv Ht IH]; [reflexivity|]. cbn [map filter].
  assert (E : (v <? x) = Nat.ltb (Z.to_nat v) (Z.to_nat x)).
  { destruct (v <? x) eqn:E1; symmetry; [apply Nat.ltb_lt; lia | apply Nat.ltb_ge; lia]. }
  rewrite <- E. destruct (v <? x); [rewrite zlen_cons; cbn [length]; rewrite IH; lia | exact IH].
Qed.

Lemma rp_in_iota drops k j : In j (remove_positions 0 drops (iotaZ k)) <-> (0 <= j < Z.of_nat k /\ ~ In j drops).
Proof.
  unfold iotaZ.
  assert (G : forall n s, In j (remove_positions (Z.of_nat s) drops (map Z.of_nat (seq s n))) <-> (Z.of_nat s <= j < Z.of_nat (s + n) /\ ~ In j drops)).
  { induction n as [|n IH]; intros s; cbn [seq map remove_positions]; [split; [intros [] | lia]|].
    replace (Z.of_nat s + 1) with (Z.of_nat (S s)) by lia.
    destruct (existsb (Z.eqb (Z.of_nat s)) drops) eqn:E.
    - rewrite IH. apply existsb_exists in E. destruct E as (y & Hy & Ey). apply Z.eqb_eq in Ey; subst y.
      split; [intros [H1 H2]; split; [lia|exact H2] | intros [H1 H2]; split; [|exact H2]].
      destruct (Z.eq_dec j (Z.of_nat s)); [subst; contradiction | lia].
    - cbn [In]. rewrite IH. split.
      + intros [<-|[H1 H2]]; [split; [lia|] | split; [lia|exact H2]].
        intros Hin. assert (existsb (Z.eqb (Z.of_nat s)) drops = true) by (apply existsb_exists; exists (Z.of_nat s); split; [exact Hin | apply Z.eqb_refl]). congruence.
      + intros [H1 H2]. destruct (Z.eq_dec j (Z.of_nat s)) as [->|Hne]; [left; reflexivity | right; split; [lia|exact H2]]. }
  specialize (G k O). cbn [Z.of_nat Nat.add] in G. exact G.
Qed.

Lemma ascending_nodup ds : ascending ds -> NoDup ds.
Proof.
  induction 1 as [|d ds Hg Ha IH]; constructor; [|exact IH].
  intros Hin. unfold gt_all in Hg. rewrite Forall_forall in Hg. specialize (Hg d Hin). lia.
Qed.
Lemma nodup_map_inj {A B} (f : A -> B) (l : list A) : NoDup l -> (forall x y, In x l -> In y l -> f x = f y -> x = y) -> NoDup (map f l).
Proof.
  induction l as [|x t IH]; intros Hn Hf; [constructor|]. inversion Hn as [|? ? Hx Ht]; subst. cbn [map]. constructor.
  - intros Hin. apply in_map_iff in Hin. destruct Hin as (y & Ey & Hy).
    assert (y = x) by (apply Hf; [right; exact Hy | left; reflexivity | exact Ey]). subst. contradiction.
  - apply IH; [exact Ht|]. intros a b Ha Hb. apply Hf; right; assumption.
Qed.
Lemma nth_repeat_full (n p : nat) : nth p (repeat full_slice n) full_slice = full_slice.
Proof. revert p; induction n as [|n IH]; intros [|p]; cbn [repeat nth]; try reflexivity. apply IH. Qed.

Lemma rp_nodup drops : forall l i, NoDup l -> NoDup (remove_positions i drops l).
Proof.
  induction l as [|x t IH]; intros i H; cbn [remove_positions]; [constructor|]. inversion H as [|? ? Hx Ht]; subst.
  destruct (existsb (Z.eqb i) drops); [apply IH; exact Ht|]. constructor; [|apply IH; exact Ht].
  intros Hin. destruct (rp_in _ _ _ _ Hin) as (p & Hp & Hnth & _). apply Hx. rewrite <- Hnth. apply nth_In. exact Hp.
Qed.
Lemma iotaZ_nodup k : NoDup (iotaZ k).
Proof. unfold iotaZ. apply nodup_map_inj; [apply seq_NoDup | intros a b _ _ E; lia]. Qed.

Lemma member_slice m its sh' : MemberOk m -> no_special its -> (length its <= length (mal m))%nat ->
  sliced_shape (mshape m) (member_item m its) = Ok sh' ->
  let drops := int_positions 0 its in
  forall sq, let m' := mkM (mkey m) sh' (renumber_spec (mal m) drops) sq in
  MemberOk m' /\
  aligned_lens m' = map (fun j => the_len (znth j (aligned_lens m) 0) (nth (Z.to_nat j) its full_slice))
                        (remove_positions 0 drops (iotaZ (length (mal m)))).
Proof.
  intros [Hnd Hr] Hns Hlen Hs drops sq m'.
  set (al := mal m) in *. set (shape := mshape m) in *. set (rank := length shape).
  set (items := member_item m its) in *.
  assert (Hr0 : Forall (fun a => 0 <= a) al) by (eapply Forall_impl; [|exact Hr]; cbv beta; intros; lia).
  assert (Hnat : NoDup (map Z.to_nat al)) by (apply nodup_to_nat; assumption).
  assert (Hlt : Forall (fun a => (Z.to_nat a < length (repeat full_slice rank))%nat) al).
  { eapply Forall_impl; [|exact Hr]. cbv beta. intros a Ha. rewrite repeat_length. unfold rank, zlen in *. lia. }
  destruct (place_spec full_slice al its (repeat full_slice rank) Hnat Hlt) as (P1 & P2 & P3).
  change (place al its (repeat full_slice rank)) with items in P1, P2, P3. rewrite repeat_length in P1.
  (* Q: the item at the j-th aligned axis is the j-th item *)
  assert (Q : forall j, (j < length al)%nat -> nth (Z.to_nat (nth j al 0)) items full_slice = nth j its full_slice).
  { intros j Hj. destruct (Nat.lt_ge_cases j (length its)) as [Hji|Hji]; [apply P2; lia|].
    rewrite P3; [rewrite nth_repeat_full; symmetry; apply nth_overflow; exact Hji|].
    intros j' Hj' Hj'2 E.
    assert (Hmn : forall k, (k < length al)%nat -> nth k (map Z.to_nat al) O = Z.to_nat (nth k al 0)).
    { intros k Hk. rewrite (nth_indep (map Z.to_nat al) O (Z.to_nat 0)) by (rewrite map_length; exact Hk). apply map_nth. }
    assert (j' = j); [|lia]. apply (proj1 (NoDup_nth (map Z.to_nat al) O) Hnat); try (rewrite map_length; lia). rewrite !Hmn by lia. exact E. }
  assert (Hint_short : forall j, is_int (nth j its full_slice) = true -> (j < length its)%nat).
  { intros j Hi. destruct (Nat.lt_ge_cases j (length its)) as [H|H]; [exact H|]. rewrite nth_overflow in Hi by exact H. discriminate. }
  assert (Qo : forall p, ~ In p (map Z.to_nat al) -> nth p items full_slice = full_slice).
  { intros p Hp. rewrite P3; [apply nth_repeat_full|]. intros j Hj _ E. apply Hp. rewrite <- E. apply in_map, nth_In. exact Hj. }
  assert (Hpos : forall p, In p (map Z.to_nat al) -> exists j, (j < length al)%nat /\ p = Z.to_nat (nth j al 0)).
  { intros p Hp. apply in_map_iff in Hp. destruct Hp as (a & Ea & Ha). destruct (In_nth _ _ 0 Ha) as (j & Hj & Ej). exists j. split; [exact Hj | congruence]. }
  assert (Hns_items : no_special items).
  { unfold no_special. apply Forall_forall. intros x Hx. destruct (In_nth _ _ full_slice Hx) as (p & Hp & Ep).
    destruct (in_dec Nat.eq_dec p (map Z.to_nat al)) as [Hin|Hnin].
    - destruct (Hpos p Hin) as (j & Hj & ->). rewrite Q in Ep by exact Hj. subst x.
      destruct (Nat.lt_ge_cases j (length its)) as [Hji|Hji]; [|rewrite nth_overflow by exact Hji; split; reflexivity].
      unfold no_special in Hns. rewrite Forall_forall in Hns. apply Hns. apply nth_In. exact Hji.
    - rewrite Qo in Ep by exact Hnin. subst x. split; reflexivity. }
  destruct (sliced_shape_axis shape items sh' P1 Hns_items Hs) as [S1 S2].
  (* the dropped member axes *)
  destruct (int_positions_props its 0) as [Hasc Hdr].
  set (dvZ := map (fun d => znth d al 0) drops).
  set (dv := map Z.to_nat dvZ).
  assert (Hdrops : forall d, In d drops <-> (0 <= d < zlen its /\ is_int (nth (Z.to_nat d) its full_slice) = true)).
  { intros d. unfold drops. rewrite int_positions_in. rewrite Z.sub_0_r. split; intros [H1 H2]; (split; [lia|exact H2]). }
  assert (Hdv_nd : NoDup dv).
  { unfold dv, dvZ. rewrite map_map. apply nodup_map_inj; [apply ascending_nodup; exact Hasc|].
    intros x y Hx Hy E. apply Hdrops in Hx. apply Hdrops in Hy. destruct Hx as [Hx _]. destruct Hy as [Hy _].
    unfold znth in E. unfold zlen in *.
    assert (Hmn : forall j, (j < length al)%nat -> nth j (map Z.to_nat al) O = Z.to_nat (nth j al 0)).
    { intros j Hj. rewrite (nth_indep (map Z.to_nat al) O (Z.to_nat 0)) by (rewrite map_length; exact Hj). apply map_nth. }
    assert (Z.to_nat x = Z.to_nat y); [|lia].
    apply (proj1 (NoDup_nth (map Z.to_nat al) O) Hnat); try (rewrite map_length; lia).
    rewrite !Hmn by lia. exact E. }
  assert (Hints : forall p, (p < length items)%nat -> (is_int (nth p items full_slice) = true <-> In p dv)).
  { intros p Hp. split.
    - intros Hi. destruct (in_dec Nat.eq_dec p (map Z.to_nat al)) as [Hin|Hnin]; [|rewrite Qo in Hi by exact Hnin; discriminate].
      destruct (Hpos p Hin) as (j & Hj & ->). rewrite Q in Hi by exact Hj.
      unfold dv, dvZ. rewrite map_map. apply in_map_iff. exists (Z.of_nat j). split; [unfold znth; rewrite Nat2Z.id; reflexivity|].
      apply Hdrops. rewrite Nat2Z.id. split; [pose proof (Hint_short j Hi); unfold zlen; lia | exact Hi].
    - intros Hin. unfold dv, dvZ in Hin. rewrite map_map in Hin. apply in_map_iff in Hin. destruct Hin as (d & Ed & Hd).
      apply Hdrops in Hd. destruct Hd as [Hd Hi]. subst p. unfold znth. rewrite Q by (unfold zlen in Hd; lia). exact Hi. }
  (* new number of a surviving axis x: its rank among the non-integer items *)
  set (F := fun x => x - zlen (filter (fun v => v <? x) dvZ)).
  assert (HdvZ0 : Forall (fun a => 0 <= a) dvZ).
  { unfold dvZ. apply Forall_forall. intros v Hv. apply in_map_iff in Hv. destruct Hv as (d & <- & Hd). apply Hdrops in Hd.
    rewrite Forall_forall in Hr0. apply Hr0. unfold znth. apply nth_In. unfold zlen in Hd. lia. }
  assert (HF : forall x, 0 <= x -> (Z.to_nat x <= length items)%nat -> F x = Z.of_nat (rankn items (Z.to_nat x))).
  { intros x Hx Hxl. unfold F. rewrite (filter_ltb_to_nat dvZ x HdvZ0 Hx). fold dv.
    rewrite <- (ints_below items dv Hdv_nd Hints (Z.to_nat x) Hxl).
    pose proof (rankn_plus_ints items (Z.to_nat x)) as Hc. rewrite firstn_length, Nat.min_l in Hc by exact Hxl. lia. }
  (* survivors *)
  set (J := remove_positions 0 drops (iotaZ (length al))).
  assert (HS : remove_positions 0 drops al = map (fun j => znth j al 0) J).
  { unfold J. rewrite <- rp_map. rewrite <- list_as_map. reflexivity. }
  assert (HJ : forall j, In j J -> 0 <= j < Z.of_nat (length al) /\ is_int (nth (Z.to_nat j) its full_slice) = false).
  { intros j Hj. apply rp_in_iota in Hj. destruct Hj as [Hr1 Hn]. split; [exact Hr1|].
    destruct (is_int (nth (Z.to_nat j) its full_slice)) eqn:E; [|reflexivity]. exfalso. apply Hn. apply Hdrops.
    pose proof (Hint_short _ E). unfold zlen. split; [lia|exact E]. }
  assert (Hsurv : forall x, In x (remove_positions 0 drops al) -> exists j, In j J /\ x = znth j al 0 /\ 0 <= x /\ (Z.to_nat x < length items)%nat /\
                    nth (Z.to_nat x) items full_slice = nth (Z.to_nat j) its full_slice).
  { intros x Hx. rewrite HS in Hx. apply in_map_iff in Hx. destruct Hx as (j & <- & Hj). exists j. destruct (HJ j Hj) as [Hjr _].
    assert (Hin : In (znth j al 0) al) by (unfold znth; apply nth_In; lia).
    rewrite Forall_forall in Hr. pose proof (Hr _ Hin) as Hrx. cbv beta in Hrx. destruct Hrx as [Hrx1 Hrx2]. unfold zlen in Hrx2.
    split; [exact Hj|]. split; [reflexivity|]. split; [exact Hrx1|]. split; [rewrite P1; unfold rank; lia|].
    unfold znth. apply Q. lia. }
  unfold m'. split.
  - (* MemberOk *)
    unfold MemberOk. cbn [mal mshape]. unfold renumber_spec. fold dvZ. fold F. split.
    + apply nodup_map_mono.
      * rewrite HS. apply nodup_map_inj.
        { unfold J. apply rp_nodup, iotaZ_nodup. }
        { intros a b Ha Hb E. destruct (HJ a Ha) as [Har _]. destruct (HJ b Hb) as [Hbr _]. unfold znth in E.
          assert (Z.to_nat a = Z.to_nat b); [|lia]. apply (proj1 (NoDup_nth al 0) Hnd); lia. }
      * intros x y Hx Hy Hxy. destruct (Hsurv x Hx) as (jx & Hjx & _ & Hx0 & Hxl & Ex). destruct (Hsurv y Hy) as (jy & Hjy & _ & Hy0 & Hyl & Ey).
        rewrite (HF x Hx0 ltac:(lia)), (HF y Hy0 ltac:(lia)).
        apply inj_lt. apply rankn_mono; [lia | lia |]. rewrite Ex. apply (HJ jx Hjx).
    + apply Forall_forall. intros a Ha. apply in_map_iff in Ha. destruct Ha as (x & <- & Hx).
      destruct (Hsurv x Hx) as (jx & Hjx & _ & Hx0 & Hxl & Ex). rewrite (HF x Hx0 ltac:(lia)).
      pose proof (rankn_bound items (Z.to_nat x) Hxl ltac:(rewrite Ex; apply (HJ jx Hjx))) as Hb. unfold zlen. rewrite S1. lia.
  - (* the aligned lengths *)
    unfold aligned_lens. cbn [mal mshape]. unfold renumber_spec. fold dvZ. fold F. rewrite HS. rewrite !map_map. fold J.
    apply map_ext_in. intros j Hj. destruct (HJ j Hj) as [Hjr Hji].
    assert (Hin : In (znth j al 0) (remove_positions 0 drops al)) by (rewrite HS; apply (in_map (fun j0 => znth j0 al 0)); exact Hj).
    destruct (Hsurv _ Hin) as (j' & _ & _ & Hx0 & Hxl & _).
    set (x := znth j al 0) in *.
    assert (Ex : nth (Z.to_nat x) items full_slice = nth (Z.to_nat j) its full_slice) by (unfold x, znth; apply Q; lia).
    rewrite (HF x Hx0 ltac:(lia)). unfold znth at 1. rewrite Nat2Z.id.
    destruct (S2 (Z.to_nat x) ltac:(unfold rank in *; lia) ltac:(rewrite Ex; exact Hji)) as (l & El & Enth).
    rewrite Enth. unfold the_len. change (mshape m) with shape. change (mal m) with al.
    replace (znth j (map (fun a => znth a shape 0) al) 0) with (nth (Z.to_nat x) shape 0).
    + rewrite <- Ex, El. reflexivity.
    + unfold x, znth. symmetry.
      rewrite (nth_indep (map (fun a => nth (Z.to_nat a) shape 0) al) 0 ((fun a => nth (Z.to_nat a) shape 0) 0)) by (rewrite map_length; lia).
      apply (map_nth (fun a => nth (Z.to_nat a) shape 0)).
Qed.

(* ---- the whole collection under a numeric slice ---- *)
Lemma Forall2_in_r {A B} (R : A -> B -> Prop) l1 l2 y : Forall2 R l1 l2 -> In y l2 -> exists x, In x l1 /\ R x y.
Proof.
  induction 1 as [|a b l1 l2 Hab H IH]; intros Hy; [destruct Hy|].
  destruct Hy as [<-|Hy]; [exists a; split; [left; reflexivity | exact Hab]|].
  destruct (IH Hy) as (x & Hx & Hr). exists x. split; [right; exact Hx | exact Hr].
Qed.
Lemma Forall2_map_keys {A B} (R : A -> B -> Prop) (f : A -> Z) (g : B -> Z) l1 l2 :
  Forall2 R l1 l2 -> (forall x y, R x y -> g y = f x) -> map g l2 = map f l1.
Proof. induction 1 as [|a b l1 l2 Hab H IH]; intros Hk; [reflexivity|]. cbn [map]. rewrite (Hk a b Hab), IH by exact Hk. reflexivity. Qed.

Lemma upd_axes_nil axes : upd_axes axes [] = axes.
Proof. reflexivity. Qed.

(* what slicing does to one member, cube or sequence *)
Theorem slice_member_spec m its m' : slice_member m its = Ok m' ->
  exists sh, sliced_shape (mshape m) (member_item m its) = Ok sh /\
    mkey m' = mkey m /\ mshape m' = sh /\ mal m' = mal m /\
    mseq m' = (mseq m && negb (match member_item m its with it :: _ => is_int it | [] => false end))%bool /\
    (if mseq m' then tl sh else sh) <> [].
Proof.
  unfold slice_member. intros H. destruct (sliced_shape (mshape m) (member_item m its)) as [sh|] eqn:Es; [|discriminate].
  exists sh. split; [reflexivity|].
  set (sq := (mseq m && negb (match member_item m its with it :: _ => is_int it | [] => false end))%bool) in *.
  destruct (if sq then tl sh else sh) as [|x l] eqn:E; [discriminate|]. inversion H. cbn [mkey mshape mal mseq].
  repeat split. rewrite E. discriminate.
Qed.

Theorem slice_preserves c its c' : Inv c -> no_special its -> coll_slice c its = Ok c' -> Inv c'.
Proof.
  intros HI Hns H. unfold coll_slice in H.
  destruct (aligned c) eqn:Eal; cbn [negb] in H; [|discriminate].
  destruct (Nat.ltb (n_aligned c) (length its)) eqn:Elen; [discriminate|]. apply Nat.ltb_ge in Elen.
  set (F := fun m => slice_member m its) in H.
  assert (HFs : forall m m', F m = Ok m' -> exists sh, sliced_shape (mshape m) (member_item m its) = Ok sh /\
                                             m' = mkM (mkey m) sh (mal m) (mseq m')).
  { intros m m' Hmm. unfold F, slice_member in Hmm. destruct (sliced_shape (mshape m) (member_item m its)) as [sh|] eqn:Es; [|discriminate].
    exists sh. split; [reflexivity|]. match type of Hmm with match ?x with [] => _ | _ => _ end = _ => destruct x; [discriminate|] end.
    inversion Hmm. reflexivity. }
  destruct (mapr F (members c)) as [ms'|] eqn:Em; [|discriminate].
  pose proof (mapr_Forall2 _ _ _ Em) as HF2.
  destruct HI as [Hk HI]. rewrite Eal in HI. destruct HI as [Hok Hlens].
  set (drops := int_positions 0 its) in *.
  destruct (int_positions_props its 0) as [Hasc Hdr]. fold drops in Hasc, Hdr.
  (* every member has as many aligned axes as the first, at least as many as there are items *)
  assert (Hn : forall m, In m (members c) -> (length its <= length (mal m))%nat).
  { intros m Hm. unfold n_aligned in Elen. rewrite Eal in Elen. destruct (members c) as [|m0 t] eqn:Ems; [destruct Hm|].
    assert (E : length (mal m) = length (mal m0)).
    { pose proof (Hlens m m0 Hm (or_introl eq_refl)) as E. apply (f_equal (@length Z)) in E. unfold aligned_lens in E. rewrite !map_length in E. exact E. }
    lia. }
  (* the relation between a member and what becomes of it *)
  set (R := fun (m n : member) => exists sh, sliced_shape (mshape m) (member_item m its) = Ok sh /\
                                 n = mkM (mkey m) sh (renumber_spec (mal m) drops) (mseq n)).
  assert (Hupd : forall m, In m (members c) -> upd_axes (mal m) drops = renumber_spec (mal m) drops).
  { intros m Hm. destruct (Hok m Hm) as [Hnd Hr]. apply upd_axes_spec; [exact Hasc | | exact Hnd].
    eapply Forall_impl; [|exact Hdr]. cbv beta. intros d Hd. specialize (Hn m Hm). unfold zlen in *. lia. }
  destruct (update_aligned_axes drops (members c)) as [als|] eqn:Eu.
  - (* aligned axes remain *)
    inversion H; subst c'; clear H.
    assert (Hals : als = map (fun m => upd_axes (mal m) drops) (members c)).
    { unfold update_aligned_axes in Eu. destruct drops as [|d ds] eqn:Ed.
      - inversion Eu. apply map_ext. intros m. symmetry. apply upd_axes_nil.
      - destruct (members c) as [|m0 t]; [inversion Eu; reflexivity|].
        destruct (Nat.eqb (length (d :: ds)) (length (mal m0))); [discriminate|]. inversion Eu. reflexivity. }
    assert (HR : Forall2 R (members c) (map (fun '(m, al) => mkM (mkey m) (mshape m) al (mseq m)) (combine ms' als))).
    { rewrite Hals.
      assert (G : forall ms0, (forall m, In m ms0 -> In m (members c)) -> forall ms1, Forall2 (fun x y => F x = Ok y) ms0 ms1 ->
                  Forall2 R ms0 (map (fun '(m, al) => mkM (mkey m) (mshape m) al (mseq m)) (combine ms1 (map (fun m => upd_axes (mal m) drops) ms0)))).
      { intros ms0 Hsub ms1 H2. induction H2 as [|m m' l1 l2 Hmm H2 IH]; [constructor|]. cbn [map combine]. constructor.
        - destruct (HFs m m' Hmm) as (sh & Es & Em'). exists sh. split; [exact Es|]. rewrite Em'. cbn [mkey mshape mseq].
          rewrite (Hupd m (Hsub m (or_introl eq_refl))). reflexivity.
        - apply IH. intros x Hx. apply Hsub. right. exact Hx. }
      apply (G (members c)); [tauto | exact HF2]. }
    unfold Inv. cbn [members aligned]. split; [|split].
    + rewrite (Forall2_map_keys R mkey mkey _ _ HR); [exact Hk|]. intros x y (sh & _ & Ey). rewrite Ey. reflexivity.
    + intros n Hin. destruct (Forall2_in_r _ _ _ _ HR Hin) as (m & Hm & sh & Es & En). rewrite En.
      apply (member_slice m its sh (Hok m Hm) Hns (Hn m Hm) Es).
    + intros n n' Hin Hin'. destruct (Forall2_in_r _ _ _ _ HR Hin) as (m & Hm & sh & Es & En).
      destruct (Forall2_in_r _ _ _ _ HR Hin') as (m2 & Hm2 & sh2 & Es2 & En2). rewrite En, En2.
      pose proof (proj2 (member_slice m its sh (Hok m Hm) Hns (Hn m Hm) Es (mseq n))) as E1. cbv zeta in E1. fold drops in E1. rewrite E1.
      pose proof (proj2 (member_slice m2 its sh2 (Hok m2 Hm2) Hns (Hn m2 Hm2) Es2 (mseq n'))) as E2. cbv zeta in E2. fold drops in E2. rewrite E2.
      pose proof (Hlens m m2 Hm Hm2) as El. rewrite El.
      assert (Ell : length (mal m) = length (mal m2)) by (apply (f_equal (@length Z)) in El; unfold aligned_lens in El; rewrite !map_length in El; exact El).
      rewrite Ell. reflexivity.
  - (* every aligned axis was dropped: no aligned axes any more *)
    inversion H; subst c'; clear H. unfold Inv. cbn [members aligned]. split.
    + rewrite map_map. cbn [mkey]. change (map (fun x : member => mkey x) ms') with (map mkey ms').
      rewrite (Forall2_map_keys (fun x y => F x = Ok y) mkey mkey _ _ HF2); [exact Hk|].
      intros x y Hxy. destruct (HFs x y Hxy) as (sh & _ & Ey). rewrite Ey. reflexivity.
    + intros n Hin. apply in_map_iff in Hin. destruct Hin as (m & <- & _). reflexivity.
Qed.

(* ---------- every supported edit, hence every history of edits ---------------------------------------------------- *)
Inductive edit :=
| ESlice (its : list item)
| ESelect (ks : list Z)
| ERemove (k : Z)                       (* pop / del *)
| EUpdate (new : list member) (na : bool)
| ECopy.
Definition edit_ok (e : edit) : Prop :=
  match e with
  | ESlice its => no_special its
  | ESelect ks => NoDup ks
  | EUpdate new na => Inv (mkColl new na)     (* the incoming members are themselves a consistent collection *)
  | _ => True
  end.
Definition apply_edit (c : coll) (e : edit) : result coll :=
  match e with
  | ESlice its => coll_slice c its
  | ESelect ks => coll_select c ks
  | ERemove k => coll_remove c k
  | EUpdate new na => coll_update c new na
  | ECopy => Ok c
  end.
(* a refused edit leaves the collection as it was *)
Definition step_edit (c : coll) (e : edit) : coll := match apply_edit c e with Ok c' => c' | Err _ => c end.

Theorem edit_preserves c e : Inv c -> edit_ok e -> Inv (step_edit c e).
Proof.
  intros HI He. unfold step_edit. destruct (apply_edit c e) as [c'|] eqn:E; [|exact HI].
  destruct e as [its|ks|k|new na|]; cbn [apply_edit edit_ok] in *.
  - apply (slice_preserves c its c' HI He E).
  - apply (select_preserves c ks c' HI He E).
  - apply (remove_preserves c k c' HI E).
  - apply (update_preserves c new na c' HI He E).
  - inversion E; subst. exact HI.
Qed.

Theorem history_preserves (es : list edit) : forall c, Inv c -> Forall edit_ok es -> Inv (fold_left step_edit es c).
Proof.
  induction es as [|e es IH]; intros c HI Hes; [exact HI|]. inversion Hes; subst. cbn [fold_left].
  apply IH; [apply edit_preserves; assumption | assumption].
Qed.
