From NDV Require Import M_Collection.

Definition gt_all (d : Z) (ds : list Z) : Prop := Forall (fun e => d < e) ds.
Inductive ascending : list Z -> Prop :=
| asc_nil : ascending []
| asc_cons d ds : gt_all d ds -> ascending ds -> ascending (d :: ds).

Definition pred_all (ds : list Z) : list Z := map (fun e => e - 1) ds.

Lemma dec_map_gt d ds : gt_all d ds -> map (dec_above d) ds = pred_all ds.
Proof.
  induction 1 as [|e es He Hes IH]; [reflexivity|]. cbn [map pred_all]. fold (pred_all es). rewrite IH.
  f_equal. unfold dec_above. destruct (d <? e) eqn:E; lia.
Qed.

Lemma upd_axes_cons axes d ds :
  upd_axes axes (d :: ds) =
  upd_axes (map (dec_above (znth d axes 0)) (zremove_nth (Z.to_nat d) axes)) (map (dec_above d) ds).
Proof. unfold upd_axes. cbn [length upd_axes_fuel]. rewrite map_length. reflexivity. Qed.

(* ---- remove_positions ---- *)
Lemma existsb_pred i ds : existsb (Z.eqb (i + 1)) ds = existsb (Z.eqb i) (pred_all ds).
Proof.
  induction ds as [|e es IH]; [reflexivity|]. cbn [existsb pred_all map]. fold (pred_all es). rewrite IH.
  f_equal. destruct (i + 1 =? e) eqn:E1, (i =? e - 1) eqn:E2; lia.
Qed.

Lemma rp_shift ds : forall t i, remove_positions (i + 1) ds t = remove_positions i (pred_all ds) t.
Proof.
  induction t as [|x t IH]; intros i; [reflexivity|]. cbn [remove_positions].
  rewrite existsb_pred. rewrite IH. reflexivity.
Qed.

Lemma existsb_gt i ds : gt_all i ds -> existsb (Z.eqb i) ds = false.
Proof. induction 1 as [|e es He Hes IH]; [reflexivity|]. cbn [existsb]. rewrite IH. destruct (i =? e) eqn:E; [lia|reflexivity]. Qed.

Lemma gt_all_weaken d i ds : i <= d -> gt_all d ds -> gt_all i ds.
Proof. intros H. apply Forall_impl. intros; lia. Qed.

Lemma rp_drop_small d ds : forall t i, d < i -> remove_positions i (d :: ds) t = remove_positions i ds t.
Proof.
  induction t as [|x t IH]; intros i Hi; [reflexivity|]. cbn [remove_positions existsb].
  destruct (i =? d) eqn:E; [lia|]. cbn [orb]. rewrite !IH by lia. reflexivity.
Qed.

Lemma gt_all_pred d ds : gt_all d ds -> Forall (fun e => d <= e) (pred_all ds).
Proof. intros H. unfold pred_all. apply Forall_map. eapply Forall_impl; [|exact H]. cbn; intros; lia. Qed.

Lemma existsb_ge i ds : Forall (fun e => i < e) ds -> existsb (Z.eqb i) ds = false.
Proof. apply existsb_gt. Qed.

Lemma rp_main d ds : gt_all d ds -> forall l i, i <= d ->
  remove_positions i (d :: ds) l = remove_positions i (pred_all ds) (zremove_nth (Z.to_nat (d - i)) l).
Proof.
  intros Hg. induction l as [|x t IH]; intros i Hi.
  - destruct (Z.to_nat (d - i)); reflexivity.
  - cbn [remove_positions existsb]. destruct (i =? d) eqn:E.
    + assert (i = d) by lia. subst i. cbn [orb]. rewrite Z.sub_diag. cbn [Z.to_nat zremove_nth].
      rewrite rp_drop_small by lia. apply rp_shift.
    + cbn [orb]. rewrite (existsb_gt i ds) by (eapply gt_all_weaken; [|exact Hg]; lia).
      replace (Z.to_nat (d - i)) with (S (Z.to_nat (d - (i + 1)))) by lia.
      cbn [zremove_nth remove_positions].
      assert (existsb (Z.eqb i) (pred_all ds) = false) as ->.
      { apply existsb_gt. unfold gt_all, pred_all. apply Forall_map. eapply Forall_impl; [|exact Hg]. cbn; intros; lia. }
      f_equal. apply IH. lia.
Qed.

Lemma rp_map f ds : forall l i, remove_positions i ds (map f l) = map f (remove_positions i ds l).
Proof.
  induction l as [|x t IH]; intros i; [reflexivity|]. cbn [map remove_positions].
  destruct (existsb (Z.eqb i) ds); cbn [map]; rewrite IH; reflexivity.
Qed.

Lemma rp_nil : forall l i, remove_positions i [] l = l.
Proof. induction l as [|x t IH]; intros i; [reflexivity|]. cbn [remove_positions existsb]. rewrite IH. reflexivity. Qed.

Lemma rp_in ds : forall l i x, In x (remove_positions i ds l) ->
  exists p, (p < length l)%nat /\ nth p l 0 = x /\ existsb (Z.eqb (i + Z.of_nat p)) ds = false.
Proof.
  induction l as [|y t IH]; intros i x H; [destruct H|]. cbn [remove_positions] in H.
  destruct (existsb (Z.eqb i) ds) eqn:E.
  - destruct (IH _ _ H) as (p & Hp & Hn & He). exists (S p). cbn [length nth]. repeat split; [lia|assumption|].
    replace (i + Z.of_nat (S p)) with (i + 1 + Z.of_nat p) by lia. assumption.
  - destruct H as [->|H].
    + exists O. cbn [length nth]. repeat split; [lia|]. rewrite Z.add_0_r. assumption.
    + destruct (IH _ _ H) as (p & Hp & Hn & He). exists (S p). cbn [length nth]. repeat split; [lia|assumption|].
      replace (i + Z.of_nat (S p)) with (i + 1 + Z.of_nat p) by lia. assumption.
Qed.

(* ---- zremove_nth ---- *)
Lemma zremove_nth_length : forall l n, (n < length l)%nat -> length (zremove_nth n l) = (length l - 1)%nat.
Proof.
  induction l as [|x t IH]; intros n H; cbn [length] in H; [lia|]. destruct n; cbn [zremove_nth length]; [lia|].
  rewrite IH by lia. destruct t; cbn [length] in *; lia.
Qed.

Lemma zremove_nth_nth : forall l n e, (n < e)%nat -> nth (e - 1) (zremove_nth n l) 0 = nth e l 0.
Proof.
  induction l as [|x t IH]; intros n e H.
  - destruct n, (e - 1)%nat, e; reflexivity.
  - destruct n; cbn [zremove_nth].
    + destruct e; [lia|]. cbn [nth]. f_equal. lia.
    + destruct e; [lia|]. destruct e; [lia|]. cbn [Nat.sub nth]. rewrite <- (IH n (S e)) by lia.
      f_equal. lia.
Qed.

Lemma zremove_nth_in : forall l n x, In x (zremove_nth n l) ->
  exists p, (p < length l)%nat /\ p <> n /\ nth p l 0 = x.
Proof.
  induction l as [|y t IH]; intros n x H; [destruct n; destruct H|].
  destruct n; cbn [zremove_nth] in H.
  - destruct (In_nth _ _ 0 H) as (p & Hp & Hn). exists (S p). cbn [length nth]. repeat split; [lia|lia|assumption].
  - destruct H as [->|H].
    + exists O. cbn [length nth]. repeat split; lia.
    + destruct (IH _ _ H) as (p & Hp & Hne & Hn). exists (S p). cbn [length nth]. repeat split; [lia|lia|assumption].
Qed.

Lemma zremove_nth_nodup : forall l n, NoDup l -> NoDup (zremove_nth n l).
Proof.
  induction l as [|y t IH]; intros n H; [destruct n; constructor|]. inversion H as [|? ? Hy Ht]; subst.
  destruct n; cbn [zremove_nth]; [assumption|]. constructor; [|apply IH; assumption].
  intros Hin. destruct (zremove_nth_in _ _ _ Hin) as (p & Hp & _ & Hn). apply Hy. rewrite <- Hn. apply nth_In. assumption.
Qed.

(* ---- dec_above is strictly monotone away from its pivot ---- *)
Lemma dec_above_mono v a b : a <> v -> b <> v -> (dec_above v a <? dec_above v b) = (a <? b).
Proof. intros Ha Hb. unfold dec_above. destruct (v <? a) eqn:E1, (v <? b) eqn:E2, (a <? b) eqn:E3; lia. Qed.

Lemma dec_above_inj v a b : a <> v -> b <> v -> dec_above v a = dec_above v b -> a = b.
Proof. intros Ha Hb. unfold dec_above. destruct (v <? a) eqn:E1, (v <? b) eqn:E2; lia. Qed.

Lemma nodup_map_dec v l : ~ In v l -> NoDup l -> NoDup (map (dec_above v) l).
Proof.
  induction l as [|x t IH]; intros Hv H; [constructor|]. inversion H as [|? ? Hx Ht]; subst. cbn [map].
  constructor.
  - intros Hin. apply in_map_iff in Hin. destruct Hin as (y & Hy & Hyt). apply Hx.
    assert (y = x); [|subst; assumption].
    apply (dec_above_inj v); [intros ->; apply Hv; right; assumption | intros ->; apply Hv; left; reflexivity | assumption].
  - apply IH; [intros Hin; apply Hv; right; assumption | assumption].
Qed.

Lemma count_dec v x vals : x <> v -> ~ In v vals ->
  zlen (filter (fun w => w <? dec_above v x) (map (dec_above v) vals)) = zlen (filter (fun w => w <? x) vals).
Proof.
  intros Hx. induction vals as [|w ws IH]; intros Hv; [reflexivity|]. cbn [map filter].
  rewrite dec_above_mono by (try assumption; intros ->; apply Hv; left; reflexivity).
  destruct (w <? x); rewrite ?zlen_cons, IH by (intros Hin; apply Hv; right; assumption); reflexivity.
Qed.

(* ---- main theorem: the code's renumbering is the closed form ---- *)
Lemma upd_axes_spec_len : forall k drops axes, length drops = k -> ascending drops ->
  Forall (fun d => 0 <= d < zlen axes) drops -> NoDup axes ->
  upd_axes axes drops = renumber_spec axes drops.
Proof.
  induction k as [|k IH]; intros [|d ds] axes Hlen Hasc Hr Hnd; cbn [length] in Hlen; try discriminate.
  - unfold upd_axes, renumber_spec. cbn [length upd_axes_fuel map]. rewrite rp_nil.
    rewrite <- (map_id axes) at 1. apply map_ext. intros x. cbn [filter]. unfold zlen; cbn. lia.
  - inversion Hasc as [|? ? Hg Hasc']; subst. inversion Hr as [|? ? Hd Hr']; subst.
    rewrite upd_axes_cons. rewrite (dec_map_gt d ds) by assumption.
    set (da := znth d axes 0). set (n := Z.to_nat d).
    assert (Hn : (n < length axes)%nat) by (unfold n, zlen in *; lia).
    assert (Hda_notin : ~ In da (zremove_nth n axes)).
    { intros Hin. destruct (zremove_nth_in _ _ _ Hin) as (p & Hp & Hne & Hnth).
      apply Hne. eapply (proj1 (NoDup_nth axes 0)); try eassumption. }
    rewrite (IH (pred_all ds)).
    + unfold renumber_spec. rewrite rp_map.
      replace (remove_positions 0 (pred_all ds) (zremove_nth n axes)) with (remove_positions 0 (d :: ds) axes)
        by (rewrite (rp_main d ds Hg axes 0) by lia; unfold n; do 2 f_equal; lia).
      rewrite map_map.
      assert (Hvals : map (fun e => znth e (map (dec_above da) (zremove_nth n axes)) 0) (pred_all ds)
                      = map (dec_above da) (map (fun e => znth e axes 0) ds)).
      { unfold pred_all. rewrite !map_map. apply map_ext_in. intros e He.
        assert (d < e) by (eapply Forall_forall in Hg; eassumption).
        unfold znth.
        rewrite (nth_indep _ 0 (dec_above da 0)).
        - rewrite map_nth. f_equal. replace (Z.to_nat (e - 1)) with (Z.to_nat e - 1)%nat by lia.
          apply zremove_nth_nth. unfold n. lia.
        - rewrite map_length, zremove_nth_length by assumption.
          assert (0 <= e < zlen axes) by (eapply Forall_forall in Hr'; eassumption). unfold zlen in *. lia. }
      rewrite Hvals. cbn [map]. fold da.
      apply map_ext_in. intros x Hx.
      destruct (rp_in _ _ _ _ Hx) as (p & Hp & Hnth & He). rewrite Z.add_0_l in He.
      cbn [existsb] in He. apply orb_false_iff in He. destruct He as [He1 He2].
      assert (Hxda : x <> da).
      { apply Z.eqb_neq in He1. intros ->. assert (p = n); [|subst p; unfold n in He1; lia].
        eapply (proj1 (NoDup_nth axes 0)); try eassumption. }
      assert (Hvda : ~ In da (map (fun e => znth e axes 0) ds)).
      { intros Hin. apply in_map_iff in Hin. destruct Hin as (e & Hee & Hin).
        assert (d < e) by (eapply Forall_forall in Hg; eassumption).
        assert (0 <= e < zlen axes) by (eapply Forall_forall in Hr'; eassumption).
        assert (Z.to_nat e = n); [|unfold n in *; lia].
        eapply (proj1 (NoDup_nth axes 0)); try eassumption. unfold zlen in *; lia. }
      rewrite count_dec by assumption. cbn [filter]. unfold dec_above at 1.
      destruct (da <? x) eqn:E; rewrite ?zlen_cons; lia.
    + unfold pred_all. rewrite map_length. lia.
    + clear -Hasc' Hg. induction Hasc' as [|e es Hge Hes IHes]; [constructor|].
      inversion Hg as [|? ? He Hg']; subst. cbn [pred_all map]. constructor.
      * unfold gt_all in *. apply Forall_map. eapply Forall_impl; [|exact Hge]. cbn; intros; lia.
      * apply IHes. assumption.
    + unfold pred_all. apply Forall_map. apply Forall_forall. intros e He.
      assert (d < e) by (eapply Forall_forall in Hg; eassumption).
      assert (0 <= e < zlen axes) by (eapply Forall_forall in Hr'; eassumption).
      unfold zlen in *. rewrite map_length, zremove_nth_length by assumption. lia.
    + apply nodup_map_dec; [assumption|]. apply zremove_nth_nodup. assumption.
Qed.

Theorem upd_axes_spec : forall drops axes, ascending drops ->
  Forall (fun d => 0 <= d < zlen axes) drops -> NoDup axes ->
  upd_axes axes drops = renumber_spec axes drops.
Proof. intros drops axes. apply (upd_axes_spec_len (length drops)). reflexivity. Qed.

(* int_positions yields ascending, in-range positions *)
Lemma int_positions_props : forall its i,
  ascending (int_positions i its) /\ Forall (fun d => i <= d < i + zlen its) (int_positions i its).
Proof.
  induction its as [|it r IH]; intros i; cbn [int_positions]; [split; constructor|].
  destruct (IH (i + 1)) as [Ha Hf]. rewrite zlen_cons.
  pose proof (zlen_nonneg r) as Hz.
  assert (Hw : Forall (fun d => i < d /\ i <= d < i + (1 + zlen r)) (int_positions (i + 1) r)).
  { apply Forall_forall. intros e He. eapply Forall_forall in Hf; [|exact He]. cbv beta in Hf. lia. }
  destruct (is_int it).
  - split.
    + constructor; [|assumption]. unfold gt_all. eapply Forall_impl; [|exact Hw]. cbv beta. intros a [H1 H2]. exact H1.
    + constructor; [lia|]. eapply Forall_impl; [|exact Hw]. cbv beta. intros a [H1 H2]. exact H2.
  - split; [assumption|]. eapply Forall_impl; [|exact Hw]. cbv beta. intros a [H1 H2]. exact H2.
Qed.
