(* Cropping the RESULT of a crop with the same points: in the frame of the cropped axis every index is the old
   one minus the region's start (SlicedLowLevelWCS shifts the pixel coordinate by an integer, and nearest-pixel
   rounding commutes with integer shifts), so the second crop selects the whole axis: crop is idempotent. *)
From NDV Require Import M_Crop P_Crop.
From Coq Require Import Lia Lqa.
Open Scope Z_scope.

Lemma zmin_shift c l d : zmin_l (map (fun i => i - c) l) (d - c) = zmin_l l d - c.
Proof. induction l as [|x l IH]; cbn [zmin_l fold_right map]; [reflexivity|]. fold (zmin_l l d). fold (zmin_l (map (fun i => i - c) l) (d - c)). rewrite IH. lia. Qed.
Lemma zmax_shift c l d : zmax_l (map (fun i => i - c) l) (d - c) = zmax_l l d - c.
Proof. induction l as [|x l IH]; cbn [zmax_l fold_right map]; [reflexivity|]. fold (zmax_l l d). fold (zmax_l (map (fun i => i - c) l) (d - c)). rewrite IH. lia. Qed.

Lemma Qfloor_shift q c : Qfloor (q + inject_Z c) = Qfloor q + c.
Proof.
  pose proof (Qfloor_le (q + inject_Z c)) as A1. pose proof (Qlt_floor (q + inject_Z c)) as A2.
  pose proof (Qfloor_le q) as B1. pose proof (Qlt_floor q) as B2.
  set (a := Qfloor (q + inject_Z c)) in *. set (b := Qfloor q) in *.
  rewrite inject_Z_plus in A2, B2. change (inject_Z 1) with 1%Q in A2, B2.
  assert (L1 : (inject_Z a < inject_Z (b + c + 1))%Q) by (rewrite !inject_Z_plus; change (inject_Z 1) with 1%Q; lra).
  assert (L2 : (inject_Z (b + c) < inject_Z (a + 1))%Q) by (rewrite !inject_Z_plus; change (inject_Z 1) with 1%Q; lra).
  rewrite <- Zlt_Qlt in L1, L2. lia.
Qed.

Lemma round_half_up_shift q c : round_half_up (q - inject_Z c) = round_half_up q - c.
Proof.
  unfold round_half_up.
  assert (E : (q - inject_Z c + (1 # 2) == (q + (1 # 2)) + inject_Z (- c))%Q) by (rewrite inject_Z_opp; ring).
  rewrite E. rewrite Qfloor_shift. lia.
Qed.

Theorem axis_item_recrop idxs kd kd' len x : idxs <> [] -> Forall (fun i => 0 <= i < len) idxs ->
  let lo := zmin_l (tl idxs) (hd 0 idxs) in let hi := zmax_l (tl idxs) (hd 0 idxs) in
  let len' := hi - lo + 1 in
  (selects len (axis_item len idxs kd) x <-> selects len' (axis_item len' (map (fun i => i - lo) idxs) kd') (x - lo))
  /\ (selects len' (axis_item len' (map (fun i => i - lo) idxs) kd') (x - lo) <-> 0 <= x - lo < len').
Proof.
  intros Hne Hall lo hi len'.
  destruct (axis_item_box idxs kd len x Hne Hall) as [H1 [Hlo Hhi]]. cbv zeta in H1. fold lo in H1, Hlo. fold hi in H1, Hhi.
  destruct idxs as [|i0 r]; [congruence|]. cbn [tl hd] in *.
  destruct (zmin_le r i0) as [Hm1 Hm2]. destruct (zmax_ge r i0) as [HM1 HM2]. fold lo in Hm1, Hm2. fold hi in HM1, HM2.
  assert (Hall' : Forall (fun i => 0 <= i < len') (map (fun i => i - lo) (i0 :: r))).
  { apply Forall_forall. intros y Hy. apply in_map_iff in Hy. destruct Hy as [z [<- Hz]]. unfold len'.
    destruct Hz as [<-|Hz]; [lia|]. eapply Forall_forall in Hm2; [|exact Hz]. eapply Forall_forall in HM2; [|exact Hz]. lia. }
  assert (Hne' : map (fun i => i - lo) (i0 :: r) <> []) by (cbn [map]; congruence).
  destruct (axis_item_box _ kd' len' (x - lo) Hne' Hall') as [H2 _]. cbv zeta in H2. cbn [map tl hd] in H2.
  rewrite zmin_shift, zmax_shift in H2. fold lo in H2. fold hi in H2.
  split.
  - rewrite H1. cbn [map] in *. rewrite H2. lia.
  - cbn [map] in *. rewrite H2. unfold len'. lia.
Qed.
