From NDV Require Import M_Sequence P_IndexAsCube.

(* ---------- new common axis -------------------------------------------------------------------- *)
Lemma filter_int_repeat n : filter is_int (repeat full_slice n) = [].
Proof. induction n; [reflexivity|]. cbn [repeat filter full_slice is_int]. exact IHn. Qed.

Lemma firstn_repeat {A} (x : A) k n : firstn k (repeat x n) = repeat x (Nat.min k n).
Proof.
  revert n; induction k as [|k IH]; intros [|n]; cbn [firstn repeat Nat.min]; try reflexivity.
  f_equal. apply IH.
Qed.

Lemma nth_pad rest nd a : nth a (rest ++ repeat full_slice (nd - length rest)) full_slice = nth a rest full_slice.
Proof.
  destruct (Nat.lt_ge_cases a (length rest)) as [H|H].
  - apply app_nth1; assumption.
  - rewrite app_nth2 by assumption. rewrite (nth_overflow rest) by assumption.
    apply nth_repeat.
Qed.

Lemma count_nonint (l : list item) :
  (length (filter (fun x => negb (is_int x)) l) + length (filter is_int l) = length l)%nat.
Proof.
  induction l as [|x xs IH]; [reflexivity|]. cbn [filter]. destruct (is_int x); cbn [negb length]; lia.
Qed.

Theorem new_common_spec a rest nd : (a < nd)%nat -> (length rest <= nd)%nat ->
  let rest' := rest ++ repeat full_slice (nd - length rest) in
  new_common (Some a) rest =
    if is_int (nth a rest' full_slice) then None else Some (Z.to_nat (rank_kept rest' a)).
Proof.
  intros Ha Hl rest'. unfold new_common, rest'. rewrite nth_pad.
  destruct (is_int (nth a rest full_slice)); [reflexivity|]. f_equal.
  unfold rank_kept, zlen. rewrite Nat2Z.id.
  pose proof (count_nonint (firstn a (rest ++ repeat full_slice (nd - length rest)))) as Hc.
  rewrite firstn_length in Hc. rewrite app_length, repeat_length in Hc.
  assert (Hi : filter is_int (firstn a (rest ++ repeat full_slice (nd - length rest))) = filter is_int (firstn a rest)).
  { rewrite firstn_app, filter_app, firstn_repeat, filter_int_repeat. apply app_nil_r. }
  rewrite Hi in Hc. lia.
Qed.

(* ---------- list semantics -------------------------------------------------------------------- *)
Lemma no_ellipsis_expand nd its : filter is_ellipsis its = [] -> seq_expand nd its = Ok its.
Proof. intros H. unfold seq_expand. rewrite H. reflexivity. Qed.

Theorem getitem_tuple_slice s a b st rest : filter is_ellipsis (ISlice a b st :: rest) = [] ->
  seq_getitem s (STuple (ISlice a b st :: rest)) =
    match slice_positions (zlen (cubes s)) a b st with
    | Some ks => bind (mapr (fun c => cube_slice c rest) (select (cubes s) ks))
                      (fun cs => Ok (RS (mkSeq cs (new_common (common s) rest))))
    | None => Err EValue
    end.
Proof. intros H. cbn [seq_getitem]. rewrite no_ellipsis_expand by assumption. reflexivity. Qed.

Theorem getitem_tuple_int s i rest : filter is_ellipsis (IInt i :: rest) = [] ->
  seq_getitem s (STuple (IInt i :: rest)) =
    match norm_int (zlen (cubes s)) i with
    | Some k => bind (cube_slice (znth k (cubes s) (0, [])) rest) (fun c => Ok (RC c))
    | None => Err EIndex
    end.
Proof. intros H. cbn [seq_getitem]. rewrite no_ellipsis_expand by assumption. reflexivity. Qed.

Lemma Ok_inj {A} (x y : A) : Ok x = Ok y -> x = y.
Proof. congruence. Qed.

(* an Ellipsis is expanded to exactly the missing number of whole-axis slices: total length 1 + ndim *)
Theorem seq_expand_length nd its its' : length (filter is_ellipsis its) = 1%nat ->
  seq_expand nd its = Ok its' -> length its' = S nd /\ filter is_ellipsis its' = [].
Proof.
  intros H1. unfold seq_expand. rewrite H1.
  change (Nat.ltb 1 1) with false. change (Nat.eqb 1 1) with true. cbv iota.
  destruct (Nat.ltb (S nd) (length its - 1)) eqn:E; [discriminate|]. apply Nat.ltb_ge in E.
  intros H; apply Ok_inj in H; subst its'. split.
  - rewrite expand_at_length by assumption. lia.
  - clear E. revert H1. generalize (S nd - (length its - 1))%nat as f. intros f.
    induction its as [|x xs IH]; cbn [filter expand_at]; [discriminate|].
    destruct x; cbn [is_ellipsis filter length]; intros H; try (apply IH; assumption).
    rewrite filter_app. inversion H as [H0].
    assert (filter is_ellipsis xs = []) as -> by (destruct (filter is_ellipsis xs); [reflexivity|discriminate]).
    rewrite app_nil_r. clear. induction f; [reflexivity|]. cbn [repeat filter full_slice is_ellipsis]. assumption.
Qed.

(* ---------- explode --------------------------------------------------------------------------- *)
Lemma upto_length n : length (upto n) = n.
Proof. induction n; cbn [upto]; [reflexivity|]. rewrite app_length, IHn. cbn; lia. Qed.

Lemma upto_nth n j : (j < n)%nat -> nth j (upto n) 0 = Z.of_nat j.
Proof.
  induction n as [|n IH]; intros H; [lia|]. cbn [upto].
  destruct (Nat.eq_dec j n) as [->|Hne].
  - rewrite app_nth2 by (rewrite upto_length; lia). rewrite upto_length, Nat.sub_diag. reflexivity.
  - rewrite app_nth1 by (rewrite upto_length; lia). apply IH. lia.
Qed.

Definition ax_len (a : nat) (c : cube) : Z := nth a (snd c) 0.

Lemma explode_cube_length a c : 0 <= ax_len a c -> zlen (explode_cube a c) = ax_len a c.
Proof. intros H. unfold explode_cube, zlen. rewrite map_length, upto_length. unfold ax_len in *. lia. Qed.

Theorem explode_locate a : forall (cs : list cube) m k j,
  Forall (fun c => 0 <= ax_len a c) cs ->
  locate (map (ax_len a) cs) m = Some (k, j) -> 0 <= m ->
  znth m (flat_map (explode_cube a) cs) (0, 0, []) =
    (fst (nth k cs (0, [])), j, remove_nth a (snd (nth k cs (0, [])))).
Proof.
  induction cs as [|c cs IH]; intros m k j Hp; cbn [map locate]; [discriminate|].
  inversion Hp as [|? ? Hc Hcs]; subst.
  destruct (m <? ax_len a c) eqn:E.
  - intros H Hm; inversion H; subst. cbn [flat_map nth]. unfold znth.
    rewrite app_nth1 by (pose proof (explode_cube_length a c Hc) as HL; unfold zlen in HL; lia).
    unfold explode_cube.
    change (0, 0, @nil Z) with ((0, 0, @nil Z)).
    rewrite (nth_indep _ (0, 0, []) ((fun j0 : Z => (fst c, j0, remove_nth a (snd c))) 0))
      by (rewrite map_length, upto_length; unfold ax_len in *; lia).
    rewrite (map_nth (fun j0 : Z => (fst c, j0, remove_nth a (snd c)))).
    rewrite upto_nth by (unfold ax_len in *; lia). f_equal. f_equal. lia.
  - destruct (locate (map (ax_len a) cs) (m - ax_len a c)) as [[k' j']|] eqn:EL; [|discriminate].
    intros H Hm; inversion H; subst. cbn [flat_map nth]. unfold znth.
    pose proof (explode_cube_length a c Hc) as HL. unfold zlen in HL.
    rewrite app_nth2 by lia.
    specialize (IH (m - ax_len a c) k' j Hcs EL ltac:(lia)). unfold znth in IH.
    rewrite <- IH. f_equal. lia.
Qed.

Theorem explode_count a (cs : list cube) : Forall (fun c => 0 <= ax_len a c) cs ->
  zlen (flat_map (explode_cube a) cs) = zsum (map (ax_len a) cs).
Proof.
  induction 1 as [|c cs Hc Hcs IH]; [reflexivity|]. cbn [flat_map map zsum].
  rewrite zlen_app, IH, explode_cube_length by assumption. reflexivity.
Qed.

Theorem explode_common_axis s axis l nc : seq_explode s axis = Ok (l, nc) ->
  let a := Z.to_nat (norm_axis (seq_ndim s) axis) in
  l = flat_map (explode_cube a) (cubes s) /\
  nc = match common s with
       | None => None
       | Some c => if Nat.eqb c a then None else if Nat.ltb a c then Some (c - 1)%nat else Some c
       end.
Proof.
  unfold seq_explode. destruct (_ && _); [|discriminate]. destruct (_ && _); [discriminate|]. intros H; inversion H; split; reflexivity.
Qed.

(* ---------- cube_like_shape ------------------------------------------------------------------- *)
Lemma set_nth_same {A} (d x : A) : forall n l, (n < length l)%nat -> nth n (set_nth n x l) d = x.
Proof. induction n as [|n IH]; intros [|h t] H; cbn [length] in H; try lia; cbn [set_nth nth]; [reflexivity|]. apply IH; lia. Qed.

Lemma set_nth_other {A} (d x : A) : forall n m l, n <> m -> nth m (set_nth n x l) d = nth m l d.
Proof.
  induction n as [|n IH]; intros [|m] [|h t] H; cbn [set_nth nth]; try reflexivity; try congruence.
  apply IH. congruence.
Qed.

Theorem cube_like_shape_spec s a c cs sh : common s = Some a -> cubes s = c :: cs ->
  (a < length (snd c))%nat -> cube_like_shape s = Ok sh ->
  nth a sh 0 = zsum (map (ax_len a) (cubes s)) /\ forall m, m <> a -> nth m sh 0 = nth m (snd c) 0.
Proof.
  intros Hc Hs Ha. unfold cube_like_shape, ca_lengths. rewrite Hc, Hs. intros H; inversion H; subst. split.
  - rewrite set_nth_same by assumption. reflexivity.
  - intros m Hm. apply set_nth_other. congruence.
Qed.
