(* The blocks of a rebin partition the input: every input element belongs to the block of exactly one output
   element, at exactly one position of that block.  Together with rebin_block_correct this says that no input is
   counted twice and none is lost, for any dimensionality and any dividing bin shape. *)
From NDV Require Import M_Rebin P_Rebin.
From Coq Require Import Lia.
Open Scope Z_scope.

Definition blk (j bins r : list Z) : list Z := zip3z (fun j b r => j * b + r) j bins r.

Theorem block_partition shape bins idx : divides_all shape bins -> in_box shape idx ->
  exists j r, in_box (zip2z Z.div shape bins) j /\ in_box bins r /\ blk j bins r = idx /\
    forall j' r', in_box (zip2z Z.div shape bins) j' -> in_box bins r' -> blk j' bins r' = idx -> j' = j /\ r' = r.
Proof.
  intros Hd. revert idx. induction Hd as [|s b ss bs (Hb & Hs & Hm) Hd IH]; intros idx Hin.
  - inversion Hin; subst. exists [], []. cbn [zip2z]. repeat split; try constructor.
    + inversion H; reflexivity.
    + inversion H0; reflexivity.
  - inversion Hin as [|? ? i is_ Hi His]; subst.
    destruct (IH is_ His) as (j & r & Hj & Hr & E & U).
    exists ((i / b) :: j), ((i mod b) :: r). cbn [zip2z].
    pose proof (Z.div_mod i b ltac:(lia)) as Hdm. pose proof (Z.mod_pos_bound i b Hb) as Hmb.
    pose proof (Z.div_mod s b ltac:(lia)) as Hsm. rewrite Hm in Hsm.
    assert (Hq : 0 <= i / b < s / b).
    { split; [apply Z.div_pos; lia|]. apply Z.div_lt_upper_bound; [lia|]. nia. }
    split; [constructor; assumption|]. split; [constructor; assumption|]. split.
    + unfold blk in *. cbn [zip3z]. rewrite E. f_equal. lia.
    + intros j' r' Hj' Hr' E'. inversion Hj' as [|? ? j0 jt Hj0 Hjt]; subst. inversion Hr' as [|? ? r0 rt Hr0 Hrt]; subst.
      unfold blk in E'. cbn [zip3z] in E'. injection E' as E0 Et.
      destruct (U jt rt Hjt Hrt Et) as [-> ->].
      assert (j0 = i / b /\ r0 = i mod b) as [-> ->].
      { assert (i = b * j0 + r0) by lia. split; [eapply Z.div_unique_pos|eapply Z.mod_unique_pos]; eauto. }
      split; reflexivity.
Qed.

(* the sizes agree: (number of outputs) * (block size) = number of inputs *)
Lemma zprod_zip_mul a b : length a = length b -> zprod (zip2z Z.mul a b) = zprod a * zprod b.
Proof. revert b; induction a as [|x a IH]; intros [|y b] H; cbn [zip2z zprod length] in *; try lia. rewrite IH by lia. ring. Qed.

Theorem block_count shape bins : divides_all shape bins ->
  zprod (zip2z Z.div shape bins) * zprod bins = zprod shape.
Proof.
  intros Hd. destruct (shape_factor shape bins Hd) as [E L]. rewrite <- E at 2. rewrite zprod_zip_mul by exact L. reflexivity.
Qed.
