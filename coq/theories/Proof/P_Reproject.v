From NDV Require Import M_Reproject P_ExtraCoords.
From Coq Require Import Lqa.
Open Scope Z_scope.

Lemma in_boxb_spec : forall shape idx, in_boxb shape idx = true <-> in_box shape idx.
Proof.
  induction shape as [|s ss IH]; intros [|i is_]; cbn [in_boxb]; split; intros H; try discriminate; try constructor; try (inversion H; fail).
  - apply andb_true_iff in H. destruct H as [H1 H2]. apply andb_true_iff in H1. lia.
  - apply andb_true_iff in H. destruct H as [_ H2]. apply IH. exact H2.
  - inversion H; subst. apply andb_true_iff. split; [apply andb_true_iff; split; lia | apply IH; assumption].
Qed.

(* acceptance: exactly the well-posed requests, and the output shape is the requested one, else the target's own *)
Theorem decide_ok src_types a t shape_out s : decide src_types a t shape_out = Ok s <->
  a <> AUnknown /\
  (needs_celestial a = true -> t_pix t = 2%nat /\ t_world t = 2%nat /\ t_celestial t = true) /\
  src_types = t_types t /\
  (match shape_out with Some (x :: r) => s = x :: r | _ => t_shape t = Some s end).
Proof.
  unfold decide. destruct a; cbn [needs_celestial andb].
  - (* interpolation *)
    destruct (types_eqb src_types (t_types t)) eqn:Et; cbn [negb].
    + apply (list_eqb_eq String.eqb String.eqb_eq) in Et.
      destruct shape_out as [[|x r]|]; [destruct (t_shape t)| |destruct (t_shape t)]; split;
        try (intros H; inversion H; subst; repeat split; try congruence; try discriminate; fail);
        try (intros (_ & _ & _ & H); congruence).
    + split; [discriminate|]. intros (_ & _ & H & _). subst. rewrite (proj2 (list_eqb_eq String.eqb String.eqb_eq _ _) eq_refl) in Et. discriminate.
  - (* adaptive *)
    destruct (Nat.eqb (t_pix t) 2) eqn:E1; destruct (Nat.eqb (t_world t) 2) eqn:E2; cbn [andb negb];
      try (split; [discriminate|]; intros (_ & H & _); destruct (H eq_refl) as (H1 & H2 & _);
           try (apply Nat.eqb_neq in E1; congruence); try (apply Nat.eqb_neq in E2; congruence); fail).
    apply Nat.eqb_eq in E1. apply Nat.eqb_eq in E2.
    destruct (t_celestial t) eqn:Ec; cbn [negb]; [|split; [discriminate|]; intros (_ & H & _); destruct (H eq_refl) as (_ & _ & H3); discriminate].
    destruct (types_eqb src_types (t_types t)) eqn:Et; cbn [negb].
    + apply (list_eqb_eq String.eqb String.eqb_eq) in Et.
      destruct shape_out as [[|x r]|]; [destruct (t_shape t)| |destruct (t_shape t)]; split;
        try (intros H; inversion H; subst; repeat split; try congruence; try discriminate; fail);
        try (intros (_ & _ & _ & H); congruence).
    + split; [discriminate|]. intros (_ & _ & H & _). subst. rewrite (proj2 (list_eqb_eq String.eqb String.eqb_eq _ _) eq_refl) in Et. discriminate.
  - (* exact *)
    destruct (Nat.eqb (t_pix t) 2) eqn:E1; destruct (Nat.eqb (t_world t) 2) eqn:E2; cbn [andb negb];
      try (split; [discriminate|]; intros (_ & H & _); destruct (H eq_refl) as (H1 & H2 & _);
           try (apply Nat.eqb_neq in E1; congruence); try (apply Nat.eqb_neq in E2; congruence); fail).
    apply Nat.eqb_eq in E1. apply Nat.eqb_eq in E2.
    destruct (t_celestial t) eqn:Ec; cbn [negb]; [|split; [discriminate|]; intros (_ & H & _); destruct (H eq_refl) as (_ & _ & H3); discriminate].
    destruct (types_eqb src_types (t_types t)) eqn:Et; cbn [negb].
    + apply (list_eqb_eq String.eqb String.eqb_eq) in Et.
      destruct shape_out as [[|x r]|]; [destruct (t_shape t)| |destruct (t_shape t)]; split;
        try (intros H; inversion H; subst; repeat split; try congruence; try discriminate; fail);
        try (intros (_ & _ & _ & H); congruence).
    + split; [discriminate|]. intros (_ & _ & H & _). subst. rewrite (proj2 (list_eqb_eq String.eqb String.eqb_eq _ _) eq_refl) in Et. discriminate.
  - split; [discriminate|]. intros (H & _). congruence.
Qed.

(* every target element: the source's value at the coinciding element, nothing (footprint 0) where there is none *)
Theorem regrid_shift_value src_shape out_shape shift data t : in_box out_shape t ->
  nth (Z.to_nat (ravel out_shape t)) (regrid_shift src_shape out_shape shift data) None
  = (if in_boxb src_shape (zip2z Z.add t shift)
     then Some (nth (Z.to_nat (ravel src_shape (zip2z Z.add t shift))) data 0%Q) else None).
Proof.
  intros Ht. unfold regrid_shift.
  set (g := fun t0 => if in_boxb src_shape (zip2z Z.add t0 shift) then _ else _).
  pose proof (ravel_bounds _ _ Ht) as Hr.
  assert (Hnn : Forall (fun x => 0 <= x) out_shape).
  { clear -Ht. induction Ht; constructor; [lia|assumption]. }
  pose proof (box_length _ Hnn) as HL. unfold zlen in HL.
  rewrite (nth_indep _ None (g [])) by (rewrite map_length; lia).
  rewrite (map_nth g). rewrite box_nth_ravel by assumption. reflexivity.
Qed.

Theorem footprint_value src_shape out_shape shift data t : in_box out_shape t ->
  nth (Z.to_nat (ravel out_shape t)) (footprint (regrid_shift src_shape out_shape shift data)) 0
  = if in_boxb src_shape (zip2z Z.add t shift) then 1 else 0.
Proof.
  intros Ht. unfold footprint.
  pose proof (ravel_bounds _ _ Ht) as Hr.
  assert (Hnn : Forall (fun x => 0 <= x) out_shape).
  { clear -Ht. induction Ht; constructor; [lia|assumption]. }
  pose proof (box_length _ Hnn) as HL. unfold zlen in HL.
  set (f := fun o : option Q => match o with Some _ => 1 | None => 0 end).
  rewrite (nth_indep _ 0 (f None)) by (rewrite map_length; unfold regrid_shift; rewrite map_length; lia).
  rewrite (map_nth f). rewrite regrid_shift_value by assumption.
  destruct (in_boxb src_shape (zip2z Z.add t shift)); reflexivity.
Qed.

(* the coinciding element is the one at the same world position: shifting crpix by s moves pixel p onto p + s *)
Theorem same_world_position crval cdelt crpix s p :
  (lin_world crval cdelt (crpix - s) p == lin_world crval cdelt crpix (p + s))%Q.
Proof. unfold lin_world. ring. Qed.
Theorem coinciding_unique crval cdelt crpix s p q : ~ (cdelt == 0)%Q ->
  (lin_world crval cdelt (crpix - s) p == lin_world crval cdelt crpix q)%Q -> (q == p + s)%Q.
Proof.
  unfold lin_world. intros Hc H.
  assert (E : (cdelt * (q - (p + s)) == 0)%Q) by lra.
  destruct (Qmult_integral _ _ E) as [E1|E1]; [contradiction | lra].
Qed.

(* identical target: the source data, complete footprint *)
Lemma zip2z_add_zero : forall t, zip2z Z.add t (repeat 0 (length t)) = t.
Proof. induction t as [|x t IH]; cbn [length repeat zip2z]; [reflexivity|]. rewrite IH. f_equal. lia. Qed.
Theorem regrid_identity shape data t : in_box shape t ->
  nth (Z.to_nat (ravel shape t)) (regrid_shift shape shape (repeat 0 (length shape)) data) None
  = Some (nth (Z.to_nat (ravel shape t)) data 0%Q).
Proof.
  intros Ht. rewrite regrid_shift_value by assumption.
  rewrite <- (in_box_length _ _ Ht), zip2z_add_zero.
  rewrite (proj2 (in_boxb_spec shape t) Ht). reflexivity.
Qed.
