From NDV Require Import M_Wrappers.
From Coq Require Import Lqa.
Open Scope Q_scope.

(* ---------- vectors up to Qeq ---------- *)
Lemma veq_refl u : veq u u.
Proof. induction u; constructor; [reflexivity|assumption]. Qed.
Lemma veq_trans u v w : veq u v -> veq v w -> veq u w.
Proof.
  intros H; revert w; induction H as [|a b u v Hab Huv IH]; intros w Hw; inversion Hw; subst; constructor.
  - etransitivity; eassumption.
  - apply IH; assumption.
Qed.
Lemma veq_length u v : veq u v -> length u = length v.
Proof. induction 1; cbn [length]; congruence. Qed.

Lemma veq_nth u v : veq u v -> forall i, nth i u 0 == nth i v 0.
Proof. induction 1 as [|a b u v Hab Huv IH]; intros [|i]; cbn [nth]; try reflexivity; auto. Qed.

Lemma veq_permute order u v : veq u v -> veq (permute 0 order u) (permute 0 order v).
Proof.
  intros H. unfold permute. induction order as [|i r IH]; cbn [map]; constructor; [apply veq_nth; assumption|exact IH].
Qed.

(* ---------- resampled ---------- *)
Lemma unscale_scale : forall p f o, length f = length p -> length o = length p ->
  Forall (fun x => ~ x == 0) f -> veq (unscale f o (scale f o p)) p.
Proof.
  induction p as [|x p IH]; intros [|fx f] [|ox o] Hf Ho Hnz; cbn [length] in *; try discriminate; cbn; [constructor|].
  inversion Hnz as [|? ? Hfx Hnz']; subst. constructor.
  - field. assumption.
  - apply IH; try assumption; lia.
Qed.

Lemma unscale_proper f o : forall u v, veq u v -> veq (unscale f o u) (unscale f o v).
Proof.
  intros u v H. revert f o. induction H as [|a b u v Hab Huv IH]; intros [|fx f] [|ox o]; cbn; try constructor.
  - rewrite Hab. reflexivity.
  - apply IH.
Qed.

Definition roundtrips (W : wcs) : Prop := forall u, length u = npix W -> veq (w2p W (p2w W u)) u.

Lemma scale_length f o p : length f = length p -> length o = length p -> length (scale f o p) = length p.
Proof.
  revert f o; induction p as [|x p IH]; intros [|fx f] [|ox o] Hf Ho; cbn [length] in *; try discriminate; cbn; [reflexivity|].
  f_equal. apply IH; lia.
Qed.

Theorem resampled_exact W f o W' : resampled W f o = Ok W' ->
  (forall p, p2w W' p = p2w W (scale f o p)) /\ npix W' = npix W /\ nworld W' = nworld W /\
  wtypes W' = wtypes W /\ corr W' = corr W.
Proof.
  unfold resampled. destruct (_ && _); [|discriminate]. intros H; inversion H; subst; cbn. repeat split.
Qed.

Theorem resampled_roundtrip W f o W' : resampled W f o = Ok W' -> roundtrips W ->
  Forall (fun x => ~ x == 0) f -> roundtrips W'.
Proof.
  unfold resampled. destruct (Nat.eqb (length f) (npix W)) eqn:E1; [|discriminate].
  destruct (Nat.eqb (length o) (npix W)) eqn:E2; [|discriminate]. cbn [andb].
  apply Nat.eqb_eq in E1, E2. intros H; inversion H; subst; clear H. intros RT Hnz u Hu. cbn in *.
  eapply veq_trans.
  - apply unscale_proper. apply RT. rewrite scale_length; congruence.
  - apply unscale_scale; congruence.
Qed.

Theorem resampled_refuses_wrong_length W f o :
  length f <> npix W \/ length o <> npix W -> resampled W f o = Err EValue.
Proof.
  intros H. unfold resampled.
  destruct (Nat.eqb (length f) (npix W)) eqn:E1; destruct (Nat.eqb (length o) (npix W)) eqn:E2; cbn [andb]; try reflexivity.
  apply Nat.eqb_eq in E1, E2. destruct H; contradiction.
Qed.

Theorem resampled_shape W f o W' s : resampled W f o = Ok W' -> pshape W = Some s ->
  length s = length f -> Forall (fun x => ~ x == 0) f ->
  exists s', pshape W' = Some s' /\ veq (zip2 Qmult s' f) s.
Proof.
  unfold resampled. destruct (_ && _); [|discriminate]. intros H; inversion H; subst; clear H. cbn.
  intros -> Hl Hnz. eexists; split; [reflexivity|].
  revert f Hl Hnz. induction s as [|x s IH]; intros [|fx f] Hl Hnz; cbn [length] in *; try discriminate; cbn; constructor.
  - inversion Hnz; subst. field. assumption.
  - apply IH; [lia|inversion Hnz; assumption].
Qed.

(* ---------- permutations ---------- *)
Lemma is_perm_b_spec n order : is_perm_b n order = true ->
  length order = n /\ NoDup order /\ (forall k, (k < n)%nat -> In k order) /\ (forall k, In k order -> (k < n)%nat).
Proof.
  unfold is_perm_b. intros H. apply andb_true_iff in H. destruct H as [Hl Hall].
  apply Nat.eqb_eq in Hl. rewrite forallb_forall in Hall.
  assert (Hin : forall k, (k < n)%nat -> In k order).
  { intros k Hk. specialize (Hall k ltac:(apply in_seq; lia)). apply existsb_exists in Hall.
    destruct Hall as (x & Hx & Hxe). apply Nat.eqb_eq in Hxe. subst. assumption. }
  assert (Hincl : incl (seq 0 n) order) by (intros k Hk; apply in_seq in Hk; apply Hin; lia).
  assert (Hnd : NoDup order).
  { apply (@NoDup_incl_NoDup nat (seq 0 n) order); [apply seq_NoDup|rewrite seq_length; lia|assumption]. }
  repeat split; try assumption.
  intros k Hk. assert (In k (seq 0 n)); [|apply in_seq in H; lia].
  apply (@NoDup_length_incl nat (seq 0 n) order); [apply seq_NoDup|rewrite seq_length; lia|assumption|assumption].
Qed.

Lemma index_of_in k : forall l, In k l -> (index_of k l < length l)%nat /\ nth (index_of k l) l O = k.
Proof.
  induction l as [|x t IH]; intros H; [destruct H|]. cbn [index_of length].
  destruct (Nat.eqb x k) eqn:E.
  - apply Nat.eqb_eq in E. subst. cbn [nth]. split; [lia|reflexivity].
  - destruct H as [->|H]; [rewrite Nat.eqb_refl in E; discriminate|].
    destruct (IH H) as [H1 H2]. cbn [nth]. split; [lia|assumption].
Qed.

Lemma index_of_nth : forall l j, NoDup l -> (j < length l)%nat -> index_of (nth j l O) l = j.
Proof.
  induction l as [|x t IH]; intros j Hnd Hj; cbn [length] in Hj; [lia|].
  inversion Hnd as [|? ? Hx Ht]; subst. destruct j; cbn [nth index_of].
  - rewrite Nat.eqb_refl. reflexivity.
  - destruct (Nat.eqb x (nth j t O)) eqn:E.
    + apply Nat.eqb_eq in E. exfalso. apply Hx. rewrite E. apply nth_In. lia.
    + f_equal. apply IH; [assumption|lia].
Qed.

Lemma nth_permute {A} (d : A) order l j : (j < length order)%nat ->
  nth j (permute d order l) d = nth (nth j order O) l d.
Proof.
  intros H. unfold permute. rewrite (nth_indep _ d (nth O l d)) by (rewrite map_length; assumption).
  exact (map_nth (fun i => nth i l d) order O j).
Qed.

Lemma inv_perm_nth order j : (j < length order)%nat -> nth j (inv_perm order) O = index_of j order.
Proof.
  intros H. unfold inv_perm.
  rewrite (nth_indep _ O (index_of O order)) by (rewrite map_length, seq_length; assumption).
  rewrite (map_nth (fun k => index_of k order) (seq 0 (length order)) O j). rewrite seq_nth by assumption. reflexivity.
Qed.

Lemma inv_perm_length order : length (inv_perm order) = length order.
Proof. unfold inv_perm. rewrite map_length, seq_length. reflexivity. Qed.

Lemma permute_length {A} (d : A) order l : length (permute d order l) = length order.
Proof. unfold permute. apply map_length. Qed.

Theorem permute_permute_inv {A} (d : A) n order l : is_perm_b n order = true -> length l = n ->
  permute d order (permute d (inv_perm order) l) = l.
Proof.
  intros Hp Hl. destruct (is_perm_b_spec _ _ Hp) as (Hlen & Hnd & Hin & Hlt).
  apply (nth_ext _ _ d d); [rewrite permute_length; congruence|].
  intros j Hj. rewrite permute_length in Hj.
  rewrite nth_permute by assumption.
  assert (Hjo : (nth j order O < length order)%nat) by (rewrite Hlen; apply Hlt; apply nth_In; assumption).
  rewrite nth_permute by (rewrite inv_perm_length; assumption).
  rewrite inv_perm_nth by assumption. rewrite index_of_nth by assumption. reflexivity.
Qed.

Theorem permute_inv_permute {A} (d : A) n order l : is_perm_b n order = true -> length l = n ->
  permute d (inv_perm order) (permute d order l) = l.
Proof.
  intros Hp Hl. destruct (is_perm_b_spec _ _ Hp) as (Hlen & Hnd & Hin & Hlt).
  apply (nth_ext _ _ d d); [rewrite permute_length, inv_perm_length; congruence|].
  intros j Hj. rewrite permute_length, inv_perm_length in Hj.
  rewrite nth_permute by (rewrite inv_perm_length; assumption).
  rewrite inv_perm_nth by assumption.
  destruct (index_of_in j order (Hin j ltac:(lia))) as [H1 H2].
  rewrite nth_permute by assumption. rewrite H2. reflexivity.
Qed.

Definition wellformed (W : wcs) : Prop :=
  (forall u, length (p2w W u) = nworld W) /\ (forall w, length (w2p W w) = npix W).

Theorem reordered_conjugation W po wo W' : reordered W po wo = Ok W' ->
  (forall ps, p2w W' ps = permute 0 wo (p2w W (permute 0 (inv_perm po) ps))) /\
  wtypes W' = permute 0%Z wo (wtypes W) /\ ptypes W' = permute 0%Z po (ptypes W) /\
  corr W' = map (fun row => permute false po row) (permute [] wo (corr W)) /\
  pshape W' = option_map (permute 0 po) (pshape W) /\
  pbounds W' = option_map (permute (0, 0) po) (pbounds W).
Proof.
  unfold reordered. destruct (_ && _); [|discriminate]. intros H; inversion H; subst; cbn. repeat split.
Qed.

Theorem reordered_roundtrip W po wo W' : reordered W po wo = Ok W' -> wellformed W -> roundtrips W ->
  roundtrips W'.
Proof.
  unfold reordered. destruct (is_perm_b (npix W) po) eqn:Ep; [|discriminate].
  destruct (is_perm_b (nworld W) wo) eqn:Ew; [|discriminate]. cbn [andb].
  intros H; inversion H; subst; clear H. intros [Hw1 Hw2] RT ps Hps. cbn in *.
  rewrite (permute_inv_permute 0 (nworld W) wo) by (try assumption; apply Hw1).
  destruct (is_perm_b_spec _ _ Ep) as (Hlen & _).
  eapply veq_trans.
  - apply veq_permute. apply RT. rewrite permute_length, inv_perm_length. assumption.
  - rewrite (permute_permute_inv 0 (npix W) po) by assumption. apply veq_refl.
Qed.

Theorem reordered_refuses_non_permutation W po wo :
  is_perm_b (npix W) po = false \/ is_perm_b (nworld W) wo = false -> reordered W po wo = Err EValue.
Proof. intros [H|H]; unfold reordered; rewrite H; [reflexivity|]. destruct (is_perm_b _ po); reflexivity. Qed.

(* ---------- compound ---------- *)
Lemma permute_app {A} (d : A) m1 m2 l : permute d (m1 ++ m2) l = permute d m1 l ++ permute d m2 l.
Proof. apply map_app. Qed.

Theorem compound_p2w_cons w r m1 mr ps : length m1 = npix w ->
  compound_p2w (w :: r) (m1 ++ mr) ps = p2w w (permute 0 m1 ps) ++ compound_p2w r mr ps.
Proof.
  intros H. unfold compound_p2w. cbn [comp_p2w]. rewrite permute_app.
  rewrite <- H, <- (permute_length 0 m1 ps).
  rewrite firstn_app, firstn_all, Nat.sub_diag, skipn_app, skipn_all, Nat.sub_diag.
  cbn [firstn skipn]. rewrite app_nil_r. reflexivity.
Qed.

(* world inputs that imply different positions on a shared pixel axis are refused *)
Theorem compound_w2p_refuses ws mapping atol world i j :
  (i < length mapping)%nat -> (j < length mapping)%nat -> nth i mapping O = nth j mapping O ->
  ~ Qabs (nth i (comp_w2p_all ws world) 0 - nth j (comp_w2p_all ws world) 0) <= atol ->
  compound_w2p ws mapping atol world = Err EValue.
Proof.
  intros Hi Hj Hm Hfar. unfold compound_w2p.
  destruct (slots_consistent atol mapping (comp_w2p_all ws world)) eqn:E; [|reflexivity].
  exfalso. apply Hfar. unfold slots_consistent in E. rewrite forallb_forall in E.
  specialize (E i ltac:(apply in_seq; lia)). rewrite forallb_forall in E.
  specialize (E j ltac:(apply in_seq; lia)). rewrite Hm, Nat.eqb_refl in E.
  unfold qclose in E. apply Qle_bool_iff in E. exact E.
Qed.

Theorem compound_refuses_wrong_mapping_length ws mapping :
  length mapping <> total_npix ws -> compound ws mapping = Err EValue.
Proof.
  intros H. unfold compound. destruct (Nat.eqb (length mapping) (total_npix ws)) eqn:E; [|reflexivity].
  apply Nat.eqb_eq in E. contradiction.
Qed.

(* ---------- compound round trip ---------- *)
Definition all_rt (ws : list wcs) : Prop := Forall (fun w => roundtrips w /\ wellformed w) ws.

Lemma veq_app u u' v v' : veq u u' -> veq v v' -> veq (u ++ v) (u' ++ v').
Proof. intros H1 H2. induction H1; cbn [app]; [assumption|constructor; assumption]. Qed.

Lemma comp_w2p_p2w ws : all_rt ws -> forall routed, length routed = total_npix ws ->
  veq (comp_w2p_all ws (comp_p2w ws routed)) routed.
Proof.
  induction 1 as [|w r [Hrt [Hw1 Hw2]] Hr IH]; intros routed Hl; cbn [total_npix fold_right] in Hl.
  - destruct routed; [constructor|discriminate].
  - cbn [comp_p2w comp_w2p_all].
    rewrite <- (Hw1 (firstn (npix w) routed)) at 1 2.
    rewrite firstn_app, firstn_all, Nat.sub_diag, skipn_app, skipn_all, Nat.sub_diag.
    cbn [firstn skipn]. rewrite app_nil_r.
    rewrite <- (firstn_skipn (npix w) routed) at 3.
    apply veq_app.
    + apply Hrt. rewrite firstn_length. fold (total_npix r) in Hl. lia.
    + apply IH. rewrite skipn_length. fold (total_npix r) in Hl. lia.
Qed.

Lemma mapping_inverse_nth mapping k : (k < n_inputs mapping)%nat ->
  nth k (mapping_inverse mapping) O = index_of k mapping.
Proof.
  intros H. unfold mapping_inverse.
  rewrite (nth_indep _ O (index_of O mapping)) by (rewrite map_length, seq_length; assumption).
  rewrite (map_nth (fun k => index_of k mapping) (seq 0 (n_inputs mapping)) O k). rewrite seq_nth by assumption. reflexivity.
Qed.

Theorem compound_roundtrip ws mapping atol ps : all_rt ws -> length mapping = total_npix ws ->
  length ps = n_inputs mapping -> (forall k, (k < n_inputs mapping)%nat -> In k mapping) -> 0 <= atol ->
  exists ps', compound_w2p ws mapping atol (compound_p2w ws mapping ps) = Ok ps' /\ veq ps' ps.
Proof.
  intros Hrt Hm Hps Honto Hat. unfold compound_w2p, compound_p2w.
  set (routed := permute 0 mapping ps).
  assert (Hpix : veq (comp_w2p_all ws (comp_p2w ws routed)) routed).
  { apply comp_w2p_p2w; [assumption|]. unfold routed. rewrite permute_length. assumption. }
  set (pix := comp_w2p_all ws (comp_p2w ws routed)) in *.
  assert (Hc : slots_consistent atol mapping pix = true).
  { unfold slots_consistent. apply forallb_forall. intros i Hi. apply forallb_forall. intros j Hj.
    apply in_seq in Hi, Hj. destruct (Nat.eqb (nth i mapping O) (nth j mapping O)) eqn:E; [|reflexivity].
    apply Nat.eqb_eq in E. unfold qclose. apply Qle_bool_iff.
    pose proof (veq_nth _ _ Hpix i) as Hi'. pose proof (veq_nth _ _ Hpix j) as Hj'.
    unfold routed in Hi', Hj'. rewrite nth_permute in Hi', Hj' by lia. rewrite E in Hi'.
    assert (Hz : nth i pix 0 - nth j pix 0 == 0) by (rewrite Hi', Hj'; ring).
    rewrite Hz. cbn. assumption. }
  rewrite Hc. eexists; split; [reflexivity|].
  eapply veq_trans; [apply veq_permute; exact Hpix|].
  assert (Heq : permute 0 (mapping_inverse mapping) routed = ps); [|rewrite Heq; apply veq_refl].
  apply (nth_ext _ _ 0 0).
  - rewrite permute_length. unfold mapping_inverse. rewrite map_length, seq_length. congruence.
  - intros k Hk. rewrite permute_length in Hk. unfold mapping_inverse in Hk. rewrite map_length, seq_length in Hk.
    rewrite nth_permute by (unfold mapping_inverse; rewrite map_length, seq_length; assumption).
    rewrite mapping_inverse_nth by assumption.
    destruct (index_of_in k mapping (Honto k Hk)) as [H1 H2].
    unfold routed. rewrite nth_permute by assumption. rewrite H2. reflexivity.
Qed.
