(* An integer and the one-element slice at the same position agree: index_as_cube[i] is the cube (k, j) exactly when
   index_as_cube[i:i+1] is the sequence holding the single piece (k, j, 1). *)
From NDV Require Import M_IndexAsCube P_IndexAsCube.
From Coq Require Import Lia.
Open Scope Z_scope.

Theorem iac_int_slice lens i : allpos lens -> 0 <= i < zsum lens ->
  exists k j, iac_common lens (IInt i) = Ok (RCube k j) /\
              iac_common lens (ISlice (Some i) (Some (i + 1)) None) = Ok (RSeq [(k, j, 1)]) /\
              0 <= j < nth k lens 0 /\ (k < length lens)%nat.
Proof.
  intros Hp Hi. destruct (locate_some lens Hp i Hi) as (k & j & Hloc & Hj & Hk). exists k, j.
  split; [|split; [|split; assumption]].
  - cbn [iac_common]. rewrite norm_int_nonneg by exact Hi. rewrite Hloc. reflexivity.
  - cbn [iac_common step_ok]. unfold slice_bounds. cbn [adj_pos]. unfold clamp.
    destruct (i <? 0) eqn:E1; [lia|]. destruct (i + 1 <? 0) eqn:E2; [lia|].
    replace (Z.max 0 (Z.min (zsum lens) i)) with i by lia.
    replace (Z.max 0 (Z.min (zsum lens) (i + 1))) with (i + 1) by lia.
    destruct (i + 1 <=? i) eqn:E3; [lia|].
    unfold code_pieces. replace (i + 1 - 1) with i by lia. rewrite Hloc. rewrite Nat.eqb_refl.
    replace (j + 1 - j) with 1 by lia. reflexivity.
Qed.
