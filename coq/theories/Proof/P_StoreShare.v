(* The converse of fresh_write_safe, which is what makes the sharing table worth measuring: a field the table marks
   Share refers, in the derived object, to the very cell of the source - so a write through the derived object IS seen
   by the source (a slice is a view; the meta dict of a slice is the source's dict). *)
From NDV Require Import M_Store P_Store.
From Coq Require Import Lia.
Open Scope nat_scope.

Lemma build_share : forall sg src next f l, NoDup (map fst sg) -> mode_of sg f = Some Share ->
  get_loc src f = Some l -> get_loc (fst (build sg src next)) f = Some l.
Proof.
  induction sg as [|[g m] r IH]; intros src next f l Hnd Hm Hs; [discriminate|].
  cbn [map fst] in Hnd. inversion Hnd as [|? ? Hnotin Hnd']; subst.
  unfold mode_of in Hm. cbn [filter fst] in Hm. destruct (field_eqb f g) eqn:E.
  - apply field_eqb_eq in E. subst g. injection Hm as ->. cbn [build]. rewrite Hs.
    destruct (build r src next) as [o n]. cbn [fst get_loc]. replace (field_eqb f f) with true by (symmetry; apply field_eqb_eq; reflexivity). reflexivity.
  - fold (mode_of r f) in Hm. destruct m.
    + cbn [build]. destruct (get_loc src g) as [lg|].
      * specialize (IH src next f l Hnd' Hm Hs). destruct (build r src next) as [o n]. cbn [fst get_loc] in *. rewrite E. exact IH.
      * apply IH; assumption.
    + cbn [build]. specialize (IH src (S next) f l Hnd' Hm Hs). destruct (build r src (S next)) as [o n]. cbn [fst get_loc] in *. rewrite E. exact IH.
Qed.

Lemma derive_new_obj sg k c st : nth (length (objs st)) (objs (derive sg k c st)) [] = fst (build sg (nth k (objs st) []) (length (heap st))).
Proof.
  unfold derive. destruct (build sg (nth k (objs st) []) (length (heap st))) as [o n]. cbn [objs fst].
  rewrite app_nth2 by lia. rewrite Nat.sub_diag. reflexivity.
Qed.

Theorem shared_field_same_cell sg k c st f l : NoDup (map fst sg) -> mode_of sg f = Some Share ->
  get_loc (nth k (objs st) []) f = Some l ->
  get_loc (nth (length (objs st)) (objs (derive sg k c st)) []) f = Some l.
Proof. intros Hnd Hm Hs. rewrite derive_new_obj. apply build_share; assumption. Qed.
