(* A resampling wrapper over a resampling wrapper (an "already wrapped" inner WCS) is one resampling wrapper with
   factor f2*f1 and offset o2*f1+o1: the inner WCS is evaluated at the same pixel position. *)
From NDV Require Import M_Wrappers P_Wrappers P_Unwrap.
From Coq Require Import Lia Lqa.
Open Scope Q_scope.

Definition comp_factor (f1 f2 : qvec) : qvec := zip2 Qmult f2 f1.
Definition comp_offset (f1 o1 o2 : qvec) : qvec := zip3 (fun o2 f1 o1 => o2 * f1 + o1) o2 f1 o1.

Lemma scale_scale : forall p f1 o1 f2 o2, length f1 = length p -> length o1 = length p ->
  length f2 = length p -> length o2 = length p ->
  veq (scale f1 o1 (scale f2 o2 p)) (scale (comp_factor f1 f2) (comp_offset f1 o1 o2) p).
Proof.
  induction p as [|x p IH]; intros [|a f1] [|b o1] [|c f2] [|d o2] H1 H2 H3 H4; cbn [length] in *; try discriminate.
  - constructor.
  - unfold scale, comp_factor, comp_offset in *. cbn [zip3 zip2]. constructor; [ring|]. apply IH; lia.
Qed.

Lemma comp_lengths n (f1 o1 f2 o2 : qvec) : length f1 = n -> length o1 = n -> length f2 = n -> length o2 = n ->
  length (comp_factor f1 f2) = n /\ length (comp_offset f1 o1 o2) = n.
Proof.
  intros H1 H2 H3 H4. unfold comp_factor, comp_offset. split.
  - rewrite zip2_length; congruence.
  - rewrite zip3_length; congruence.
Qed.

Theorem resampled_compose W f1 o1 f2 o2 W1 W2 : resampled W f1 o1 = Ok W1 -> resampled W1 f2 o2 = Ok W2 ->
  exists W12, resampled W (comp_factor f1 f2) (comp_offset f1 o1 o2) = Ok W12 /\
    forall p, length p = npix W ->
      p2w W2 p = p2w W (scale f1 o1 (scale f2 o2 p)) /\
      p2w W12 p = p2w W (scale (comp_factor f1 f2) (comp_offset f1 o1 o2) p) /\
      veq (scale f1 o1 (scale f2 o2 p)) (scale (comp_factor f1 f2) (comp_offset f1 o1 o2) p).
Proof.
  intros R1 R2. pose proof (resampled_exact _ _ _ _ R1) as (E1 & N1 & _). pose proof (resampled_exact _ _ _ _ R2) as (E2 & N2 & _).
  unfold resampled in R1. destruct (Nat.eqb (length f1) (npix W)) eqn:A1; [|discriminate]. destruct (Nat.eqb (length o1) (npix W)) eqn:A2; [|discriminate].
  unfold resampled in R2. destruct (Nat.eqb (length f2) (npix W1)) eqn:A3; [|discriminate]. destruct (Nat.eqb (length o2) (npix W1)) eqn:A4; [|discriminate].
  apply Nat.eqb_eq in A1, A2, A3, A4. rewrite N1 in A3, A4.
  destruct (comp_lengths (npix W) f1 o1 f2 o2 A1 A2 A3 A4) as [L1 L2].
  unfold resampled at 1. rewrite L1, L2, Nat.eqb_refl. cbn [andb]. eexists. split; [reflexivity|].
  intros p Hp. cbn [p2w]. split; [|split].
  - rewrite E2, E1. reflexivity.
  - reflexivity.
  - apply scale_scale; congruence.
Qed.
