From NDV Require Import M_Arith.
From Coq Require Import Qpower Qfield.
Open Scope Z_scope.

Definition qeql := Forall2 Qeq.

(* ---------- zipq plumbing ---------------------------------------------------------------------------------------- *)
Lemma zipq_map_r f g a b : zipq f a (map g b) = zipq (fun x y => f x (g y)) a b.
Proof. revert b; induction a as [|x a IH]; intros [|y b]; cbn [map zipq]; try reflexivity. rewrite IH. reflexivity. Qed.
Lemma map_zipq h f a b : map h (zipq f a b) = zipq (fun x y => h (f x y)) a b.
Proof. revert b; induction a as [|x a IH]; intros [|y b]; cbn [map zipq]; try reflexivity. rewrite IH. reflexivity. Qed.
Lemma zipq_map_l f g a b : zipq f (map g a) b = zipq (fun x y => f (g x) y) a b.
Proof. revert b; induction a as [|x a IH]; intros [|y b]; cbn [map zipq]; try reflexivity. rewrite IH. reflexivity. Qed.
Lemma zipq_zipq_same f g a v : zipq f (zipq g a v) v = zipq (fun x y => f (g x y) y) a v.
Proof. revert v; induction a as [|x a IH]; intros [|y v]; cbn [zipq]; try reflexivity. rewrite IH. reflexivity. Qed.
Lemma zipq_ext (P : Q -> Prop) f g a v : Forall P v -> (forall x y, P y -> f x y == g x y)%Q -> qeql (zipq f a v) (zipq g a v).
Proof.
  intros Hv H. revert a; induction Hv as [|y v Hy Hv IH]; intros [|x a]; cbn [zipq]; try constructor.
  - apply H; assumption.
  - apply IH.
Qed.
Lemma zipq_id (P : Q -> Prop) h a v : length a = length v -> Forall P v -> (forall x y, P y -> h x y == x)%Q -> qeql (zipq h a v) a.
Proof.
  intros Hl Hv H. revert a Hl; induction Hv as [|y v Hy Hv IH]; intros [|x a] Hl; cbn [length] in Hl; try discriminate; cbn [zipq]; constructor.
  - apply H; assumption.
  - apply IH. lia.
Qed.
Lemma zipq_length f a v : length a = length v -> length (zipq f a v) = length a.
Proof. revert v; induction a as [|x a IH]; intros [|y v] H; cbn [length] in *; try discriminate; cbn [zipq length]; [reflexivity|]. rewrite IH by lia. reflexivity. Qed.
Lemma qeql_refl l : qeql l l.
Proof. induction l; constructor; [reflexivity|assumption]. Qed.
Lemma qeql_trans a b c : qeql a b -> qeql b c -> qeql a c.
Proof. intros H; revert c; induction H as [|x y a b Hxy H IH]; intros c Hc; inversion Hc; subst; constructor; [etransitivity; eassumption | apply IH; assumption]. Qed.
Lemma all_true v : Forall (fun _ : Q => True) v.
Proof. induction v; constructor; trivial. Qed.

(* ---------- carried attributes: every operation hands on mask, coordinates and meta ---------------------------- *)
Definition same_frame (c r : cube) : Prop := mask r = mask c /\ carried r = carried c.

Lemma add_frame c o r : add c o = Ok r -> same_frame c r /\ unc r = unc c /\ cunit r = cunit c.
Proof.
  unfold add. destruct o as [vals|vals un|]; [| |discriminate].
  - destruct (cunit c) as [un|] eqn:Eu; [destruct (is_unscaled_dimless un); [|discriminate]|];
      intros H; inversion H; subst; cbn; rewrite ?Eu; repeat split; reflexivity.
  - destruct (exps_eqb _ _); [|discriminate]. intros H; inversion H; subst; cbn; repeat split; reflexivity.
Qed.
Lemma neg_frame c : same_frame c (neg c) /\ unc (neg c) = unc c /\ cunit (neg c) = cunit c.
Proof. cbn. repeat split; reflexivity. Qed.
Lemma mul_frame c o r : mul c o = Ok r -> same_frame c r.
Proof. unfold mul. destruct o; [| |discriminate]; intros H; inversion H; subst; cbn; split; reflexivity. Qed.
Lemma pow_frame c k : same_frame c (pow c k).
Proof. cbn. split; reflexivity. Qed.

(* ---------- refusals --------------------------------------------------------------------------------------------- *)
Theorem other_refused c : add c OOther = Err EType /\ sub c OOther = Err EType /\ rsub c OOther = Err EType /\
  mul c OOther = Err EType /\ truediv c OOther = Err EType /\ rtruediv c OOther = Err EType.
Proof. repeat split; reflexivity. Qed.
Theorem add_units_refused c vals un cu : cunit c = Some cu -> exps un <> exps cu -> add c (OQty vals un) = Err EUnits.
Proof.
  intros Hc Hne. unfold add. rewrite Hc.
  destruct (exps_eqb (exps un) (exps cu)) eqn:E; [|reflexivity].
  apply (list_eqb_eq Z.eqb Z.eqb_eq) in E. contradiction.
Qed.
Theorem add_bare_refused c vals cu : cunit c = Some cu -> is_unscaled_dimless cu = false -> add c (ONum vals) = Err EType.
Proof. intros Hc Hd. unfold add. rewrite Hc, Hd. reflexivity. Qed.

(* ---------- sums: physical values add after unit conversion ------------------------------------------------------ *)
Theorem add_phys c vals un r : let nb := length (exps un) in
  add c (OQty vals un) = Ok r -> ~ (scale (unit_or_dimless nb (cunit c)) == 0)%Q ->
  qeql (phys nb r) (zipq Qplus (phys nb c) (ophys (OQty vals un))) /\ dims nb r = dims nb c /\ dims nb c = exps un.
Proof.
  intros nb H Hs. pose proof (add_frame _ _ _ H) as (_ & _ & Hu).
  unfold add in H. fold nb in H.
  assert (Ecu : match cunit c with None => dimless nb | Some x => x end = unit_or_dimless nb (cunit c)) by (destruct (cunit c); reflexivity).
  rewrite Ecu in H. set (cu := unit_or_dimless nb (cunit c)) in *.
  destruct (exps_eqb (exps un) (exps cu)) eqn:E; [|discriminate].
  apply (list_eqb_eq Z.eqb Z.eqb_eq) in E. inversion H; subst r; clear H.
  unfold phys, dims. cbn [data cunit with_data]. fold cu.
  split; [|split; [reflexivity | symmetry; exact E]].
  cbn [ophys]. rewrite map_zipq, zipq_map_r, zipq_map_l, zipq_map_r.
  apply (zipq_ext (fun _ => True)); [apply all_true|]. intros x y _. field. exact Hs.
Qed.

Theorem add_num_data c vals r : add c (ONum vals) = Ok r -> data r = zipq Qplus (data c) vals.
Proof.
  unfold add. destruct (cunit c) as [un|]; [destruct (is_unscaled_dimless un); [|discriminate]|];
    intros H; inversion H; reflexivity.
Qed.

(* ---------- products: physical values multiply, dimensions add; uncertainties scale by the magnitude ------------- *)
Theorem mul_phys_qty c vals un r : let nb := length (exps un) in
  mul c (OQty vals un) = Ok r ->
  qeql (phys nb r) (zipq Qmult (phys nb c) (ophys (OQty vals un))) /\
  dims nb r = map (fun '(x, y) => x + y) (combine (dims nb c) (exps un)).
Proof.
  intros nb H. unfold mul in H. inversion H; subst r; clear H. fold nb.
  assert (Ecu : match cunit c with None => dimless nb | Some x => x end = unit_or_dimless nb (cunit c)) by (destruct (cunit c); reflexivity).
  rewrite Ecu. unfold phys, dims. cbn [data cunit unit_or_dimless umul scale exps]. split; [|reflexivity].
  cbn [ophys]. rewrite map_zipq, zipq_map_r, zipq_map_l.
  apply (zipq_ext (fun _ => True)); [apply all_true|]. intros x y _. ring.
Qed.
Theorem mul_phys_num c vals r nb : mul c (ONum vals) = Ok r ->
  qeql (phys nb r) (zipq Qmult (phys nb c) vals) /\ cunit r = cunit c.
Proof.
  intros H. unfold mul in H. inversion H; subst r; clear H. unfold phys. cbn [data cunit]. split; [|reflexivity].
  rewrite map_zipq, zipq_map_l. apply (zipq_ext (fun _ => True)); [apply all_true|]. intros x y _. ring.
Qed.
Theorem mul_unc_std c o vals r us : (o = ONum vals \/ exists un, o = OQty vals un) -> unc c = Some (UStd, us) ->
  mul c o = Ok r -> unc r = Some (UStd, zipq (fun u v => u * Qabs v)%Q us vals).
Proof. intros [->|[un ->]] Hu H; unfold mul in H; inversion H; subst r; cbn [unc]; rewrite Hu; reflexivity. Qed.

(* ---------- powers ------------------------------------------------------------------------------------------------ *)
Theorem pow_phys c k nb : qeql (phys nb (pow c k)) (map (fun p => qpow p k) (phys nb c)) /\
  (forall un, cunit c = Some un -> dims nb (pow c k) = map (fun x => x * k) (exps un)) /\
  (cunit c = None -> cunit (pow c k) = None).
Proof.
  split; [|split].
  - unfold phys, pow. cbn [data cunit]. rewrite !map_map.
    induction (data c) as [|x l IH]; cbn [map]; constructor; [|exact IH].
    unfold qpow. destruct (cunit c) as [un|]; cbn [unit_or_dimless upow scale dimless].
    + rewrite Qmult_power. reflexivity.
    + rewrite Qmult_power, Qpower_1. reflexivity.
  - intros un Hu. unfold dims, pow. cbn [cunit]. rewrite Hu. reflexivity.
  - intros Hu. unfold pow. cbn [cunit]. rewrite Hu. reflexivity.
Qed.

(* ---------- unit conversion preserves every physical value (and the physical size of a standard deviation) ------- *)
Theorem to_phys c nu r cu : cunit c = Some cu -> to_unit c nu = Ok r ->
  ~ (scale cu == 0)%Q -> ~ (scale nu == 0)%Q -> let nb := length (exps cu) in
  qeql (phys nb r) (phys nb c) /\
  (exists ru, cunit r = Some ru /\ (scale ru == scale nu)%Q /\ (exps cu = exps nu) /\ same_frame c r).
Proof.
  intros Hc H Hs1 Hs2 nb. unfold to_unit in H. rewrite Hc in H.
  destruct (exps_eqb (exps cu) (exps nu)) eqn:E; [|discriminate]. apply (list_eqb_eq Z.eqb Z.eqb_eq) in E.
  unfold mul in H. inversion H; subst r; clear H. rewrite Hc. unfold phys. cbn [data cunit unit_or_dimless umul uinv upow scale exps].
  split.
  - rewrite map_zipq, zipq_map_r. rewrite Hc. cbn [unit_or_dimless].
    eapply qeql_trans; [apply (zipq_ext (fun _ => True) _ (fun x _ => (x * scale cu)%Q)); [apply all_true|]|].
    + intros x y _. unfold qpow. change (Qpower (scale cu) (-1)) with (/ scale cu)%Q. field. split; assumption.
    + clear. induction (data c) as [|x l IH]; cbn [zipq map]; constructor; [reflexivity | exact IH].
  - eexists. split; [reflexivity|]. split; [|split; [exact E | split; reflexivity]].
    cbn [scale umul uinv upow]. unfold qpow. change (Qpower (scale cu) (-1)) with (/ scale cu)%Q. field. assumption.
Qed.

Lemma zipq_fst g a v : length a = length v -> zipq (fun x _ => g x) a v = map g a.
Proof. revert v; induction a as [|x a IH]; intros [|y v] H; cbn [length] in H; try discriminate; cbn [zipq map]; [reflexivity|]. rewrite IH by lia. reflexivity. Qed.

Theorem to_unc_std c nu r cu us : cunit c = Some cu -> unc c = Some (UStd, us) -> length us = length (data c) ->
  to_unit c nu = Ok r -> (0 < scale cu)%Q -> (0 < scale nu)%Q ->
  exists us', unc r = Some (UStd, us') /\ qeql (map (fun x => x * scale nu)%Q us') (map (fun x => x * scale cu)%Q us).
Proof.
  intros Hc Hu Hlen H Hs1 Hs2. unfold to_unit in H. rewrite Hc in H.
  destruct (exps_eqb (exps cu) (exps nu)); [|discriminate].
  unfold mul in H. inversion H; subst r; clear H. cbn [unc]. rewrite Hu. eexists. split; [reflexivity|].
  rewrite map_zipq, zipq_map_r.
  rewrite <- (zipq_fst (fun x => (x * scale cu)%Q) us (data c) Hlen).
  apply (zipq_ext (fun _ => True)); [apply all_true|].
  intros x y _. cbn [scale_unc]. rewrite Qabs_pos.
  - field. intros E. rewrite E in Hs2. apply (Qlt_irrefl 0). exact Hs2.
  - apply Qlt_le_weak. apply Qlt_shift_div_l; [assumption|]. rewrite Qmult_0_l. assumption.
Qed.

(* ---------- algebraic identities ------------------------------------------------------------------------------------ *)
Definition unit_eq (a b : option unit) : Prop :=
  match a, b with None, None => True | Some x, Some y => (scale x == scale y)%Q /\ exps x = exps y | _, _ => False end.
Definition unc_eq (a b : option (ukind * list Q)) : Prop :=
  match a, b with None, None => True | Some (k, us), Some (k', us') => k = k' /\ qeql us us' | _, _ => False end.
Definition cube_eq (c r : cube) : Prop :=
  qeql (data r) (data c) /\ unit_eq (cunit r) (cunit c) /\ unc_eq (unc r) (unc c) /\ same_frame c r.

Lemma unit_eq_refl a : unit_eq a a.
Proof. destruct a; cbn; [split; reflexivity | trivial]. Qed.
Lemma unc_eq_refl a : unc_eq a a.
Proof. destruct a as [[k us]|]; cbn; [split; [reflexivity | apply qeql_refl] | trivial]. Qed.

(* (c + q) - q reproduces c *)
Theorem add_sub_id c o r1 : (exists vals, (o = ONum vals \/ exists un, o = OQty vals un) /\ length vals = length (data c)) ->
  add c o = Ok r1 -> exists r2, sub r1 o = Ok r2 /\ cube_eq c r2.
Proof.
  intros (vals & Ho & Hl) H. symmetry in Hl. pose proof (add_frame _ _ _ H) as ((Hm & Hca) & Hun & Hu).
  destruct Ho as [->|[un ->]]; unfold sub, add, oneg in *; rewrite Hu.
  - destruct (cunit c) as [cu|]; [destruct (is_unscaled_dimless cu); [|discriminate]|];
      inversion H; subst r1; clear H; (eexists; split; [reflexivity|]);
      (split; [|split; [apply unit_eq_refl | split; [apply unc_eq_refl | split; reflexivity]]]);
      cbn [data with_data]; rewrite zipq_map_r, zipq_zipq_same;
      (apply (zipq_id (fun _ => True)); [assumption | apply all_true | intros x y _; ring]).
  - destruct (exps_eqb _ _); [|discriminate].
    inversion H; subst r1; clear H. eexists; split; [reflexivity|].
    split; [|split; [apply unit_eq_refl | split; [apply unc_eq_refl | split; reflexivity]]].
    cbn [data with_data]. rewrite map_map, !zipq_map_r, zipq_zipq_same.
    apply (zipq_id (fun _ => True)); [assumption | apply all_true | intros x y _; ring].
Qed.

Lemma scale_unc_inv k u v : ~ (v == 0)%Q -> (scale_unc k (scale_unc k u v) (/ v) == u)%Q.
Proof.
  intros Hv. assert (Ha : ~ (Qabs v == 0)%Q).
  { intros E. apply Hv. destruct (Qlt_le_dec v 0) as [Hlt|Hge].
    - rewrite Qabs_neg in E by (apply Qlt_le_weak; assumption). rewrite <- (Qopp_involutive v), E. reflexivity.
    - rewrite Qabs_pos in E by assumption. exact E. }
  destruct k; cbn [scale_unc]; rewrite Qabs_Qinv; field; try assumption.
Qed.

(* (c * k) / k reproduces c, for numbers and arrays without zeros *)
Theorem mul_div_id c vals r1 : length vals = length (data c) -> Forall (fun v => ~ (v == 0)%Q) vals ->
  (forall k us, unc c = Some (k, us) -> length us = length vals) ->
  mul c (ONum vals) = Ok r1 -> exists r2, truediv r1 (ONum vals) = Ok r2 /\ cube_eq c r2.
Proof.
  intros Hl Hnz Hul H. unfold mul in H. inversion H; subst r1; clear H.
  unfold truediv, oinv, mul. eexists; split; [reflexivity|]. cbn [data cunit unc mask carried].
  split; [|split; [apply unit_eq_refl | split; [|split; reflexivity]]].
  - rewrite zipq_map_r, zipq_zipq_same. apply (zipq_id (fun v => ~ (v == 0)%Q)); [symmetry; assumption | assumption |].
    intros x y Hy. field. exact Hy.
  - destruct (unc c) as [[k us]|] eqn:Eu; cbn; [|trivial]. split; [reflexivity|].
    rewrite zipq_map_r, zipq_zipq_same. apply (zipq_id (fun v => ~ (v == 0)%Q)); [apply (Hul k us eq_refl) | assumption |].
    intros x y Hy. apply scale_unc_inv. exact Hy.
Qed.

(* -(-c) reproduces c *)
Theorem neg_neg_id c : cube_eq c (neg (neg c)).
Proof.
  unfold cube_eq, same_frame, neg, with_data. cbn [data cunit unc mask carried].
  split; [|split; [apply unit_eq_refl | split; [apply unc_eq_refl | split; reflexivity]]].
  rewrite map_map. induction (data c) as [|x l IH]; cbn [map]; constructor; [apply Qopp_involutive | exact IH].
Qed.

(* c * -1 equals -c (uncertainties included: they scale by |-1| = 1) *)
Theorem mul_minus_one c vals r : length vals = length (data c) -> Forall (fun v => (v == -1 # 1)%Q) vals ->
  (forall k us, unc c = Some (k, us) -> length us = length vals) ->
  mul c (ONum vals) = Ok r -> cube_eq (neg c) r.
Proof.
  intros Hl Hv Hul H. unfold mul in H. inversion H; subst r; clear H. unfold cube_eq, same_frame, neg, with_data. cbn [data cunit unc mask carried].
  split; [|split; [apply unit_eq_refl | split; [|split; reflexivity]]].
  - rewrite <- (zipq_fst Qopp (data c) vals) by (symmetry; assumption).
    apply (zipq_ext (fun v => (v == -1 # 1)%Q)); [assumption|]. intros x y Hy. rewrite Hy. ring.
  - destruct (unc c) as [[k us]|] eqn:Eu; cbn; [|trivial]. split; [reflexivity|].
    apply (zipq_id (fun v => (v == -1 # 1)%Q)); [apply (Hul k us eq_refl) | assumption |].
    intros x y Hy. destruct k; cbn [scale_unc]; rewrite Hy; change (Qabs (-1 # 1)) with 1%Q; field.
Qed.
