From NDV Require Import M_Rebin.
Open Scope Z_scope.

Definition divides_all (shape bins : list Z) : Prop :=
  Forall2 (fun s b => 0 < b /\ 0 <= s /\ s mod b = 0) shape bins.

Lemma shape_factor : forall shape bins, divides_all shape bins ->
  zip2z Z.mul (zip2z Z.div shape bins) bins = shape /\ length (zip2z Z.div shape bins) = length bins.
Proof.
  induction 1 as [|s b ss bs (Hb & Hs & Hm) H IH]; cbn [zip2z length]; [split; reflexivity|].
  destruct IH as [IH1 IH2]. rewrite IH1, IH2. split; [|reflexivity]. f_equal.
  pose proof (Z.div_mod s b ltac:(lia)). nia.
Qed.

Lemma reshape_index shape bins j r : divides_all shape bins ->
  in_box (zip2z Z.div shape bins) j -> in_box bins r ->
  unravel shape (ravel (interleave (zip2z Z.div shape bins) bins) (interleave j r))
  = zip3z (fun j b r => j * b + r) j bins r.
Proof.
  intros Hd Hj Hr. destruct (shape_factor _ _ Hd) as [Hs Hl].
  remember (zip2z Z.div shape bins) as ms eqn:Hms. clear Hms Hd.
  rewrite <- Hs. unfold ravel.
  rewrite <- interleave_ravel;
    [|assumption|apply in_box_length; assumption|rewrite (in_box_length _ _ Hr); symmetry; assumption].
  apply (unravel_ravel (zip2z Z.mul ms bins)). apply in_box_block; assumption.
Qed.

(* each output element is computed from exactly its block of inputs, for every dimensionality and
   every (non-square) bin shape *)
Theorem rebin_block_correct {A} shape bins (x : list Z -> A) j : divides_all shape bins ->
  in_box (zip2z Z.div shape bins) j -> rebin_block shape bins x j = block_spec bins x j.
Proof.
  intros Hd Hj. unfold rebin_block, block_spec. apply map_ext_in. intros r Hr.
  rewrite reshape_index; [reflexivity|assumption|assumption|apply box_in; assumption].
Qed.

Theorem rebin_values_correct op ignores m shape bins x marr : divides_all shape bins ->
  rebin_values op ignores m shape bins x marr =
  map (fun j => reduce op (use_mask_of m ignores)
                       (block_spec bins (fun idx => (x idx, masked_at m marr idx)) j))
      (box (zip2z Z.div shape bins)).
Proof.
  intros Hd. unfold rebin_values. apply map_ext_in. intros j Hj.
  rewrite rebin_block_correct; [reflexivity|assumption|apply box_in; assumption].
Qed.

Theorem flat_block_correct {A} shape bins (x : list Z -> A) k j : divides_all shape bins ->
  in_box (zip2z Z.div shape bins) j -> 0 <= k < zprod bins ->
  exists r, in_box bins r /\ ravel bins r = k /\
            flat_block shape bins x k j = x (zip3z (fun j b r => j * b + r) j bins r).
Proof.
  intros Hd Hj Hk.
  assert (Hub : forall bs kk, Forall (fun b => 0 < b) bs -> 0 <= kk < zprod bs ->
                in_box bs (unravel bs kk) /\ ravel bs (unravel bs kk) = kk).
  { induction bs as [|b bs IH]; intros kk Hp Hkk; cbn [zprod unravel] in *.
    - split; [constructor|]. unfold ravel; cbn. lia.
    - inversion Hp as [|? ? Hb Hbs]; subst.
      assert (Hpp : 0 < zprod bs) by (clear -Hbs; induction Hbs; cbn [zprod]; nia).
      destruct (IH (kk mod zprod bs) Hbs ltac:(apply Z.mod_pos_bound; lia)) as [I1 I2].
      split.
      + constructor; [|assumption]. split; [apply Z.div_pos; lia|]. apply Z.div_lt_upper_bound; nia.
      + unfold ravel in *. cbn [ravel_acc]. rewrite ravel_acc_split by (apply in_box_length; assumption).
        rewrite I2. pose proof (Z.div_mod kk (zprod bs) ltac:(lia)). nia. }
  assert (Hpos : Forall (fun b => 0 < b) bins).
  { clear -Hd. induction Hd as [|s b ss bs (Hb & _) H IH]; constructor; assumption. }
  destruct (Hub bins k Hpos Hk) as [H1 H2].
  exists (unravel bins k). repeat split; try assumption.
  unfold flat_block. rewrite reshape_index by assumption. reflexivity.
Qed.

(* refusals and shapes *)
Theorem rebin_plan_spec su shape bins : Forall (fun b => 0 < b) bins -> Forall (fun s => 0 <= s) shape ->
  match rebin_plan_u su shape bins with
  | Ok PSelf => Forall (fun b => b = 1) bins /\ su = true /\ length bins = length shape
  | Ok (PBins ns bs) => bs = bins /\ divides_all shape bins /\ zip2z Z.mul ns bins = shape
  | Err _ => length bins <> length shape \/ exists s b, In (s, b) (combine shape bins) /\ s mod b <> 0
  end.
Proof.
  intros Hb Hs. unfold rebin_plan_u.
  destruct (Nat.eqb (length bins) (length shape)) eqn:E2; cbn [negb].
  2:{ left. apply Nat.eqb_neq in E2. assumption. }
  apply Nat.eqb_eq in E2.
  destruct (forallb (Z.eqb 1) bins && su) eqn:E1.
  - apply andb_true_iff in E1. destruct E1 as [E1 ->]. rewrite forallb_forall in E1. repeat split; try assumption.
    apply Forall_forall. intros b Hin. specialize (E1 b Hin). lia.
  - clear E1. destruct (existsb _ (combine shape bins)) eqn:E3.
    + right. apply existsb_exists in E3. destruct E3 as ([s b] & Hin & Hne). exists s, b. split; [assumption|].
      cbn [fst snd] in Hne. destruct (s mod b =? 0) eqn:E; [discriminate|lia].
    + assert (Hd : divides_all shape bins).
      { revert bins Hb E2 E3. induction Hs as [|s ss Hs0 Hss IH]; intros [|b bs] Hb E2 E3; cbn [length] in E2; try discriminate; [constructor|].
        inversion Hb; subst. cbn [combine existsb fst snd] in E3. apply orb_false_iff in E3. destruct E3 as [E3a E3b].
        constructor; [|apply IH; try assumption; lia].
        destruct (s mod b =? 0) eqn:E; [|discriminate]. lia. }
      repeat split; [assumption|]. apply (shape_factor _ _ Hd).
Qed.
