(* The code treats the first member of a block differently (it seeds the iteration); the result nevertheless does
   not depend on the order of the members: any permutation of a block gives the same propagated uncertainty. *)
From NDV Require Import M_RebinUnc P_RebinUnc.
From Coq Require Import Permutation Lia Lqa.
Open Scope Q_scope.

Lemma filter_perm {A} (f : A -> bool) l l' : Permutation l l' -> Permutation (filter f l) (filter f l').
Proof.
  induction 1 as [|x l l' H IH|x y l|l l' l'' H1 IH1 H2 IH2]; cbn [filter].
  - constructor.
  - destruct (f x); [constructor; exact IH|exact IH].
  - destruct (f x), (f y); try apply Permutation_refl. apply perm_swap.
  - eapply Permutation_trans; eassumption.
Qed.

Lemma sum_perm (l l' : list mem) : Permutation l l' ->
  fold_right (fun m acc => ms2 m + acc) 0 l == fold_right (fun m acc => ms2 m + acc) 0 l'.
Proof.
  induction 1 as [|x l l' H IH|x y l|l l' l'' H1 IH1 H2 IH2]; cbn [fold_right].
  - reflexivity.
  - rewrite IH. reflexivity.
  - ring.
  - rewrite IH1. exact IH2.
Qed.

Lemma add_spec_perm op um l l' : Permutation l l' -> add_spec op um l == add_spec op um l'.
Proof.
  intros H. unfold add_spec, contributing.
  pose proof (filter_perm (fun m => negb (eff_masked op um m)) l l' H) as Hf.
  pose proof (sum_perm _ _ Hf) as Hs. pose proof (Permutation_length Hf) as Hl.
  unfold zlen. rewrite Hl. destruct (is_mean op); [rewrite Hs; reflexivity|exact Hs].
Qed.

Theorem add_code_perm op um block block' : block <> [] -> Permutation block block' ->
  add_code op um block == add_code op um block'.
Proof.
  intros Hne H. assert (Hne' : block' <> []) by (intros ->; apply Permutation_sym, Permutation_nil in H; congruence).
  rewrite (add_code_is_textbook op um block Hne), (add_code_is_textbook op um block' Hne'). apply add_spec_perm; exact H.
Qed.
