(* Extra coords coupled to several cube axes: the transposition into the cube's array-axis order (C05). *)
From NDV Require Import M_WorldCoords P_GlobalCoords P_WorldCoords P_ExtraCoords.
From Coq Require Import Lia Sorted.
Open Scope Z_scope.

(* ---------- lookup ------------------------------------------------------------------------------------------------ *)
Lemma lookup_map_map (L : nat -> nat) (G : nat -> Z) : forall xs x, NoDup (map L xs) -> In x xs ->
  lookup (map L xs) (map G xs) (L x) = G x.
Proof.
  induction xs as [|h t IH]; intros x Hnd Hin; [destruct Hin|]. cbn [map lookup]. inversion Hnd as [|? ? Hn Hnd']; subst.
  destruct Hin as [->|Hin]; [rewrite Nat.eqb_refl; reflexivity|].
  destruct (Nat.eqb (L h) (L x)) eqn:E; [|apply IH; assumption].
  apply Nat.eqb_eq in E. exfalso. apply Hn. rewrite E. apply in_map. exact Hin.
Qed.

Lemma lookup_in_box (g : nat -> Z) : forall dst e', NoDup dst -> in_box (map g dst) e' ->
  forall a, In a dst -> 0 <= lookup dst e' a < g a.
Proof.
  induction dst as [|h t IH]; intros e' Hnd Hb a Hin; [destruct Hin|]. cbn [map] in Hb.
  inversion Hb as [|s ss i is_ Hi Hb']; subst. inversion Hnd as [|? ? Hn Hnd']; subst. cbn [lookup].
  destruct (Nat.eqb h a) eqn:E; [apply Nat.eqb_eq in E; subst; exact Hi|].
  destruct Hin as [->|Hin]; [rewrite Nat.eqb_refl in E; discriminate|]. apply IH; assumption.
Qed.

Lemma in_box_map_lookup (F : nat -> Z) : forall labels sh, length sh = length labels -> NoDup labels ->
  (forall a, In a labels -> 0 <= F a < lookup labels sh a) -> in_box sh (map F labels).
Proof.
  induction labels as [|l ls IH]; intros sh Hlen Hnd HF; destruct sh as [|s ss]; try discriminate; [constructor|].
  cbn [map]. inversion Hnd as [|? ? Hn Hnd']; subst. constructor.
  - specialize (HF l (or_introl eq_refl)). cbn [lookup] in HF. rewrite Nat.eqb_refl in HF. exact HF.
  - apply IH; [cbn [length] in Hlen; lia | exact Hnd' |]. intros a Ha. specialize (HF a (or_intror Ha)). cbn [lookup] in HF.
    destruct (Nat.eqb l a) eqn:E; [apply Nat.eqb_eq in E; subst; contradiction|exact HF].
Qed.

Lemma lookup_self : forall labels (sh : list Z) a, NoDup labels -> length sh = length labels -> In a labels ->
  exists i, (i < length labels)%nat /\ nth i labels O = a /\ lookup labels sh a = nth i sh 0.
Proof.
  induction labels as [|l ls IH]; intros sh a Hnd Hlen Hin; [destruct Hin|]. destruct sh as [|s ss]; [discriminate|].
  inversion Hnd as [|? ? Hn Hnd']; subst. cbn [lookup]. destruct (Nat.eqb l a) eqn:E.
  - apply Nat.eqb_eq in E. subst. exists O. cbn [length nth]. repeat split. lia.
  - destruct Hin as [->|Hin]; [rewrite Nat.eqb_refl in E; discriminate|].
    destruct (IH ss a Hnd' ltac:(cbn [length] in Hlen; lia) Hin) as (i & Hi & Hn1 & Hl). exists (S i). cbn [length nth]. repeat split; [lia|exact Hn1|exact Hl].
Qed.

(* nth of a map over a box at a ravelled index *)
Lemma nth_map_box {A} (g : list Z -> A) (d : A) shape k : in_box shape k ->
  nth (Z.to_nat (ravel shape k)) (map g (box shape)) d = g k.
Proof.
  intros Hk. pose proof (ravel_bounds _ _ Hk) as Hr.
  assert (Hnn : Forall (fun x => 0 <= x) shape) by (clear -Hk; induction Hk; constructor; [lia|assumption]).
  pose proof (box_length _ Hnn) as HL. unfold zlen in HL.
  rewrite (nth_indep _ d (g [])) by (rewrite map_length; lia).
  rewrite (map_nth g). rewrite box_nth_ravel by exact Hk. reflexivity.
Qed.

(* ---------- the transposition ------------------------------------------------------------------------------------- *)
Definition sorted_labels (n : nat) (labels : list nat) : list nat := filter (fun a => existsb (Nat.eqb a) labels) (seq 0 n).

Lemma sorted_labels_spec n labels : StronglySorted lt (sorted_labels n labels) /\
  forall a, In a (sorted_labels n labels) <-> (a < n)%nat /\ In a labels.
Proof.
  split; [apply filter_seq_sorted|]. intros a. unfold sorted_labels. rewrite filter_In, in_seq, existsb_exists. split.
  - intros [H1 (x & Hx & E)]. apply Nat.eqb_eq in E. subst. split; [lia|exact Hx].
  - intros [H1 H2]. split; [lia|]. exists a. split; [exact H2|apply Nat.eqb_refl].
Qed.

Lemma sorted_nodup : forall l, StronglySorted lt l -> NoDup l.
Proof.
  induction 1 as [|a l Hs IH Hf]; constructor; [|exact IH]. intros Hin. rewrite Forall_forall in Hf. specialize (Hf a Hin). lia.
Qed.

(* the result's dimensions are the labels in increasing order, each with the length of the source dimension that
   carries it; its entry at e' is the source's entry at the index vector that gives each source dimension the
   component of e' carrying the same label *)
Theorem relabel_shape n labels sh vals :
  fst (relabel n labels sh vals) = map (lookup labels sh) (sorted_labels n labels).
Proof. reflexivity. Qed.

Theorem relabel_entry (f : list Z -> Q) n labels sh e' : NoDup labels -> Forall (fun a => (a < n)%nat) labels ->
  length sh = length labels -> in_box (map (lookup labels sh) (sorted_labels n labels)) e' ->
  nth (Z.to_nat (ravel (map (lookup labels sh) (sorted_labels n labels)) e')) (snd (relabel n labels sh (map f (box sh)))) 0%Q
  = f (map (lookup (sorted_labels n labels) e') labels).
Proof.
  intros Hnd Hlt Hlen Hb. unfold relabel. cbn [snd]. fold (sorted_labels n labels).
  rewrite (nth_map_box _ 0%Q _ _ Hb).
  apply (nth_map_box f 0%Q).
  apply in_box_map_lookup; [exact Hlen|exact Hnd|]. intros a Ha.
  destruct (sorted_labels_spec n labels) as [Hs Hin].
  apply (lookup_in_box (lookup labels sh) _ _ (sorted_nodup _ Hs) Hb). apply Hin. split; [|exact Ha].
  rewrite Forall_forall in Hlt. apply Hlt. exact Ha.
Qed.

(* ---------- extra coords: dimensions and entries of the returned arrays ------------------------------------------- *)
Section EC.
Variables (corr : list (list bool)) (cshape : list Z) (pm : list nat) (w : nat).
Let n := length cshape.
Let m := length pm.
Hypothesis Hnd : NoDup pm.
Hypothesis Hlt : Forall (fun p => (p < n)%nat) pm.

Let xs := world_axes corr m w.
Let L := ec_label n pm.

Lemma pm_nth_lt j : (j < m)%nat -> (nth j pm n < n)%nat.
Proof. intros Hj. rewrite Forall_forall in Hlt. apply Hlt. apply nth_In. exact Hj. Qed.

Lemma xs_spec v : In v xs <-> (v < m)%nat /\ cget corr w (m - 1 - v) = true.
Proof. apply world_axes_spec. Qed.

Lemma L_inj v1 v2 : (v1 < m)%nat -> (v2 < m)%nat -> L v1 = L v2 -> v1 = v2.
Proof.
  intros H1 H2 E. unfold L, ec_label in E. fold m in E.
  pose proof (pm_nth_lt (m - 1 - v1) ltac:(lia)) as B1. pose proof (pm_nth_lt (m - 1 - v2) ltac:(lia)) as B2.
  assert (E' : nth (m - 1 - v1) pm n = nth (m - 1 - v2) pm n) by lia.
  apply (proj1 (NoDup_nth pm n) Hnd) in E'; fold m; lia.
Qed.

Lemma labels_nodup : NoDup (map L xs).
Proof.
  assert (Hx : NoDup xs) by (apply sorted_nodup; apply world_axes_spec).
  assert (Hm : forall v, In v xs -> (v < m)%nat) by (intros v Hv; apply xs_spec in Hv; tauto).
  clearbody xs. induction xs as [|h t IH]; [constructor|]. inversion Hx as [|? ? Hn Hx']; subst. cbn [map]. constructor.
  - intros Hin. apply in_map_iff in Hin. destruct Hin as (v & E & Hv). apply L_inj in E; [subst; contradiction| |]; apply Hm; [right; exact Hv|left; reflexivity].
  - apply IH; [exact Hx'|]. intros v Hv. apply Hm. right. exact Hv.
Qed.

Lemma labels_lt : Forall (fun a => (a < n)%nat) (map L xs).
Proof.
  apply Forall_forall. intros a Ha. apply in_map_iff in Ha. destruct Ha as (v & <- & Hv). apply xs_spec in Hv.
  unfold L, ec_label. fold m. pose proof (pm_nth_lt (m - 1 - v) ltac:(lia)). lia.
Qed.

Lemma sorted_labels_ec_axes : sorted_labels n (map L xs) = ec_axes corr n pm w.
Proof.
  unfold sorted_labels, ec_axes. fold m. apply filter_ext_in. intros a Ha. apply in_seq in Ha.
  apply Bool.eq_iff_eq_true. rewrite !existsb_exists. split.
  - intros (x & Hx & E). apply Nat.eqb_eq in E. subst x. apply in_map_iff in Hx. destruct Hx as (v & E & Hv). apply xs_spec in Hv.
    exists (m - 1 - v)%nat. split; [apply in_seq; lia|]. apply andb_true_iff. split; [|tauto].
    apply Nat.eqb_eq. unfold L, ec_label in E. fold m in E. pose proof (pm_nth_lt (m - 1 - v) ltac:(lia)). lia.
  - intros (j & Hj & E). apply in_seq in Hj. apply andb_true_iff in E. destruct E as [E1 E2]. apply Nat.eqb_eq in E1.
    exists a. split; [|apply Nat.eqb_refl]. apply in_map_iff. exists (m - 1 - j)%nat. split.
    + unfold L, ec_label. fold m. replace (m - 1 - (m - 1 - j))%nat with j by lia. lia.
    + apply xs_spec. split; [lia|]. replace (m - 1 - (m - 1 - j))%nat with j by lia. exact E2.
Qed.

Lemma vshape_length : length (ec_vshape cshape pm) = m.
Proof. unfold ec_vshape. rewrite rev_length, map_length. reflexivity. Qed.

Lemma vshape_nth v : (v < m)%nat -> nth v (ec_vshape cshape pm) 0 = nth (L v) cshape 0.
Proof.
  intros Hv. unfold ec_vshape. rewrite rev_nth by (rewrite map_length; exact Hv). rewrite map_length. fold m n.
  rewrite (nth_indep _ 0 ((fun p => nth (n - 1 - p) cshape 0) n)) by (rewrite map_length; fold m; lia).
  rewrite (map_nth (fun p => nth (n - 1 - p) cshape 0)). unfold L, ec_label. fold m.
  replace (m - S v)%nat with (m - 1 - v)%nat by lia. reflexivity.
Qed.

(* one dimension per dependent cube array axis, in increasing array-axis order, with that axis' length *)
Theorem world_array_ec_dims W corners :
  fst (world_array_ec W corr cshape pm corners w) = map (fun a => wc_range_len corners (nth a cshape 0)) (ec_axes corr n pm w).
Proof.
  unfold world_array_ec. rewrite relabel_shape. fold n. unfold ec_labels. fold m xs L. rewrite sorted_labels_ec_axes.
  rewrite world_array_shape, vshape_length. fold xs.
  apply map_ext_in. intros a Ha. rewrite <- sorted_labels_ec_axes in Ha. apply sorted_labels_spec in Ha. destruct Ha as [_ Ha].
  apply in_map_iff in Ha. destruct Ha as (v & <- & Hv).
  rewrite (lookup_map_map L (fun v0 => wc_range_len corners (nth v0 (ec_vshape cshape pm) 0)) xs v labels_nodup Hv).
  rewrite vshape_nth by (apply xs_spec in Hv; tauto). reflexivity.
Qed.

Lemma seq_map_nth : map (fun j => nth j pm n) (seq 0 m) = pm.
Proof.
  apply (nth_ext _ _ n n); [rewrite map_length, seq_length; reflexivity|]. intros i Hi. rewrite map_length, seq_length in Hi.
  rewrite (nth_indep _ n ((fun j => nth j pm n) O)) by (rewrite map_length, seq_length; exact Hi).
  rewrite (map_nth (fun j => nth j pm n)). rewrite seq_nth by exact Hi. reflexivity.
Qed.

(* every entry is the extra coords' WCS value at the centre (corner) of any cube element that has the entry's
   coordinates on the dependent cube axes *)
Theorem world_entry_ec_correct W corners e' E : corr_sound W corr -> length E = n ->
  in_box (fst (world_array_ec W corr cshape pm corners w)) e' ->
  (forall a, In a (ec_axes corr n pm w) -> nth a E 0 = lookup (ec_axes corr n pm w) e' a) ->
  (nth (Z.to_nat (ravel (fst (world_array_ec W corr cshape pm corners w)) e')) (snd (world_array_ec W corr cshape pm corners w)) 0
   == nth w (W (ec_elem_pixel n pm corners E)) 0)%Q.
Proof.
  intros Hs HE Hb Hag. unfold world_array_ec in Hb |- *. fold n in Hb |- *. unfold ec_labels in Hb |- *. fold m xs L in Hb |- *.
  set (va := world_array W corr (ec_vshape cshape pm) corners w) in Hb |- *.
  set (f := fun e => nth w (W (code_pixel corr (length (ec_vshape cshape pm)) corners w e)) 0%Q).
  assert (Hsnd : snd va = map f (box (fst va))) by reflexivity.
  assert (Hfst : fst va = map (fun v => wc_range_len corners (nth v (ec_vshape cshape pm) 0)) xs).
  { unfold va. rewrite world_array_shape, vshape_length. reflexivity. }
  rewrite relabel_shape in Hb |- *. rewrite Hsnd.
  rewrite (relabel_entry f n (map L xs) (fst va) e' labels_nodup labels_lt); [|rewrite Hfst, !map_length; reflexivity|exact Hb].
  unfold f. rewrite vshape_length.
  set (Ev := map (fun v => nth (L v) E 0) (seq 0 m)).
  assert (Hpix : elem_pixel m corners Ev = ec_elem_pixel n pm corners E).
  { unfold elem_pixel, ec_elem_pixel.
    transitivity (map (fun p => wc_range_val corners (nth (n - 1 - p) E 0)) (map (fun j => nth j pm n) (seq 0 m))); [|rewrite seq_map_nth; reflexivity].
    rewrite map_map. apply map_ext_in. intros p Hp. apply in_seq in Hp.
    unfold Ev. rewrite (nth_map_seq _ 0) by lia. unfold L, ec_label. fold m. replace (m - 1 - (m - 1 - p))%nat with p by lia. reflexivity. }
  rewrite <- Hpix. apply world_entry_correct; [exact Hs | unfold Ev; rewrite map_length, seq_length; reflexivity |].
  intros v Hv Hc. unfold Ev. rewrite (nth_map_seq _ 0) by exact Hv. fold xs.
  assert (Hvx : In v xs) by (apply xs_spec; split; assumption).
  rewrite map_map.
  pose proof (lookup_map_map (fun x => x) (fun x => lookup (sorted_labels n (map L xs)) e' (L x)) xs v) as HL.
  rewrite map_id in HL. rewrite HL; [|apply sorted_nodup; apply world_axes_spec|exact Hvx].
  rewrite sorted_labels_ec_axes. apply Hag. rewrite <- sorted_labels_ec_axes. apply sorted_labels_spec.
  pose proof labels_lt as Hl. rewrite Forall_forall in Hl. split; [apply Hl|]; apply in_map; exact Hvx.
Qed.
End EC.

Theorem ec_axes_spec corr n pm w : StronglySorted lt (ec_axes corr n pm w) /\
  forall a, In a (ec_axes corr n pm w) <->
            (a < n)%nat /\ exists j, (j < length pm)%nat /\ nth j pm n = (n - 1 - a)%nat /\ cget corr w j = true.
Proof.
  split; [apply filter_seq_sorted|]. intros a. unfold ec_axes. rewrite filter_In, in_seq, existsb_exists. split.
  - intros [H1 (j & Hj & E)]. apply in_seq in Hj. apply andb_true_iff in E. destruct E as [E1 E2]. apply Nat.eqb_eq in E1.
    split; [lia|]. exists j. repeat split; [lia|exact E1|exact E2].
  - intros [H1 (j & Hj & E1 & E2)]. split; [lia|]. exists j. split; [apply in_seq; lia|]. rewrite E1, Nat.eqb_refl, E2. reflexivity.
Qed.

(* ---------- array axes of a world object ------------------------------------------------------------------------------ *)
Theorem object_axes_spec corr n comps o : StronglySorted lt (object_axes corr n comps o) /\
  forall a, In a (object_axes corr n comps o) <->
            (a < n)%nat /\ exists w, (w < length comps)%nat /\ nth w comps (-1) = o /\ cget corr w (n - 1 - a) = true.
Proof.
  split; [apply filter_seq_sorted|]. intros a. unfold object_axes. rewrite filter_In, in_seq, existsb_exists. split.
  - intros [H1 (w & Hw & E)]. apply in_seq in Hw. apply andb_true_iff in E. destruct E as [E1 E2]. apply Z.eqb_eq in E1.
    split; [lia|]. exists w. repeat split; [lia|exact E1|exact E2].
  - intros [H1 (w & Hw & E1 & E2)]. split; [lia|]. exists w. split; [apply in_seq; lia|]. rewrite E1, Z.eqb_refl, E2. reflexivity.
Qed.
