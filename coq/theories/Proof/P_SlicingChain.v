(* C01: chains of slices.  The lock-step property composes: after any number of successive slices every element of the
   final cube reports the world coordinates of the element of the ORIGINAL cube its data came from. *)
From NDV Require Import M_Slicing P_Slicing.
From Coq Require Import Lia.
Open Scope Z_scope.

Fixpoint chain (shape : list Z) (raws : list (list item)) : result (list sliced) :=
  match raws with
  | [] => Ok []
  | raw :: r => match cube_getitem shape raw with
                | Err e => Err e
                | Ok s => match chain (wshape s) r with Ok l => Ok (s :: l) | Err e => Err e end
                end
  end.
(* index in the original array of element k of the final cube / pixel of the original WCS the final WCS evaluates *)
Definition chain_src (ss : list sliced) (k : list Z) : list Z := fold_right (fun s idx => src_index (dsel s) idx) k ss.
Definition chain_wcs (ss : list sliced) (k : list Z) : list Z := fold_right (fun s idx => embed (wsel s) idx) k ss.

Lemma np_axis_sel_len_nonneg n it s l d : 0 <= n -> np_axis_sel n it = Ok (s, l, d) -> 0 <= l.
Proof.
  intros Hn. destruct it as [i|a b st| |]; cbn [np_axis_sel]; try discriminate.
  - destruct (norm_int n i); [|discriminate]. intros H; inversion H; lia.
  - assert (G : (let '(s0, l0) := sel1 n a b in Ok (s0, l0, false)) = Ok (s, l, d) -> 0 <= l).
    { pose proof (sel1_bounds n a b Hn) as Hb. destruct (sel1 n a b) as [s0 l0]. intros H; inversion H; subst. lia. }
    destruct st as [[| |]|]; try discriminate; try exact G; destruct p; try discriminate; exact G.
Qed.

Lemma map2r_sels_nonneg : forall shape its ds, Forall (fun n => 0 <= n) shape -> map2r np_axis_sel shape its = Ok ds ->
  Forall (fun n => 0 <= n) (sels_shape ds).
Proof.
  induction shape as [|n shape IH]; intros [|it its] ds Hp H; cbn [map2r] in H; try discriminate.
  - inversion H. constructor.
  - inversion Hp as [|? ? Hn Hp']; subst.
    destruct (np_axis_sel n it) as [[[s l] d]|] eqn:E; [|discriminate].
    destruct (map2r np_axis_sel shape its) as [ds'|] eqn:Er; [|discriminate]. inversion H; subst.
    unfold sels_shape. cbn [filter map]. destruct d; cbn [negb].
    + apply (IH its ds' Hp' Er).
    + cbn [map]. constructor; [apply (np_axis_sel_len_nonneg n it s l false Hn E) | apply (IH its ds' Hp' Er)].
Qed.

Lemma getitem_shape_nonneg shape raw r : Forall (fun n => 0 <= n) shape -> cube_getitem shape raw = Ok r ->
  Forall (fun n => 0 <= n) (wshape r).
Proof.
  intros Hp H. destruct (cube_getitem_inv _ _ _ H) as (its & _ & _ & H3 & _ & H5). rewrite H5.
  apply (map2r_sels_nonneg shape (sitems r) (dsel r) Hp H3).
Qed.

Theorem chain_lockstep : forall raws shape ss, Forall (fun n => 0 <= n) shape -> chain shape raws = Ok ss ->
  forall k, chain_wcs ss k = chain_src ss k.
Proof.
  induction raws as [|raw raws IH]; intros shape ss Hp H k; cbn [chain] in H.
  - inversion H. reflexivity.
  - destruct (cube_getitem shape raw) as [s|] eqn:Eg; [|discriminate].
    destruct (chain (wshape s) raws) as [l|] eqn:Ec; [|discriminate]. inversion H; subst ss.
    cbn [chain_wcs chain_src fold_right]. fold (chain_wcs l k). fold (chain_src l k).
    rewrite (IH (wshape s) l (getitem_shape_nonneg shape raw s Hp Eg) Ec k).
    unfold src_index. rewrite (getitem_lockstep shape raw s Hp Eg). reflexivity.
Qed.

(* for EVERY inner WCS: the world value the final cube reports for its element k is the value at the element's source *)
Theorem chain_elementwise raws shape ss : Forall (fun n => 0 <= n) shape -> chain shape raws = Ok ss ->
  forall (T : Type) (W : list Z -> T) (k : list Z), W (chain_wcs ss k) = W (chain_src ss k).
Proof. intros Hp H T W k. rewrite (chain_lockstep raws shape ss Hp H k). reflexivity. Qed.
