From NDV Require Import M_ExtraCoords P_Slicing P_Sequence.
Open Scope Z_scope.

(* ---------- box enumerates index vectors in row-major (ravel) order ----------------------------- *)
Lemma nth_flat_map_uniform {A B} (f : A -> list B) (P : nat) : forall (l : list A),
  (forall x, In x l -> length (f x) = P) ->
  forall i r d dx, (i < length l)%nat -> (r < P)%nat ->
  nth (i * P + r) (flat_map f l) d = nth r (f (nth i l dx)) d.
Proof.
  induction l as [|x l IH]; intros Hlen i r d dx Hi Hr; cbn [length] in Hi; [lia|].
  cbn [flat_map]. destruct i as [|i].
  - cbn [Nat.mul Nat.add nth]. rewrite app_nth1; [reflexivity|]. rewrite Hlen by (left; reflexivity). assumption.
  - rewrite app_nth2 by (rewrite Hlen by (left; reflexivity); lia).
    rewrite Hlen by (left; reflexivity). replace (S i * P + r - P)%nat with (i * P + r)%nat by lia.
    cbn [nth]. apply IH; [intros y Hy; apply Hlen; right; assumption|lia|assumption].
Qed.

Lemma box_length : forall shape, Forall (fun s => 0 <= s) shape -> zlen (box shape) = zprod shape.
Proof.
  induction 1 as [|s ss Hs Hss IH]; [reflexivity|]. cbn [box zprod]. unfold zlen in *.
  assert (H : forall (l : list Z), length (flat_map (fun i => map (cons i) (box ss)) l) = (length l * length (box ss))%nat).
  { induction l as [|i l IHl]; [reflexivity|]. cbn [flat_map length]. rewrite app_length, map_length, IHl. lia. }
  rewrite H. rewrite (map_length Z.of_nat), seq_length. rewrite Nat2Z.inj_mul, IH. lia.
Qed.

Theorem box_nth_ravel : forall shape k, in_box shape k ->
  nth (Z.to_nat (ravel shape k)) (box shape) [] = k.
Proof.
  unfold ravel. induction 1 as [|s ss i is_ Hi Hb IH]; [reflexivity|].
  cbn [ravel_acc box]. rewrite ravel_acc_split by (apply in_box_length; assumption).
  replace (0 * s + i) with i by lia.
  pose proof (ravel_bounds _ _ Hb) as Hr. unfold ravel in Hr.
  assert (Hnn : Forall (fun x => 0 <= x) ss).
  { clear -Hb. induction Hb; constructor; [lia|assumption]. }
  pose proof (box_length ss Hnn) as HL. unfold zlen in HL.
  set (P := length (box ss)) in *.
  replace (Z.to_nat (i * zprod ss + ravel_acc 0 ss is_)) with (Z.to_nat i * P + Z.to_nat (ravel_acc 0 ss is_))%nat by nia.
  rewrite (nth_flat_map_uniform (fun i0 => map (cons i0) (box ss)) P _ (fun x _ => map_length _ _) _ _ [] 0).
  - assert (HX : nth (Z.to_nat i) (map Z.of_nat (seq 0 (Z.to_nat s))) 0 = i).
    { rewrite (nth_indep _ 0 (Z.of_nat O)) by (rewrite map_length, seq_length; lia).
      rewrite (map_nth Z.of_nat). rewrite seq_nth by lia. lia. }
    rewrite HX.
    rewrite (nth_indep _ [] (cons i [])) by (rewrite map_length; fold P; lia).
    rewrite (map_nth (cons i)). rewrite IH. reflexivity.
  - rewrite map_length, seq_length. lia.
  - nia.
Qed.

(* ---------- values: a sliced joint table holds, at element k, the original's value at the source
              element of k -------------------------------------------------------------------------- *)
Theorem select_box_value {A} (d : A) lens sels vals k : in_box (sels_shape sels) k ->
  nth (Z.to_nat (ravel (sels_shape sels) k)) (select_box d lens sels vals) d
  = nth (Z.to_nat (ravel lens (src_index sels k))) vals d.
Proof.
  intros Hk. unfold select_box.
  pose proof (ravel_bounds _ _ Hk) as Hr.
  assert (Hnn : Forall (fun x => 0 <= x) (sels_shape sels)).
  { clear -Hk. induction Hk; constructor; [lia|assumption]. }
  pose proof (box_length _ Hnn) as HL. unfold zlen in HL.
  rewrite (nth_indep _ d ((fun k0 => nth (Z.to_nat (ravel lens (src_index sels k0))) vals d) []))
    by (rewrite map_length; lia).
  rewrite (map_nth (fun k0 => nth (Z.to_nat (ravel lens (src_index sels k0))) vals d)).
  rewrite box_nth_ravel by assumption. reflexivity.
Qed.

(* ---------- renumbering of surviving axes -------------------------------------------------------- *)
Lemma firstn_snoc_filter (items : list item) (n : nat) : (n < length items)%nat ->
  filter is_int (firstn (S n) items) = filter is_int (firstn n items) ++ filter is_int [nth n items full_slice].
Proof.
  revert n. induction items as [|x xs IH]; intros n H; cbn [length] in H; [lia|].
  destruct n as [|n].
  - cbn [firstn filter nth]. destruct (is_int x); reflexivity.
  - rewrite !firstn_cons. cbn [filter nth]. rewrite (IH n) by lia. destruct (is_int x); reflexivity.
Qed.

Theorem renumber_is_rank items ax : 0 <= ax -> (Z.to_nat ax < length items)%nat ->
  is_int (item_at items ax) = false -> ax - n_dropped items ax = rank_kept items (Z.to_nat ax).
Proof.
  intros H0 Hl Hk. unfold n_dropped, rank_kept, item_at in *.
  replace (Z.to_nat ax + 1)%nat with (S (Z.to_nat ax)) by lia.
  rewrite firstn_snoc_filter by assumption. cbn [filter]. rewrite Hk, app_nil_r.
  pose proof (count_nonint (firstn (Z.to_nat ax) items)) as Hc. rewrite firstn_length in Hc.
  unfold zlen. lia.
Qed.

(* ---------- order: the kept tables are the parent's tables that survive, in the same order ------- *)
Definition survives (items : list item) (t : table) : bool :=
  negb (forallb is_int (map (item_at items) (taxes t))).

Lemma slice_table_tid items t r : slice_table items t = Ok r ->
  match fst r with
  | Some t' => tid t' = tid t /\ survives items t = true
  | None => survives items t = false
  end.
Proof.
  unfold slice_table, survives.
  destruct (map2r sel_axis (tlens t) (map (item_at items) (taxes t))); [|discriminate].
  destruct (tkind_ t); destruct (forallb is_int (map (item_at items) (taxes t))); intros H; inversion H; subst; cbn; try split; reflexivity.
Qed.

Theorem ec_getitem_order items e e' : ec_getitem items e = Ok e' ->
  map tid (tables e') = map tid (filter (survives items) (tables e)).
Proof.
  unfold ec_getitem. destruct (mapr (slice_table items) (tables e)) as [l|] eqn:E; [|discriminate].
  intros H; inversion H; subst; cbn [tables]. clear H.
  revert l E. induction (tables e) as [|t ts IH]; intros l E; cbn [mapr] in E.
  - inversion E; subst. reflexivity.
  - destruct (slice_table items t) as [r|] eqn:Et; [|discriminate].
    destruct (mapr (slice_table items) ts) as [rs|] eqn:Er; [|discriminate].
    inversion E; subst; clear E. cbn [flat_map filter].
    pose proof (slice_table_tid _ _ _ Et) as Ht.
    destruct (fst r) as [t'|]; cbn [opt_list].
    + destruct Ht as [Hid Hs]. rewrite Hs. cbn [app map]. rewrite Hid. f_equal. apply IH. reflexivity.
    + rewrite Ht. cbn [app]. apply IH. reflexivity.
Qed.
