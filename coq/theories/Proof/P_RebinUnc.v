From NDV Require Import M_RebinUnc.
From Coq Require Import Lqa Lia.
Open Scope Q_scope.

Lemma fold_left_add (f : mem -> Q) : forall l acc,
  fold_left (fun a m => a + f m) l acc == acc + fold_right (fun m a => f m + a) 0 l.
Proof.
  induction l as [|m l IH]; intros acc; cbn [fold_left fold_right]; [ring|]. rewrite IH. ring.
Qed.

Lemma spec_sum op um : forall block,
  fold_right (fun m acc => ms2 m + acc) 0 (contributing op um block)
  == fold_right (fun m acc => contrib op um m + acc) 0 block.
Proof.
  induction block as [|m block IH]; [reflexivity|]. unfold contributing in *. cbn [filter fold_right].
  unfold contrib at 1. destruct (eff_masked op um m); cbn [negb fold_right]; rewrite IH; ring.
Qed.

(* seeding with the first member and iterating over the rest is the sum over the contributing members;
   for any block length >= 1, any mask pattern (first member masked included), NaNs anywhere *)
Theorem add_code_is_textbook op um block : block <> [] -> add_code op um block == add_spec op um block.
Proof.
  destruct block as [|m0 rest]; [congruence|]. intros _. unfold add_code, add_spec.
  assert (Ht : fold_left (fun acc m => acc + contrib op um m) rest (contrib op um m0)
               == fold_right (fun m acc => ms2 m + acc) 0 (contributing op um (m0 :: rest))).
  { rewrite fold_left_add, spec_sum. cbn [fold_right]. reflexivity. }
  destruct (is_mean op).
  - unfold contributing in *. rewrite Ht. reflexivity.
  - exact Ht.
Qed.

(* product: invariant of the iteration  s2 = P^2 * sum (s_k/x_k)^2 ,  a = P *)
Lemma prod_invariant : forall rest s2 a S,
  Forall (fun m => ~ mval m == 0) rest -> s2 == a * a * S ->
  let r := fold_left (fun st m => let '(s2, a) := st in (s2 * (mval m * mval m) + ms2 m * (a * a), a * mval m))
                     rest (s2, a) in
  let P := fold_right (fun m acc => mval m * acc) 1 rest in
  fst r == (a * P) * (a * P) * (S + fold_right (fun m acc => ms2 m / (mval m * mval m) + acc) 0 rest)
  /\ snd r == a * P.
Proof.
  induction rest as [|m rest IH]; intros s2 a S Hnz Hinv; cbn [fold_left fold_right].
  - cbn [fst snd]. split; [rewrite Hinv; ring|ring].
  - inversion Hnz as [|? ? Hm Hr]; subst.
    specialize (IH (s2 * (mval m * mval m) + ms2 m * (a * a)) (a * mval m) (S + ms2 m / (mval m * mval m)) Hr).
    destruct IH as [I1 I2].
    + rewrite Hinv. field. assumption.
    + cbv zeta in I1, I2 |- *. split.
      * rewrite I1. ring.
      * rewrite I2. ring.
Qed.

Theorem prod_code_is_textbook block : block <> [] -> Forall (fun m => ~ mval m == 0) block ->
  prod_code block == prod_spec block.
Proof.
  destruct block as [|m0 rest]; [congruence|]. intros _ Hnz. inversion Hnz as [|? ? H0 Hr]; subst.
  unfold prod_code, prod_spec. cbn [fold_right].
  destruct (prod_invariant rest (ms2 m0) (mval m0) (ms2 m0 / (mval m0 * mval m0)) Hr) as [H1 _].
  - field. assumption.
  - cbv zeta in H1. rewrite H1. ring.
Qed.
