From NDV Require Import M_Wrappers P_Wrappers M_Resample.
From Coq Require Import Lqa Lia.
Open Scope Q_scope.

(* the centre of output pixel j is the centre of its block iff the offset is (f-1)/2 *)
Theorem centre_iff_offset f o : (forall j, j * f + o == j * f + (f - 1) / 2) <-> o == (f - 1) / 2.
Proof.
  split.
  - intros H. specialize (H 0). lra.
  - intros H j. rewrite H. reflexivity.
Qed.

(* block centre: pixels j*f .. (j+1)*f - 1 have centre j*f + (f-1)/2 *)
Theorem rebin_pix_is_block_centre f j : rebin_pix f j == (j * f + ((j + 1) * f - 1)) / 2.
Proof. unfold rebin_pix, rebin_offset. field. Qed.

(* output pixel edges are every f-th source pixel edge: the footprint is preserved *)
Theorem rebin_edges f k : rebin_pix f (k - (1 # 2)) == k * f - (1 # 2).
Proof. unfold rebin_pix, rebin_offset. field. Qed.

Theorem rebin_unit_factor j : rebin_pix 1 j == j.
Proof. unfold rebin_pix, rebin_offset. field. Qed.

(* rebinning a rebinned cube: same registration as rebinning once by the product *)
Theorem rebin_of_rebin f1 f2 j : rebin_pix f1 (rebin_pix f2 j) == rebin_pix (f1 * f2) j.
Proof. unfold rebin_pix, rebin_offset. field. Qed.

(* through the resampling wrapper, for any inner WCS *)
Theorem rebin_wcs_centres W fs W' : resampled W fs (map rebin_offset fs) = Ok W' ->
  forall js, p2w W' js = p2w W (scale fs (map rebin_offset fs) js).
Proof. intros H. apply (resampled_exact _ _ _ _ H). Qed.

Lemma scale_rebin : forall fs js, length js = length fs ->
  veq (scale fs (map rebin_offset fs) js) (zip2 rebin_pix fs js).
Proof.
  induction fs as [|f fs IH]; intros [|j js] H; cbn [length] in H; try discriminate; cbn; constructor.
  - unfold rebin_pix. reflexivity.
  - apply IH. lia.
Qed.

(* ---- the resampled grid of ExtraCoords.resample --------------------------------------------- *)
Lemma qupto_snoc n : qupto (S n) = qupto n ++ [inject_Z (Z.of_nat n)].
Proof. reflexivity. Qed.

Lemma inject_Z_minus (x y : Z) : inject_Z (x - y) = inject_Z x - inject_Z y.
Proof. unfold Z.sub. rewrite inject_Z_plus, inject_Z_opp. reflexivity. Qed.

Lemma Qceiling_unique x z : inject_Z z - 1 < x -> x <= inject_Z z -> Qceiling x = z.
Proof.
  intros H1 H2. pose proof (Qle_ceiling x) as Hc1. pose proof (Qceiling_lt x) as Hc2.
  assert (H3 : (z - 1 < Qceiling x)%Z).
  { rewrite Zlt_Qlt. rewrite inject_Z_minus. eapply Qlt_le_trans; [|exact Hc1]. exact H1. }
  assert (H4 : (Qceiling x - 1 < z)%Z).
  { rewrite Zlt_Qlt. eapply Qlt_le_trans; [exact Hc2|exact H2]. }
  lia.
Qed.

Lemma filter_map_prefix (g : Q -> Q) (bound : Q) M :
  (forall k, (k < M)%nat -> g (inject_Z (Z.of_nat k)) <= bound) ->
  ~ g (inject_Z (Z.of_nat M)) <= bound ->
  filter (fun x => Qle_bool x bound) (map g (qupto (S M))) = map g (qupto M).
Proof.
  intros Hin Hout. rewrite qupto_snoc, map_app, filter_app. cbn [map filter].
  destruct (Qle_bool (g (inject_Z (Z.of_nat M))) bound) eqn:E; [apply Qle_bool_iff in E; contradiction|].
  rewrite app_nil_r. clear Hout E.
  induction M as [|M IH]; [reflexivity|]. rewrite qupto_snoc, map_app, filter_app. cbn [map filter].
  rewrite IH by (intros k Hk; apply Hin; lia).
  destruct (Qle_bool (g (inject_Z (Z.of_nat M))) bound) eqn:E; [reflexivity|].
  exfalso. assert (Hle := Hin M ltac:(lia)). apply Qle_bool_iff in Hle. congruence.
Qed.

Lemma ceil_aux (m f : Q) : 1 <= f -> 1 <= m ->
  m + 1 - 1 < (m * f + f - (f - 1) / 2) / f /\ (m * f + f - (f - 1) / 2) / f <= m + 1.
Proof.
  intros Hf Hm. split.
  - apply Qlt_shift_div_l; [lra|]. setoid_replace ((m + 1 - 1) * f) with (m * f) by ring. unfold Qdiv. change (/ 2) with (1 # 2). lra.
  - apply Qle_shift_div_r; [lra|]. setoid_replace ((m + 1) * f) with (m * f + f) by ring. unfold Qdiv. change (/ 2) with (1 # 2). lra.
Qed.

Lemma grid_in (m f k : Q) : 1 <= f -> k <= m - 1 -> (f - 1) / 2 + k * f <= m * f - 1.
Proof.
  intros Hf Hk. assert (H : 0 <= (m - 1 - k) * f) by (apply Qmult_le_0_compat; lra).
  setoid_replace ((m - 1 - k) * f) with (m * f - f - k * f) in H by ring. unfold Qdiv. change (/ 2) with (1 # 2). lra.
Qed.

Lemma grid_out (m f : Q) : 1 <= f -> ~ (f - 1) / 2 + m * f <= m * f - 1.
Proof. intros Hf H. unfold Qdiv in H. change (/ 2) with (1 # 2) in H. lra. Qed.

(* with the block-centre offset and an integer factor f >= 1 dividing the axis length n = M*f the
   grid is exactly the M block centres *)
Theorem resample_grid_centres (f M : positive) :
  let fq := inject_Z (Zpos f) in let n := inject_Z (Zpos M * Zpos f) in
  resample_grid (rebin_offset fq) n fq =
  map (fun k => rebin_offset fq + k * fq) (qupto (Pos.to_nat M)).
Proof.
  intros fq n. unfold resample_grid, arange.
  assert (Hf : 1 <= fq) by (unfold fq; rewrite <- (Zle_Qle 1); lia).
  assert (Hm : 1 <= inject_Z (Zpos M)) by (rewrite <- (Zle_Qle 1); lia).
  assert (Hn : n = inject_Z (Zpos M) * fq) by (unfold n, fq; apply inject_Z_mult).
  rewrite Hn. clearbody fq. clear n Hn.
  destruct (ceil_aux (inject_Z (Zpos M)) fq Hf Hm) as [Hc1 Hc2].
  assert (Hc : Qceiling ((inject_Z (Zpos M) * fq + fq - rebin_offset fq) / fq) = (Zpos M + 1)%Z).
  { apply Qceiling_unique; rewrite inject_Z_plus; unfold rebin_offset; assumption. }
  rewrite Hc. replace (Z.to_nat (Z.pos M + 1)) with (S (Pos.to_nat M)) by lia.
  apply (filter_map_prefix (fun k => rebin_offset fq + k * fq)).
  - intros k Hk. unfold rebin_offset. apply grid_in; [assumption|].
    change (inject_Z (Zpos M) - 1) with (inject_Z (Zpos M) - inject_Z 1).
    rewrite <- (inject_Z_minus (Zpos M) 1). rewrite <- Zle_Qle. lia.
  - unfold rebin_offset. replace (Z.of_nat (Pos.to_nat M)) with (Zpos M) by lia. apply grid_out. assumption.
Qed.

(* interpolating a table on that grid samples it at the block centres j*f + (f-1)/2 *)
Theorem rebin_table_centres (t : list Q) (f M : positive) :
  let fq := inject_Z (Zpos f) in
  rebin_table t (inject_Z (Zpos M * Zpos f)) fq =
  map (fun k => tab_eval t (rebin_offset fq + k * fq)) (qupto (Pos.to_nat M)).
Proof.
  intros fq. unfold rebin_table, table_interpolate. subst fq.
  pose proof (resample_grid_centres f M) as H. cbv zeta in H. rewrite H.
  rewrite map_map. reflexivity.
Qed.

(* the interpolation is exact at the knots and linear in between *)
Theorem tab_at_knot t (i : nat) : (i < length t)%nat -> tab_eval t (inject_Z (Z.of_nat i)) = Some (nth i t 0).
Proof.
  intros H. unfold tab_eval.
  assert (H0 : Qle_bool 0 (inject_Z (Z.of_nat i)) = true) by (apply Qle_bool_iff; rewrite <- (Zle_Qle 0); lia).
  assert (H1 : Qle_bool (inject_Z (Z.of_nat i)) (inject_Z (Z.of_nat (length t) - 1)) = true)
    by (apply Qle_bool_iff; rewrite <- Zle_Qle; lia).
  rewrite H0, H1. cbn [andb]. rewrite Qfloor_Z.
  assert (H2 : Qeq_bool (inject_Z (Z.of_nat i)) (inject_Z (Z.of_nat i)) = true) by (apply Qeq_bool_iff; reflexivity).
  rewrite H2. rewrite Nat2Z.id. reflexivity.
Qed.

(* ---------- WCS-backed extra coords through the mapping --------------------------------------------------------------- *)
Lemma zip3_map {A B C D X} (g : A -> B -> C -> D) (a : X -> A) (b : X -> B) (c : X -> C) (l : list X) :
  zip3 g (map a l) (map b l) (map c l) = map (fun x => g (a x) (b x) (c x)) l.
Proof. induction l as [|x l IH]; [reflexivity|]. cbn [map zip3]. rewrite IH. reflexivity. Qed.

Lemma nth_zip3 (g : Q -> Q -> Q -> Q) : forall (a b c : list Q) k, (k < length a)%nat -> length b = length a -> length c = length a ->
  nth k (zip3 g a b c) 0 = g (nth k a 0) (nth k b 0) (nth k c 0).
Proof.
  induction a as [|x a IH]; intros b c k Hk Hb Hc; [cbn [length] in Hk; lia|].
  destruct b as [|y b]; [discriminate|]. destruct c as [|z c]; [discriminate|]. cbn [zip3]. destruct k as [|k]; [reflexivity|].
  cbn [nth]. apply IH; cbn [length] in *; lia.
Qed.

(* The resampled extra WCS, asked at the extra-pixel position of cube position E', answers with the source extra WCS
   at the extra-pixel position of the cube position E' * factor + offset: whatever the mapping, the extra coords stay
   registered to the cube's own resampling (for rebin: to the block centres). *)
Theorem ec_resample_registered (W : list Q -> list Q) n pm factor offset E' :
  length factor = n -> length offset = n -> length E' = n -> Forall (fun p => (p < n)%nat) pm ->
  ec_resampled W n pm factor offset (ec_pixel n pm E') = W (ec_pixel n pm (scale factor offset E')).
Proof.
  intros Hf Ho HE Hpm. unfold ec_resampled. f_equal. unfold scale, ec_param, ec_pixel.
  rewrite (zip3_map (fun p f o => p * f + o)). apply map_ext_in. intros p Hp. rewrite Forall_forall in Hpm. specialize (Hpm p Hp).
  symmetry. apply (nth_zip3 (fun p0 f o => p0 * f + o)); lia.
Qed.

(* for a rebin (offset (f-1)/2 on every axis): the block centres *)
Corollary ec_rebin_registered (W : list Q -> list Q) n pm fs E' :
  length fs = n -> length E' = n -> Forall (fun p => (p < n)%nat) pm ->
  ec_resampled W n pm fs (map rebin_offset fs) (ec_pixel n pm E') = W (ec_pixel n pm (scale fs (map rebin_offset fs) E')).
Proof. intros Hf HE Hpm. apply ec_resample_registered; try assumption. rewrite map_length. exact Hf. Qed.
