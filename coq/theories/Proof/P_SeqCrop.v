From NDV Require Import M_SeqCrop.
From Coq Require Import Lia.
Open Scope Z_scope.

Lemma col_min_le : forall (l : list (list Z)) n, l <> [] -> Forall (fun r => length r = n) l ->
  length (col_min l) = n /\
  forall r, In r l -> forall j, (j < n)%nat -> nth j (col_min l) 0 <= nth j r 0.
Proof.
  induction l as [|r0 rest IH]; intros n Hne Hl; [congruence|]. inversion Hl as [|? ? H0 Hr]; subst.
  destruct rest as [|r1 rest'].
  - cbn [col_min]. split; [reflexivity|]. intros r [<-|[]] j Hj. lia.
  - destruct (IH (length r0) ltac:(discriminate) Hr) as [IL IM].
    assert (Hz : forall (a b : list Z), length b = length a -> length (zip2 Z.min a b) = length a /\
                 forall j, (j < length a)%nat -> nth j (zip2 Z.min a b) 0 = Z.min (nth j a 0) (nth j b 0)).
    { induction a as [|x a IHa]; intros [|y b] Hab; cbn [length] in Hab; try discriminate; cbn [zip2 length]; [split; [reflexivity|intros; lia]|].
      destruct (IHa b ltac:(lia)) as [I1 I2]. split; [lia|]. intros [|j] Hj; cbn [nth]; [reflexivity|]. apply I2. lia. }
    change (col_min (r0 :: r1 :: rest')) with (zip2 Z.min r0 (col_min (r1 :: rest'))).
    destruct (Hz r0 (col_min (r1 :: rest')) IL) as [Z1 Z2]. split; [exact Z1|].
    intros r [<-|Hin] j Hj; rewrite Z2 by assumption; [lia|]. specialize (IM r Hin j Hj). lia.
Qed.

Lemma col_max_ge : forall (l : list (list Z)) n, l <> [] -> Forall (fun r => length r = n) l ->
  length (col_max l) = n /\
  forall r, In r l -> forall j, (j < n)%nat -> nth j r 0 <= nth j (col_max l) 0.
Proof.
  induction l as [|r0 rest IH]; intros n Hne Hl; [congruence|]. inversion Hl as [|? ? H0 Hr]; subst.
  destruct rest as [|r1 rest'].
  - cbn [col_max]. split; [reflexivity|]. intros r [<-|[]] j Hj. lia.
  - destruct (IH (length r0) ltac:(discriminate) Hr) as [IL IM].
    assert (Hz : forall (a b : list Z), length b = length a -> length (zip2 Z.max a b) = length a /\
                 forall j, (j < length a)%nat -> nth j (zip2 Z.max a b) 0 = Z.max (nth j a 0) (nth j b 0)).
    { induction a as [|x a IHa]; intros [|y b] Hab; cbn [length] in Hab; try discriminate; cbn [zip2 length]; [split; [reflexivity|intros; lia]|].
      destruct (IHa b ltac:(lia)) as [I1 I2]. split; [lia|]. intros [|j] Hj; cbn [nth]; [reflexivity|]. apply I2. lia. }
    change (col_max (r0 :: r1 :: rest')) with (zip2 Z.max r0 (col_max (r1 :: rest'))).
    destruct (Hz r0 (col_max (r1 :: rest')) IL) as [Z1 Z2]. split; [exact Z1|].
    intros r [<-|Hin] j Hj; rewrite Z2 by assumption; [lia|]. specialize (IM r Hin j Hj). lia.
Qed.

(* the common box contains every cube's own box on every cube axis, for any number of cubes *)
Theorem common_box_contains (starts stops : list (list Z)) n : starts <> [] -> stops <> [] ->
  Forall (fun r => length r = n) starts -> Forall (fun r => length r = n) stops ->
  forall j, (j < n)%nat ->
  (forall r, In r starts -> nth j (col_min starts) 0 <= nth j r 0) /\
  (forall r, In r stops -> nth j r 0 <= nth j (col_max stops) 0).
Proof.
  intros H1 H2 L1 L2 j Hj. destruct (col_min_le starts n H1 L1) as [_ A]. destruct (col_max_ge stops n H2 L2) as [_ B].
  split; intros r Hr; [apply A|apply B]; assumption.
Qed.

(* the sequence axis is left whole: slice(0, number of cubes) *)
Theorem seq_crop_sequence_axis cubes its : seq_crop_item cubes = Ok its ->
  hd full_slice its = ISlice (Some 0) (Some (zlen cubes)) None.
Proof.
  unfold seq_crop_item. destruct (mapr _ cubes); [|discriminate]. intros H; inversion H; reflexivity.
Qed.
