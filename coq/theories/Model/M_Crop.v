(* Model of utils/cube.py: get_crop_item_from_points (values form) and of the min / max / keepdims / refusal
   logic shared by crop and crop_by_values, after the repairs that clip the region at 0 and at the axis length.
   astropy's world_to_array_index_values (floor(pixel + 1/2)) and SlicedLowLevelWCS are dependencies.
   Definitions only. *)
From NDV Require Export M_Wrappers PyIndex.
From Coq Require Export Qround.
Open Scope Z_scope.

Definition round_half_up (q : Q) : Z := Qfloor (q + (1 # 2))%Q.

(* per array axis: the indices of the points that touch it -> the item *)
Definition zmin_l (l : list Z) (d : Z) : Z := fold_right Z.min d l.
Definition zmax_l (l : list Z) (d : Z) : Z := fold_right Z.max d l.

Definition axis_item (len : Z) (idxs : list Z) (keepdims : bool) : item :=
  match idxs with
  | [] => full_slice
  | x :: r =>
      let lo := Z.max (zmin_l r x) 0 in
      let hi := Z.max (Z.min (zmax_l r x + 1) len) lo in
      if (hi - lo =? 1) && negb keepdims then IInt lo else ISlice (Some lo) (Some hi) None
  end.

Definition crop_item (shape : list Z) (per_axis : list (list Z)) (keepdims : bool) : result (list item) :=
  let its := map (fun '(len, idxs) => axis_item len idxs keepdims) (combine shape per_axis) in
  if forallb is_int its && negb (match its with [] => true | _ => false end) then Err EValue else Ok its.

(* ---- which array axes a point touches (values form) and its index on each ------------------------- *)
(* corr : world x pixel; pixel axis p is array axis n-1-p *)
Definition touched (corr : list (list bool)) (n : nat) (point : list (option Q)) : list nat :=
  filter (fun a => existsb (fun w => match nth w point None with Some _ => nth (n - 1 - a) (nth w corr []) false | None => false end)
                           (seq 0 (length point)))
         (seq 0 n).

(* the sliced WCS supplies, for the world axes left None, the world value at pixel 0 on the untouched axes *)
Definition fill_point (W : wcs) (point : list (option Q)) : list Q :=
  let w0 := p2w W (repeat 0%Q (npix W)) in
  map (fun iw => match nth iw point None with Some v => v | None => nth iw w0 0%Q end) (seq 0 (length point)).

Definition point_indices (W : wcs) (n : nat) (point : list (option Q)) : list (nat * Z) :=
  let pix := w2p W (fill_point W point) in
  map (fun a => (a, round_half_up (nth (n - 1 - a) pix 0%Q))) (touched (corr W) n point).

Definition all_none (point : list (option Q)) : bool := forallb (fun o => match o with None => true | _ => false end) point.

Definition crop_by_values_item (W : wcs) (shape : list Z) (points : list (list (option Q))) (keepdims : bool) : result (list item) :=
  let n := length shape in
  if forallb all_none points then Ok (repeat full_slice n)                       (* no-op *)
  else if negb (forallb (fun p => Nat.eqb (length p) (nworld W)) points) then Err EValue
  else
    let pis := flat_map (point_indices W n) points in
    crop_item shape (map (fun a => map snd (filter (fun ai => Nat.eqb (fst ai) a) pis)) (seq 0 n)) keepdims.
