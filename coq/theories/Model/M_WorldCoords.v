(* Model of NDCube._generate_world_coords / axis_world_coords_values / axis_world_coords (ndcube.py),
   calculate_world_indices_from_axes (utils/wcs.py), with astropy's _split_matrix as a dependency
   (connected components of the correlation matrix).  Definitions only.
   corr : world x pixel;  pixel axis p is array axis n-1-p;  W : pixel vector -> world vector. *)
From NDV Require Export Shape.
From Coq Require Export QArith.
Open Scope Z_scope.

Definition cget (corr : list (list bool)) (w p : nat) : bool := nth p (nth w corr []) false.

(* _split_matrix: pixel axes of the connected component that contains world axis w *)
Definition step_pix (corr : list (list bool)) (npix : nat) (pix : list bool) : list bool :=
  let worlds := map (fun row => existsb (fun p => nth p row false && nth p pix false) (seq 0 npix)) corr in
  map (fun p => nth p pix false || existsb (fun w => nth w worlds false && cget corr w p) (seq 0 (length corr))) (seq 0 npix).
Fixpoint iter {A} (n : nat) (f : A -> A) (x : A) : A := match n with O => x | S m => iter m f (f x) end.
Definition component (corr : list (list bool)) (npix : nat) (w : nat) : list bool :=
  iter npix (step_pix corr npix) (map (fun p => cget corr w p) (seq 0 npix)).

(* the pixel range of axis p: arange(len) or arange(len + 1) - 1/2 *)
Definition wc_range_val (corners : bool) (k : Z) : Q := if corners then (inject_Z k - (1 # 2))%Q else inject_Z k.
Definition wc_range_len (corners : bool) (len : Z) : Z := if corners then len + 1 else len.

(* array axes (ascending) on which world axis w has a dimension, and their lengths *)
Definition world_axes (corr : list (list bool)) (n : nat) (w : nat) : list nat :=
  filter (fun a => cget corr w (n - 1 - a)) (seq 0 n).
Definition world_shape (corr : list (list bool)) (shape : list Z) (corners : bool) (w : nat) : list Z :=
  map (fun a => wc_range_len corners (nth a shape 0)) (world_axes corr (length shape) w).

(* position at which the code evaluates the WCS for entry e (indices along world_axes, ascending array axes) *)
Fixpoint lookup (axes : list nat) (e : list Z) (a : nat) : Z :=
  match axes, e with
  | x :: xs, v :: vs => if Nat.eqb x a then v else lookup xs vs a
  | _, _ => 0
  end.
Definition code_pixel (corr : list (list bool)) (n : nat) (corners : bool) (w : nat) (e : list Z) : list Q :=
  let comp := component corr n w in
  map (fun p => if cget corr w p then wc_range_val corners (lookup (world_axes corr n w) e (n - 1 - p))
                else if nth p comp false then wc_range_val corners 0     (* index 0 of the block's grid *)
                else 0%Q)                                                (* scalar 0 injected outside the block *)
      (seq 0 n).

Definition world_array (W : list Q -> list Q) (corr : list (list bool)) (shape : list Z) (corners : bool) (w : nat)
  : list Z * list Q :=
  let sh := world_shape corr shape corners w in
  (sh, map (fun e => nth w (W (code_pixel corr (length shape) corners w e)) 0%Q) (box sh)).

(* the pixel centre / corner of a whole element E (array order index vector, corner index for corners) *)
Definition elem_pixel (n : nat) (corners : bool) (E : list Z) : list Q :=
  map (fun p => wc_range_val corners (nth (n - 1 - p) E 0)) (seq 0 n).

(* ---- selection of world axes from the requested axes ------------------------------------------ *)
Inductive axis_req := AInt (a : Z) | AStr (s : string).

Definition is_sub (pat s : string) : bool := match String.index 0 pat s with Some _ => true | None => false end.

Definition req_world (corr : list (list bool)) (types : list string) (n : nat) (r : axis_req) : result (list nat) :=
  match r with
  | AInt a =>
      let a' := if a <? 0 then a + Z.of_nat n else a in
      if (a' <? 0) || (Z.of_nat n - 1 <? a') then Err EIndex
      else let p := (n - 1 - Z.to_nat a')%nat in Ok (filter (fun w => cget corr w p) (seq 0 (length corr)))
  | AStr s =>
      match filter (fun w => is_sub s (nth w types EmptyString)) (seq 0 (length types)) with
      | [w] => Ok [w]
      | _ => Err EValue
      end
  end.

Fixpoint collect {A B} (f : A -> result (list B)) (l : list A) : result (list B) :=
  match l with
  | [] => Ok []
  | x :: r => match f x with
              | Err e => Err e
              | Ok y => match collect f r with Ok ys => Ok (y ++ ys) | Err e => Err e end
              end
  end.

(* np.unique: sorted, without duplicates *)
Definition world_indices (corr : list (list bool)) (types : list string) (n : nat) (reqs : list axis_req)
  : result (list nat) :=
  match reqs with
  | [] => Ok (seq 0 (length corr))
  | _ => match collect (req_world corr types n) reqs with
         | Ok l => Ok (filter (fun w => existsb (Nat.eqb w) l) (seq 0 (length corr)))
         | Err e => Err e
         end
  end.

(* values form: the selected world axes in DEcreasing world index (array order) *)
Definition values_order (ws : list nat) : list nat := rev ws.

(* high-level form: one object per distinct object name among the selected world axes, in order of first
   occurrence in (selected) world order *)
Fixpoint uniq (l : list Z) : list Z :=
  match l with [] => [] | x :: r => x :: filter (fun y => negb (y =? x)) (uniq r) end.
Definition objects_for (comps : list Z) (ws : list nat) : list Z := uniq (map (fun w => nth w comps (-1)) ws).

(* ---- wcs = extra_coords: integer axes are array axes of the CUBE (n dims); the extra coords' own pixel
        dimension j is the cube's pixel axis pm[j] (ExtraCoords.mapping) ------------------------------- *)
Definition req_world_ec (corr : list (list bool)) (types : list string) (n : nat) (pm : list nat) (r : axis_req)
  : result (list nat) :=
  match r with
  | AInt a =>
      let a' := if a <? 0 then a + Z.of_nat n else a in
      if (a' <? 0) || (Z.of_nat n - 1 <? a') then Err EIndex
      else let P := (n - 1 - Z.to_nat a')%nat in
           Ok (filter (fun w => existsb (fun j => Nat.eqb (nth j pm n) P && cget corr w j) (seq 0 (length pm)))
                      (seq 0 (length corr)))
  | AStr s => req_world corr types n r
  end.

Definition world_indices_ec (corr : list (list bool)) (types : list string) (n : nat) (pm : list nat)
           (reqs : list axis_req) : result (list nat) :=
  match reqs with
  | [] => Ok (seq 0 (length corr))
  | _ => match collect (req_world_ec corr types n pm) reqs with
         | Ok l => Ok (filter (fun w => existsb (Nat.eqb w) l) (seq 0 (length corr)))
         | Err e => Err e
         end
  end.

(* ---- wcs = extra_coords with coordinates coupled to several cube axes ---------------------------------------
   _generate_world_coords evaluates the extra coords' WCS over ITS pixel dimensions (dimension j has the range of
   the cube's pixel axis pm[j]); the array of a world axis comes out with its dimensions in the reversed order of
   those pixel dimensions and is then transposed (np.transpose by argsort of minus the cube pixel axes) so that
   they are in the cube's array-axis order. *)
(* transposition of a row-major array whose dimension k carries the (distinct) label labels[k]: the result has its
   dimensions in increasing label order *)
Definition relabel (n : nat) (labels : list nat) (sh : list Z) (vals : list Q) : list Z * list Q :=
  let dst := filter (fun a => existsb (Nat.eqb a) labels) (seq 0 n) in
  let sh' := map (lookup labels sh) dst in
  (sh', map (fun e' => nth (Z.to_nat (ravel sh (map (lookup dst e') labels))) vals 0%Q) (box sh')).

(* the extra coords' own array shape: reversed pixel-dimension order *)
Definition ec_vshape (cshape : list Z) (pm : list nat) : list Z :=
  rev (map (fun p => nth (length cshape - 1 - p) cshape 0) pm).
(* the cube array axis of the extra coords' own array axis v *)
Definition ec_label (n : nat) (pm : list nat) (v : nat) : nat := (n - 1 - nth (length pm - 1 - v) pm n)%nat.
Definition ec_labels (corr : list (list bool)) (n : nat) (pm : list nat) (w : nat) : list nat :=
  map (ec_label n pm) (world_axes corr (length pm) w).

Definition world_array_ec (W : list Q -> list Q) (corr : list (list bool)) (cshape : list Z) (pm : list nat)
           (corners : bool) (w : nat) : list Z * list Q :=
  let va := world_array W corr (ec_vshape cshape pm) corners w in
  relabel (length cshape) (ec_labels corr (length cshape) pm w) (fst va) (snd va).

(* the position, in the extra coords' pixel dimensions, of the centre / corner of cube element E *)
Definition ec_elem_pixel (n : nat) (pm : list nat) (corners : bool) (E : list Z) : list Q :=
  map (fun p => wc_range_val corners (nth (n - 1 - p) E 0)) pm.
(* the cube array axes (ascending) world axis w depends on through the mapping *)
Definition ec_axes (corr : list (list bool)) (n : nat) (pm : list nat) (w : nat) : list nat :=
  filter (fun a => existsb (fun j => Nat.eqb (nth j pm n) (n - 1 - a) && cget corr w j) (seq 0 (length pm))) (seq 0 n).

(* ---- utils.wcs.array_indices_for_world_objects: for each world OBJECT (in order of first occurrence of its name
        among the world axes) the array axes of ALL its components, ascending.  (Before the repair the axes of the
        object's last component alone were kept.) -------------------------------------------------------------- *)
Definition object_axes (corr : list (list bool)) (n : nat) (comps : list Z) (o : Z) : list nat :=
  filter (fun a => existsb (fun w => (nth w comps (-1) =? o) && cget corr w (n - 1 - a)) (seq 0 (length comps))) (seq 0 n).
Definition objects_axes (corr : list (list bool)) (n : nat) (comps : list Z) : list (list nat) :=
  filter (fun l => match l with [] => false | _ => true end) (map (object_axes corr n comps) (uniq comps)).
