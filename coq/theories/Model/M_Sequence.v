(* Model of NDCubeSequence.__getitem__, shape, cube_like_shape, explode_along_axis
   (ndcube_sequence.py) and NDCube.explode_along_axis (ndcube.py).  Definitions only.
   A cube is (id, shape): identity is carried by the id, its slicing by M_Slicing.cube_getitem. *)
From NDV Require Export M_Slicing M_IndexAsCube.

Definition cube := (Z * list Z)%type.
Record seqm := mkSeq { cubes : list cube; common : option nat }.

Inductive seq_in :=
| SInt (i : Z)
| SSlice (a b st : option Z)
| STuple (its : list item).

Inductive seq_res :=
| RC (c : cube)
| RS (s : seqm).

Definition cube_slice (c : cube) (rest : list item) : result cube :=
  match sliced_shape (snd c) rest with
  | Ok sh => Ok (fst c, sh)
  | Err e => Err e
  end.

(* the repair: an Ellipsis anywhere in a tuple item is expanded against (1 + cube ndim) axes first *)
Definition seq_expand (ndim : nat) (its : list item) : result (list item) :=
  let ne := length (filter is_ellipsis its) in
  if Nat.ltb 1 ne then Err EIndex
  else if Nat.eqb ne 1 then
    if Nat.ltb (S ndim) (length its - 1) then Err EIndex
    else Ok (expand_at (S ndim - (length its - 1)) its)
  else Ok its.

(* common axis after applying [rest] to every cube *)
Definition new_common (ca : option nat) (rest : list item) : option nat :=
  match ca with
  | None => None
  | Some a => if is_int (nth a rest full_slice) then None
              else Some (a - length (filter is_int (firstn a rest)))%nat
  end.

Definition seq_ndim (s : seqm) : nat :=
  match cubes s with [] => O | c :: _ => length (snd c) end.

Definition select (cs : list cube) (ks : list Z) : list cube :=
  map (fun k => znth k cs (0, [])) ks.

Definition seq_getitem (s : seqm) (it : seq_in) : result seq_res :=
  let n := zlen (cubes s) in
  match it with
  | SInt i => match norm_int n i with
              | Some k => Ok (RC (znth k (cubes s) (0, [])))
              | None => Err EIndex
              end
  | SSlice a b st => match slice_positions n a b st with
                     | Some ks => Ok (RS (mkSeq (select (cubes s) ks) (common s)))
                     | None => Err EValue
                     end
  | STuple its =>
      bind (seq_expand (seq_ndim s) its) (fun its' =>
      match its' with
      | IInt i :: rest =>
          match norm_int n i with
          | Some k => bind (cube_slice (znth k (cubes s) (0, [])) rest) (fun c => Ok (RC c))
          | None => Err EIndex
          end
      | ISlice a b st :: rest =>
          match slice_positions n a b st with
          | Some ks => bind (mapr (fun c => cube_slice c rest) (select (cubes s) ks)) (fun cs =>
                       Ok (RS (mkSeq cs (new_common (common s) rest))))
          | None => Err EValue
          end
      | [] => Err EIndex
      | _ => Err EType
      end)
  end.

(* shape: (number of cubes, first cube's shape) with the common-axis entry replaced by the tuple of
   per-cube lengths when they differ; modelled as first cube's shape + the list of lengths *)
Definition ca_lengths (s : seqm) : list Z :=
  match common s with
  | Some a => map (fun c => nth a (snd c) 0) (cubes s)
  | None => []
  end.

Fixpoint set_nth {A} (n : nat) (x : A) (l : list A) : list A :=
  match n, l with
  | _, [] => []
  | O, _ :: t => x :: t
  | S m, h :: t => h :: set_nth m x t
  end.

Definition cube_like_shape (s : seqm) : result (list Z) :=
  match common s, cubes s with
  | Some a, c :: _ => Ok (set_nth a (zsum (ca_lengths s)) (snd c))
  | _, _ => Err EType
  end.

(* explode: every hyperplane along [axis] of every cube, in order *)
Fixpoint remove_nth {A} (n : nat) (l : list A) : list A :=
  match n, l with
  | _, [] => []
  | O, _ :: t => t
  | S m, h :: t => h :: remove_nth m t
  end.

Fixpoint upto (n : nat) : list Z :=   (* 0, 1, ..., n-1 *)
  match n with O => [] | S m => upto m ++ [Z.of_nat m] end.

(* (cube id, index along the axis, resulting shape) *)
Definition explode_cube (axis : nat) (c : cube) : list (Z * Z * list Z) :=
  map (fun j => (fst c, j, remove_nth axis (snd c))) (upto (Z.to_nat (nth axis (snd c) 0))).

Definition norm_axis (nd : nat) (axis : Z) : Z := if axis <? 0 then Z.of_nat nd + axis else axis.

Definition seq_explode (s : seqm) (axis : Z) : result (list (Z * Z * list Z) * option nat) :=
  let nd := seq_ndim s in
  let ax := norm_axis nd axis in
  if (0 <=? ax) && (ax <? Z.of_nat nd) then
    let a := Z.to_nat ax in
    (* a 0-d cube has no WCS: slicing a 1-d cube with an int is refused (if it is ever attempted) *)
    if Nat.ltb nd 2 && existsb (fun c => 0 <? nth a (snd c) 0) (cubes s) then Err EValue else
    let nc := match common s with
              | None => None
              | Some c => if Nat.eqb c a then None else if Nat.ltb a c then Some (c - 1)%nat else Some c
              end in
    Ok (flat_map (explode_cube a) (cubes s), nc)
  else Err EIndex.

Definition cube_explode (c : cube) (axis : Z) : result (list (Z * Z * list Z)) :=
  let nd := length (snd c) in
  let ax := norm_axis nd axis in
  if (0 <=? ax) && (ax <? Z.of_nat nd) then
    if Nat.ltb nd 2 && (0 <? nth (Z.to_nat ax) (snd c) 0) then Err EValue
    else Ok (explode_cube (Z.to_nat ax) c)
  else Err EIndex.
