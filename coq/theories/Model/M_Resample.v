(* Model of the coordinate side of NDCube.rebin (ndcube.py) and ExtraCoords.resample
   (extra_coords.py): offsets, resampled grids, lookup-table interpolation.  Definitions only. *)
From NDV Require Export M_Wrappers.
From Coq Require Export Qround.
Open Scope Q_scope.

(* offset rebin passes to ResampledLowLevelWCS and to ExtraCoords.resample: (bin_shape - 1) / 2 *)
Definition rebin_offset (f : Q) : Q := (f - 1) / 2.
Definition rebin_pix (f j : Q) : Q := j * f + rebin_offset f.          (* top pixel j -> source pixel *)

(* ExtraCoords.resample: x = np.arange(c, d + f, f); x = x[x <= d - 1] *)
Fixpoint qupto (n : nat) : list Q := match n with O => [] | S m => qupto m ++ [inject_Z (Z.of_nat m)] end.
Definition arange (start stop step : Q) : list Q :=
  map (fun k => start + k * step) (qupto (Z.to_nat (Qceiling ((stop - start) / step)))).
Definition resample_grid (c d f : Q) : list Q :=
  filter (fun x => Qle_bool x (d - 1)) (arange c (d + f) f).

(* dependency model: linear interpolation of a lookup table on integer knots (np.interp / Tabular1D),
   no value outside the table *)
Definition tab_eval (t : list Q) (x : Q) : option Q :=
  let n := Z.of_nat (length t) in
  if Qle_bool 0 x && Qle_bool x (inject_Z (n - 1)) then
    let i := Qfloor x in
    let a := nth (Z.to_nat i) t 0 in
    if Qeq_bool x (inject_Z i) then Some a
    else let b := nth (Z.to_nat (i + 1)) t 0 in Some (a + (x - inject_Z i) * (b - a))
  else None.

Definition table_interpolate (t : list Q) (grid : list Q) : list (option Q) := map (tab_eval t) grid.

(* resampled table of a rebin by integer factor f on an axis of length d *)
Definition rebin_table (t : list Q) (d f : Q) : list (option Q) :=
  table_interpolate t (resample_grid (rebin_offset f) d f).

(* ---- WCS-backed extra coords (ExtraCoords.resample): factors and offsets are given per ARRAY axis of the cube; pixel
        dimension j of the extra WCS is the cube's pixel axis pm[j], i.e. array axis n-1-pm[j], and is handed the
        factor and offset of that axis.  The mapping itself is carried over unchanged. *)
Definition ec_param (n : nat) (pm : list nat) (per_axis : list Q) : list Q := map (fun p => nth (n - 1 - p) per_axis 0) pm.
(* the position, in the extra WCS's pixel dimensions, of the cube position E (array order) *)
Definition ec_pixel (n : nat) (pm : list nat) (E : list Q) : list Q := map (fun p => nth (n - 1 - p) E 0) pm.
Definition ec_resampled (W : list Q -> list Q) (n : nat) (pm : list nat) (factor offset : list Q) : list Q -> list Q :=
  fun p => W (scale (ec_param n pm factor) (ec_param n pm offset) p).
