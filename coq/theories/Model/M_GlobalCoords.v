(* Model of GlobalCoords._all_coords / add / remove (global_coords.py) on top of the dependency model of
   astropy's SlicedLowLevelWCS.dropped_world_dimensions, and of the dropped extra coords.
   Definitions only. *)
From NDV Require Export M_ExtraCoords.
Open Scope Z_scope.

(* ---- primary WCS: which world axes are dropped by a cumulative selection, and with which value ---- *)
(* sel : per ORIGINAL array axis (offset, dropped); pixel axis i is array axis n-1-i, so everything below is
   written in array order with corr w a = "world w depends on ARRAY axis a" *)
Definition world_kept (corr : list (list bool)) (sel : list (Z * bool)) (w : nat) : bool :=
  existsb (fun a => nth a (nth w corr []) false && negb (snd (nth a sel (0, false)))) (seq 0 (length sel)).

Definition sel_pixel (sel : list (Z * bool)) : list Q := map (fun s => inject_Z (fst s)) sel.

(* astropy evaluates the inner WCS at "integer items on dropped axes, start of the slice on kept axes" *)
Definition dropped_value (W : list Q -> list Q) (sel : list (Z * bool)) (w : nat) : Q := nth w (W (sel_pixel sel)) 0%Q.

Definition dropped_world (corr : list (list bool)) (sel : list (Z * bool)) : list nat :=
  filter (fun w => negb (world_kept corr sel w)) (seq 0 (length corr)).

(* composing the selection of a further slice (given for the axes still present) with the cumulative one *)
Fixpoint compose_sel (sel : list (Z * bool)) (new : list (Z * bool)) : list (Z * bool) :=
  match sel with
  | [] => []
  | (o, true) :: r => (o, true) :: compose_sel r new
  | (o, false) :: r => match new with
                       | (o', d') :: n' => ((o + o')%Z, d') :: compose_sel r n'
                       | [] => (o, false) :: compose_sel r []
                       end
  end.

(* ---- user coordinates: name, physical-type validity bit, value ------------------------------------ *)
Record gstate := mkG { internal : list (Z * Z * Q); sel : list (Z * bool); gec : ec }.

Inductive gop :=
| GAdd (name ptype : Z) (valid_type : bool) (v : Q)
| GRemove (name : Z)
| GSlice (items : list item) (new : list (Z * bool)).   (* items: what the extra coords see; new: what the WCS sees *)

Definition has_name (n : Z) (l : list (Z * Z * Q)) : bool := existsb (fun e => fst (fst e) =? n) l.

Definition gstep (s : gstate) (o : gop) : result gstate :=
  match o with
  | GAdd n t valid v =>
      if has_name n (internal s) then Err EValue
      else if negb valid then Err EValue
      else Ok (mkG (internal s ++ [(n, t, v)]) (sel s) (gec s))
  | GRemove n =>
      if has_name n (internal s) then Ok (mkG (filter (fun e => negb (fst (fst e) =? n)) (internal s)) (sel s) (gec s))
      else Err EOther
  | GSlice items new =>
      match ec_getitem items (gec s) with
      | Ok e' => Ok (mkG (internal s) (compose_sel (sel s) new) e')
      | Err e => Err e
      end
  end.

(* a refused operation leaves the state unchanged *)
Definition gstep' (s : gstate) (o : gop) : gstate := match gstep s o with Ok s' => s' | Err _ => s end.

(* names (component identifiers) of the dropped extra coordinates, with their values *)
Definition ec_dropped_entries (e : ec) : list (Z * Q) :=
  flat_map (fun t => combine (tnames t) (map (fun v => nth 0 v 0%Q) (tvals t))) (dropped e).
