(* Model of NDCube arithmetic (ndcube.py: __neg__, __add__/__radd__/__sub__/__rsub__, __mul__/__rmul__/
   __truediv__/__rtruediv__, __pow__, to, _new_instance).  Definitions only.
   Data and operands are exact rationals; a unit is a scale factor and integer exponents over fixed base dimensions;
   `carried` stands for everything _new_instance copies untouched (wcs, extra and global coords, meta). *)
From NDV Require Export Prelude.
From Coq Require Export QArith Qabs.
Open Scope Z_scope.

Record unit := mkU { scale : Q; exps : list Z }.
Definition exps_eqb (a b : list Z) : bool := list_eqb Z.eqb a b.
Definition zero_exps (e : list Z) : bool := forallb (fun x => x =? 0) e.
(* u.Unit("") exactly: dimensionless and unscaled *)
Definition is_unscaled_dimless (un : unit) : bool := Qeq_bool (scale un) 1 && zero_exps (exps un).
Definition dimless (nb : nat) : unit := mkU 1 (repeat 0 nb).
Definition umul (a b : unit) : unit := mkU (scale a * scale b)%Q (map (fun '(x, y) => x + y) (combine (exps a) (exps b))).
Definition qpow (x : Q) (k : Z) : Q := Qpower x k.
Definition upow (a : unit) (k : Z) : unit := mkU (qpow (scale a) k) (map (fun x => x * k) (exps a)).
Definition uinv (a : unit) : unit := upow a (-1).

Inductive ukind := UStd | UVar | UInvVar | UUnknown.
Record cube := mkC {
  data : list Q;
  cunit : option unit;
  unc : option (ukind * list Q);
  mask : option (list bool);
  carried : Z }.

(* the operand after numpy broadcasting against the data: one value per element *)
Inductive operand :=
| ONum (vals : list Q)                 (* python / numpy numbers and arrays without a unit *)
| OQty (vals : list Q) (un : unit)     (* Quantity *)
| OOther.                              (* another NDCube, an NDData: anything else that has a .unit *)

Definition nb_of (c : cube) (o : operand) : nat :=
  match cunit c, o with
  | Some un, _ => length (exps un)
  | None, OQty _ un => length (exps un)
  | None, _ => O
  end.

Fixpoint zipq (f : Q -> Q -> Q) (a b : list Q) : list Q :=
  match a, b with x :: a', y :: b' => f x y :: zipq f a' b' | _, _ => [] end.

Definition with_data (c : cube) (d : list Q) : cube := mkC d (cunit c) (unc c) (mask c) (carried c).

Definition neg (c : cube) : cube := with_data c (map Qopp (data c)).

Definition add (c : cube) (o : operand) : result cube :=
  match o with
  | OQty vals un =>
      let cu := match cunit c with None => dimless (length (exps un)) | Some x => x end in
      if exps_eqb (exps un) (exps cu)
      then Ok (with_data c (zipq Qplus (data c) (map (fun v => v * (scale un / scale cu))%Q vals)))
      else Err EUnits                                   (* to_value(cube_unit): UnitConversionError *)
  | OOther => Err EType                                 (* NotImplemented -> TypeError *)
  | ONum vals =>
      match cunit c with
      | None => Ok (with_data c (zipq Qplus (data c) vals))
      | Some un => if is_unscaled_dimless un then Ok (with_data c (zipq Qplus (data c) vals)) else Err EType
      end
  end.

Definition oneg (o : operand) : operand :=
  match o with ONum v => ONum (map Qopp v) | OQty v un => OQty (map Qopp v) un | OOther => OOther end.
Definition sub (c : cube) (o : operand) : result cube := add c (oneg o).
Definition rsub (c : cube) (o : operand) : result cube := add (neg c) o.

(* uncertainties are magnitudes *)
Definition scale_unc (k : ukind) (u v : Q) : Q :=
  match k with
  | UVar => (u * (Qabs v * Qabs v))%Q
  | UInvVar => (u / (Qabs v * Qabs v))%Q
  | _ => (u * Qabs v)%Q
  end.

Definition mul (c : cube) (o : operand) : result cube :=
  match o with
  | OOther => Err EType
  | ONum vals | OQty vals _ =>
      let nu := match o with
                | OQty _ un => Some (umul (match cunit c with None => dimless (length (exps un)) | Some x => x end) un)
                | _ => cunit c
                end in
      Ok (mkC (zipq Qmult (data c) vals) nu
              (match unc c with Some (k, us) => Some (k, zipq (scale_unc k) us vals) | None => None end)
              (mask c) (carried c))
  end.

(* 1 / value *)
Definition oinv (o : operand) : operand :=
  match o with ONum v => ONum (map Qinv v) | OQty v un => OQty (map Qinv v) (uinv un) | OOther => OOther end.
Definition truediv (c : cube) (o : operand) : result cube := mul c (oinv o).

(* integer exponents (fractional ones are not exact); the uncertainty of a power is not part of the property *)
Definition pow (c : cube) (k : Z) : cube :=
  mkC (map (fun x => qpow x k) (data c)) (match cunit c with Some un => Some (upow un k) | None => None end)
      None (mask c) (carried c).
Definition rtruediv (c : cube) (o : operand) : result cube :=
  match o with OOther => Err EType | _ => mul (pow c (-1)) o end.

(* to(new_unit) = self * (self.unit.to(new_unit) * new_unit / self.unit) *)
Definition to_unit (c : cube) (nu : unit) : result cube :=
  match cunit c with
  | None => Err EAttr
  | Some cu =>
      if exps_eqb (exps cu) (exps nu)
      then let f := (scale cu / scale nu)%Q in
           mul c (OQty (map (fun _ => f) (data c)) (umul nu (uinv cu)))
      else Err EUnits
  end.

(* ---- physical values: numbers in base units together with the dimension exponents ---------------------------- *)
Definition unit_or_dimless (nb : nat) (ou : option unit) : unit := match ou with Some x => x | None => dimless nb end.
Definition phys (nb : nat) (c : cube) : list Q := map (fun x => x * scale (unit_or_dimless nb (cunit c)))%Q (data c).
Definition dims (nb : nat) (c : cube) : list Z := exps (unit_or_dimless nb (cunit c)).
Definition ophys (o : operand) : list Q :=
  match o with ONum v => v | OQty v un => map (fun x => x * scale un)%Q v | OOther => [] end.
