(* Model of NDCubeSlicingMixin.__getitem__ (mixins/ndslicing.py) on top of the dependency models of
   numpy basic indexing (np_axis_sel) and astropy's SlicedLowLevelWCS (wcs_axis_sel: an int item is
   used as the pixel value, a slice's start as the pixel offset, no normalisation of its own).
   Definitions only. *)
From NDV Require Export PyIndex.

(* the repair: ints and slice bounds are normalised against the axis length before delegating *)
Definition norm_bound (n v : Z) : Z := clamp 0 n (if v <? 0 then v + n else v).
Definition norm_item (n : Z) (it : item) : result item :=
  match it with
  | IInt i => match norm_int n i with Some j => Ok (IInt j) | None => Err EIndex end
  | ISlice a b st => Ok (ISlice (option_map (norm_bound n) a) (option_map (norm_bound n) b) st)
  | _ => Err EIndex
  end.

(* SlicedLowLevelWCS, per array axis: (offset added to the pixel coordinate, axis dropped?) *)
Definition wcs_axis_sel (it : item) : Z * bool :=
  match it with
  | IInt i => (i, true)
  | ISlice (Some s) _ _ => (s, false)
  | _ => (0, false)
  end.

Record sliced := mkSliced {
  sitems : list item;              (* item handed to data / mask / uncertainty / wcs / extra coords *)
  dsel : list (Z * Z * bool);      (* numpy: (start, length, dropped) per source axis *)
  wsel : list (Z * bool);          (* sliced WCS: (offset, dropped) per source axis *)
  wshape : list Z }.               (* array_shape of the sliced WCS *)

Definition cube_getitem (shape : list Z) (raw : list item) : result sliced :=
  bind (sanitize (length shape) raw) (fun its =>
  bind (map2r norm_item shape its) (fun its' =>
  bind (map2r np_axis_sel shape its') (fun ds =>
    Ok (mkSliced its' ds (map wcs_axis_sel its') (sels_shape ds))))).

(* source index / source pixel of the element (or pixel) k of the result *)
Fixpoint embed (sels : list (Z * bool)) (k : list Z) : list Z :=
  match sels with
  | [] => []
  | (o, true) :: r => o :: embed r k
  | (o, false) :: r => match k with
                       | k0 :: ks => (o + k0) :: embed r ks
                       | [] => o :: embed r []
                       end
  end.
Definition dsel_off (ds : list (Z * Z * bool)) : list (Z * bool) := map (fun '(s, _, d) => (s, d)) ds.
Definition src_index (ds : list (Z * Z * bool)) (k : list Z) : list Z := embed (dsel_off ds) k.

Definition sliced_shape (shape : list Z) (raw : list item) : result (list Z) :=
  match cube_getitem shape raw with Ok r => Ok (wshape r) | Err e => Err e end.
