(* Model of NDCubeSequence.index_as_cube (ndcube_sequence.py: _IndexAsCubeSlicer.__getitem__) and of
   utils/sequence.py: cube_like_index_to_sequence_and_common_axis_indices,
   cube_like_tuple_item_to_sequence_items.  Definitions only (proofs are in Proof/P_IndexAsCube.v)
   so that the model still evaluates when a proof breaks. *)
From NDV Require Export PyIndex.

(* cumsum(lens) > i, first hit; common-axis index = i - cumsum[k-1].
   Structural form of the same search: walk the lengths, subtracting. *)
Fixpoint locate (lens : list Z) (i : Z) : option (nat * Z) :=
  match lens with
  | [] => None                                  (* boolean mask all False -> [0] raises IndexError *)
  | l :: ls => if i <? l then Some (O, i)
               else match locate ls (i - l) with
                    | Some (k, j) => Some (S k, j)
                    | None => None
                    end
  end.

(* a piece of the result: (index of the source cube, start along the common axis, length) *)
Definition piece := (nat * Z * Z)%type.

(* cube_like_tuple_item_to_sequence_items on an already normalised, non-empty range [a, b):
   the three result shapes of the code (one cube / first + last / first + middles + last). *)
Definition code_pieces (lens : list Z) (a b : Z) : option (list piece) :=
  match locate lens a, locate lens (b - 1) with
  | Some (k1, j1), Some (k2, j2) =>
      let j2e := j2 + 1 in
      if Nat.eqb k1 k2 then Some [(k1, j1, j2e - j1)]
      else Some ((k1, j1, nth k1 lens 0 - j1)
                 :: map (fun i => (i, 0, nth i lens 0)) (seq (S k1) (k2 - k1 - 1))
                 ++ [(k2, 0, j2e)])
  | _, _ => None
  end.

Inductive iac_res :=
| RCube (k : nat) (j : Z)                (* a single cube: source cube k at common-axis index j *)
| RSeq (ps : list piece).

Definition step_ok (st : option Z) : bool :=
  match st with None => true | Some s => s =? 1 end.

Definition shiftp (ps : list piece) : list piece := map (fun '(k, s, l) => (S k, s, l)) ps.
(* seq[:, item]: every cube, whole *)
Fixpoint all_pieces (lens : list Z) : list piece :=
  match lens with [] => [] | l :: ls => (O, 0, l) :: shiftp (all_pieces ls) end.

(* the common-axis part of _IndexAsCubeSlicer.__getitem__ (after the repair that normalises the
   item against the cube-like length first) *)
Definition iac_common (lens : list Z) (it : item) : result iac_res :=
  let L := zsum lens in
  match it with
  | IInt i =>
      match norm_int L i with
      | None => Err EIndex
      | Some i' => match locate lens i' with
                   | Some (k, j) => Ok (RCube k j)
                   | None => Err EIndex
                   end
      end
  | ISlice None None None => Ok (RSeq (all_pieces lens))          (* seq[:, item] shortcut *)
  | ISlice a b st =>
      if step_ok st then
        let '(s, e) := slice_bounds L a b in
        if e <=? s then Ok (RSeq [])
        else match code_pieces lens s e with
             | Some ps => Ok (RSeq ps)
             | None => Err EIndex
             end
      else Err EIndex
  | _ => Err EType
  end.

(* N-d item: the common axis entry is at position ca of the padded item; the new common axis of a
   returned sequence is ca minus the number of integer entries in front of it. *)
Definition count_ints (its : list item) : Z := zlen (filter is_int its).
Definition pad_items (nd : nat) (its : list item) : list item :=
  its ++ repeat full_slice (nd - length its).
Definition iac_new_common (ca : nat) (its : list item) : Z :=
  Z.of_nat ca - count_ints (firstn ca its).

Definition iac_getitem (lens : list Z) (nd ca : nat) (its : list item)
  : result (iac_res * Z) :=
  let its' := pad_items nd its in
  match iac_common lens (nth ca its' full_slice) with
  | Ok r => Ok (r, iac_new_common ca its')
  | Err e => Err e
  end.

(* the elements a piece denotes, given each cube as the list of its hyperplanes along the axis *)
Definition extract {A} (cubes : list (list A)) (p : piece) : list A :=
  let '(k, s, l) := p in zsub s l (nth k cubes []).
