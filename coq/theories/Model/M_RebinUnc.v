(* Model of utils/cube.py: propagate_rebin_uncertainties (after the repairs) and of the uncertainty
   branch of NDCube.rebin.  Everything is in the SQUARED domain (sigma^2, or the variance), so that no
   square root is needed.  Definitions only. *)
From NDV Require Export M_Rebin.
Open Scope Q_scope.

(* a block member: data (None = NaN), squared uncertainty, masked? *)
Record mem := mkMem { mx : option Q; ms2 : Q; mm : bool }.

Definition is_nan (m : mem) : bool := match mx m with None => true | _ => false end.
Definition nantype (op : opk) : bool := match op with ONanSum | ONanMean => true | _ => false end.
Definition is_mean (op : opk) : bool := match op with OMean | ONanMean => true | _ => false end.

(* the mask the propagation works with: the cube's mask unless the operation ignores it, plus NaN data
   for the nan-operations *)
Definition eff_masked (op : opk) (use_mask : bool) (m : mem) : bool :=
  (use_mask && mm m) || (nantype op && is_nan m).

(* ---- additive propagation (sum, mean, nansum, nanmean), as the code iterates it:
        seed with member 0 (zeroed if masked), then add the squared uncertainty of every later member
        (zeroed if masked), finally divide by the number of unmasked members for means -------------- *)
Definition contrib (op : opk) (use_mask : bool) (m : mem) : Q := if eff_masked op use_mask m then 0 else ms2 m.

Definition add_code (op : opk) (use_mask : bool) (block : list mem) : Q :=
  match block with
  | [] => 0
  | m0 :: rest =>
      let total := fold_left (fun acc m => acc + contrib op use_mask m) rest (contrib op use_mask m0) in
      if is_mean op then
        let n := zlen (filter (fun m => negb (eff_masked op use_mask m)) block) in
        let n' := inject_Z (Z.max 1 n) in total / (n' * n')
      else total
  end.

(* textbook: root-sum-square of the contributing members; for means divided by their number *)
Definition contributing (op : opk) (use_mask : bool) (block : list mem) : list mem :=
  filter (fun m => negb (eff_masked op use_mask m)) block.
Definition add_spec (op : opk) (use_mask : bool) (block : list mem) : Q :=
  let c := contributing op use_mask block in
  let total := fold_right (fun m acc => ms2 m + acc) 0 c in
  if is_mean op then let n := inject_Z (Z.max 1 (zlen c)) in total / (n * n) else total.

(* ---- multiplicative propagation (prod), no mask: astropy's multiply rule with correlation 0 in the
        squared domain: s2_new = s2_a * b^2 + s2_b * a^2 with a the running product ------------------ *)
Definition mval (m : mem) : Q := match mx m with Some q => q | None => 0 end.
Definition prod_code (block : list mem) : Q :=
  match block with
  | [] => 0
  | m0 :: rest =>
      fst (fold_left (fun st m => let '(s2, a) := st in (s2 * (mval m * mval m) + ms2 m * (a * a), a * mval m))
                     rest (ms2 m0, mval m0))
  end.
(* textbook: P^2 * sum (sigma_i / x_i)^2 *)
Definition prod_spec (block : list mem) : Q :=
  let P := fold_right (fun m acc => mval m * acc) 1 block in
  P * P * fold_right (fun m acc => ms2 m / (mval m * mval m) + acc) 0 block.

Inductive unc_kind := UStd | UVar | UUnknown | UAbsent.

(* result of the uncertainty branch of rebin: None = no uncertainty (with a warning) *)
Definition unc_plan (k : unc_kind) (m : mask_in) (all_masked_array : bool) (ignores : bool) : bool :=
  match k with
  | UAbsent | UUnknown => false
  | _ => negb (negb ignores && match m with MScalar true => true | MArray => all_masked_array | _ => false end)
  end.

Definition propagate (op : opk) (use_mask : bool) (block : list mem) : Q :=
  match op with
  | OProd => prod_code block
  | _ => add_code op use_mask block
  end.
