(* Model of ndcube.wcs.tools: unwrap_wcs_to_fitswcs, _slice_fitswcs, _resample_fitswcs (after the repair
   of the CRPIX / PC rules) over the linear core of a FITS WCS.  Definitions only.
   FITS convention: intermediate coordinate x_i(p) = cdelt_i * sum_j pc_ij * (p_j + 1 - crpix_j) for the
   0-based pixel p; everything non-linear in a FITS WCS is a function of x and of header values that
   unwrapping does not touch, so equality of x for all p is equality of world coordinates. *)
From NDV Require Export M_Wrappers PyIndex.
From Coq Require Export Qround.
Open Scope Q_scope.

Record fits := mkFits { crpix : qvec; cdelt : qvec; pc : list qvec; naxis : list Z }.   (* pixel (WCS) order *)

Definition interm (F : fits) (p : qvec) : qvec :=
  zip2 (fun cd row => cd * dot row (zip2 (fun pj cj => pj + 1 - cj) p (crpix F))) (cdelt F) (pc F).

(* ---- _slice_fitswcs + WCS.slice, items in array (numpy) order, one per axis ------------------ *)
Definition zq (z : Z) : Q := inject_Z z.

(* per axis: normalised (start, new naxis, dropped) or an error *)
Definition slice_axis (len : Z) (it : item) : result (Z * Z * bool) :=
  match it with
  | IInt i =>
      if (i <? 0)%Z && (len =? 0)%Z then Err EValue
      else let i' := if (i <? 0)%Z then (len + i)%Z else i in
           (* slice(i', i'+1): crpix -= i'; naxis = len(range(len)[i':i'+1]) *)
           Ok (i', snd (sel1 len (Some i') (Some (i' + 1)%Z)), true)
  | ISlice a b None | ISlice a b (Some 1%Z) =>
      let neg x := match x with Some v => (v <? 0)%Z | None => false end in
      if (neg a || neg b) && (len =? 0)%Z then Err EValue
      else
        let fix_ x := match x with Some v => Some (if (v <? 0)%Z then (len + v)%Z else v) | None => None end in
        let a' := fix_ a in let b' := fix_ b in
        Ok (match a' with Some s => s | None => 0%Z end, snd (sel1 len a' b'), false)
  | _ => Err EType
  end.

(* place the items of the kept axes among whole-axis slices for the already dropped ones *)
Fixpoint spread {A} (dflt : A) (dropped : list bool) (vals : list A) : list A :=
  match dropped with
  | [] => []
  | true :: r => dflt :: spread dflt r vals
  | false :: r => match vals with v :: vs => v :: spread dflt r vs | [] => dflt :: spread dflt r [] end
  end.

Definition state := (fits * list bool)%type.        (* FITS WCS, dropped_data_axes in ARRAY order *)

Definition slice_step (st : state) (items : list item) : result state :=
  let '(F, dropped) := st in
  let full := spread full_slice dropped items in                 (* array order *)
  match map2r slice_axis (rev (naxis F)) full with
  | Err e => Err e
  | Ok sels =>
      let sels_pix := rev sels in                                  (* pixel order *)
      Ok (mkFits (zip2 (fun c s => c - zq (fst (fst s))) (crpix F) sels_pix)
                 (cdelt F) (pc F)
                 (map (fun s => snd (fst s)) sels_pix),
          map (fun db => orb (fst db) (snd db)) (combine dropped (map snd sels)))
  end.

(* ---- _resample_fitswcs, factor / offset in pixel order, one per kept axis ------------------------- *)
Definition round_half_even (q : Q) : Z :=
  let f := Qfloor q in let d := q - inject_Z f in
  if Qlt_le_dec d (1 # 2) then f else if Qlt_le_dec (1 # 2) d then (f + 1)%Z else if Z.even f then f else (f + 1)%Z.

Definition resample_fits (F : fits) (f o : qvec) : fits :=
  mkFits (zip3 (fun c f o => (c + f - 1 - o) / f) (crpix F) f o)
         (zip2 Qmult (cdelt F) f)
         (zip2 (fun row fi => zip2 (fun pcij fj => pcij * fj / fi) row f) (pc F) f)
         (zip2 (fun n f => round_half_even (zq n / f)) (naxis F) f).

Definition resample_step (st : state) (f o : qvec) : result state :=
  let '(F, dropped) := st in
  let dp := rev dropped in                                         (* WCS order *)
  let nkept := length (filter negb dp) in
  if Nat.eqb (length f) nkept && Nat.eqb (length o) nkept then
    Ok (resample_fits F (spread 1 dp f) (spread 0 dp o), dropped)
  else Err EValue.

Inductive step := USlice (items : list item) | UResample (f o : qvec).

Definition do_step (st : state) (s : step) : result state :=
  match s with USlice its => slice_step st its | UResample f o => resample_step st f o end.

Fixpoint unwrap (st : state) (steps : list step) : result state :=
  match steps with
  | [] => Ok st
  | s :: r => match do_step st s with Ok st' => unwrap st' r | Err e => Err e end
  end.

(* ---- what the wrapper chain does to a pixel: per-axis affine maps, full-length vectors in pixel
        order with 0 at the positions of dropped (length-1 placeholder) axes ---------------------- *)
Definition affine (ab : list (Q * Q)) (p : qvec) : qvec := zip2 (fun x ab => fst ab * x + snd ab) p ab.
