(* Model of NDCollection (ndcollection.py) and utils/collection.py:_update_aligned_axes.
   A member is (key, shape, aligned axes); keys are numbered.  Definitions only. *)
From NDV Require Export M_Slicing M_Sequence.

(* mseq: the member is an NDCubeSequence; its shape is (number of cubes, cube shape ...), axis 0 the sequence axis *)
Record member := mkM { mkey : Z; mshape : list Z; mal : list Z; mseq : bool }.
Record coll := mkColl { members : list member; aligned : bool }.   (* aligned = false: aligned_axes is None *)

(* ---- _update_aligned_axes (after the repair: the index array is copied per member) ------------- *)
Definition dec_above (v x : Z) : Z := if v <? x then x - 1 else x.
Fixpoint zremove_nth (n : nat) (l : list Z) : list Z :=
  match n, l with
  | _, [] => []
  | O, _ :: t => t
  | S m, h :: t => h :: zremove_nth m t
  end.

(* one member: for each dropped aligned index d (ascending as built): delete entry d, lower the
   larger axis numbers, lower the remaining indices *)
Fixpoint upd_axes_fuel (fuel : nat) (axes : list Z) (drops : list Z) : list Z :=
  match fuel, drops with
  | S f, d :: ds =>
      let da := znth d axes 0 in
      upd_axes_fuel f (map (dec_above da) (zremove_nth (Z.to_nat d) axes)) (map (dec_above d) ds)
  | _, _ => axes
  end.
Definition upd_axes (axes drops : list Z) : list Z := upd_axes_fuel (length drops) axes drops.

Definition update_aligned_axes (drops : list Z) (ms : list member) : option (list (list Z)) :=
  match drops with
  | [] => Some (map mal ms)
  | _ => match ms with
         | [] => Some []
         | m0 :: _ => if Nat.eqb (length drops) (length (mal m0)) then None
                      else Some (map (fun m => upd_axes (mal m) drops) ms)
         end
  end.

(* ---- numeric slicing ----------------------------------------------------------------------------- *)
Fixpoint zset_nth {A} (n : nat) (x : A) (l : list A) : list A :=
  match n, l with
  | _, [] => []
  | O, _ :: t => x :: t
  | S m, h :: t => h :: zset_nth m x t
  end.

(* place items[i] at the member's i-th aligned axis, whole-axis slices elsewhere *)
Fixpoint place (al : list Z) (its : list item) (acc : list item) : list item :=
  match al, its with
  | a :: al', it :: its' => place al' its' (zset_nth (Z.to_nat a) it acc)
  | _, _ => acc
  end.
Definition member_item (m : member) (its : list item) : list item :=
  place (mal m) its (repeat full_slice (length (mshape m))).

Fixpoint int_positions (i : Z) (its : list item) : list Z :=
  match its with
  | [] => []
  | it :: r => if is_int it then i :: int_positions (i + 1) r else int_positions (i + 1) r
  end.

Definition n_aligned (c : coll) : nat :=
  match members c with m :: _ => if aligned c then length (mal m) else O | [] => O end.

(* one member sliced with its item.  A cube with no dimension left has no WCS: cube slicing refuses it.  A sequence
   hands the first entry of the item to its list of cubes (an integer picks one cube: the result is that cube,
   sliced) and the rest to every cube, which refuse likewise when nothing would be left of them. *)
Definition slice_member (m : member) (its : list item) : result member :=
  match sliced_shape (mshape m) (member_item m its) with
  | Err e => Err e
  | Ok sh =>
      let still_seq := mseq m && negb (match member_item m its with it :: _ => is_int it | [] => false end) in
      match (if still_seq then tl sh else sh) with
      | [] => Err EValue
      | _ => Ok (mkM (mkey m) sh (mal m) still_seq)
      end
  end.

Definition coll_slice (c : coll) (its : list item) : result coll :=
  if negb (aligned c) then Err EIndex
  else if Nat.ltb (n_aligned c) (length its) then Err EIndex
  else
    match mapr (fun m => slice_member m its) (members c) with
    | Err e => Err e
    | Ok ms' =>
        match update_aligned_axes (int_positions 0 its) (members c) with
        | None => Ok (mkColl (map (fun m => mkM (mkey m) (mshape m) [] (mseq m)) ms') false)
        | Some als => Ok (mkColl (map (fun '(m, al) => mkM (mkey m) (mshape m) al (mseq m)) (combine ms' als)) true)
        end
    end.

(* ---- key edits ----------------------------------------------------------------------------------- *)
Definition find_member (k : Z) (ms : list member) : option member :=
  find (fun m => mkey m =? k) ms.

Definition coll_select (c : coll) (ks : list Z) : result coll :=
  match mapr (fun k => match find_member k (members c) with Some m => Ok m | None => Err EOther end) ks with
  | Ok ms => Ok (mkColl ms (aligned c))
  | Err e => Err e
  end.

Definition coll_remove (c : coll) (k : Z) : result coll :=
  match find_member k (members c) with
  | None => Err EOther                        (* KeyError *)
  | Some _ => Ok (mkColl (filter (fun m => negb (mkey m =? k)) (members c)) (aligned c))
  end.

Definition aligned_lens (m : member) : list Z := map (fun a => znth a (mshape m) 0) (mal m).

(* dict.update: replace in place if the key exists, else append *)
Fixpoint dict_put (ms : list member) (m : member) : list member :=
  match ms with
  | [] => [m]
  | h :: t => if mkey h =? mkey m then m :: t else h :: dict_put t m
  end.

(* update with already sanitised new members (their own mutual consistency is the constructor's check) *)
Definition coll_update (c : coll) (new : list member) (new_aligned : bool) : result coll :=
  match members c, new with
  | m0 :: _, n0 :: _ =>
      if Bool.eqb (aligned c) new_aligned then
        if aligned c then
          if Nat.eqb (length (mal m0)) (length (mal n0)) && list_eqb Z.eqb (aligned_lens m0) (aligned_lens n0)
          then Ok (mkColl (fold_left dict_put new (members c)) true)
          else Err EValue
        else Ok (mkColl (fold_left dict_put new (members c)) false)
      else Err EValue
  | _, _ => Err EOther
  end.

(* ---- invariant (boolean, also evaluated by the correspondence check on every reached state) ------ *)
Fixpoint nodupb (l : list Z) : bool :=
  match l with [] => true | x :: t => negb (existsb (Z.eqb x) t) && nodupb t end.

Definition member_ok (m : member) : bool :=
  nodupb (mal m) && forallb (fun a => (0 <=? a) && (a <? zlen (mshape m))) (mal m).

Definition inv (c : coll) : bool :=
  nodupb (map mkey (members c)) &&
  if aligned c then
    forallb member_ok (members c) &&
    match members c with
    | [] => true
    | m0 :: t => forallb (fun m => list_eqb Z.eqb (aligned_lens m) (aligned_lens m0)) t
    end
  else forallb (fun m => match mal m with [] => true | _ => false end) (members c).

(* what the renumbering must be: survivors in order, each lowered by the number of dropped axes below it *)
Fixpoint remove_positions (i : Z) (drops : list Z) (l : list Z) : list Z :=
  match l with
  | [] => []
  | x :: t => if existsb (Z.eqb i) drops then remove_positions (i + 1) drops t
              else x :: remove_positions (i + 1) drops t
  end.
Definition renumber_spec (axes drops : list Z) : list Z :=
  let dv := map (fun d => znth d axes 0) drops in
  map (fun x => x - zlen (filter (fun v => v <? x) dv)) (remove_positions 0 drops axes).
