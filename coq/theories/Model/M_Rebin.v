(* Model of NDCube.rebin (ndcube.py): bin-shape sanitation, refusals, the reshape-to-2N-dimensions
   reduction, mask handling.  Definitions only. *)
From NDV Require Export Shape.
From Coq Require Export QArith Qround Qabs.
Open Scope Z_scope.

(* np.rint: round half to even *)
Definition rint (q : Q) : Z :=
  let f := Qfloor q in
  let d := (q - inject_Z f)%Q in
  if Qlt_le_dec d (1 # 2) then f
  else if Qlt_le_dec (1 # 2) d then f + 1
  else if Z.even f then f else f + 1.

Inductive bin_input := BNums (l : list Q) | BQty (l : list Q) (pixel_unit : bool).

Definition sanitize_bins (b : bin_input) : result (list Z) :=
  match b with
  | BNums l => Ok (map rint l)
  | BQty l true => Ok (map rint l)
  | BQty _ false => Err EUnits
  end.

Inductive plan := PSelf | PBins (new_shape bins : list Z).

(* same_unit: no new unit was asked for (or it equals the cube's) *)
Definition rebin_plan_u (same_unit : bool) (shape bins : list Z) : result plan :=
  if negb (Nat.eqb (length bins) (length shape)) then Err EValue
  else if forallb (Z.eqb 1) bins && same_unit then Ok PSelf
  else if existsb (fun sb => negb (fst sb mod snd sb =? 0)) (combine shape bins) then Err EValue
  else Ok (PBins (zip2z Z.div shape bins) bins).

Definition rebin_plan (shape bins : list Z) : result plan := rebin_plan_u true shape bins.

(* the members of output element j's block, read THROUGH the reshape:
   reshaped[(j0,r0,j1,r1,...)] is the element of x with the same flat (row-major) index *)
Definition rebin_block {A} (shape bins : list Z) (x : list Z -> A) (j : list Z) : list A :=
  let ms := zip2z Z.div shape bins in
  map (fun r => x (unravel shape (ravel (interleave ms bins) (interleave j r)))) (box bins).

(* what it must be: the inputs at positions j*b + r *)
Definition block_spec {A} (bins : list Z) (x : list Z -> A) (j : list Z) : list A :=
  map (fun r => x (zip3z (fun j b r => j * b + r) j bins r)) (box bins).

(* ---- reductions on a block: elements are (value or NaN, masked?) ------------------------------- *)
Definition elem := (option Q * bool)%type.
Inductive opk := OSum | OMean | OMin | OMax | OProd | ONanSum | ONanMean.

Definition qsum (l : list Q) : Q := fold_right Qplus 0%Q l.
Definition qprod (l : list Q) : Q := fold_right Qmult 1%Q l.
Definition qmin_l (l : list Q) : option Q :=
  match l with [] => None | x :: t => Some (fold_right (fun a b => if Qle_bool a b then a else b) x t) end.
Definition qmax_l (l : list Q) : option Q :=
  match l with [] => None | x :: t => Some (fold_right (fun a b => if Qle_bool a b then b else a) x t) end.

Definition vals_of (l : list (option Q)) : list Q := flat_map (fun o => match o with Some q => [q] | None => [] end) l.
Definition has_nan (l : list (option Q)) : bool := existsb (fun o => match o with None => true | _ => false end) l.

(* result: None = every member masked (value unspecified); Some None = NaN; Some (Some q) *)
Definition reduce (op : opk) (use_mask : bool) (block : list elem) : option (option Q) :=
  let members := map fst (filter (fun e => negb (use_mask && snd e)) block) in
  match members with
  | [] => None
  | _ =>
    let vs := vals_of members in
    let n := inject_Z (zlen vs) in
    match op with
    | ONanSum => Some (Some (qsum vs))
    | ONanMean => match vs with [] => Some None | _ => Some (Some (qsum vs / n)%Q) end
    | _ => if has_nan members then Some None
           else match op with
                | OSum => Some (Some (qsum vs))
                | OMean => Some (Some (qsum vs / n)%Q)
                | OProd => Some (Some (qprod vs))
                | OMin => Some (qmin_l vs)
                | _ => Some (qmax_l vs)
                end
    end
  end.

Inductive mask_in := MNone | MScalar (b : bool) | MArray.
Inductive handle := HAll | HAny | HNone.
Inductive mask_out := MoNone | MoScalar (b : bool) | MoArray (l : list bool).

Definition use_mask_of (m : mask_in) (ignores : bool) : bool :=
  match m with MNone | MScalar false => false | _ => negb ignores end.
Definition masked_at (m : mask_in) (marr : list Z -> bool) (idx : list Z) : bool :=
  match m with MNone => false | MScalar b => b | MArray => marr idx end.

Definition rebin_values (op : opk) (ignores : bool) (m : mask_in) (shape bins : list Z)
           (x : list Z -> option Q) (marr : list Z -> bool) : list (option (option Q)) :=
  let ms := zip2z Z.div shape bins in
  map (fun j => reduce op (use_mask_of m ignores)
                       (rebin_block shape bins (fun idx => (x idx, masked_at m marr idx)) j)) (box ms).

Definition rebin_mask (h : handle) (m : mask_in) (shape bins : list Z) (marr : list Z -> bool) : mask_out :=
  match h, m with
  | HNone, _ => MoNone
  | _, MNone => MoNone
  | _, MScalar b => MoScalar b
  | HAll, MArray => MoArray (map (fun j => forallb (fun b => b) (rebin_block shape bins marr j)) (box (zip2z Z.div shape bins)))
  | HAny, MArray => MoArray (map (fun j => existsb (fun b => b) (rebin_block shape bins marr j)) (box (zip2z Z.div shape bins)))
  end.

(* flat arrangement handed to the uncertainty propagation function: axis 0 enumerates block members *)
Definition flat_block {A} (shape bins : list Z) (x : list Z -> A) (k : Z) (j : list Z) : A :=
  let ms := zip2z Z.div shape bins in
  x (unravel shape (ravel (interleave ms bins) (interleave j (unravel bins k)))).
