(* Model of NDCubeSequence.common_axis_coords / sequence_axis_coords (ndcube_sequence.py) and of
   utils/wcs.py: array_indices_for_world_objects.  Definitions only.
   A coordinate object is the list of its component arrays (shape, row-major values); every cube of the sequence
   has the same coordinate structure (corr : world x pixel, comps : object id per world axis) and its own W, shape. *)
From NDV Require Export M_WorldCoords M_IndexAsCube.
Open Scope Z_scope.

Definition arr := (list Z * list Q)%type.
Definition remove_at {A} (k : nat) (l : list A) : list A := firstn k l ++ skipn (S k) l.
Definition insert_at {A} (k : nat) (x : A) (l : list A) : list A := firstn k l ++ x :: skipn k l.

(* numpy: a[:, .., i, .., :] with the integer at dimension ax *)
Definition take_at (ax : nat) (i : Z) (a : arr) : arr :=
  let sh' := remove_at ax (fst a) in
  (sh', map (fun e => nth (Z.to_nat (ravel (fst a) (insert_at ax i e))) (snd a) 0%Q) (box sh')).

Fixpoint zrange_from (fuel : nat) (s : Z) : list Z := match fuel with O => [] | S f => s :: zrange_from f (s + 1) end.
Definition zrange (n : Z) : list Z := zrange_from (Z.to_nat n) 0.

(* the loop "for i in range(coord.shape[axis]): item[axis] = i; exploded.append(coord[item])" *)
Definition coord_shape (c : list arr) : list Z := match c with a :: _ => fst a | [] => [] end.
Definition explode (ax : nat) (c : list arr) : list (list arr) :=
  map (fun i => map (take_at ax i) c) (zrange (nth ax (coord_shape c) 0)).

Fixpoint index_of (x : nat) (l : list nat) : option nat :=
  match l with
  | [] => None
  | y :: r => if Nat.eqb x y then Some O else match index_of x r with Some k => Some (S k) | None => None end
  end.

Section Structure.
Variables (corr : list (list bool)) (comps : list Z) (n : nat).

Definition comp_of (w : nat) : Z := nth w comps (-1).
Definition obj_ws (o : Z) : list nat := filter (fun w => comp_of w =? o) (seq 0 (length corr)).
Definition first_occ (w : nat) : bool := negb (existsb (fun w' => comp_of w' =? comp_of w) (seq 0 w)).

(* array_indices_for_world_objects(wcs, axes): a slot per world axis, filled at the FIRST occurrence of the object
   name by the array axes of the LAST selected world axis of that object; empty slots are dropped *)
Definition is_nil {A} (l : list A) : bool := match l with [] => true | _ => false end.
Definition mapping (ws : list nat) : list (list nat) :=
  filter (fun l => negb (is_nil l))
    (map (fun w0 => if first_occ w0
                    then match rev (filter (fun w => comp_of w =? comp_of w0) ws) with
                         | w :: _ => world_axes corr n w
                         | [] => []
                         end
                    else [])
         (seq 0 (length corr))).

(* cube.axis_world_coords(common_axis, wcs=combined_wcs): objects in order of first selected occurrence, each with
   all its components *)
Definition cube_coords (W : list Q -> list Q) (shape : list Z) (ws : list nat) : list (list arr) :=
  map (fun o => map (world_array W corr shape false) (obj_ws o)) (objects_for comps ws).

(* per coordinate index: mappings[cube][idx] must exist (IndexError) and contain the common axis ([0][0] IndexError) *)
Fixpoint explode_all (ca : nat) (coords : list (list arr)) (maps : list (list nat)) : result (list (list (list arr))) :=
  match coords with
  | [] => Ok []
  | c :: cs => match maps with
               | [] => Err EIndex
               | m :: ms => match index_of ca m with
                            | None => Err EIndex
                            | Some ax => match explode_all ca cs ms with
                                         | Ok r => Ok (explode ax c :: r)
                                         | Err e => Err e
                                         end
                            end
               end
  end.

Definition cube_common (ca : Z) (W : list Q -> list Q) (shape : list Z) : result (list (list (list arr))) :=
  match world_indices corr [] n [AInt ca] with
  | Err e => Err e
  | Ok ws => explode_all (Z.to_nat ca) (cube_coords W shape ws) (mapping ws)
  end.

(* the sequence: coordinate idx ranges over the coordinates of the FIRST cube; entries are concatenated in cube order *)
Definition seq_common (ca : Z) (cubes : list ((list Q -> list Q) * list Z)) : result (list (list (list arr))) :=
  match mapr (fun c => cube_common ca (fst c) (snd c)) cubes with
  | Err e => Err e
  | Ok rs => match rs with
             | [] => Err EIndex
             | r0 :: _ => Ok (map (fun k => concat (map (fun r => nth k r []) rs)) (seq 0 (length r0)))
             end
  end.
End Structure.

(* ---- sequence_axis_coords: names in every cube's global coords -> per-cube values in sequence order ---------- *)
Section Global.
Context {V : Type}.
Definition gc := list (string * V).
Fixpoint gc_get (g : gc) (name : string) : option V :=
  match g with [] => None | (k, v) :: r => if String.eqb k name then Some v else gc_get r name end.
Definition gc_has (g : gc) (name : string) : bool := match gc_get g name with Some _ => true | None => false end.
Definition seq_axis_coords (cubes : list gc) : list (string * list (option V)) :=
  match cubes with
  | [] => []                      (* set.intersection() of nothing raises TypeError: not modelled (1-4 cubes) *)
  | g0 :: _ => map (fun name => (name, map (fun g => gc_get g name) cubes))
                   (filter (fun name => forallb (fun g => gc_has g name) cubes) (map fst g0))
  end.
End Global.
