(* Models of ndcube.wcs.wrappers: ResampledLowLevelWCS, ReorderedLowLevelWCS, CompoundLowLevelWCS over an
   abstract inner low-level WCS (a record of functions on rational vectors).  Definitions only. *)
From NDV Require Export Prelude.
From Coq Require Export QArith Qabs.
Open Scope Q_scope.

Definition qvec := list Q.
Definition veq (u v : qvec) : Prop := Forall2 Qeq u v.

Record wcs := mkWcs {
  npix : nat; nworld : nat;
  p2w : qvec -> qvec; w2p : qvec -> qvec;
  wtypes : list Z;                     (* one identifier per world axis (stands for type/unit/name/components) *)
  ptypes : list Z;                     (* one identifier per pixel axis (pixel axis names) *)
  corr : list (list bool);             (* world x pixel *)
  pshape : option (list Q);
  pbounds : option (list (Q * Q)) }.

Fixpoint zip3 {A B C D} (f : A -> B -> C -> D) (a : list A) (b : list B) (c : list C) : list D :=
  match a, b, c with
  | x :: a', y :: b', z :: c' => f x y z :: zip3 f a' b' c'
  | _, _, _ => []
  end.
Fixpoint zip2 {A B C} (f : A -> B -> C) (a : list A) (b : list B) : list C :=
  match a, b with
  | x :: a', y :: b' => f x y :: zip2 f a' b'
  | _, _ => []
  end.

(* ---------- ResampledLowLevelWCS ---------------------------------------------------------------- *)
Definition scale (f o p : qvec) : qvec := zip3 (fun p f o => p * f + o) p f o.
Definition unscale (f o u : qvec) : qvec := zip3 (fun u f o => (u - o) / f) u f o.

Definition resampled (W : wcs) (f o : qvec) : result wcs :=
  if Nat.eqb (length f) (npix W) && Nat.eqb (length o) (npix W) then
    Ok (mkWcs (npix W) (nworld W)
              (fun p => p2w W (scale f o p))
              (fun w => unscale f o (w2p W w))
              (wtypes W) (ptypes W) (corr W)
              (option_map (fun s => zip2 Qdiv s f) (pshape W))
              (option_map (fun bs => zip3 (fun b f o => ((fst b - o) / f, (snd b - o) / f)) bs f o) (pbounds W)))
  else Err EValue.

(* ---------- ReorderedLowLevelWCS ---------------------------------------------------------------- *)
Definition permute {A} (d : A) (order : list nat) (l : list A) : list A := map (fun i => nth i l d) order.

Fixpoint index_of (k : nat) (l : list nat) : nat :=
  match l with
  | [] => O
  | x :: t => if Nat.eqb x k then O else S (index_of k t)
  end.
(* np.argsort of a permutation is its inverse *)
Definition inv_perm (order : list nat) : list nat := map (fun k => index_of k order) (seq 0 (length order)).
(* sorted(order) == list(range(n)) *)
Definition is_perm_b (n : nat) (order : list nat) : bool :=
  Nat.eqb (length order) n && forallb (fun k => existsb (Nat.eqb k) order) (seq 0 n).

Definition reordered (W : wcs) (po wo : list nat) : result wcs :=
  if is_perm_b (npix W) po && is_perm_b (nworld W) wo then
    Ok (mkWcs (npix W) (nworld W)
              (fun ps => permute 0 wo (p2w W (permute 0 (inv_perm po) ps)))
              (fun ws => permute 0 po (w2p W (permute 0 (inv_perm wo) ws)))
              (permute 0%Z wo (wtypes W)) (permute 0%Z po (ptypes W))
              (map (fun row => permute false po row) (permute [] wo (corr W)))
              (option_map (permute 0 po) (pshape W))
              (option_map (permute (0, 0) po) (pbounds W)))
  else Err EValue.

(* ---------- CompoundLowLevelWCS ----------------------------------------------------------------- *)
Definition n_inputs (mapping : list nat) : nat := S (fold_right Nat.max O mapping).

Fixpoint comp_p2w (ws : list wcs) (routed : qvec) : qvec :=
  match ws with
  | [] => []
  | w :: r => p2w w (firstn (npix w) routed) ++ comp_p2w r (skipn (npix w) routed)
  end.
Fixpoint comp_w2p_all (ws : list wcs) (world : qvec) : qvec :=
  match ws with
  | [] => []
  | w :: r => w2p w (firstn (nworld w) world) ++ comp_w2p_all r (skipn (nworld w) world)
  end.

(* Mapping.inverse: for every input axis the FIRST slot mapped to it *)
Definition mapping_inverse (mapping : list nat) : list nat :=
  map (fun k => index_of k mapping) (seq 0 (n_inputs mapping)).

Definition qclose (atol a b : Q) : bool := Qle_bool (Qabs (a - b)) atol.

(* all slots mapped to the same pixel axis must agree (the repaired check) *)
Definition slots_consistent (atol : Q) (mapping : list nat) (pix : qvec) : bool :=
  forallb (fun i => forallb (fun j =>
      if Nat.eqb (nth i mapping O) (nth j mapping O) then qclose atol (nth i pix 0) (nth j pix 0) else true)
    (seq 0 (length mapping))) (seq 0 (length mapping)).

Definition total_npix (ws : list wcs) : nat := fold_right (fun w acc => (npix w + acc)%nat) O ws.
Definition total_nworld (ws : list wcs) : nat := fold_right (fun w acc => (nworld w + acc)%nat) O ws.

Definition compound_p2w (ws : list wcs) (mapping : list nat) (ps : qvec) : qvec :=
  comp_p2w ws (permute 0 mapping ps).
Definition compound_w2p (ws : list wcs) (mapping : list nat) (atol : Q) (world : qvec) : result qvec :=
  let pix := comp_w2p_all ws world in
  if slots_consistent atol mapping pix then Ok (permute 0 (mapping_inverse mapping) pix) else Err EValue.

Definition all_some {A} (l : list (option A)) : option (list A) :=
  fold_right (fun o acc => match o, acc with Some x, Some r => Some (x :: r) | _, _ => None end) (Some []) l.

(* shapes / bounds of shared axes must agree exactly, else construction is refused *)
Definition shared_agree {A} (eqb : A -> A -> bool) (d : A) (mapping : list nat) (vals : list A) : bool :=
  let out := permute d (mapping_inverse mapping) vals in
  forallb (fun i => eqb (nth (nth i mapping O) out d) (nth i vals d)) (seq 0 (length mapping)).

Definition qpair_eqb (a b : Q * Q) : bool := Qeq_bool (fst a) (fst b) && Qeq_bool (snd a) (snd b).

Definition compound_corr (ws : list wcs) (mapping : list nat) : list (list bool) :=
  (* block-diagonal full matrix, then OR of the slots mapped to each pixel axis *)
  let fix rows (ws : list wcs) (before : nat) : list (list bool) :=
    match ws with
    | [] => []
    | w :: r => map (fun row => repeat false before ++ row ++ repeat false (total_npix r)) (corr w)
                ++ rows r (before + npix w)%nat
    end in
  map (fun row => map (fun ix => existsb (fun i => Nat.eqb (nth i mapping O) ix && nth i row false)
                                         (seq 0 (length mapping)))
                      (seq 0 (n_inputs mapping)))
      (rows ws O).

Definition compound (ws : list wcs) (mapping : list nat) : result wcs :=
  if negb (Nat.eqb (length mapping) (total_npix ws)) then Err EValue
  else
    let shapes := option_map (@concat Q) (all_some (map pshape ws)) in
    let bounds := option_map (@concat (Q * Q)) (all_some (map pbounds ws)) in
    if match shapes with Some s => shared_agree Qeq_bool 0 mapping s | None => true end
       && match bounds with Some b => shared_agree qpair_eqb (0, 0) mapping b | None => true end
    then Ok (mkWcs (n_inputs mapping) (total_nworld ws)
                   (compound_p2w ws mapping)
                   (fun world => match compound_w2p ws mapping (1 # 100000000) world with Ok p => p | Err _ => [] end)
                   (concat (map wtypes ws)) (permute 0%Z (mapping_inverse mapping) (concat (map ptypes ws)))
                   (compound_corr ws mapping)
                   (option_map (permute 0 (mapping_inverse mapping)) shapes)
                   (option_map (permute (0, 0) (mapping_inverse mapping)) bounds))
    else Err EValue.

(* ---------- executable linear probe WCS: world = A p + b, pixel = Ainv (w - b) -------------------- *)
Definition dot (u v : qvec) : Q := fold_right Qplus 0 (zip2 Qmult u v).
Definition matvec (A : list qvec) (v : qvec) : qvec := map (fun row => dot row v) A.
Definition lin_wcs (A Ainv : list qvec) (b : qvec) (tw tp : list Z)
           (shape : option (list Q)) (bounds : option (list (Q * Q))) : wcs :=
  mkWcs (length Ainv) (length A)
        (fun p => zip2 Qplus (matvec A p) b)
        (fun w => matvec Ainv (zip2 Qminus w b))
        tw tp
        (map (fun row => map (fun x => negb (Qeq_bool x 0)) row) A)
        shape bounds.

(* array_axis_physical_types: for every array axis (in array order) the physical types of the world axes
   correlated with it, in world order *)
Definition array_axis_types (corr : list (list bool)) (types : list Z) (n : nat) : list (list Z) :=
  rev (map (fun p => map (fun w => nth w types 0%Z) (filter (fun w => nth p (nth w corr []) false) (seq 0 (length corr))))
           (seq 0 n)).

