(* Model of ndcube/extra_coords/table_coord.py: the WCS a lookup-table coordinate stands for (Tabular models with
   points at the integer pixels, linear method, NaN fill; Quantity / Time / SkyCoord tables, meshed or not, joined
   with &), its inverse on monotonic tables, __getitem__, interpolate, and ExtraCoords.resample's sampling grid.
   astropy's Tabular1D / np.interp are dependencies (tab_eval, np_interp).  Definitions only. *)
From NDV Require Export M_Resample PyIndex.
Open Scope Q_scope.

(* np.interp(x, arange(n), t): linear inside, the end values outside *)
Definition np_interp (t : list Q) (x : Q) : Q :=
  let n := Z.of_nat (length t) in
  if Qle_bool x 0 then nth 0 t 0
  else if Qle_bool (inject_Z (n - 1)) x then nth (Z.to_nat (n - 1)) t 0
  else let i := Qfloor x in
       let a := nth (Z.to_nat i) t 0 in let b := nth (Z.to_nat (i + 1)) t 0 in
       a + (x - inject_Z i) * (b - a).

(* the inverse of a 1-D table (astropy: a Tabular1D with points and lookup_table exchanged; defined for strictly
   monotonic tables only): the pixel of the first segment that contains w *)
Definition between (a b w : Q) : bool := (Qle_bool a w && Qle_bool w b) || (Qle_bool b w && Qle_bool w a).
Fixpoint seg_inv (t : list Q) (i : Z) (w : Q) : option Q :=
  match t with
  | a :: ((b :: _) as r) =>
      if between a b w then (if Qeq_bool a b then Some (inject_Z i) else Some (inject_Z i + (w - a) / (b - a)))
      else seg_inv r (i + 1)%Z w
  | _ => None
  end.
Definition tab_inv (t : list Q) (w : Q) : option Q :=
  match t with
  | [a] => if Qeq_bool w a then Some 0 else None          (* Length1Tabular: the one entry maps back to pixel 0 *)
  | _ => seg_inv t 0 w
  end.
Fixpoint strictly_inc (t : list Q) : Prop :=
  match t with a :: ((b :: _) as r) => a < b /\ strictly_inc r | _ => True end.
Fixpoint strictly_dec (t : list Q) : Prop :=
  match t with a :: ((b :: _) as r) => b < a /\ strictly_dec r | _ => True end.

(* ---- one table coordinate ----------------------------------------------------------------------------------------- *)
Inductive tcoord :=
| TQuantity (tables : list (list Q))       (* meshed: table k on the coordinate's pixel dimension k *)
| TTime (deltas : list Q)                  (* seconds from the reference time *)
| TSky (mesh : bool) (lon lat : list Q).   (* 1-D SkyCoord; mesh = false: both components on one pixel dimension,
                                              mesh = true: lon on dimension 0, lat on dimension 1 *)

Definition pix_dims (c : tcoord) : nat :=
  match c with TQuantity ts => length ts | TTime _ => 1 | TSky m _ _ => if m then 2 else 1 end%nat.
Definition world_dims (c : tcoord) : nat :=
  match c with TQuantity ts => length ts | TTime _ => 1 | TSky _ _ _ => 2 end%nat.

Definition tc_p2w (c : tcoord) (pix : list Q) : list (option Q) :=
  match c with
  | TQuantity ts => map (fun '(t, x) => tab_eval t x) (combine ts pix)
  | TTime d => [tab_eval d (nth 0 pix 0)]
  | TSky false lon lat => [tab_eval lon (nth 0 pix 0); tab_eval lat (nth 0 pix 0)]
  | TSky true lon lat => [tab_eval lon (nth 0 pix 0); tab_eval lat (nth 1 pix 0)]
  end.

(* joined coordinates: pixel and world dimensions are concatenated in order *)
Fixpoint tc_p2w_multi (cs : list tcoord) (pix : list Q) : list (option Q) :=
  match cs with
  | [] => []
  | c :: r => tc_p2w c (firstn (pix_dims c) pix) ++ tc_p2w_multi r (skipn (pix_dims c) pix)
  end.

Definition tc_w2p (c : tcoord) (w : list Q) : list (option Q) :=
  match c with
  | TQuantity ts => map (fun '(t, x) => tab_inv t x) (combine ts w)
  | TTime d => [tab_inv d (nth 0 w 0)]
  | TSky false lon lat => [tab_inv lon (nth 0 w 0)]         (* the first component decides *)
  | TSky true lon lat => [tab_inv lon (nth 0 w 0); tab_inv lat (nth 1 w 0)]
  end.

(* ---- __getitem__ on one 1-D table: numpy basic indexing ----------------------------------------------------------- *)
Definition slice_tab (t : list Q) (it : item) : result (list Q + Q) :=
  let n := Z.of_nat (length t) in
  match it with
  | IInt i => match norm_int n i with Some j => Ok (inr (nth (Z.to_nat j) t 0)) | None => Err EIndex end
  | ISlice a b st => match slice_positions n a b st with
                     | Some ps => Ok (inl (map (fun p => nth (Z.to_nat p) t 0) ps))
                     | None => Err EValue
                     end
  | _ => Err EIndex
  end.

(* ---- interpolate: the tables np.interp gives at the grid positions ----------------------------------------------- *)
Definition interp_tab (t : list Q) (grid : list Q) : list Q := map (np_interp t) grid.
Definition interpolate (c : tcoord) (grids : list (list Q)) : tcoord :=
  match c with
  | TQuantity ts => TQuantity (map (fun '(t, g) => interp_tab t g) (combine ts grids))
  | TTime d => TTime (interp_tab d (nth 0 grids []))
  | TSky false lon lat => TSky false (interp_tab lon (nth 0 grids [])) (interp_tab lat (nth 0 grids []))
  | TSky true lon lat => TSky true (interp_tab lon (nth 0 grids [])) (interp_tab lat (nth 1 grids []))
  end.
Fixpoint interpolate_multi (cs : list tcoord) (grids : list (list Q)) : list tcoord :=
  match cs with
  | [] => []
  | c :: r => interpolate c (firstn (pix_dims c) grids) :: interpolate_multi r (skipn (pix_dims c) grids)
  end.

(* ---- ExtraCoords.resample(factor, offset) of a table on an axis of length d -------------------------------------- *)
Definition resample_tab (t : list Q) (c d f : Q) : list Q := interp_tab t (resample_grid c d f).
