(* Model of ExtraCoords._getitem_lookup_tables / mapping (extra_coords.py) and of the table
   coordinates' own slicing (table_coord.py), after the repairs (lists instead of sets; only the axes
   that survive are renumbered).  Definitions only. *)
From NDV Require Export M_Slicing Shape.
From Coq Require Export QArith Qabs.
Open Scope Z_scope.

Inductive tkind :=
| KJoint      (* every component depends on all the table's axes: Quantity / Time / SkyCoord arrays *)
| KSep.       (* component i depends on the table's i-th axis only: multi-Quantity tables *)

Record table := mkT {
  tid : Z;
  tkind_ : tkind;
  taxes : list Z;                 (* array axes of the cube the table is attached to *)
  tlens : list Z;                 (* its length along each of them *)
  tnames : list Z;                (* one identifier per world component (name and physical type) *)
  tvals : list (list Q) }.        (* per component: KJoint row-major over tlens; KSep 1-D along its own axis *)

Record ec := mkEc { tables : list table; dropped : list table }.

(* n_dropped_dims[ax] = number of integer items at positions <= ax *)
Definition n_dropped (items : list item) (ax : Z) : Z := zlen (filter is_int (firstn (Z.to_nat ax + 1) items)).
Definition item_at (items : list item) (ax : Z) : item := nth (Z.to_nat ax) items full_slice.

(* numpy selection of a row-major flat list of shape lens by per-axis (start, len, dropped) *)
Definition select_box {A} (d : A) (lens : list Z) (sels : list (Z * Z * bool)) (vals : list A) : list A :=
  map (fun k => nth (Z.to_nat (ravel lens (src_index sels k))) vals d) (box (sels_shape sels)).

Definition sel_axis (n : Z) (it : item) : result (Z * Z * bool) := np_axis_sel n it.

Fixpoint keep_where {A} (keep : list bool) (l : list A) : list A :=
  match keep, l with
  | k :: ks, x :: xs => if k then x :: keep_where ks xs else keep_where ks xs
  | _, _ => []
  end.

Fixpoint sep_comps (lens : list Z) (sels : list (Z * Z * bool)) (vals : list (list Q)) : list (list Q) :=
  match lens, sels, vals with
  | n :: ls, s :: ss, v :: vs => select_box 0%Q [n] [s] v :: sep_comps ls ss vs
  | _, _, _ => []
  end.

(* slice one table with the items of its own axes: (the table if it is still attached to some axis,
   the coordinates that stopped being axis-attached, as dropped pseudo-tables holding one value each) *)
Definition slice_table (items : list item) (t : table) : result (option table * list table) :=
  let its := map (item_at items) (taxes t) in
  match map2r sel_axis (tlens t) its with
  | Err e => Err e
  | Ok sels =>
      let surv := map (fun it => negb (is_int it)) its in
      let gone := map is_int its in
      let new_axes := map (fun ax => ax - n_dropped items ax) (keep_where surv (taxes t)) in
      let new_lens := sels_shape sels in
      match tkind_ t with
      | KJoint =>
          let t' := mkT (tid t) KJoint new_axes new_lens (tnames t)
                        (map (select_box 0%Q (tlens t) sels) (tvals t)) in
          if forallb is_int its then Ok (None, [t']) else Ok (Some t', [])
      | KSep =>
          let comps := sep_comps (tlens t) sels (tvals t) in
          let t' := mkT (tid t) KSep new_axes new_lens (keep_where surv (tnames t)) (keep_where surv comps) in
          let d' := mkT (tid t) KSep [] [] (keep_where gone (tnames t)) (keep_where gone comps) in
          if forallb is_int its then Ok (None, [d'])
          else Ok (Some t', if existsb is_int its then [d'] else [])
      end
  end.

Definition opt_list {A} (o : option A) : list A := match o with Some x => [x] | None => [] end.

Definition ec_getitem (items : list item) (e : ec) : result ec :=
  match mapr (slice_table items) (tables e) with
  | Err er => Err er
  | Ok l => Ok (mkEc (flat_map (fun r => opt_list (fst r)) l) (dropped e ++ flat_map snd l))
  end.

(* ExtraCoords.mapping: array axes reflected to pixel axes, tables in order *)
Definition ec_mapping (nd : Z) (e : ec) : list Z :=
  flat_map (fun t => map (fun a => nd - 1 - a) (taxes t)) (tables e).
Definition ec_names (e : ec) : list Z := flat_map tnames (tables e).
