(* Model of NDCubeSequence._get_sequence_crop_item (ndcube_sequence.py) after the repair (per-cube items
   asked with keepdims=True, open bounds read against the cube's shape).  Definitions only. *)
From NDV Require Export M_Crop.
Open Scope Z_scope.

(* slice.indices(len)[:2] of a step-1 slice *)
Definition item_range (len : Z) (it : item) : result (Z * Z) :=
  match it with
  | ISlice a b _ => Ok (slice_bounds len a b)
  | _ => Err EAttr
  end.

Fixpoint col_min (l : list (list Z)) : list Z :=
  match l with
  | [] => []
  | [r] => r
  | r :: rest => zip2 Z.min r (col_min rest)
  end.
Fixpoint col_max (l : list (list Z)) : list Z :=
  match l with
  | [] => []
  | [r] => r
  | r :: rest => zip2 Z.max r (col_max rest)
  end.

(* per cube: its shape and the item its own crop would use (keepdims) *)
Definition seq_crop_item (cubes : list (list Z * list item)) : result (list item) :=
  match mapr (fun c => map2r item_range (fst c) (snd c)) cubes with
  | Err e => Err e
  | Ok ranges =>
      let starts := col_min (map (map fst) ranges) in
      let stops := col_max (map (map snd) ranges) in
      Ok (ISlice (Some 0) (Some (zlen cubes)) None
          :: zip2 (fun a b => ISlice (Some a) (Some b) None) starts stops)
  end.
