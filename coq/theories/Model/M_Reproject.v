(* Model of NDCube.reproject_to (ndcube.py): the decision logic (algorithm table, 2-D celestial requirement,
   physical-type comparison, shape_out resolution), the attributes of the result, and - for targets that are the
   source grid shifted by whole pixels - where every target element takes its value from.
   The regridding itself is the `reproject` package (a dependency): on coinciding grids it returns the source value at
   the coinciding pixel, and no value / footprint 0 where the source has no pixel.  Definitions only. *)
From NDV Require Export Shape.
From Coq Require Export QArith.
Open Scope Z_scope.

Inductive alg := AInterp | AAdaptive | AExact | AUnknown.
Record target := mkT { t_pix : nat; t_world : nat; t_celestial : bool; t_types : list string; t_shape : option (list Z) }.

Definition needs_celestial (a : alg) : bool := match a with AAdaptive | AExact => true | _ => false end.
Definition types_eqb (a b : list string) : bool := list_eqb String.eqb a b.

(* Ok (output shape) or ValueError *)
Definition decide (src_types : list string) (a : alg) (t : target) (shape_out : option (list Z)) : result (list Z) :=
  match a with
  | AUnknown => Err EValue
  | _ =>
      if needs_celestial a && negb (Nat.eqb (t_pix t) 2 && Nat.eqb (t_world t) 2) then Err EValue
      else if needs_celestial a && negb (t_celestial t) then Err EValue
      else if negb (types_eqb src_types (t_types t)) then Err EValue
      else match shape_out with
           | Some (x :: s) => Ok (x :: s)                 (* "if not shape_out": None and () fall through *)
           | _ => match t_shape t with Some s => Ok s | None => Err EValue end
           end
  end.

(* ---- targets that are the source grid shifted by whole pixels --------------------------------------------------- *)
Fixpoint in_boxb (shape idx : list Z) : bool :=
  match shape, idx with
  | [], [] => true
  | s :: ss, i :: is_ => (0 <=? i) && (i <? s) && in_boxb ss is_
  | _, _ => false
  end.

(* shift (array order): target element t lies on source element t + shift *)
Definition regrid_shift (src_shape out_shape shift : list Z) (data : list Q) : list (option Q) :=
  map (fun t => let sidx := zip2z Z.add t shift in
                if in_boxb src_shape sidx then Some (nth (Z.to_nat (ravel src_shape sidx)) data 0%Q) else None)
      (box out_shape).
Definition footprint (r : list (option Q)) : list Z := map (fun o => match o with Some _ => 1 | None => 0 end) r.

(* a separable linear FITS description per pixel axis: world = crval + cdelt * (p + 1 - crpix) *)
Definition lin_world (crval cdelt crpix p : Q) : Q := (crval + cdelt * (p + 1 - crpix))%Q.

(* what the result carries *)
Record attrs := mkA { a_unit : Z; a_meta : Z; a_global : Z; a_wcs : Z }.     (* opaque tokens *)
Definition result_attrs (src : attrs) (target_wcs : Z) : attrs := mkA (a_unit src) (a_meta src) (a_global src) target_wcs.
