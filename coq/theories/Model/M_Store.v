(* Model for C07: objects are records of references into a store of mutable cells (arrays, dictionaries, coordinate
   descriptions).  Deriving an object builds a new record whose fields either SHARE the source's cell (a numpy view,
   the same dict / WCS / coordinate object) or are FRESH cells; a derive step writes to no existing cell.  The table
   sig_of records, per public operation, which fields the implementation shares and which it builds afresh.
   Definitions only. *)
From NDV Require Export Prelude.
Open Scope Z_scope.

Inductive field := FData | FMask | FUnc | FMeta | FWcs | FExtra | FTables | FGlobal | FGlobalDict.
Definition field_eqb (a b : field) : bool :=
  match a, b with
  | FData, FData | FMask, FMask | FUnc, FUnc | FMeta, FMeta | FWcs, FWcs | FExtra, FExtra | FTables, FTables
  | FGlobal, FGlobal | FGlobalDict, FGlobalDict => true
  | _, _ => false
  end.
Inductive mode := Share | Fresh.
Definition mode_eqb (a b : mode) : bool := match a, b with Share, Share | Fresh, Fresh => true | _, _ => false end.

Definition loc := nat.
Definition obj := list (field * loc).
Record state := mkS { heap : list Z; objs : list obj }.

Fixpoint get_loc (o : obj) (f : field) : option loc :=
  match o with [] => None | (g, l) :: r => if field_eqb f g then Some l else get_loc r f end.

(* build the new record: shared fields point to the source's cell, fresh ones to cells appended to the store *)
Fixpoint build (sg : list (field * mode)) (src : obj) (next : nat) : obj * nat :=
  match sg with
  | [] => ([], next)
  | (f, Share) :: r => match get_loc src f with
                       | Some l => let '(o, n) := build r src next in ((f, l) :: o, n)
                       | None => build r src next
                       end
  | (f, Fresh) :: r => let '(o, n) := build r src (S next) in ((f, next) :: o, n)
  end.

(* a derive step: allocates, never writes to an existing cell; new cells get the contents given *)
Definition derive (sg : list (field * mode)) (k : nat) (fresh_contents : list Z) (st : state) : state :=
  let src := nth k (objs st) [] in
  let '(o, n) := build sg src (length (heap st)) in
  mkS (heap st ++ firstn (n - length (heap st)) (fresh_contents ++ repeat 0 (n - length (heap st)))) (objs st ++ [o]).

(* the user writes into field f of object k *)
Fixpoint set_nth (l : list Z) (i : nat) (v : Z) : list Z :=
  match l, i with [], _ => [] | _ :: r, O => v :: r | x :: r, S j => x :: set_nth r j v end.
Definition write (k : nat) (f : field) (v : Z) (st : state) : state :=
  match get_loc (nth k (objs st) []) f with
  | Some l => mkS (set_nth (heap st) l v) (objs st)
  | None => st
  end.

(* everything one can observe of object k: the contents of the cells its fields refer to *)
Definition observe (k : nat) (st : state) : list (field * Z) :=
  map (fun '(f, l) => (f, nth l (heap st) 0)) (nth k (objs st) []).

Inductive step := SDerive (sg : list (field * mode)) (k : nat) (contents : list Z) | SQuery (k : nat).
Definition run_step (s : step) (st : state) : state :=
  match s with SDerive sg k c => derive sg k c st | SQuery _ => st end.
Definition run (steps : list step) (st : state) : state := fold_left (fun st s => run_step s st) steps st.

Definition wf (st : state) : Prop := Forall (fun o => Forall (fun fl => (snd fl < length (heap st))%nat) o) (objs st).

(* ---- what each public operation of the implementation shares with its source ------------------------------------ *)
Inductive opk := KSlice | KCrop | KSqueeze | KExplodeMember | KRebin | KArith | KReproject.
Definition sig_of (k : opk) : list (field * mode) :=
  match k with
  | KSlice | KCrop | KSqueeze =>        (* numpy views of the payload, the same meta dict; new coordinate objects *)
      [(FData, Share); (FMask, Share); (FUnc, Share); (FMeta, Share); (FWcs, Fresh); (FExtra, Fresh); (FTables, Fresh);
       (FGlobal, Fresh); (FGlobalDict, Fresh)]
  | KExplodeMember =>
      [(FData, Share); (FMask, Share); (FUnc, Share); (FMeta, Fresh); (FWcs, Fresh); (FExtra, Fresh); (FTables, Fresh);
       (FGlobal, Fresh); (FGlobalDict, Fresh)]
  | KRebin =>
      [(FData, Fresh); (FMask, Fresh); (FUnc, Fresh); (FMeta, Share); (FWcs, Fresh); (FExtra, Fresh); (FTables, Fresh);
       (FGlobal, Fresh); (FGlobalDict, Fresh)]
  | KArith | KReproject =>
      [(FData, Fresh); (FMask, Fresh); (FUnc, Fresh); (FMeta, Fresh); (FWcs, Fresh); (FExtra, Fresh); (FTables, Fresh);
       (FGlobal, Fresh); (FGlobalDict, Fresh)]
  end.
Definition mode_of (sg : list (field * mode)) (f : field) : option mode :=
  match filter (fun fm => field_eqb f (fst fm)) sg with (_, m) :: _ => Some m | [] => None end.
