#!/bin/bash
# usage: dbg.sh theories/X/F.v LINE  -- shows the goal after LINE (scratch file, never part of the build)
f=$1; n=$2
d=$(mktemp -d /var/tmp/ndvdbg.XXXX)
head -n $n $f > $d/Dbg.v
echo "Show. " >> $d/Dbg.v
cd /verif/coq && timeout 120 coqc -Q theories NDV -w -notation-overridden $d/Dbg.v 2>&1 | grep -v conda | tail -${3:-40}
rm -rf $d
