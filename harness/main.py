"""Driver of /verif/check: rebuild the Coq development, re-check the property's proof obligations,
run the correspondence check (implementation in /repo's working tree vs the Gallina model evaluated
by coqc/vm_compute), classify every case, write evidence, print the verdict.

Exit codes: 0 property held on everything explored (KNOWN-FINDING lines allowed);
            1 VIOLATION line printed; 2 harness / model error (no verdict)."""
import concurrent.futures as cf
import fcntl
import glob
import hashlib
import importlib
import json
import os
import random
import re
import shutil
import subprocess
import sys
import time

ROOT = "/verif"
COQ = ROOT + "/coq"
NPROC = min(16, os.cpu_count() or 4)
CHUNK = 400

FORBIDDEN = re.compile(
    r"\b(Admitted|admit|Axiom|Axioms|Parameter|Parameters|Conjecture|Conjectures|Unset\s+Guard\s+Checking|"
    r"Admit\s+Obligations|bypass_check|native_compute)\b|type-in-type|impredicative-set|"
    r"Unset\s+Universe\s+Checking|Unset\s+Positivity\s+Checking")


def log(*a):
    print(*a, flush=True)


def strip_comments(src):
    out, depth, i = [], 0, 0
    while i < len(src):
        if src.startswith("(*", i):
            depth += 1
            i += 2
        elif src.startswith("*)", i) and depth:
            depth -= 1
            i += 2
        else:
            if depth == 0:
                out.append(src[i])
            elif src[i] == "\n":
                out.append("\n")
            i += 1
    return "".join(out)


def hygiene():
    """refuse to claim anything if the development declares axioms, admits, or disables checks"""
    bad = []
    for f in sorted(glob.glob(COQ + "/theories/**/*.v", recursive=True)):
        src = strip_comments(open(f).read())
        depth = 0
        for n, line in enumerate(src.split("\n"), 1):
            m = FORBIDDEN.search(line)
            if m:
                bad.append(f"{f}:{n}: forbidden '{m.group(0)}'")
            if re.match(r"\s*(Section|Module)\s+\w+", line):
                depth += 1
            elif re.match(r"\s*End\s+\w+\s*\.", line):
                depth = max(0, depth - 1)
            elif depth == 0 and re.match(r"\s*(Variables?|Hypothes[ie]s|Context)\b", line):
                bad.append(f"{f}:{n}: Variable/Hypothesis/Context outside a Section")
    proj = open(COQ + "/_CoqProject").read()
    if re.search(r"type-in-type|impredicative-set|bypass", proj):
        bad.append("_CoqProject passes a forbidden flag")
    return bad


def build_coq():
    os.makedirs(ROOT + "/.work", exist_ok=True)
    with open(ROOT + "/.work/build.lock", "w") as lk:
        fcntl.flock(lk, fcntl.LOCK_EX)
        files = sorted(glob.glob(COQ + "/theories/**/*.v", recursive=True))
        rel = [os.path.relpath(f, COQ) for f in files]
        stamp = COQ + "/.files"
        cur = "\n".join(rel)
        if not os.path.exists(COQ + "/Makefile") or not os.path.exists(stamp) or open(stamp).read() != cur:
            subprocess.run(["coq_makefile", "-f", "_CoqProject", "-o", "Makefile"] + rel, cwd=COQ,
                           check=True, capture_output=True, timeout=120)
            open(stamp, "w").write(cur)
        p = subprocess.run(["timeout", "2400", "make", "-j%d" % NPROC], cwd=COQ, capture_output=True, text=True)
        return p.returncode == 0, p.stdout + p.stderr


def coqc(path, out_vo=None, timeout=900):
    cmd = ["timeout", str(timeout), "coqc", "-Q", COQ + "/theories", "NDV", "-w",
           "-notation-overridden,-deprecated-hint-without-locality,-deprecated-instance-without-locality"]
    if out_vo:
        cmd += ["-o", out_vo]
    cmd.append(path)
    p = subprocess.run(cmd, capture_output=True, text=True, cwd=os.path.dirname(path))
    return p.returncode, p.stdout, p.stderr


def check_props(pid, work, allowed_axioms):
    """re-run Props/<pid>.v; every property theorem must compile and be closed (or use allow-listed axioms)"""
    src_path = f"{COQ}/theories/Props/{pid}.v"
    src = strip_comments(open(src_path).read())
    stmts = re.findall(r"^\s*(Theorem|Example|Corollary)\s+(\w+)", src, re.M)
    theorems = [n for k, n in stmts if k != "Example"]
    printed = re.findall(r"Print\s+Assumptions\s+(\w+)\s*\.", src)
    os.makedirs(f"{work}/props", exist_ok=True)
    rc, out, errtxt = coqc(src_path, out_vo=f"{work}/props/{pid}.vo")
    info = {"file": src_path, "statements": [n for _, n in stmts], "obligations": len(stmts),
            "discharged": 0, "axioms": {}, "compile_ok": rc == 0, "missing_print_assumptions": [],
            "disallowed_axioms": []}
    if rc != 0:
        info["error"] = (errtxt or out)[-2000:]
        return info
    blocks = re.split(r"(?m)^(?=Closed under the global context|Axioms:)", out)
    blocks = [b for b in blocks if b.startswith("Closed under") or b.startswith("Axioms:")]
    if len(blocks) != len(printed):
        info["error"] = f"expected {len(printed)} Print Assumptions results, saw {len(blocks)}"
        return info
    for name, blk in zip(printed, blocks):
        if blk.startswith("Closed"):
            info["axioms"][name] = []
        else:
            ax = re.findall(r"(?m)^([A-Za-z_][\w.']*)\s*:", blk)
            info["axioms"][name] = ax
            for a in ax:
                if a not in allowed_axioms:
                    info["disallowed_axioms"].append(f"{name}:{a}")
    info["missing_print_assumptions"] = [t for t in theorems if t not in printed]
    if not info["disallowed_axioms"] and not info["missing_print_assumptions"]:
        info["discharged"] = len(stmts)
    lemma_count = 0
    for f in glob.glob(COQ + "/theories/**/*.v", recursive=True):
        lemma_count += len(re.findall(r"(?m)^\s*(Lemma|Theorem|Corollary|Fact)\s", strip_comments(open(f).read())))
    info["supporting_lemmas_in_development"] = lemma_count
    return info


def run_workers(modname, cases, work, per_case_timeout=120):
    """run the implementation on every case in parallel subprocesses; returns list of results"""
    n = len(cases)
    if n == 0:
        return []
    nchunks = min(NPROC, max(1, n // 8))
    chunks = [list(range(i, n, nchunks)) for i in range(nchunks)]
    procs = []
    env = dict(os.environ)
    env["PYTHONPATH"] = "/repo:" + ROOT
    env.setdefault("PYTHONHASHSEED", "0")
    env["NDCUBE_VERIF"] = "1"
    env["OMP_NUM_THREADS"] = env["OPENBLAS_NUM_THREADS"] = env["MKL_NUM_THREADS"] = "1"
    for k, idxs in enumerate(chunks):
        fin, fout = f"{work}/in_{k}.json", f"{work}/out_{k}.json"
        json.dump([cases[i] for i in idxs], open(fin, "w"))
        if os.path.exists(fout):
            os.remove(fout)
        p = subprocess.Popen([sys.executable, "-W", "ignore", "-m", "harness.worker", modname, fin, fout,
                              str(per_case_timeout)], cwd=ROOT, env=env,
                             stdout=subprocess.DEVNULL, stderr=open(f"{work}/worker_{k}.err", "w"))
        procs.append((p, idxs, fout))
    results = [None] * n
    for p, idxs, fout in procs:
        try:
            p.wait(timeout=max(600, per_case_timeout * 4 + len(idxs) * 2))
        except subprocess.TimeoutExpired:
            p.kill()
        got = []
        if os.path.exists(fout):
            try:
                got = json.load(open(fout))
            except Exception:
                got = []
        for j, i in enumerate(idxs):
            results[i] = got[j] if j < len(got) else {"crash": "worker died or timed out before this case"}
    return results


def run_coq_cases(mod, cases, results, work):
    """write cases_k.v files, evaluate classify by vm_compute, return {case index: code}"""
    idxs = [i for i, r in enumerate(results) if "crash" not in r]
    files = []
    for k in range(0, len(idxs), CHUNK):
        part = idxs[k:k + CHUNK]
        path = f"{work}/cases_{k // CHUNK}.v"
        with open(path, "w") as f:
            f.write(f"From NDV Require Import Prelude PyIndex {' '.join(getattr(mod, 'IMPORTS', []))} {mod.CORR}.\nOpen Scope Z_scope.\n")
            f.write(getattr(mod, "COQ_PREAMBLE", ""))
            f.write("Definition cases : list case := [\n")
            f.write(";\n".join(mod.coq_case(cases[i], results[i]) for i in part))
            f.write("\n].\nEval vm_compute in (classify dom agree cases).\n")
        files.append((path, part))

    def one(pf):
        path, part = pf
        rc, out, errtxt = coqc(path, timeout=1200)
        return path, part, rc, out, errtxt

    codes = {}
    with cf.ThreadPoolExecutor(NPROC) as ex:
        for path, part, rc, out, errtxt in ex.map(one, files):
            if rc != 0:
                raise RuntimeError(f"coqc failed on {path}: {(errtxt or out)[-1500:]}")
            m = re.search(r"=\s*(\[.*?\])\s*:\s*list", out, re.S)
            if not m:
                raise RuntimeError(f"cannot parse coqc output for {path}: {out[-500:]}")
            pair = r"\(\s*(\d+)(?:%Z)?\s*,\s*(\d+)(?:%Z)?\s*\)"
            for a, c in re.findall(pair, m.group(1)):
                codes[part[int(a)]] = int(c)
            if re.search(r"\d", re.sub(pair, "", m.group(1))):
                raise RuntimeError(f"unparsed residue in coqc output for {path}: {m.group(1)[:300]}")
    return codes


def load_findings(pid):
    path = ROOT + "/known_findings.json"
    if not os.path.exists(path):
        return {}
    out = {}
    for e in json.load(open(path)).get("findings", []):
        if e["property"] == pid and e.get("status", "open") == "open":
            out[e["key"]] = e
    return out


def write_replay(pid, payload):
    d = f"{ROOT}/replays/{pid}"
    os.makedirs(d, exist_ok=True)
    h = hashlib.sha1(json.dumps(payload, sort_keys=True, default=str).encode()).hexdigest()[:12]
    path = f"{d}/{h}.json"
    json.dump(payload, open(path, "w"), indent=1, default=str)
    return path


def main(argv):
    import argparse
    ap = argparse.ArgumentParser()
    ap.add_argument("pid")
    ap.add_argument("--tier", default=os.environ.get("VERIF_TIER", "quick"))
    ap.add_argument("--replay")
    ap.add_argument("--no-build", action="store_true")
    args = ap.parse_args(argv)
    pid, tier = args.pid.upper(), args.tier
    seed = int(os.environ.get("VERIF_SEED", "0"))
    t0 = time.time()
    work = f"{ROOT}/.work/{pid}"
    shutil.rmtree(work, ignore_errors=True)
    os.makedirs(work, exist_ok=True)
    mod = importlib.import_module(f"harness.props.{pid.lower()}")

    if args.replay:
        payload = json.load(open(args.replay))
        case = payload.get("case")
        if case is None:
            log(f"replay names no input: {payload.get('what')}")
            return 1
        res = run_workers(mod.__name__, [case], work)[0]
        log(json.dumps({"case": case, "result": res}, indent=1, default=str))
        ok = "crash" not in res and res["oracle"]["ok"]
        log("REPLAY: property holds on this input" if ok else f"REPLAY: property FAILS on this input")
        return 0 if ok else 1

    # A. rebuild + hygiene
    if not args.no_build:
        ok, blog = build_coq()
    else:
        ok, blog = True, ""
    bad = hygiene()
    if bad:
        log("HARNESS-ERROR: hygiene scan failed:\n" + "\n".join(bad))
        return 2
    build_broken = None
    if not ok:
        build_broken = blog[-3000:]
        log("coq build failed:\n" + build_broken)

    # B. proof obligations
    pinfo = check_props(pid, work, getattr(mod, "ALLOWED_AXIOMS", []))
    proofs_ok = pinfo["compile_ok"] and pinfo["discharged"] == pinfo["obligations"] and not build_broken
    log(f"[{pid}] proof obligations: {pinfo['discharged']}/{pinfo['obligations']} discharged"
        + ("" if proofs_ok else f"  BROKEN: {pinfo.get('error', '')[:800]} {pinfo['disallowed_axioms']} {pinfo['missing_print_assumptions']}"))

    # C. dependency-model suites
    for dep in getattr(mod, "DEPS", []):
        dm = importlib.import_module(f"harness.props.{dep}")
        dwork = f"{work}/dep_{dep}"
        os.makedirs(dwork, exist_ok=True)
        dcases = dm.gen("quick", random.Random(seed))
        dres = run_workers(dm.__name__, dcases, dwork)
        dcodes = run_coq_cases(dm, dcases, dres, dwork)
        crashed = [i for i, r in enumerate(dres) if "crash" in r]
        if dcodes or crashed:
            i = (sorted(dcodes) + crashed)[0]
            log(f"MODEL-ERROR: dependency model {dep} disagrees with the dependency on {len(dcodes) + len(crashed)} of "
                f"{len(dcases)} cases, e.g. {json.dumps(dcases[i])} -> {json.dumps(dres[i], default=str)[:500]}")
            return 2
        log(f"[{pid}] dependency model {dep}: {len(dcases)} cases agree")

    # D. correspondence
    rng = random.Random(seed)
    cases = []
    for f in sorted(glob.glob(f"{ROOT}/corpus/{pid}/*.json")):
        c = json.load(open(f))
        c["stratum"] = "corpus"
        cases.append(c)
    cases += mod.gen(tier, rng)
    seen, uniq = set(), []
    for c in cases:
        if c["key"] not in seen:
            seen.add(c["key"])
            uniq.append(c)
    n_generated = len(cases)
    cases = uniq
    tw = time.time()
    results = run_workers(mod.__name__, cases, work, getattr(mod, "CASE_TIMEOUT", 120))
    t_impl = time.time() - tw
    tc = time.time()
    try:
        codes = run_coq_cases(mod, cases, results, work)
    except RuntimeError as e:
        log(f"HARNESS-ERROR: {e}")
        return 2
    t_coq = time.time() - tc

    # E. classification
    findings = load_findings(pid)
    known_seen, oracle_viol, corr_broken, crashes = {}, [], [], []
    n_dom = n_outside = 0
    for i, (c, r) in enumerate(zip(cases, results)):
        if "crash" in r:
            crashes.append(i)
            continue
        code = codes.get(i, 0)
        in_dom, agree = code < 2, code % 2 == 0
        n_dom += in_dom
        n_outside += not in_dom
        orc = r["oracle"]
        if not orc["ok"]:
            k = orc.get("finding")
            if k is not None and k in findings:
                known_seen.setdefault(k, i)
            else:
                oracle_viol.append(i)
        elif in_dom and not agree:
            corr_broken.append(i)

    json.dump([{"case": cases[i].get("show", cases[i]), "out": results[i].get("out")} for i in corr_broken[:300]],
              open(f"{work}/disagree.json", "w"), default=str)
    json.dump([{"case": cases[i].get("show", cases[i]), "res": results[i]} for i in (oracle_viol + crashes)[:300]],
              open(f"{work}/oracle_fail.json", "w"), default=str)
    status, replay = "ok", None
    if oracle_viol or crashes:
        i = (oracle_viol + crashes)[0]
        replay = write_replay(pid, {"property": pid, "what": "direct oracle fails on the implementation",
                                    "case": cases[i], "result": results[i], "seed": seed, "tier": tier,
                                    "model_code": codes.get(i, 0), "n_failing": len(oracle_viol) + len(crashes),
                                    "reproduce": f"./check {pid} --replay <this file>"})
        status = "violation"
    elif corr_broken or not proofs_ok:
        what = []
        if not proofs_ok:
            what.append(f"proof obligations of Props/{pid}.v no longer check: " + json.dumps(
                {k: pinfo[k] for k in ("discharged", "obligations", "disallowed_axioms", "missing_print_assumptions")})
                + " " + pinfo.get("error", "")[:600] + (build_broken or "")[:600])
        if corr_broken:
            i = corr_broken[0]
            what.append(f"correspondence {mod.CORR}.agree fails on {len(corr_broken)} of {len(cases)} cases "
                        f"(stratum {cases[i].get('stratum')}) although the direct oracle accepts them")
        payload = {"property": pid, "what": "; ".join(what), "seed": seed, "tier": tier,
                   "theorems": pinfo["statements"], "correspondence": mod.CORR}
        if corr_broken:
            payload["disagreeing_case_not_a_property_failure"] = {"case": cases[corr_broken[0]],
                                                                  "result": results[corr_broken[0]]}
        replay = write_replay(pid, payload)
        status = "no-failing-input"

    # F. evidence
    nontriv = len({c["key"] for c in cases if c.get("nontrivial")})
    strata = {}
    for c in cases:
        strata[c.get("stratum", "?")] = strata.get(c.get("stratum", "?"), 0) + 1
    samples = [{"case": {k: v for k, v in cases[i].items()}, "impl": results[i].get("out")}
               for i in sorted(set([0, len(cases) // 3, len(cases) // 2, len(cases) - 1])) if cases]
    ev = {
        "property_id": pid, "tier": tier, "seed": seed, "level": "proof",
        "coverage": {
            "obligations": pinfo["obligations"], "discharged": pinfo["discharged"] if proofs_ok else min(pinfo["discharged"], max(0, pinfo["obligations"] - 1)),
            "checker_cmd": f"coqc -Q {COQ}/theories NDV {pinfo['file']}  (after make -C {COQ}; Print Assumptions under every theorem)",
            "trusted_base": ["Coq 8.16.1 kernel incl. bytecode VM (vm_compute); no native_compute",
                             "axioms per Print Assumptions: " + json.dumps(pinfo["axioms"]),
                             "hand-written Gallina model " + ", ".join(getattr(mod, "MODEL_FILES", [])) +
                             " tied to /repo by this run's correspondence check",
                             "dependency models: " + ", ".join(getattr(mod, "DEPS", []) or ["none"]),
                             "harness: generators, implementation runner, literal printer, direct oracle (/verif/harness)"]
                            + getattr(mod, "TRUSTED", []),
            "theorems": pinfo["statements"],
            "supporting_lemmas_in_development": pinfo.get("supporting_lemmas_in_development"),
            "evaluations": len(cases), "generated_before_dedup": n_generated,
            "distinct_nontrivial": nontriv,
            "rule": getattr(mod, "RULE", ""),
            "samples": samples,
            "programs": len(cases) - len(crashes), "disagreements_checked": len(corr_broken),
            "in_theorem_guard": n_dom, "outside_theorem_guard": n_outside,
            "strata": strata, "exhaustive": getattr(mod, "EXHAUSTIVE", {}).get(tier, False),
            "impl_wall_s": round(t_impl, 1), "coq_eval_wall_s": round(t_coq, 1),
            "known_findings_seen": sorted(known_seen),
        },
        "assumptions": getattr(mod, "ASSUMPTIONS", []),
        "wall_s": round(time.time() - t0, 1),
        "violations": len(oracle_viol) + len(crashes) + (1 if status == "no-failing-input" else 0),
    }
    os.makedirs(ROOT + "/evidence", exist_ok=True)
    json.dump(ev, open(f"{ROOT}/evidence/{pid}.json", "w"), indent=1, default=str)

    for k, i in sorted(known_seen.items()):
        log(f"KNOWN-FINDING: property={pid} {findings[k]['what']} [key={k}; e.g. {json.dumps(cases[i].get('show', cases[i]['key']))}]")
    log(f"[{pid}] tier={tier} seed={seed} cases={len(cases)} (nontrivial {nontriv}) in-guard={n_dom} outside={n_outside} "
        f"disagree={len(corr_broken)} oracle-fail={len(oracle_viol)} crashes={len(crashes)} known={len(known_seen)} "
        f"impl={t_impl:.0f}s coq={t_coq:.0f}s total={time.time() - t0:.0f}s")
    if status == "violation":
        i = (oracle_viol + crashes)[0]
        log(f"  failing input: {json.dumps(cases[i].get('show', cases[i]))[:600]}\n  -> {json.dumps(results[i], default=str)[:800]}")
        log(f"VIOLATION property={pid} replay={replay}")
        return 1
    if status == "no-failing-input":
        log(f"  {json.load(open(replay))['what'][:1500]}")
        if corr_broken:
            i = corr_broken[0]
            log(f"  disagreeing case: {json.dumps(cases[i].get('show', cases[i]))[:600]} -> {json.dumps(results[i].get('out'), default=str)[:600]}")
        log(f"VIOLATION property={pid} replay={replay} no-failing-input-found")
        return 1
    log(f"[{pid}] OK")
    return 0


if __name__ == "__main__":
    sys.exit(main(sys.argv[1:]))
