"""Builders shared by the property modules: cubes whose data encode (cube id, source flat index),
linear FITS WCS with exactly representable (dyadic) parameters.  Every case builds fresh objects."""
import numpy as np


def lin_wcs(n, shift=0, shape=None):
    from astropy.wcs import WCS
    w = WCS(naxis=n)
    w.wcs.ctype = ['WAVE', 'FREQ', 'TIME', 'VELO'][:n]
    w.wcs.cunit = ['m', 'Hz', 's', 'm/s'][:n]
    w.wcs.crpix = [1] * n
    w.wcs.cdelt = [2.0 ** k for k in range(n)]
    w.wcs.crval = [shift * 64 + 1024 * k for k in range(n)]
    w.wcs.set()
    if shape is not None:
        w.array_shape = tuple(shape)
    return w


def coded_cube(shape, cid=0, shift=None, **kw):
    """NDCube with data[idx] = cid*100000 + ravel(idx); world coords distinct per cube id"""
    from ndcube import NDCube
    n = int(np.prod(shape))
    data = (cid * 100000 + np.arange(n)).reshape(shape)
    return NDCube(data, wcs=lin_wcs(len(shape), cid if shift is None else shift), **kw)


def decode(v, shape):
    """-> (cube id, source index tuple)"""
    v = int(v)
    cid, flat = divmod(v, 100000)
    return cid, tuple(int(x) for x in np.unravel_index(flat, shape))


def exc_name(e):
    return type(e).__name__


# ---------------------------------------------------------------------------------------------
# WCS families
# ---------------------------------------------------------------------------------------------
def family_wcs(kind, nd, shape=None, unset=False):
    """WCS of a named family with nd pixel axes (pixel order = reverse array order)."""
    from astropy.wcs import WCS
    if kind == "lin":
        return lin_wcs(nd)
    if kind == "gwcs":
        # a lookup-table gWCS: one Quantity table per pixel axis (needs the array shape)
        import astropy.units as u
        from ndcube.extra_coords.table_coord import QuantityTableCoordinate
        tabs = [(np.arange(shape[nd - 1 - p]) * (p + 2.0) + 10 * p) * u.m for p in range(nd)]
        return QuantityTableCoordinate(*tabs, names=[f"t{p}" for p in range(nd)],
                                       physical_types=[f"custom:t{p}" for p in range(nd)]).wcs
    if kind == "wrapped":
        # an already wrapped WCS: a resampled linear FITS WCS behind a high-level wrapper
        from astropy.wcs.wcsapi import HighLevelWCSWrapper
        from ndcube.wcs.wrappers import ResampledLowLevelWCS
        return HighLevelWCSWrapper(ResampledLowLevelWCS(lin_wcs(nd), 2, 0.5))
    if kind in ("reordered", "reordered2"):
        # an already wrapped WCS: ndcube's reordering wrapper over the coupled celestial family, with a world order
        # that is NOT the inverse of the pixel order
        from ndcube.wcs.wrappers import ReorderedLowLevelWCS
        po, wo = _reorder_orders(kind, nd)
        return ReorderedLowLevelWCS(family_wcs("tan", nd), po, wo)
    if kind == "compound":
        # an already wrapped WCS: ndcube's compound wrapper whose FIRST member has 1 pixel and 2 world axes (an
        # integer-sliced celestial pair), followed by a separable member
        from astropy.wcs.wcsapi import SlicedLowLevelWCS
        from ndcube.wcs.wrappers import CompoundLowLevelWCS
        return CompoundLowLevelWCS(SlicedLowLevelWCS(family_wcs("tan", 2), [slice(None), 1]), lin_wcs(nd - 1))
    w = WCS(naxis=nd)
    if kind == "tan":          # coupled celestial pair on pixel axes 0,1 (+ WAVE, TIME)
        ct = ['HPLN-TAN', 'HPLT-TAN', 'WAVE', 'TIME'][:nd]
        cu = ['arcsec', 'arcsec', 'Angstrom', 's'][:nd]
        cd = [5.0, 20.0, 0.25, 2.0][:nd]
    elif kind == "tan_split":  # celestial pair on the first and last pixel axes
        ct = (['HPLN-TAN', 'WAVE', 'TIME'][:nd - 1] + ['HPLT-TAN'])
        cu = (['arcsec', 'Angstrom', 's'][:nd - 1] + ['arcsec'])
        cd = ([5.0, 0.25, 2.0][:nd - 1] + [20.0])
    elif kind == "rot":        # rotated PC coupling the first two (celestial) axes
        ct = ['HPLN-TAN', 'HPLT-TAN', 'TIME', 'WAVE'][:nd]
        cu = ['arcsec', 'arcsec', 's', 'Angstrom'][:nd]
        cd = [0.5, 0.5, 3.0, 0.25][:nd]
        pc = np.eye(nd)
        pc[0, 0], pc[0, 1], pc[1, 0], pc[1, 1] = 0.8, -0.6, 0.6, 0.8
        w.wcs.pc = pc
    else:
        raise ValueError(kind)
    w.wcs.ctype, w.wcs.cunit, w.wcs.cdelt = ct, cu, cd
    w.wcs.crpix = [2, 1, 1, 1][:nd]
    w.wcs.crval = [0, 0, 10, 0][:nd] if kind != "tan_split" else ([0, 10, 0][:nd - 1] + [0])
    w.wcs.dateref = "2020-01-01T00:00:00"
    if not unset:              # an unset FITS WCS still reports its units as given (arcsec), not as it evaluates (deg)
        w.wcs.set()
    return w


def _reorder_orders(kind, nd):
    if kind == "reordered":
        return list(range(1, nd)) + [0], list(range(nd))
    return list(range(nd))[::-1], [nd - 1] + list(range(nd - 1))


def family_corr(kind, nd):
    """The correlation matrix (world x pixel) of the wrapped families, stated from their construction and astropy's
    own FITS WCS - independent of ndcube's wrappers.  None for the other families."""
    if kind in ("reordered", "reordered2"):
        po, wo = _reorder_orders(kind, nd)
        base = np.asarray(family_wcs("tan", nd).axis_correlation_matrix)
        return base[wo][:, po]
    if kind == "compound":
        m = np.zeros((nd + 1, nd), dtype=bool)
        m[0, 0] = m[1, 0] = True
        for k in range(nd - 1):
            m[2 + k, 1 + k] = True
        return m
    return None


FAMILIES = {1: ["lin"], 2: ["lin", "tan", "rot"], 3: ["lin", "tan", "tan_split", "rot"],
            4: ["lin", "tan", "tan_split", "rot"]}


def lin_offsets(low_level_wcs, nd):
    """For a WCS derived from lin_wcs(nd) by slicing: per ARRAY axis (offset, dropped) as the sliced
    WCS applies them.  Uses world = crval + cdelt*pix per axis (exact: dyadic parameters)."""
    base = lin_wcs(nd)
    crval, cdelt = list(base.wcs.crval), list(base.wcs.cdelt)
    btypes = list(base.world_axis_physical_types)
    res = {}
    npix = low_level_wcs.pixel_n_dim
    w0 = low_level_wcs.pixel_to_world_values(*([0] * npix))
    w0 = [w0] if low_level_wcs.world_n_dim == 1 else list(w0)
    for t, v in zip(low_level_wcs.world_axis_physical_types, w0):
        k = btypes.index(t)
        res[k] = (round((float(v) - crval[k]) / cdelt[k]), False)
    dwd = getattr(low_level_wcs, "dropped_world_dimensions", None) or {}
    for t, v in zip(dwd.get("world_axis_physical_types", []), dwd.get("value", [])):
        k = btypes.index(t)
        res[k] = (round((float(v) - crval[k]) / cdelt[k]), True)
    # world axis k == pixel axis k == array axis nd-1-k
    return [list(res[nd - 1 - a]) if (nd - 1 - a) in res else None for a in range(nd)]


def wcs_lockstep_fail(orig, sliced, item, corr=None):
    """direct oracle: every surviving element reports, through the sliced cube's wcs, the world
    coordinates it had in the original cube.  Returns '' or a description."""
    shape = orig.data.shape
    nd = len(shape)
    item = tuple(item) + (slice(None),) * (nd - len(item))
    starts, dropped = [], []
    for n, it in zip(shape, item):
        if isinstance(it, slice):
            starts.append(it.indices(n)[0])
            dropped.append(False)
        else:
            starts.append(it + n if it < 0 else it)
            dropped.append(True)
    sshape = sliced.data.shape
    if int(np.prod(sshape)) == 0:
        return ""
    oll, sll = orig.wcs.low_level_wcs, sliced.wcs.low_level_wcs
    if sll.pixel_n_dim != len(sshape):
        return f"sliced wcs has {sll.pixel_n_dim} pixel axes for {len(sshape)} array axes"
    if sll.array_shape is not None and tuple(sll.array_shape) != tuple(sshape):
        return f"sliced wcs array_shape {sll.array_shape} != data shape {sshape}"
    grid = np.indices(sshape)
    spix = [grid[a] for a in range(len(sshape))][::-1]
    opix_arr, g = [], 0
    for a in range(nd):
        if dropped[a]:
            opix_arr.append(np.full(sshape, starts[a]))
        else:
            opix_arr.append(grid[g] + starts[a])
            g += 1
    opix = opix_arr[::-1]
    if corr is not None:      # (a 1-D FITS member of a compound WCS takes no N-D pixel arrays: an astropy restriction)
        spix, opix = [np.ravel(x) for x in spix], [np.ravel(x) for x in opix]
    ws = sll.pixel_to_world_values(*spix)
    wo = oll.pixel_to_world_values(*opix)
    ws = [ws] if sll.world_n_dim == 1 else list(ws)
    wo = [wo] if oll.world_n_dim == 1 else list(wo)
    if corr is None:
        corr = oll.axis_correlation_matrix
    elif not np.array_equal(np.asarray(oll.axis_correlation_matrix).astype(bool), corr):
        return f"the source wcs reports the correlation matrix {np.asarray(oll.axis_correlation_matrix).astype(int).tolist()}, by construction it is {corr.astype(int).tolist()}"
    kept_pix = [nd - 1 - a for a in range(nd) if not dropped[a]]
    keep_w = [w for w in range(oll.world_n_dim) if corr[w, kept_pix].any()]
    if len(keep_w) != len(ws):
        return f"sliced wcs has {len(ws)} world axes, expected {len(keep_w)}"
    for j, w in enumerate(keep_w):
        if not np.allclose(ws[j], wo[w], rtol=1e-9, atol=1e-9 * max(1.0, float(np.max(np.abs(wo[w]))))):
            bad = np.argwhere(~np.isclose(ws[j], wo[w], rtol=1e-9, atol=1e-12))[0]
            return (f"world axis {w}: element {tuple(int(x) for x in bad)} reports {float(ws[j][tuple(bad)])!r}, "
                    f"the source element had {float(wo[w][tuple(bad)])!r}")
    return ""


# ---------------------------------------------------------------------------------------------
# ProbeWCS: exactly representable linear low-level WCS, world = A @ pixel + b
# ---------------------------------------------------------------------------------------------
def make_probe(A, b, shape=None, bounds=None, tw=None, tp=None):
    from astropy.wcs.wcsapi import BaseLowLevelWCS
    import astropy.units as u
    from fractions import Fraction

    A = [[Fraction(x) for x in row] for row in A]
    n = len(A)
    # exact inverse by Gauss-Jordan over Fractions (A is square and invertible by construction)
    M = [row[:] + [Fraction(int(i == j)) for j in range(n)] for i, row in enumerate(A)]
    for c in range(n):
        piv = next(r for r in range(c, n) if M[r][c] != 0)
        M[c], M[piv] = M[piv], M[c]
        pv = M[c][c]
        M[c] = [x / pv for x in M[c]]
        for r in range(n):
            if r != c and M[r][c] != 0:
                f = M[r][c]
                M[r] = [x - f * y for x, y in zip(M[r], M[c])]
    Ainv = [row[n:] for row in M]

    class ProbeWCS(BaseLowLevelWCS):
        def __init__(self):
            self.A = np.array([[float(x) for x in r] for r in A])
            self.Ainv = np.array([[float(x) for x in r] for r in Ainv])
            self.b = np.array([float(x) for x in b])
            self.A_exact, self.Ainv_exact, self.b_exact = A, Ainv, [Fraction(x) for x in b]
            self._shape = None if shape is None else tuple(shape)      # pixel order
            self._bounds = None if bounds is None else [tuple(x) for x in bounds]
            self.tw = list(range(n)) if tw is None else list(tw)
            self.tp = list(range(n)) if tp is None else list(tp)

        pixel_n_dim = property(lambda self: n)
        world_n_dim = property(lambda self: n)
        world_axis_physical_types = property(lambda self: [f"custom:w{k}" for k in self.tw])
        world_axis_units = property(lambda self: ["m"] * n)
        world_axis_names = property(lambda self: [f"w{k}" for k in self.tw])
        pixel_axis_names = property(lambda self: [f"p{k}" for k in self.tp])
        pixel_shape = property(lambda self: self._shape)
        array_shape = property(lambda self: None if self._shape is None else self._shape[::-1])
        pixel_bounds = property(lambda self: self._bounds)
        axis_correlation_matrix = property(lambda self: self.A != 0)
        serialized_classes = False

        def pixel_to_world_values(self, *p):
            p = np.asarray(np.broadcast_arrays(*p), dtype=float)
            w = np.tensordot(self.A, p, axes=(1, 0)) + self.b.reshape((n,) + (1,) * (p.ndim - 1))
            return w[0] if n == 1 else tuple(w)

        def world_to_pixel_values(self, *w):
            w = np.asarray(np.broadcast_arrays(*w), dtype=float)
            p = np.tensordot(self.Ainv, w - self.b.reshape((n,) + (1,) * (w.ndim - 1)), axes=(1, 0))
            return p[0] if n == 1 else tuple(p)

        @property
        def world_axis_object_components(self):
            return [(f"w{k}", 0, "value") for k in self.tw]

        @property
        def world_axis_object_classes(self):
            return {f"w{k}": (u.Quantity, (), {"unit": u.m}) for k in self.tw}

    return ProbeWCS()


def rand_unimodular(rng, n, lower_only=False):
    """integer matrix with integer inverse: product of a unit lower and a unit upper triangular matrix"""
    L = np.eye(n, dtype=int)
    U = np.eye(n, dtype=int)
    for i in range(n):
        for j in range(i):
            L[i, j] = rng.choice([0, 0, 1, -1, 2])
            if not lower_only:
                U[j, i] = rng.choice([0, 0, 1, -1])
    return (L @ U).tolist()


# ---------------------------------------------------------------------------------------------
# rectangular probe WCS for C05/C06: world = A @ pixel + b, A integer (nworld x npix), optional
# grouping of world axes into multi-component objects
# ---------------------------------------------------------------------------------------------
class Pair:
    """a two-component high-level object (stands for SkyCoord-like classes)"""

    def __init__(self, x, y):
        self.x, self.y = x, y


def make_probe_rect(A, b, types, groups=None, shape=None):
    from astropy.wcs.wcsapi import BaseLowLevelWCS
    import astropy.units as u
    A = np.asarray(A, dtype=float)
    b_ = np.asarray(b, dtype=float)
    nw, npx = A.shape
    groups = list(range(nw)) if groups is None else list(groups)

    class ProbeRect(BaseLowLevelWCS):
        pixel_n_dim = property(lambda self: npx)
        world_n_dim = property(lambda self: nw)
        world_axis_physical_types = property(lambda self: list(types))
        world_axis_units = property(lambda self: ["m"] * nw)
        world_axis_names = property(lambda self: [""] * nw)
        pixel_shape = property(lambda self: None if shape is None else tuple(shape)[::-1])
        array_shape = property(lambda self: None if shape is None else tuple(shape))
        pixel_bounds = property(lambda self: None)
        axis_correlation_matrix = property(lambda self: A != 0)
        serialized_classes = False

        def pixel_to_world_values(self, *p):
            p = np.asarray(np.broadcast_arrays(*p), dtype=float)
            w = np.tensordot(A, p, axes=(1, 0)) + b_.reshape((nw,) + (1,) * (p.ndim - 1))
            return w[0] if nw == 1 else tuple(w)

        def world_to_pixel_values(self, *w):
            raise NotImplementedError

        @property
        def world_axis_object_components(self):
            out, seen = [], {}
            for k, g in enumerate(groups):
                if groups.count(g) == 1:
                    out.append((f"g{g}", 0, "value"))
                else:
                    pos = seen.get(g, 0)
                    seen[g] = pos + 1
                    out.append((f"g{g}", pos, "x" if pos == 0 else "y"))
            return out

        @property
        def world_axis_object_classes(self):
            d = {}
            for g in set(groups):
                d[f"g{g}"] = (u.Quantity, (), {"unit": u.m}) if groups.count(g) == 1 else (Pair, (), {})
            return d

    return ProbeRect()


def seq_with_ca(cubes, ca, key, **kw):
    """NDCubeSequence(cubes, common_axis=ca); every fourth one (by key) is given its common axis in the negative
    spelling (ca - ndim).  A constructor that refuses that spelling is fine too: then the plain one is used."""
    import zlib
    from ndcube import NDCubeSequence
    seq = None
    if ca is not None and zlib.crc32(("ca" + str(key)).encode()) % 4 == 0:
        try:
            seq = NDCubeSequence(cubes, common_axis=ca - cubes[0].data.ndim, **kw)
        except (ValueError, IndexError, TypeError):
            pass
    if seq is None:
        seq = NDCubeSequence(cubes, common_axis=ca, **kw)
    if zlib.crc32(("lineup" + str(key)).encode()) % 3 == 0 and isinstance(seq.data, list) and len(seq.data):
        # the sequence object has held ANOTHER line-up of cubes before and was used in that state; its list of cubes
        # was then edited in place: every later answer must describe the cubes held now
        final = list(seq.data)
        seq.data[:] = final[::-1] + final[:1]
        for f in (lambda: seq.shape, lambda: seq.cube_like_shape, lambda: seq.index_as_cube[0], lambda: seq[0:1],
                  lambda: seq.array_axis_physical_types, lambda: seq.cube_like_array_axis_physical_types,
                  lambda: seq.index_as_cube[1:], lambda: seq.common_axis_coords, lambda: seq.sequence_axis_coords):
            try:
                f()
            except Exception:  # noqa
                pass
        seq.data[:] = final
    return seq


def poke(obj, key=""):
    """Ask an object about itself (read-only public properties) before it is operated on, in every second case (by
    key): what it answers later, and what objects derived from it answer, must not depend on having been asked."""
    import zlib
    if zlib.crc32(("poke" + str(key)).encode()) % 2:
        return obj
    probes = ["shape", "wcs", "combined_wcs", "array_axis_physical_types", "cube_like_shape", "aligned_dimensions",
              "aligned_axis_physical_types", "quantity"]
    for name in probes:
        try:
            getattr(obj, name)
        except Exception:  # noqa
            pass
    for f in (lambda: str(obj), lambda: obj.extra_coords.mapping, lambda: obj.extra_coords.wcs,
              lambda: obj.extra_coords.keys(), lambda: dict(obj.global_coords.physical_types),
              lambda: list(obj.global_coords.keys()), lambda: obj.axis_world_coords_values(),
              lambda: obj.extra_coords.dropped_world_dimensions):
        try:
            f()
        except Exception:  # noqa
            pass
    return obj


def poke_wcs(w, key=""):
    """Read every APE-14 attribute of a (low-level) WCS before it is used, in every second case (by key)."""
    import zlib
    if zlib.crc32(("pokew" + str(key)).encode()) % 2:
        return w
    for name in ("pixel_n_dim", "world_n_dim", "array_shape", "pixel_shape", "pixel_bounds", "axis_correlation_matrix",
                 "world_axis_physical_types", "world_axis_units", "world_axis_names", "pixel_axis_names",
                 "world_axis_object_components", "world_axis_object_classes", "serialized_classes"):
        try:
            getattr(w, name)
        except Exception:  # noqa
            pass
    return w
