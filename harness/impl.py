"""Builders shared by the property modules: cubes whose data encode (cube id, source flat index),
linear FITS WCS with exactly representable (dyadic) parameters.  Every case builds fresh objects."""
import numpy as np


def lin_wcs(n, shift=0, shape=None):
    from astropy.wcs import WCS
    w = WCS(naxis=n)
    w.wcs.ctype = ['WAVE', 'FREQ', 'TIME', 'VELO'][:n]
    w.wcs.cunit = ['m', 'Hz', 's', 'm/s'][:n]
    w.wcs.crpix = [1] * n
    w.wcs.cdelt = [2.0 ** k for k in range(n)]
    w.wcs.crval = [shift * 64 + 1024 * k for k in range(n)]
    w.wcs.set()
    if shape is not None:
        w.array_shape = tuple(shape)
    return w


def coded_cube(shape, cid=0, shift=None, **kw):
    """NDCube with data[idx] = cid*100000 + ravel(idx); world coords distinct per cube id"""
    from ndcube import NDCube
    n = int(np.prod(shape))
    data = (cid * 100000 + np.arange(n)).reshape(shape)
    return NDCube(data, wcs=lin_wcs(len(shape), cid if shift is None else shift), **kw)


def decode(v, shape):
    """-> (cube id, source index tuple)"""
    v = int(v)
    cid, flat = divmod(v, 100000)
    return cid, tuple(int(x) for x in np.unravel_index(flat, shape))


def exc_name(e):
    return type(e).__name__


# ---------------------------------------------------------------------------------------------
# WCS families
# ---------------------------------------------------------------------------------------------
def family_wcs(kind, nd):
    """FITS WCS of a named family with nd pixel axes (pixel order = reverse array order)."""
    from astropy.wcs import WCS
    if kind == "lin":
        return lin_wcs(nd)
    w = WCS(naxis=nd)
    if kind == "tan":          # coupled celestial pair on pixel axes 0,1 (+ WAVE, TIME)
        ct = ['HPLN-TAN', 'HPLT-TAN', 'WAVE', 'TIME'][:nd]
        cu = ['arcsec', 'arcsec', 'Angstrom', 's'][:nd]
        cd = [5.0, 20.0, 0.25, 2.0][:nd]
    elif kind == "tan_split":  # celestial pair on the first and last pixel axes
        ct = (['HPLN-TAN', 'WAVE', 'TIME'][:nd - 1] + ['HPLT-TAN'])
        cu = (['arcsec', 'Angstrom', 's'][:nd - 1] + ['arcsec'])
        cd = ([5.0, 0.25, 2.0][:nd - 1] + [20.0])
    elif kind == "rot":        # rotated PC coupling the first two (celestial) axes
        ct = ['HPLN-TAN', 'HPLT-TAN', 'TIME', 'WAVE'][:nd]
        cu = ['arcsec', 'arcsec', 's', 'Angstrom'][:nd]
        cd = [0.5, 0.5, 3.0, 0.25][:nd]
        pc = np.eye(nd)
        pc[0, 0], pc[0, 1], pc[1, 0], pc[1, 1] = 0.8, -0.6, 0.6, 0.8
        w.wcs.pc = pc
    else:
        raise ValueError(kind)
    w.wcs.ctype, w.wcs.cunit, w.wcs.cdelt = ct, cu, cd
    w.wcs.crpix = [2, 1, 1, 1][:nd]
    w.wcs.crval = [0, 0, 10, 0][:nd] if kind != "tan_split" else ([0, 10, 0][:nd - 1] + [0])
    w.wcs.dateref = "2020-01-01T00:00:00"
    w.wcs.set()
    return w


FAMILIES = {1: ["lin"], 2: ["lin", "tan", "rot"], 3: ["lin", "tan", "tan_split", "rot"],
            4: ["lin", "tan", "tan_split", "rot"]}


def lin_offsets(low_level_wcs, nd):
    """For a WCS derived from lin_wcs(nd) by slicing: per ARRAY axis (offset, dropped) as the sliced
    WCS applies them.  Uses world = crval + cdelt*pix per axis (exact: dyadic parameters)."""
    base = lin_wcs(nd)
    crval, cdelt = list(base.wcs.crval), list(base.wcs.cdelt)
    btypes = list(base.world_axis_physical_types)
    res = {}
    npix = low_level_wcs.pixel_n_dim
    w0 = low_level_wcs.pixel_to_world_values(*([0] * npix))
    w0 = [w0] if low_level_wcs.world_n_dim == 1 else list(w0)
    for t, v in zip(low_level_wcs.world_axis_physical_types, w0):
        k = btypes.index(t)
        res[k] = (round((float(v) - crval[k]) / cdelt[k]), False)
    dwd = getattr(low_level_wcs, "dropped_world_dimensions", None) or {}
    for t, v in zip(dwd.get("world_axis_physical_types", []), dwd.get("value", [])):
        k = btypes.index(t)
        res[k] = (round((float(v) - crval[k]) / cdelt[k]), True)
    # world axis k == pixel axis k == array axis nd-1-k
    return [list(res[nd - 1 - a]) if (nd - 1 - a) in res else None for a in range(nd)]


def wcs_lockstep_fail(orig, sliced, item):
    """direct oracle: every surviving element reports, through the sliced cube's wcs, the world
    coordinates it had in the original cube.  Returns '' or a description."""
    shape = orig.data.shape
    nd = len(shape)
    item = tuple(item) + (slice(None),) * (nd - len(item))
    starts, dropped = [], []
    for n, it in zip(shape, item):
        if isinstance(it, slice):
            starts.append(it.indices(n)[0])
            dropped.append(False)
        else:
            starts.append(it + n if it < 0 else it)
            dropped.append(True)
    sshape = sliced.data.shape
    if int(np.prod(sshape)) == 0:
        return ""
    oll, sll = orig.wcs.low_level_wcs, sliced.wcs.low_level_wcs
    if sll.pixel_n_dim != len(sshape):
        return f"sliced wcs has {sll.pixel_n_dim} pixel axes for {len(sshape)} array axes"
    if sll.array_shape is not None and tuple(sll.array_shape) != tuple(sshape):
        return f"sliced wcs array_shape {sll.array_shape} != data shape {sshape}"
    grid = np.indices(sshape)
    spix = [grid[a] for a in range(len(sshape))][::-1]
    opix_arr, g = [], 0
    for a in range(nd):
        if dropped[a]:
            opix_arr.append(np.full(sshape, starts[a]))
        else:
            opix_arr.append(grid[g] + starts[a])
            g += 1
    opix = opix_arr[::-1]
    ws = sll.pixel_to_world_values(*spix)
    wo = oll.pixel_to_world_values(*opix)
    ws = [ws] if sll.world_n_dim == 1 else list(ws)
    wo = [wo] if oll.world_n_dim == 1 else list(wo)
    corr = oll.axis_correlation_matrix
    kept_pix = [nd - 1 - a for a in range(nd) if not dropped[a]]
    keep_w = [w for w in range(oll.world_n_dim) if corr[w, kept_pix].any()]
    if len(keep_w) != len(ws):
        return f"sliced wcs has {len(ws)} world axes, expected {len(keep_w)}"
    for j, w in enumerate(keep_w):
        if not np.allclose(ws[j], wo[w], rtol=1e-9, atol=1e-9 * max(1.0, float(np.max(np.abs(wo[w]))))):
            bad = np.argwhere(~np.isclose(ws[j], wo[w], rtol=1e-9, atol=1e-12))[0]
            return (f"world axis {w}: element {tuple(int(x) for x in bad)} reports {float(ws[j][tuple(bad)])!r}, "
                    f"the source element had {float(wo[w][tuple(bad)])!r}")
    return ""
