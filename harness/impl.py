"""Builders shared by the property modules: cubes whose data encode (cube id, source flat index),
linear FITS WCS with exactly representable (dyadic) parameters.  Every case builds fresh objects."""
import numpy as np


def lin_wcs(n, shift=0, shape=None):
    from astropy.wcs import WCS
    w = WCS(naxis=n)
    w.wcs.ctype = ['WAVE', 'FREQ', 'TIME', 'VELO'][:n]
    w.wcs.cunit = ['m', 'Hz', 's', 'm/s'][:n]
    w.wcs.crpix = [1] * n
    w.wcs.cdelt = [2.0 ** k for k in range(n)]
    w.wcs.crval = [shift * 64 + 1024 * k for k in range(n)]
    w.wcs.set()
    if shape is not None:
        w.array_shape = tuple(shape)
    return w


def coded_cube(shape, cid=0, shift=None, **kw):
    """NDCube with data[idx] = cid*100000 + ravel(idx); world coords distinct per cube id"""
    from ndcube import NDCube
    n = int(np.prod(shape))
    data = (cid * 100000 + np.arange(n)).reshape(shape)
    return NDCube(data, wcs=lin_wcs(len(shape), cid if shift is None else shift), **kw)


def decode(v, shape):
    """-> (cube id, source index tuple)"""
    v = int(v)
    cid, flat = divmod(v, 100000)
    return cid, tuple(int(x) for x in np.unravel_index(flat, shape))


def exc_name(e):
    return type(e).__name__
