"""C06 — combined_wcs and array_axis_physical_types truthfully describe the cube."""
from fractions import Fraction as Fr
import numpy as np
from harness import coqio as Q
from harness.impl import poke, make_probe, rand_unimodular, exc_name
from harness.props import c14

CORR = "C06_corr"
IMPORTS = ["M_Wrappers", "C14_corr"]
COQ_PREAMBLE = "Open Scope Q_scope.\n"
MODEL_FILES = ["Model/M_Wrappers.v"]
RULE = ("cases = (cube of 1-4 dims over an exactly invertible integer linear probe WCS, 0-4 strictly monotonic linear "
        "lookup-table extra coords in every axis assignment incl. several on one axis and none, observed plain, after a "
        "range slice and after a rebin; pixel positions on grid points and at k/4 offsets between them); sampled with the "
        "run's seed; distinct by key; non-trivial = >= 1 extra coordinate")
ASSUMPTIONS = ["lookup tables are linear (value = slope*index + intercept, slope != 0) so that the Gallina twin lin_wcs is exact and invertible",
               "exactness of the members' correlation matrices holds by construction for probe WCS and lookup tables; "
               "multi-axis tables are not generated"]


def gen(tier, rng):
    cases = []
    n = 1200 if tier == "quick" else 20000
    for _ in range(n):
        nd = rng.choice([1, 2, 2, 3, 3, 4])
        shape = [rng.choice([4, 6, 8]) for _ in range(nd)]
        A = rand_unimodular(rng, nd)
        b = [rng.randrange(-3, 4) for _ in range(nd)]
        tabs = []
        for t in range(rng.choice([0, 1, 1, 2, 3, 4])):
            tabs.append([rng.randrange(nd), rng.choice([1, 2, -1, 3, Fr(1, 2)]), rng.randrange(0, 9)])
        tabs = [[a, [Fr(s).numerator, Fr(s).denominator], i] for a, s, i in tabs]
        post = rng.choice(["plain", "plain", "slice", "rebin", "intslice", "intslice_rebin"] if nd >= 2 else ["plain", "plain", "slice", "rebin"])
        arg = None
        if post in ("intslice", "intslice_rebin"):       # an integer through one axis (often one of two coupled ones): world != pixel count
            a = rng.randrange(nd)
            arg = [a, rng.randrange(shape[a])]
            if post == "intslice_rebin":                 # ... and the result is rebinned
                arg.append([rng.choice([d for d in range(1, s_ + 1) if s_ % d == 0]) for k_, s_ in enumerate(shape) if k_ != a])
        if post == "slice":
            arg = [rng.randrange(0, s // 2) for s in shape]
        elif post == "rebin":
            arg = [rng.choice([d for d in range(1, s + 1) if s % d == 0 and s // d >= 2]) for s in shape]
        # two of the tables may form ONE two-table Quantity coordinate, added with its axes in the order drawn
        # (ascending or descending); rebin of such a coordinate onto axes of different lengths is a known finding (C19)
        pair = None
        cand = [k for k in range(len(tabs) - 1) if tabs[k][0] != tabs[k + 1][0]]
        if cand and post not in ("rebin", "intslice_rebin") and rng.random() < 0.5:
            pair = rng.choice(cand)
        seedk = rng.randrange(10 ** 6)
        wcsec = None
        if nd >= 2 and not tabs and post in ("plain", "slice", "rebin") and rng.random() < 0.6:
            # extra coords given as a WCS of their own over all the cube's pixel axes; both WCSes know their (non-cubic) shape
            wcsec = [list(map(int, r_)) for r_ in rand_unimodular(rng, nd)]      # (invertible, so that world values convert back)
        key = f"{shape}|{A}|{b}|{tabs}|{post}|{arg}|{pair}|{wcsec}"
        cases.append({"key": key, "stratum": f"{post}-{len(tabs)}tables", "shape": shape, "A": A, "b": b, "tabs": tabs,
                      "post": post, "arg": arg, "rs": seedk, "pair": pair, "wcsec": wcsec, "nontrivial": bool(tabs) or bool(wcsec),
                      "show": {"shape": shape, "primary": [A, b], "extra_coords(axis,slope,intercept)": tabs, "then": [post, arg],
                               "tables_forming_one_two_axis_coordinate": None if pair is None else [pair, pair + 1]}})
    return cases


def build(case):
    import astropy.units as u
    from ndcube import NDCube
    shape = tuple(case["shape"])
    nd = len(shape)
    if case.get("wcsec"):
        from astropy.wcs.wcsapi import HighLevelWCSWrapper
        from ndcube import ExtraCoords
        from harness.impl import make_probe_rect
        wcs = make_probe(case["A"], case["b"], shape=list(shape)[::-1], tw=list(range(nd)), tp=list(range(nd)))
        cube = NDCube(np.zeros(shape), wcs=wcs)
        ec = ExtraCoords(ndcube=cube)
        ec.wcs = HighLevelWCSWrapper(make_probe(case["wcsec"], [500 * (k + 1) for k in range(nd)], shape=list(shape)[::-1],
                                                tw=[300 + k for k in range(nd)], tp=list(range(nd))))
        ec.mapping = tuple(range(nd))
        cube._extra_coords = ec
    else:
        wcs = make_probe(case["A"], case["b"], tw=list(range(nd)), tp=list(range(nd)))
        cube = NDCube(np.zeros(shape), wcs=wcs)
    tabs = list(enumerate(case["tabs"]))
    for k, (ax, slope, icpt) in tabs:
        if k == len(tabs) - 1 and len(tabs) >= 1:
            # ask first, add the last extra coordinate afterwards: the descriptions must reflect the cube as it is now
            try:
                cube.combined_wcs.low_level_wcs.axis_correlation_matrix
                cube.array_axis_physical_types
                str(cube)
            except Exception:  # noqa
                pass
        s = Fr(*slope)
        pair = case.get("pair")
        if pair is not None and k == pair + 1:
            continue                   # added together with its partner
        if pair is not None and k == pair:
            ax2, slope2, icpt2 = case["tabs"][k + 1]
            s2 = Fr(*slope2)
            cube.extra_coords.add((f"e{k}", f"e{k + 1}"), (ax, ax2),
                                  ((np.arange(shape[ax]) * float(s) + icpt) * u.m, (np.arange(shape[ax2]) * float(s2) + icpt2) * u.m),
                                  physical_types=(f"custom:w{100 + k}", f"custom:w{100 + k + 1}"))
            continue
        cube.extra_coords.add(f"e{k}", ax, (np.arange(shape[ax]) * float(s) + icpt) * u.m, physical_types=f"custom:w{100 + k}")
    poke(cube, case["key"])
    if case["post"] == "slice":
        cube = cube[tuple(slice(a, None) for a in case["arg"])]
    elif case["post"] == "rebin":
        cube = cube.rebin(tuple(case["arg"]))
    elif case["post"] in ("intslice", "intslice_rebin"):
        a, i = case["arg"][:2]
        cube = cube[Q.np_ints(case["key"], tuple(i if k == a else slice(None) for k in range(nd)))]      # (numpy integer in every fourth case)
        if case["post"] == "intslice_rebin":
            cube = cube.rebin(tuple(case["arg"][2]))
    return cube


def _expr(case):
    """the Gallina twin of the cube's combined wcs, from the case parameters only"""
    nd = len(case["shape"])
    prim = {"k": "lin", "A": case["A"], "b": case["b"], "shape": None, "bounds": None,
            "tw": list(range(nd)), "tp": list(range(nd))}
    arg = case["arg"]
    if case["post"] == "slice":      # a range slice acts on the wcs as a resample by 1 with the start as offset (pixel order)
        prim = {"k": "res", "w": prim, "f": [[1, 1]] * nd, "o": [[a, 1] for a in arg[::-1]]}
    elif case["post"] == "rebin":
        prim = {"k": "res", "w": prim, "f": [[f, 1] for f in arg[::-1]],
                "o": [[f - 1, 2] for f in arg[::-1]]}
    # coordinates in the order ExtraCoords keeps them: stable sort by the FIRST axis of each coordinate; the two tables
    # of a two-axis coordinate stay together in the order they were given
    pair = case.get("pair")
    coords = []
    for k, t in enumerate(case["tabs"]):
        if pair is not None and k == pair + 1:
            continue
        coords.append((t[0], [k, k + 1] if (pair is not None and k == pair) else [k]))
    coords.sort(key=lambda c: c[0])
    tabs = [(k, case["tabs"][k]) for _, ks in coords for k in ks]
    if not tabs:
        return prim, None
    slopes, icpts, ids, mapping = [], [], [], []
    for k, (ax, slope, icpt) in tabs:
        s, i = Fr(*slope), Fr(icpt)
        if case["post"] == "slice":
            i = i + s * arg[ax]
        elif case["post"] == "rebin":
            f = arg[ax]
            i = i + s * Fr(f - 1, 2)
            s = s * f
        slopes.append(s)
        icpts.append(i)
        ids.append(100 + k)
        mapping.append(nd - 1 - ax)
    return prim, {"slopes": slopes, "icpts": icpts, "ids": ids, "mapping": list(range(nd)) + mapping}


def _coq_expr(case):
    prim, ec = _expr(case)
    p = c14._coq_expr(prim)
    if ec is None:
        return p
    m = len(ec["slopes"])
    fq = lambda x: c14._cq([Fr(x).numerator, Fr(x).denominator])
    A = Q.lst([Q.lst([fq(ec["slopes"][i] if i == j else 0) for j in range(m)]) for i in range(m)])
    Ai = Q.lst([Q.lst([fq(1 / ec["slopes"][i] if i == j else 0) for j in range(m)]) for i in range(m)])
    b = Q.lst([fq(x) for x in ec["icpts"]])
    ecw = f"(WLin {A} {Ai} {b} {Q.lst(ec['ids'], Q.z)} {Q.lst(ec['ids'], Q.z)} None None)"
    return f"(WCompound [{p}; {ecw}] {Q.lst(ec['mapping'], Q.nat)})"


def run(case):
    rng = np.random.RandomState(case["rs"])
    why = []
    try:
        cube = build(case)
        ll = cube.combined_wcs.low_level_wcs
    except Exception as e:  # noqa
        return {"out": {"t": "err", "e": exc_name(e)}, "oracle": {"ok": False, "why": f"building the cube / combined wcs raised {exc_name(e)}", "finding": None}}
    n, m = ll.pixel_n_dim, ll.world_n_dim
    shape = cube.data.shape
    if n != cube.data.ndim:
        why.append(f"combined wcs has {n} pixel axes for {cube.data.ndim} array axes")
    if ll.array_shape is not None and tuple(int(x) for x in ll.array_shape) != tuple(shape):
        why.append(f"combined wcs records the array shape {tuple(ll.array_shape)}, the cube's is {tuple(shape)}")
    # pixel positions on and between grid points (inside the array so that the tables have values)
    pins, p2ws = [], []
    arrs = [rng.randint(0, 4 * (shape[n - 1 - p] - 1) + 1, size=(5,)) / 4.0 for p in range(n)]
    outw = c14._vec(ll.pixel_to_world_values(*arrs), m)
    for i in range(5):
        pins.append([Fr(float(a[i])) for a in arrs])
        p2ws.append([Fr(float(np.asarray(o)[i])) for o in outw])
    # round trip
    wins, w2ps = [], []
    for i in range(5):
        w = [float(np.asarray(o)[i]) for o in outw]
        wins.append([Fr(x) for x in w])
        try:
            got = c14._vec(ll.world_to_pixel_values(*w), n)
            w2ps.append([Fr(float(g)) for g in got])
            if any(abs(float(g) - float(arrs[j][i])) > 1e-8 for j, g in enumerate(got)):
                why.append(f"world_to_pixel_values(pixel_to_world_values(p)) = {[float(g) for g in got]} for p = {[float(a[i]) for a in arrs]}")
        except Exception as e:  # noqa
            w2ps.append(None)
            why.append(f"world_to_pixel_values raised {exc_name(e)} on the world values of an array element")
    # separate descriptions give the same values
    pll = cube.wcs.low_level_wcs
    pw = c14._vec(pll.pixel_to_world_values(*arrs), pll.world_n_dim)
    for k in range(pll.world_n_dim):
        if not np.allclose(outw[k], pw[k], rtol=1e-12, atol=1e-9):
            why.append(f"combined world output {k} differs from the primary wcs")
    ec = cube.extra_coords
    if ec.wcs is not None:
        ell = ec.wcs.low_level_wcs
        ew = c14._vec(ell.pixel_to_world_values(*[arrs[mm] for mm in ec.mapping]), ell.world_n_dim)
        if m != pll.world_n_dim + ell.world_n_dim:
            why.append(f"combined wcs has {m} world outputs; the primary wcs has {pll.world_n_dim} and the extra coords {ell.world_n_dim}")
        for k in range(ell.world_n_dim if m == pll.world_n_dim + ell.world_n_dim else 0):
            if not np.allclose(outw[pll.world_n_dim + k], ew[k], rtol=1e-12, atol=1e-9):
                why.append(f"combined world output {pll.world_n_dim + k} differs from the extra coords' own description")
    # matrix vs finite differences (exact members: marked iff the value can change along that pixel axis)
    cm = np.asarray(ll.axis_correlation_matrix).astype(bool)
    base = np.array([float(a[0]) for a in arrs])
    for p in range(n):
        hi = base.copy()
        hi[p] = base[p] + 0.5 if base[p] + 0.5 <= shape[n - 1 - p] - 1 else base[p] - 0.5
        if shape[n - 1 - p] == 1:
            continue
        w0 = c14._vec(ll.pixel_to_world_values(*base), m)
        w1 = c14._vec(ll.pixel_to_world_values(*hi), m)
        for w in range(m):
            changes = abs(float(w0[w]) - float(w1[w])) > 1e-12
            if changes != bool(cm[w, p]):
                why.append(f"correlation matrix entry (world {w}, pixel {p}) is {bool(cm[w, p])} but the value "
                           f"{'changes' if changes else 'does not change'} along that axis")
    types = list(ll.world_axis_physical_types)
    aapt = cube.array_axis_physical_types
    exp_aapt = [tuple(types[w] for w in range(m) if cm[w, n - 1 - a]) for a in range(n)]
    if [tuple(x) for x in aapt] != exp_aapt:
        why.append(f"array_axis_physical_types {aapt} != types varying along each array axis {exp_aapt}")
    wt = [int(t.split("w")[-1]) for t in types]
    out = {"t": "ok", "np": n, "nw": m, "pins": pins, "p2ws": p2ws, "wins": wins, "w2ps": w2ps, "wt": wt, "pt": None,
           "cm": cm.tolist(), "sh": None if ll.pixel_shape is None else [Fr(float(x)) for x in ll.pixel_shape], "bd": None,
           "aapt": [[int(t.split("w")[-1]) for t in tup] for tup in aapt]}
    return {"out": c14._ser(out), "oracle": {"ok": not why, "why": "; ".join(why[:3]), "finding": None}}


def coq_case(case, res):
    o = res["out"]
    if case["post"] in ("intslice", "intslice_rebin") or case.get("wcsec"):      # decided by the direct oracle
        return "mk (C14_corr.mk (C14_corr.WLin [] [] [] [] [] None None) [] [] (C14_corr.OOk 0%nat 0%nat [] [] [] None [] None None)) 0%nat (Some [])"
    e = _coq_expr(case)
    nd = len(case["shape"])
    if o["t"] == "err":
        return f"mk (C14_corr.mk {e} [] [] (C14_corr.OErr {Q.err(o['e'])})) {Q.nat(nd)} None"
    w2ps = Q.lst(["None" if v is None else f"(Some {c14._cqv(v)})" for v in o["w2ps"]])
    cm = Q.lst([Q.lst([Q.b(x) for x in r]) for r in o["cm"]])
    sh = "None" if o["sh"] is None else f"(Some {c14._cqv(o['sh'])})"
    impl = (f"(C14_corr.OOk {Q.nat(o['np'])} {Q.nat(o['nw'])} {Q.lst([c14._cqv(v) for v in o['p2ws']])} {w2ps} "
            f"{Q.lst(o['wt'], Q.z)} None {cm} {sh} None)")
    inner = (f"(C14_corr.mk {e} {Q.lst([c14._cqv(v) for v in o['pins']])} {Q.lst([c14._cqv(v) for v in o['wins']])} {impl})")
    aapt = "(Some " + Q.lst([Q.lst(t, Q.z) for t in o["aapt"]]) + ")"
    return f"mk {inner} {Q.nat(nd)} {aapt}"
