"""C16 — rebin propagates uncertainties as the textbook combination of each block."""
from fractions import Fraction as Fr
import warnings
import numpy as np
from harness import coqio as Q
from harness.impl import poke, lin_wcs, exc_name

CORR = "C16_corr"
IMPORTS = ["Shape", "M_Rebin", "M_RebinUnc"]
COQ_PREAMBLE = "Open Scope Q_scope.\n"
MODEL_FILES = ["Model/M_RebinUnc.v", "Model/M_Rebin.v"]
RULE = ("cases = (shape of 1-3 dims, divisor bin shape, operation in sum mean nansum nanmean prod, uncertainty StdDev / "
        "Variance / Unknown / absent with dyadic sigma, mask None / scalar / random / all-true, NaN data at any position "
        "of a block for the nan-operations, operation_ignores_mask, a spy propagation function on a sample); sampled "
        "with the run's seed; distinct by key; non-trivial = some bin factor > 1")
ASSUMPTIONS = ["astropy's add / multiply propagation rules with correlation 0 are a dependency (squared-domain recurrences in M_RebinUnc.v)",
               "uncertainties compared in the squared domain, tolerance 1e-9 relative"]
OPS = ["sum", "mean", "nansum", "nanmean", "prod"]
KNOWN = {"prod-masked": "prod with an array/scalar mask and operation_ignores_mask=False: masked members' data still scale the propagated uncertainty"}


def _divs(n):
    return [d for d in range(1, n + 1) if n % d == 0]


def gen(tier, rng):
    cases = []
    n = 2500 if tier == "quick" else 50000
    for _ in range(n):
        nd = rng.choice([1, 1, 2, 2, 3])
        shape = [rng.choice([2, 3, 4, 6, 8] if nd < 3 else [2, 3, 4]) for _ in range(nd)]
        bins = [rng.choice(_divs(s)) for s in shape]
        if all(b == 1 for b in bins):
            i = rng.randrange(nd)
            bins[i] = max(_divs(shape[i]))
        op = rng.choice(OPS)
        kind = rng.choice(["std", "std", "std", "var", "var", "unknown", "absent"])
        mask = rng.choice(["none", "none", "true", "false", "random", "random", "random", "alltrue", "first"])
        nan = op in ("nansum", "nanmean") and rng.random() < 0.5
        ignores = rng.random() < 0.3
        # whether NaN data "contribute" when the mask is ignored is not settled by the property text (a NaN never enters
        # a nansum / nanmean): both readings are accepted by the oracle, any mixture of them is not
        spy = rng.random() < 0.1
        seedk = rng.randrange(10 ** 6)
        key = f"{shape}|{bins}|{op}|{kind}|{mask}|{nan}|{ignores}|{spy}|{seedk % 5}"
        cases.append({"key": key, "stratum": f"{op}-{kind}", "shape": shape, "bins": bins, "op": op, "kind": kind,
                      "mask": mask, "nan": nan, "ignores": ignores, "spy": spy, "rs": seedk, "nontrivial": True,
                      "show": {"shape": shape, "bin_shape": bins, "operation": op, "uncertainty": kind, "mask": mask,
                               "nan_data": nan, "operation_ignores_mask": ignores, "spy": spy, "seed": seedk}})
    return cases


def run(case):
    from ndcube import NDCube
    from astropy.nddata import StdDevUncertainty, VarianceUncertainty, UnknownUncertainty
    rng = np.random.RandomState(case["rs"])
    shape, bins = tuple(case["shape"]), tuple(case["bins"])
    data = rng.randint(1, 5, size=shape).astype(float) * rng.choice([1.0, -1.0], size=shape)
    if case["nan"]:
        data[rng.rand(*shape) < 0.3] = np.nan
    sig = rng.randint(1, 9, size=shape) / 8.0
    mk = case["mask"]
    mask = {"none": None, "true": True, "false": False, "alltrue": np.ones(shape, bool)}.get(mk, None)
    if mk == "random":
        mask = rng.rand(*shape) < 0.4
    if mk == "first":       # the first member of every block masked
        mask = np.zeros(shape, bool)
        mask[tuple(slice(None, None, b) for b in bins)] = True
    kind = case["kind"]
    unc = {"std": lambda: StdDevUncertainty(sig.copy()), "var": lambda: VarianceUncertainty(sig.copy() ** 2),
           "unknown": lambda: UnknownUncertainty(sig.copy()), "absent": lambda: None}[kind]()
    marr = mask.copy() if isinstance(mask, np.ndarray) else mask
    cube = NDCube(data.copy(), wcs=lin_wcs(len(shape)), uncertainty=unc, mask=marr)
    poke(cube, case["key"])
    d0, m0 = cube.data.copy(), (cube.mask.copy() if isinstance(cube.mask, np.ndarray) else cube.mask)
    u0 = None if cube.uncertainty is None else cube.uncertainty.array.copy()
    op = getattr(np, case["op"])
    seen = {}
    prop = True
    if case["spy"]:
        from ndcube.utils.cube import propagate_rebin_uncertainties

        def prop(uncertainty, data, mask, **kw):
            seen["data"] = np.array(data, dtype=float)
            seen["unc"] = np.array(uncertainty.array, dtype=float)
            seen["mask"] = None if mask is None else np.array(mask)
            return propagate_rebin_uncertainties(uncertainty, data, mask, **kw)
        # the user's function as a plain function, a functools.partial, a bound method or a callable object, by turns
        import functools
        import zlib
        plain = prop

        class _Holder:
            def method(self, uncertainty, data, mask, **kw):
                return plain(uncertainty, data, mask, **kw)

            def __call__(self, uncertainty, data, mask, **kw):
                return plain(uncertainty, data, mask, **kw)
        prop = [plain, functools.partial(plain), _Holder().method, _Holder()][zlib.crc32(("spy" + case["key"]).encode()) % 4]
    import zlib
    # the switch as a Python bool, a numpy bool or an int
    ignores_arg = [case["ignores"], np.bool_(case["ignores"]), int(case["ignores"])][zlib.crc32(("ig" + case["key"]).encode()) % 3]
    why = []
    with warnings.catch_warnings(record=True) as wlist:
        warnings.simplefilter("always")
        try:
            r = cube.rebin(bins, operation=op, operation_ignores_mask=ignores_arg, propagate_uncertainties=prop)
            exc = None
        except Exception as e:  # noqa
            r, exc = None, exc_name(e)
    if exc is not None:
        return {"out": {"t": "err", "e": exc}, "inp": _inp(data, sig, mask),
                "oracle": {"ok": False, "why": f"rebin with uncertainty propagation raised {exc}", "finding": _finding(case, mask)}}
    # source untouched
    if not np.array_equal(cube.data, d0, equal_nan=True) or (u0 is not None and not np.array_equal(cube.uncertainty.array, u0)) \
            or (isinstance(m0, np.ndarray) and not np.array_equal(cube.mask, m0)):
        why.append("the source cube's data / uncertainty / mask were altered")
    use_mask = not (mask is None or mask is False or case["ignores"])
    all_masked = use_mask and (mask is True or (isinstance(mask, np.ndarray) and mask.all()))
    expect_unc = kind in ("std", "var") and not all_masked
    ru = r.uncertainty
    if not expect_unc:
        out = {"t": "none"} if ru is None else {"t": "unc", "same": True, "s2": []}
        if ru is not None:
            why.append("an uncertainty was produced although none can be propagated")
        elif not any("ncertaint" in str(w.message) for w in wlist):
            why.append("no warning although the uncertainty was dropped")
    elif ru is None:
        out = {"t": "none"}
        why.append("uncertainty dropped although it can be propagated")
    else:
        arr = np.asarray(ru.array, dtype=float)
        s2 = arr ** 2 if kind == "std" else arr
        same = type(ru) is type(cube.uncertainty)
        out = {"t": "unc", "same": bool(same), "s2": [Fr(float(v)) for v in s2.ravel()]}
        if not same:
            why.append("uncertainty type changed")
        new_shape = tuple(s // b for s, b in zip(shape, bins))
        if s2.shape != new_shape:
            why.append(f"uncertainty shape {s2.shape} != rebinned shape {new_shape}")
        else:
            nanop = case["op"].startswith("nan")
            for j in np.ndindex(*new_shape):
                sl = tuple(slice(jj * b, (jj + 1) * b) for jj, b in zip(j, bins))
                x, s = data[sl].ravel(), sig[sl].ravel() ** 2
                mb = np.zeros(x.shape, bool)
                if use_mask:
                    mb = np.ones(x.shape, bool) if mask is True else mask[sl].ravel().copy()
                if nanop:
                    mb = mb | np.isnan(x)
                c = ~mb
                if case["op"] == "prod":
                    P = np.prod(x[c]) if c.any() else 0.0
                    e = P ** 2 * np.sum(s[c] / x[c] ** 2)
                else:
                    e = np.sum(s[c])
                    if "mean" in case["op"]:
                        e = e / max(1, int(c.sum())) ** 2
                g = s2[j]
                ok = np.isclose(g, e, rtol=1e-9, atol=1e-12)
                if not ok and nanop and case["ignores"]:
                    # second reading: with the mask ignored the NaN members contribute their uncertainty and their count
                    e2 = np.sum(s)
                    if "mean" in case["op"]:
                        e2 = e2 / max(1, len(s)) ** 2
                    ok = np.isclose(g, e2, rtol=1e-9, atol=1e-12)
                    if not ok:
                        why.append(f"output {j}: propagated variance {g!r} is neither {e!r} (NaN members excluded) nor {e2!r} (NaN members counted)")
                        break
                elif not ok:
                    why.append(f"output {j}: propagated variance {g!r}, textbook combination of its block gives {e!r}")
                    break
    if case["spy"] and "data" not in seen and r is not cube and r.uncertainty is not None and not why:
        why.append("uncertainties were propagated but the user-supplied propagation function was never called")
    if case["spy"] and "data" in seen and not why:
        new_shape = tuple(s // b for s, b in zip(shape, bins))
        if seen["data"].shape != (int(np.prod(bins)),) + new_shape:
            why.append(f"propagation function received shape {seen['data'].shape}")
        else:
            for j in np.ndindex(*new_shape):
                sl = tuple(slice(jj * b, (jj + 1) * b) for jj, b in zip(j, bins))
                if not np.array_equal(seen["data"][(slice(None),) + j], data[sl].ravel(), equal_nan=True) or \
                        not np.array_equal(seen["unc"][(slice(None),) + j], (sig if kind == "std" else sig ** 2)[sl].ravel()):
                    why.append("propagation function did not receive the block members along the first axis")
                    break
    fk = _finding(case, mask) if why else None
    return {"out": _ser(out), "inp": _inp(data, sig, mask), "oracle": {"ok": not why, "why": "; ".join(why), "finding": fk}}


def _finding(case, mask):
    use_mask = not (mask is None or mask is False or case["ignores"])
    if case["op"] == "prod" and use_mask:
        return "prod-masked"
    return None


def _inp(data, sig, mask):
    return {"data": [None if np.isnan(v) else int(v) for v in data.ravel()],
            "sig2": _ser([Fr(float(v)) ** 2 for v in sig.ravel()]),
            "marr": [bool(x) for x in mask.ravel()] if isinstance(mask, np.ndarray) else []}


def _ser(x):
    if isinstance(x, Fr):
        return [x.numerator, x.denominator]
    if isinstance(x, dict):
        return {k: _ser(v) for k, v in x.items()}
    if isinstance(x, (list, tuple)):
        return [_ser(v) for v in x]
    return x


def _cq(x):
    return f"(({x[0]}) # {x[1]})"


def coq_case(case, res):
    o, inp = res["out"], res["inp"]
    opk = {"sum": "OSum", "mean": "OMean", "nansum": "ONanSum", "nanmean": "ONanMean", "prod": "OProd"}[case["op"]]
    mk = {"none": "MNone", "true": "(MScalar true)", "false": "(MScalar false)"}.get(case["mask"], "MArray")
    kind = {"std": "UStd", "var": "UVar", "unknown": "UUnknown", "absent": "UAbsent"}[case["kind"]]
    if o["t"] == "err":
        impl = f"(OErr {Q.err(o['e'])})"
    elif o["t"] == "none":
        impl = "ONoUnc"
    else:
        impl = f"(OUnc {Q.b(o['same'])} {Q.lst([_cq(v) for v in o['s2']])})"
    data = Q.lst(["None" if v is None else f"(Some (({v}) # 1))" for v in inp["data"]])
    return (f"mk {Q.lst(case['shape'], Q.z)} {Q.lst(case['bins'], Q.z)} {opk} {Q.b(case['ignores'])} {mk} {kind} "
            f"{data} {Q.lst([_cq(v) for v in inp['sig2']])} {Q.lst([Q.b(x) for x in inp['marr']])} {impl}")
