"""C04 — crop returns exactly the smallest index box containing the world points."""
from fractions import Fraction as Fr
import numpy as np
from harness import coqio as Q
from harness.impl import poke, make_probe, rand_unimodular, family_wcs, exc_name
from harness.props import c14

CORR = "C04_corr"
IMPORTS = ["M_Wrappers", "M_Crop", "C14_corr"]
MODEL_FILES = ["Model/M_Crop.v", "Model/M_Wrappers.v"]
DEPS = ["pyindex"]
RULE = ("cases = (cube of 1-4 dims over a block-diagonal integer probe WCS (independent coordinate groups of 1 or 2 "
        "coupled axes) or a TAN / rotated FITS WCS or lookup-table extra coords / combined wcs; 1-6 points whose components "
        "are None per independent group or world positions of pixel positions at k/8 offsets incl. exactly on pixel edges "
        "and just outside the array; values as floats with unit strings, Quantities in metres / kilometres / centimetres; "
        "both keepdims; crop and crop_by_values); malformed stream: wrong lengths, wrong classes, inconvertible units; "
        "distinct by key; non-trivial = some axis is narrowed or the request is refused")
ASSUMPTIONS = ["astropy's world-to-pixel inversion and floor(x+1/2) rounding are dependencies (w2p of the probe twin, round_half_up)",
               "construction of high-level objects is astropy's"]


def _blocks(rng, nd):
    """block-diagonal unimodular integer matrix: groups of 1 or 2 pixel axes"""
    A = np.zeros((nd, nd), dtype=int)
    groups, i = [], 0
    while i < nd:
        k = 2 if (nd - i >= 2 and rng.random() < 0.4) else 1
        blk = np.array(rand_unimodular(rng, k))
        A[i:i + k, i:i + k] = blk
        groups.append(list(range(i, i + k)))
        i += k
    return A.tolist(), groups


def gen(tier, rng):
    cases = []
    n = 2500 if tier == "quick" else 50000
    for _ in range(n):
        kind = rng.choice(["probe", "probe", "probe", "probe", "family", "ec"])
        nd = rng.choice([1, 2, 2, 3, 3, 4]) if kind == "probe" else (rng.choice([1, 2, 2, 3]) if kind == "ec" else rng.choice([2, 3, 3]))
        shape = [rng.choice([4, 5, 6, 8]) for _ in range(nd)]
        mesh = None
        if kind == "ec" and nd >= 2 and rng.random() < 0.35:
            # a meshed SkyCoord table: longitude along one array axis, latitude along another (one object, two
            # independent components); the mesh is square, so the two axes are equally long
            mesh = rng.sample(range(nd), 2)
            shape[mesh[1]] = shape[mesh[0]]
        A, groups = _blocks(rng, nd)
        b = [rng.randrange(-3, 4) for _ in range(nd)]
        npts = rng.choice([1, 2, 2, 3, 4, 6])
        pts = []
        none_groups = [g for g in groups if rng.random() < 0.25]
        if len(none_groups) == len(groups) and rng.random() < 0.8:
            none_groups = none_groups[1:]
        prebin = None
        if kind == "probe" and rng.random() < 0.2:
            prebin = [rng.choice([1, 2, 3]) for _ in range(nd)]       # the cube is the result of a rebin by these factors
        exact = kind == "probe" and not prebin          # only the plain probe WCS inverts exactly: elsewhere stay off the pixel edges
        for _p in range(npts):
            pix = []
            for p in range(nd):          # pixel axis p has length shape[nd-1-p]
                ln = shape[nd - 1 - p]
                r = rng.random() if kind != "ec" else 0.0        # lookup tables have no value outside their range
                if r < 0.8:
                    v = Fr(rng.randrange(0, 8 * (ln - 1) + 1), 8)
                elif r < 0.9:
                    v = Fr(rng.randrange(0, ln), 1) + rng.choice([Fr(1, 2), Fr(-1, 2)])     # exactly on a pixel edge
                else:
                    v = rng.choice([Fr(-5, 8), Fr(-1), Fr(-3, 2), Fr(ln) - Fr(3, 8), Fr(ln), Fr(ln) + Fr(1, 2)])  # outside
                if not exact and (v * 2) % 2 == 1:
                    v = v + Fr(1, 8)
                pix.append([v.numerator, v.denominator])
            pts.append(pix)
        none_pp = None
        if kind == "probe" and npts >= 2 and rng.random() < 0.25:
            # each point has its own None layout (a point may even give no coordinate at all)
            none_pp = [none_groups if rng.random() < 0.4 else [g for g in groups if rng.random() < 0.45] for _ in range(npts)]
        form = rng.choice(["values_float_units", "values_float_km", "values_quantity", "values_quantity_km", "values_quantity_mixed", "objects", "objects"])
        all_none = rng.random() < 0.04
        bad = rng.choice([None] * 12 + ["short", "wrongclass", "badunit", "unitlen"])
        keepdims = rng.random() < 0.5
        fam = rng.choice(["tan", "rot"] + (["tan_split"] if nd >= 3 else [])) if kind == "family" else None
        tabs = []
        if kind == "ec":
            for t in range(rng.choice([1, 2])):
                tabs.append([rng.randrange(nd), rng.choice([1, 2, 3]), rng.randrange(0, 5)])
            if mesh:
                tabs = [t for t in tabs if t[0] not in mesh][:1]
                none_groups = []
        unset = kind == "family" and rng.random() < 0.35      # a FITS WCS never evaluated before the cube is cropped
        key = f"{kind}|{fam}|{shape}|{A}|{b}|{pts}|{none_groups}|{form}|{bad}|{keepdims}|{tabs}|{all_none}|{unset}|{mesh}|{none_pp}|{prebin}"
        cases.append({"key": key, "stratum": kind if not bad else "malformed", "kind": kind, "fam": fam, "shape": shape, "A": A, "b": b,
                      "groups": groups, "none_groups": none_groups, "pts": pts, "form": form, "bad": bad, "all_none": all_none,
                      "keepdims": keepdims, "tabs": tabs, "mesh": mesh, "none_pp": none_pp, "prebin": prebin, "unset": unset, "wcsname": rng.choice(["extra_coords", "combined_wcs"]) if kind == "ec" else "wcs",
                      "nontrivial": True,
                      "show": {"wcs": kind, "family": fam, "shape": shape, "A": A, "b": b, "pixel_positions_of_points": pts,
                               "groups_left_None": "ALL" if all_none else (none_pp if none_pp else none_groups), "form": form, "malformed": bad, "keepdims": keepdims, "extra_coords": tabs, "meshed_skycoord_on_axes": mesh, "cube_is_result_of_rebin_by": prebin, "wcs_never_evaluated_before": unset}})
    return cases


def build(case):
    import astropy.units as u
    from ndcube import NDCube
    shape = tuple(case["shape"])
    nd = len(shape)
    if case["fam"]:
        wcs = family_wcs(case["fam"], nd, unset=case.get("unset", False))
    else:
        wcs = make_probe(case["A"], case["b"], tw=list(range(nd)), tp=list(range(nd)))
    if case.get("prebin"):
        big = tuple(n * f for n, f in zip(shape, case["prebin"]))
        cube = NDCube(np.arange(int(np.prod(big)), dtype=float).reshape(big), wcs=wcs).rebin(tuple(case["prebin"]), operation=np.sum)
    else:
        cube = NDCube(np.arange(int(np.prod(shape))).reshape(shape), wcs=wcs)
    for k, (ax, slope, icpt) in enumerate(case["tabs"]):
        cube.extra_coords.add(f"e{k}", ax, (np.arange(shape[ax]) * slope + icpt) * u.m, physical_types=f"custom:e{k}")
    if case.get("mesh"):
        from astropy.coordinates import SkyCoord
        from ndcube.extra_coords.table_coord import SkyCoordTableCoordinate
        a, b = case["mesh"]
        n = shape[a]
        cube.extra_coords.add(("lon", "lat"), (a, b), SkyCoordTableCoordinate(SkyCoord((np.arange(n) * 2.0 + 1) * u.deg, (np.arange(n) * 3.0 - 8) * u.deg), mesh=True))
    return cube


def _num(x, k):
    """a plain number in one of the types a caller may hold it in: float, numpy float64 scalar, 0-d array"""
    return [float, np.float64, np.array][k % 3](x)


def run(case):
    import astropy.units as u
    cube = build(case)
    if not case.get("unset"):          # (asking would evaluate the WCS)
        poke(cube, case["key"])
    nd = cube.data.ndim
    shape = cube.data.shape
    kd = case["keepdims"]
    wname = case["wcsname"]
    wcs_obj = getattr(cube, wname)
    ll = cube.extra_coords.wcs.low_level_wcs if wname == "extra_coords" else wcs_obj.low_level_wcs
    if case.get("unset"):
        ll = family_wcs(case["fam"], nd)      # the oracle reads an identical twin, so the cube's own WCS stays unevaluated
    why = []
    # ---- the world points
    pix_pts = [[Fr(*v) for v in p] for p in case["pts"]]
    from astropy.wcs.utils import _split_matrix
    if wname == "extra_coords":
        pm = [int(m) for m in cube.extra_coords.mapping]
        # in the cube, tables that share an array axis are ONE coordinate group: take the components of the
        # extra coords' matrix expressed on the cube's pixel axes
        ecm = np.asarray(ll.axis_correlation_matrix)
        corr = np.zeros((ll.world_n_dim, nd), dtype=bool)
        for j, m in enumerate(pm):
            corr[:, m] |= ecm[:, j]
    else:
        corr = np.asarray(ll.axis_correlation_matrix)
    comps = _split_matrix(corr)                 # independent coordinate groups = connected components
    world_groups = [list(map(int, wi)) for pi, wi in comps if len(wi)]
    pix_groups = [list(map(int, pi)) for pi, wi in comps if len(wi)]
    if wname == "extra_coords":
        world_pts = []
        for p in pix_pts:
            w = ll.pixel_to_world_values(*[float(p[m]) for m in pm])
            world_pts.append(c14._vec(w, ll.world_n_dim))
        none_groups = [wg for k, wg in enumerate(world_groups) if k % 2 == 0 and len(case["none_groups"]) > 0 and len(world_groups) > 1]
    else:
        world_pts = [c14._vec(ll.pixel_to_world_values(*[float(x) for x in p]), ll.world_n_dim) for p in pix_pts]
        ng = set(tuple(g) for g in case["none_groups"])
        none_groups = [wg for wg, pg in zip(world_groups, pix_groups)
                       if tuple(pg) in ng or (case["fam"] and len(ng) and pg == pix_groups[-1] and len(pix_groups) > 1)]
    touched_pix = lambda g: pix_groups[world_groups.index(g)]
    none_w = {w for g in none_groups for w in g}
    if case.get("all_none"):
        none_w = set(range(ll.world_n_dim))
        none_groups = list(world_groups)
    # the world axes left None in each point (the same for all points unless the case gives one layout per point)
    none_w_pt = [set(none_w) for _ in pix_pts]
    if case.get("none_pp") and not case.get("all_none"):
        none_w_pt = [{w for wg, pg in zip(world_groups, pix_groups) if pg in [list(g) for g in layout] for w in wg}
                     for layout in case["none_pp"]]
    units = list(ll.world_axis_units)
    form, bad = case["form"], case["bad"]

    def mkpoint(w, as_objects, pi=0):
        comps_ = []
        for i, v in enumerate(w):
            if i in none_w_pt[pi]:
                comps_.append(None)
            elif form == "values_float_units" and not as_objects:
                comps_.append(_num(float(v), pi + i))
            elif form == "values_float_km" and not as_objects:
                comps_.append(_num(float(v) / 1000.0 if units[i] == "m" else float(v), pi + i))
            elif form == "values_quantity_km" and not as_objects and units[i] == "m":
                comps_.append((float(v) / 1000.0) * u.km)
            elif form == "values_quantity_mixed" and not as_objects and units[i] == "m" and (pi + i) % 2 == 1:
                comps_.append((float(v) / 1000.0) * u.km)          # the same coordinate in another unit than in the other points
            else:
                comps_.append(float(v) * u.Unit(units[i]))
        return comps_
    use_objects = form == "objects"
    try:
        if use_objects:
            hl = wcs_obj if wname != "extra_coords" else cube.extra_coords.wcs
            pts = []
            for pi_, w in enumerate(world_pts):
                full = hl.low_level_wcs.pixel_to_world_values  # noqa
                from astropy.wcs.wcsapi.high_level_api import values_to_high_level_objects
                objs = values_to_high_level_objects(*[float(x) for x in w], low_level_wcs=ll)
                comps_names = [c[0] for c in ll.world_axis_object_components]
                order = []
                for c in comps_names:
                    if c not in order:
                        order.append(c)
                point = []
                for name, obj in zip(order, objs):
                    ws = [i for i, c in enumerate(comps_names) if c == name]
                    point.append(None if all(i in none_w_pt[pi_] for i in ws) else obj)
                pts.append(point)
        else:
            pts = [mkpoint(w, False, pi) for pi, w in enumerate(world_pts)]
        import zlib
        # (the switch as a numpy bool in every third case: a comparison's result, an array element)
        kwargs = {"keepdims": np.bool_(kd) if zlib.crc32(("kdform" + str(case["key"])).encode()) % 3 == 0 else kd}
        if wname != "wcs":
            kwargs["wcs"] = wcs_obj
        if not use_objects and form == "values_float_units":
            kwargs["units"] = [uu for uu in units]
        if not use_objects and form == "values_float_km":
            kwargs["units"] = ["km" if uu == "m" else uu for uu in units]
        if bad == "short":
            pts = [p[:-1] for p in pts] if len(pts[0]) > 1 else [p + [None] for p in pts]
        elif bad == "wrongclass" and use_objects:
            pts = [[("oops" if x is not None else None) for x in p] for p in pts]
        elif bad == "badunit" and not use_objects:
            pts = [[(float(getattr(x, "value", x)) * u.kg if x is not None else None) for x in p] for p in pts]
            kwargs.pop("units", None)
        elif bad == "unitlen" and not use_objects:
            kwargs["units"] = units + ["m"]
        meth = cube.crop if use_objects else cube.crop_by_values
        item_fn = cube._get_crop_item if use_objects else cube._get_crop_by_values_item
        kw2 = {k: v for k, v in kwargs.items()}
        item, r = None, None
        item = item_fn(*pts, **kw2)
        r = meth(*pts, **kwargs)
        exc = None
    except Exception as e:  # noqa
        r, exc = None, exc_name(e)
    eff_all_none = bool(pts) and all(all(x is None for x in p) for p in pts)
    applies = {"short": True, "wrongclass": use_objects, "badunit": not use_objects,
               "unitlen": (not use_objects) and wname != "extra_coords"}
    if bad == "unitlen" and wname == "extra_coords":
        applies["unitlen"] = None           # padded points make the intended length ambiguous: either outcome is fine
    malformed = bad is not None and applies[bad] and not eff_all_none
    dontcare = bad is not None and applies[bad] is None
    # ---- expected box, independently
    per_axis = {a: [] for a in range(nd)}
    for pi_, p in enumerate(pix_pts):
        for g in world_groups:
            if all(w in none_w_pt[pi_] for w in g):
                continue
            for px in touched_pix(g):
                per_axis[nd - 1 - px].append(int(np.floor(float(p[px]) + 0.5)))
    all_none = all(len(v) == 0 for v in per_axis.values()) or eff_all_none
    on_array = all(0 <= i < shape[a] for a, v in per_axis.items() for i in v)
    single = (not all_none) and all(len(v) > 0 and max(v) == min(v) for v in per_axis.values())
    out = {"t": "item", "item": [Q.enc_item(i) for i in item]} if item is not None else {"t": "err", "e": exc}
    if dontcare:
        pass
    elif malformed and not all_none:
        if exc is None:
            why.append(f"malformed request ({bad}) was accepted")
    elif exc is not None and not malformed:
        if not (single and not kd) and on_array:
            why.append(f"{'crop' if use_objects else 'crop_by_values'} raised {exc} on valid points")
    elif exc is None:
        if single and not kd and on_array:
            why.append("a one-element result without keepdims was not refused")
        if all_none:
            if r.data.shape != shape or not np.array_equal(r.data, cube.data):
                why.append("all-None points did not return the cube unchanged")
        else:
            # region must contain every on-array point index; with all points on the array it is exactly the box
            rd = r.data
            for a in range(nd):
                v = per_axis[a]
                if not v:
                    continue
                onv = [i for i in v if 0 <= i < shape[a]]
                # positions selected on axis a
                it = item[a]
                sel = range(shape[a])[it] if isinstance(it, slice) else [range(shape[a])[it]]
                sel = list(sel)
                if any(i not in sel for i in onv):
                    why.append(f"axis {a}: region {sel} excludes the on-array point index among {onv}")
                if on_array and sel != list(range(min(v), max(v) + 1)):
                    why.append(f"axis {a}: region {sel} is not [min, max] = [{min(v)}, {max(v)}] of the points' nearest-pixel indices")
            for a in range(nd):
                v = per_axis[a]
                onv = [i for i in v if 0 <= i < shape[a]]
                if not onv:
                    continue
                lo, hi = max(min(v), 0), min(max(v), shape[a] - 1)
                if lo == hi and not kd and isinstance(item[a], slice):
                    why.append(f"axis {a}: the region is one element long but the axis was kept although keepdims=False")
                if (kd or lo != hi) and not isinstance(item[a], slice):
                    why.append(f"axis {a}: axis dropped although {'keepdims=True' if kd else 'the region is longer than one element'}")
            for a in range(nd):
                if not per_axis[a] and not (isinstance(item[a], slice) and item[a] == slice(None)):
                    why.append(f"axis {a} has only None coordinates but was narrowed to {item[a]}")
            if not why and on_array:
                exp = cube.data[tuple(item)]
                if rd.shape != exp.shape or not np.array_equal(rd, exp):
                    why.append("result differs from cube[item]")
            # ---- the result is a cube in its own right (C04_recrop): cropping it again with the very same points
            # (its own wcs, every axis kept) must select all of it
            # (primary wcs only: a lookup table has no values beyond its last entry, so a point within half a pixel
            # of the region's edge cannot be located in the cropped table - that is C19_outside, not a crop defect)
            if not why and on_array and kd and not malformed and bad is None and wname == "wcs":
                try:
                    kw3 = dict(kwargs)
                    r2 = (r.crop if use_objects else r.crop_by_values)(*pts, **kw3)
                    if r2.data.shape != rd.shape or not np.array_equal(r2.data, rd):
                        why.append(f"cropping the result again with the same points gives shape {r2.data.shape}, not the result itself {rd.shape}")
                except Exception as e:  # noqa
                    why.append(f"cropping the result again with the same points raised {exc_name(e)}")
    return {"out": out, "oracle": {"ok": not why, "why": "; ".join(why[:3]), "finding": None},
            "world": None if case["kind"] != "probe" else
            [[None if i in none_w_pt[pi_] else [Fr(float(x)).numerator, Fr(float(x)).denominator] for i, x in enumerate(w)] for pi_, w in enumerate(world_pts)]}


def coq_case(case, res):
    TRIV = "mk (C14_corr.WLin [] [] [] [] [] None None) [] [] false (OItem [])"
    if case["kind"] != "probe" or case["bad"] is not None or case["form"] == "objects" or case.get("prebin"):
        return TRIV
    o = res["out"]
    nd = len(case["shape"])
    e = c14._coq_expr({"k": "lin", "A": case["A"], "b": case["b"], "shape": None, "bounds": None,
                       "tw": list(range(nd)), "tp": list(range(nd))})
    pts = Q.lst([Q.lst(["None" if x is None else f"(Some {c14._cq(x)}%Q)" for x in w]) for w in res["world"]])
    impl = f"(OErr {Q.err(o['e'])})" if o["t"] == "err" else f"(OItem {Q.lst(o['item'], Q.coq_item)})"
    return f"mk {e} {Q.lst(case['shape'], Q.z)} {pts} {Q.b(case['keepdims'])} {impl}"
