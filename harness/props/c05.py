"""C05 — axis_world_coords(_values) report exactly what the WCS says for every pixel."""
import itertools
from fractions import Fraction as Fr
import numpy as np
from harness import coqio as Q
from harness.impl import make_probe_rect, family_wcs, Pair, exc_name

CORR = "C05_corr"
IMPORTS = ["Shape", "M_WorldCoords"]
COQ_PREAMBLE = "Open Scope string_scope.\n"
MODEL_FILES = ["Model/M_WorldCoords.v", "Base/Shape.v"]
RULE = ("cases = (description: wcs | extra_coords | combined_wcs; correlation structure: every boolean world x pixel "
        "matrix up to 3x3 with no empty row (exhaustive) + sampled 4x4, realised by integer-matrix probe WCS with "
        "distinct weights, world axes optionally grouped into two-component objects; non-cubic shapes with pairwise "
        "distinct lengths; axes requested as ints of both signs, out-of-range ints, full / unique-substring / ambiguous "
        "/ absent physical-type strings, and none; both pixel_corners settings); FITS TAN / rotated families and extra "
        "coords coupled to several cube axes in any axis order (2-D SkyCoord tables, WCS-backed ExtraCoords with any "
        "injective mapping) by the direct oracle; distinct by key; non-trivial = >= 2 pixel axes or an extra coordinate")
ASSUMPTIONS = ["_split_matrix and values_to_high_level_objects are astropy dependencies (component, objects_for)",
               "lookup-table extra coords are given linear tables so that the Gallina twin is an exact linear WCS; corners "
               "of extra coords fall outside the tables (NaN) and are left to the direct oracle"]
LENS = [2, 3, 4, 5]
PRIMES = [1, 2, 3, 5, 7, 11, 13, 17, 19, 23, 29, 31, 37, 41, 43, 47]


def _matrices(nw, npx):
    out = []
    for bits in itertools.product([0, 1], repeat=nw * npx):
        m = [list(bits[r * npx:(r + 1) * npx]) for r in range(nw)]
        if all(any(r) for r in m):
            out.append(m)
    return out


def _types(nw, rng):
    # some names are substrings of others so that string requests can be unique / ambiguous
    pool = ["custom:ta", "custom:tab", "custom:uc", "custom:vd", "custom:tabx", "custom:w"]
    return rng.sample(pool, nw)


def _reqs(rng, n, types):
    k = rng.choice([0, 1, 1, 2, 3])
    reqs = []
    for _ in range(k):
        r = rng.random()
        if r < 0.55:
            reqs.append(rng.choice(list(range(-n, n)) + ([n, -n - 1] if rng.random() < 0.15 else [])))
        else:
            t = rng.choice(types)
            reqs.append(rng.choice([t, t[7:], t[:-1] if len(t) > 8 else t, "custom", "nothere", t[7:9]]))
    return reqs


def gen(tier, rng):
    cases = []

    def add(desc, n, shape, mat, types, groups, tabs, corners, reqs, stratum, fam=None, ec2=None):
        key = f"{desc}|{shape}|{mat}|{types}|{groups}|{tabs}|{corners}|{reqs}|{fam}|{ec2}"
        cases.append({"key": key, "stratum": stratum, "desc": desc, "n": n, "shape": shape, "mat": mat, "types": types,
                      "groups": groups, "tabs": tabs, "corners": corners, "reqs": reqs, "fam": fam, "ec2": ec2,
                      "nontrivial": n >= 2 or bool(tabs),
                      "show": {"wcs": desc, "shape": shape, "corr": mat, "types": types, "object_groups": groups,
                               "extra_coords": tabs, "pixel_corners": corners, "axes": reqs, "family": fam,
                               "coupled_extra_coords": ec2}})

    # exhaustive correlation structures up to 3x3 on the primary wcs, all axes requests of one int, both corners
    for npx in (1, 2, 3):
        for nw in (1, 2, 3):
            for mat in _matrices(nw, npx):
                shape = rng.sample(LENS, npx)
                types = _types(nw, rng)
                groups = list(range(nw))
                if nw >= 2 and rng.random() < 0.3:
                    groups[1] = groups[0]
                add("wcs", npx, shape, mat, types, groups, [], rng.random() < 0.5, _reqs(rng, npx, types), "corr-exhaustive")
    N = 1500 if tier == "quick" else 30000
    for _ in range(N):
        npx = rng.choice([2, 3, 3, 4])
        nw = rng.choice([1, 2, 3, 4])
        mat = [[int(rng.random() < 0.5) for _ in range(npx)] for _ in range(nw)]
        for r in mat:
            if not any(r):
                r[rng.randrange(npx)] = 1
        shape = rng.sample(LENS, npx)
        types = _types(nw, rng)
        groups = list(range(nw))
        if nw >= 2 and rng.random() < 0.3:
            i = rng.randrange(nw - 1)
            groups[i + 1] = groups[i]
        tabs = []
        desc = rng.choice(["wcs", "wcs", "extra_coords", "combined_wcs"])
        if desc != "wcs":
            for t in range(rng.choice([1, 2, 3])):
                tabs.append([rng.randrange(npx), rng.choice([1, 2, 3, -1]), rng.randrange(0, 9)])   # axis, slope, intercept
        corners = rng.random() < 0.5
        add(desc, npx, shape, mat, types, groups, tabs, corners, _reqs(rng, npx, types + [f"custom:e{k}" for k in range(len(tabs))]), "sample")
    # extra coords whose coordinates are coupled to several cube axes, attached in any axis order: a 2-D SkyCoord
    # table (one entry per pixel), or a WCS-backed ExtraCoords with any correlation matrix and any injective mapping
    for _ in range(500 if tier == "quick" else 8000):
        npx = rng.choice([2, 3, 3, 4])
        nw = rng.choice([1, 2, 3])
        mat = [[int(rng.random() < 0.5) for _ in range(npx)] for _ in range(nw)]
        for r in mat:
            if not any(r):
                r[rng.randrange(npx)] = 1
        shape = rng.sample(LENS, npx)
        types = _types(nw, rng)
        desc = rng.choice(["extra_coords", "extra_coords", "combined_wcs"])
        if rng.random() < 0.45:
            a, b = rng.sample(range(npx), 2)
            ec2 = {"k": "sky2", "axes": [a, b]}
            names = ["pos.eq.ra", "pos.eq.dec", "eq", "ra", "dec"]
        else:
            ne = rng.randint(2, npx)
            mapping = rng.sample(range(ne), ne)           # cube pixel axis of each extra pixel dimension (the mapping
                                                          # setter refuses values >= the extra WCS's pixel dimensions)
            new = rng.choice([1, 2, 3])
            emat = [[int(rng.random() < 0.6) for _ in range(ne)] for _ in range(new)]
            for r in emat:
                if not any(r):
                    r[rng.randrange(ne)] = 1
            ec2 = {"k": "wcsec", "mapping": mapping, "mat": emat, "types": [f"custom:x{k}" for k in range(new)]}
            names = ec2["types"] + ["x0", "x"]
        add(desc, npx, shape, mat, types, list(range(nw)), [], rng.random() < 0.3, _reqs(rng, npx, types + names), "ec-coupled", ec2=ec2)
    for _ in range(120 if tier == "quick" else 2000):
        nd = rng.choice([2, 3, 3, 4])
        fam = rng.choice(["tan", "rot", "tan_split"] if nd >= 3 else ["tan", "rot"])
        shape = rng.sample(LENS, nd)
        reqs = []
        for _k in range(rng.choice([0, 1, 2])):
            reqs.append(rng.choice(list(range(-nd, nd)) + ["lon", "lat", "em", "time", "pos", "helioprojective.lat"]))
        add("wcs", nd, shape, None, None, None, [], rng.random() < 0.5, reqs, "family", fam=[fam, nd])
    return cases


def _weights(mat):
    k = 0
    A = []
    for r in mat:
        row = []
        for x in r:
            row.append(PRIMES[k % len(PRIMES)] * x)
            k += 1
        A.append(row)
    return A


def build(case, hold_back=0):
    import astropy.units as u
    from ndcube import NDCube
    shape = tuple(case["shape"])
    if case["fam"]:
        wcs = family_wcs(*case["fam"])
    else:
        A = _weights(case["mat"])
        wcs = make_probe_rect(A, [100 * (k + 1) for k in range(len(A))], case["types"], case["groups"])
    cube = NDCube(np.zeros(shape), wcs=wcs)
    tabs = list(enumerate(case["tabs"]))
    for k, (ax, slope, icpt) in tabs[:len(tabs) - hold_back]:
        cube.extra_coords.add(f"e{k}", ax, (np.arange(shape[ax]) * slope + icpt) * u.m, physical_types=f"custom:e{k}")
    ec2 = case.get("ec2")
    if ec2 and ec2["k"] == "sky2":
        from astropy.coordinates import SkyCoord
        from ndcube.extra_coords.table_coord import SkyCoordTableCoordinate
        a, b = ec2["axes"]                        # table dimension 0 lies along cube axis a, dimension 1 along b
        i, j = np.meshgrid(np.arange(shape[a]), np.arange(shape[b]), indexing="ij")
        lon, lat = 1.0 + 2.0 * i + 0.25 * j, -3.0 + 0.5 * i + 1.5 * j
        cube.extra_coords.add(("lon", "lat"), (a, b), SkyCoordTableCoordinate(SkyCoord(lon * u.deg, lat * u.deg), mesh=False))
    elif ec2:
        from astropy.wcs.wcsapi import HighLevelWCSWrapper
        from ndcube import ExtraCoords
        A = [[PRIMES[(3 * r + c) % len(PRIMES)] * x for c, x in enumerate(row)] for r, row in enumerate(ec2["mat"])]
        ec = ExtraCoords(ndcube=cube)
        ec.wcs = HighLevelWCSWrapper(make_probe_rect(A, [1000 * (k + 1) for k in range(len(A))], ec2["types"]))
        ec.mapping = tuple(ec2["mapping"])
        cube._extra_coords = ec
    return cube


def _add_held_back(cube, case, hold_back):
    import astropy.units as u
    tabs = list(enumerate(case["tabs"]))
    for k, (ax, slope, icpt) in tabs[len(tabs) - hold_back:]:
        cube.extra_coords.add(f"e{k}", ax, (np.arange(cube.data.shape[ax]) * slope + icpt) * u.m, physical_types=f"custom:e{k}")


def _target(cube, desc):
    """(low level wcs of the description, pixel-dim -> cube pixel axis map)"""
    n = cube.data.ndim
    if desc == "wcs":
        return cube.wcs.low_level_wcs, list(range(n))
    if desc == "combined_wcs":
        return cube.combined_wcs.low_level_wcs, list(range(n))
    ec = cube.extra_coords
    return (None if ec.wcs is None else ec.wcs.low_level_wcs), [int(m) for m in ec.mapping]


def _expected_selection(ll, pm, n, reqs):
    """independent re-statement of which world axes are asked for -> sorted list or 'refused'"""
    corr = np.asarray(ll.axis_correlation_matrix)
    types = list(ll.world_axis_physical_types)
    if not reqs:
        return list(range(ll.world_n_dim))
    sel = set()
    for r in reqs:
        if isinstance(r, int):
            a = r + n if r < 0 else r
            if not 0 <= a < n:
                return "refused"
            P = n - 1 - a
            for j, p in enumerate(pm):
                if p == P:
                    sel |= set(np.nonzero(corr[:, j])[0].tolist())
        else:
            hits = [w for w, t in enumerate(types) if r in t]
            if len(hits) != 1:
                return "refused"
            sel.add(hits[0])
    return sorted(sel)


def run(case):
    import astropy.units as u
    # the answers must reflect the cube as it is NOW: ask once, scribble on what was returned, add the last extra
    # coordinate only afterwards, then ask again (the second answers are the ones checked)
    hold = 1 if len(case["tabs"]) >= 2 else 0
    cube = build(case, hold_back=hold)
    try:
        for kw0 in ({}, {"wcs": cube.extra_coords}, {"wcs": cube.combined_wcs}):
            for pc in (False, True):
                pre = cube.axis_world_coords_values(pixel_corners=pc, **kw0)
                for a in pre:
                    try:
                        np.asarray(a.value)[...] = -12345.0
                    except Exception:  # noqa
                        pass
    except Exception:  # noqa
        pass
    _add_held_back(cube, case, hold)
    n, desc, corners = cube.data.ndim, case["desc"], case["corners"]
    ll, pm = _target(cube, desc)
    wkw = {} if desc == "wcs" else {"wcs": getattr(cube, desc)}
    reqs = case["reqs"]
    reqs_impl = Q.np_ints(case["key"], list(reqs))        # integer axes as numpy integers in every fourth case
    why = []
    out = {"v": None, "h": None}
    exp_sel = _expected_selection(ll, pm, n, reqs)
    # ---- values form
    try:
        v = cube.axis_world_coords_values(*reqs_impl, pixel_corners=corners, **wkw)
        vexc = None
    except Exception as e:  # noqa
        v, vexc = None, exc_name(e)
    try:
        h = cube.axis_world_coords(*reqs_impl, pixel_corners=corners, **wkw)
        hexc = None
    except Exception as e:  # noqa
        h, hexc = None, exc_name(e)
    if exp_sel == "refused":
        if vexc is None or hexc is None:
            why.append("an out-of-range axis / non-unique or absent physical type was accepted")
        return {"out": out, "oracle": {"ok": not why, "why": "; ".join(why), "finding": None}}
    if vexc or hexc:
        why.append(f"valid request raised {vexc or hexc}")
        return {"out": out, "oracle": {"ok": False, "why": "; ".join(why), "finding": None}}
    types = list(ll.world_axis_physical_types)
    ident = [t.replace(":", "_").replace(".", "_").replace("-", "__") for t in types]
    corr = np.asarray(ll.axis_correlation_matrix)
    # full-grid reference: world values at every element centre / corner, through the mapping
    full_shape = tuple(s + 1 for s in cube.data.shape) if corners else cube.data.shape
    grid = np.indices(full_shape).astype(float) - (0.5 if corners else 0.0)
    ref = ll.pixel_to_world_values(*[grid[n - 1 - p] for p in pm])
    ref = [ref] if ll.world_n_dim == 1 else list(ref)
    vout = []
    fields = list(v._fields)
    exp_fields = [ident[w] for w in reversed(exp_sel)]
    if fields != exp_fields:
        why.append(f"values form returned {fields}, expected {exp_fields} (requested world axes in array order)")
    else:
        for w, arr in zip(reversed(exp_sel), v):
            arr = np.asarray(arr.to_value(ll.world_axis_units[w]) if hasattr(arr, "to_value") else arr, dtype=float)
            dep = sorted({n - 1 - pm[j] for j in np.nonzero(corr[w])[0]})
            eshape = tuple(full_shape[a] for a in dep)
            if arr.shape != eshape:
                why.append(f"{types[w]}: array shape {arr.shape}, expected one dimension per dependent array axis {dep}: {eshape}")
                break
            idx = tuple(slice(None) if a in dep else 0 for a in range(n))
            exp = np.asarray(ref[w])[idx]
            if not np.allclose(arr, exp, rtol=1e-10, atol=1e-9, equal_nan=True):
                bad = np.argwhere(~np.isclose(arr, exp, rtol=1e-10, atol=1e-9, equal_nan=True))[0]
                why.append(f"{types[w]}: entry {tuple(int(x) for x in bad)} is {float(arr[tuple(bad)])!r}, the WCS gives {float(exp[tuple(bad)])!r} there")
                break
            vout.append([int(w), [int(x) for x in arr.shape], [None if np.isnan(x) else Fr(float(x)) for x in arr.ravel()]])
    # ---- high-level form: one object per WCS object with a selected world axis, in first-occurrence order
    comps = [c[0] for c in ll.world_axis_object_components]
    classes = ll.world_axis_object_classes
    order = []
    for c in comps:
        if c not in order:
            order.append(c)
    exp_objs = []
    for w in exp_sel:                         # first occurrence among the selected world axes, in world order
        if comps[w] not in exp_objs:
            exp_objs.append(comps[w])
    hout = None
    if not why:
        if len(h) != len(exp_objs):
            why.append(f"high-level form returned {len(h)} objects, expected {len(exp_objs)} ({exp_objs})")
        else:
            hout = []
            for name, obj in zip(exp_objs, h):
                klass = classes[name][0]
                if not isinstance(obj, klass if isinstance(klass, type) else object):
                    why.append(f"object for {name} is a {type(obj).__name__}, the WCS declares {getattr(klass, '__name__', klass)}")
                    break
                hout.append(order.index(name))
                # numeric agreement with the values form
                ws = [w for w in range(len(comps)) if comps[w] == name]
                parts = _components(obj, ll, ws)
                if parts is None:
                    continue
                for w, part in zip(ws, parts):
                    dep = sorted({n - 1 - pm[j] for j in np.nonzero(corr[w])[0]})
                    idx = tuple(slice(None) if a in dep else 0 for a in range(n))
                    exp = np.asarray(ref[w])[idx]
                    part = np.asarray(part, dtype=float)
                    try:
                        exp_b = np.broadcast_to(exp.reshape([full_shape[a] if a in dep else 1 for a in range(n)]) if False else exp, exp.shape)
                    except Exception:  # noqa
                        exp_b = exp
                    if part.shape == exp_b.shape:
                        d = np.abs(part - exp_b)
                        if "pos." in types[w]:
                            d = np.minimum(d, np.abs(d - 360.0))
                        if np.nanmax(d, initial=0.0) > 1e-6 * max(1.0, float(np.nanmax(np.abs(exp_b), initial=1.0))):
                            why.append(f"high-level object {name} disagrees numerically with the values form on {types[w]}")
                            break
    out = {"v": vout if not why else None, "h": hout}
    if desc == "wcs" and not case["fam"]:
        # the array axes of every world object, as crop and the sequence views obtain them
        try:
            from astropy.wcs.wcsapi import HighLevelWCSWrapper
            from ndcube.utils.wcs import array_indices_for_world_objects
            out["o"] = [[int(a) for a in axes_] for axes_ in array_indices_for_world_objects(HighLevelWCSWrapper(ll))]
        except Exception as e:  # noqa
            why.append(f"array_indices_for_world_objects raised {exc_name(e)}")
    return {"out": _ser(out), "oracle": {"ok": not why, "why": "; ".join(why), "finding": None}}


def _components(obj, ll, ws):
    import astropy.units as u
    from astropy.coordinates import SkyCoord
    from astropy.time import Time
    if isinstance(obj, Pair):
        return [np.asarray(obj.x), np.asarray(obj.y)]
    if isinstance(obj, SkyCoord):
        if len(ws) != 2:
            return None
        sph = obj.spherical
        return [sph.lon.to_value(u.deg), sph.lat.to_value(u.deg)]
    if isinstance(obj, Time):
        return None
    if hasattr(obj, "to_value"):
        return [obj.to_value(ll.world_axis_units[ws[0]])]
    return None


def _ser(x):
    if isinstance(x, Fr):
        return [x.numerator, x.denominator]
    if isinstance(x, dict):
        return {k: _ser(v) for k, v in x.items()}
    if isinstance(x, (list, tuple)):
        return [_ser(v) for v in x]
    return x


def _cq(x):
    return f"(({x[0]}) # {x[1]})%Q"


def _ci(x):
    return f"(({int(x)}) # 1)%Q"


def coq_case(case, res):
    o = res["out"]
    TRIV = 'mk 0%nat [] None [] [] [] [] false [] (Some []) (Some []) None'
    ec2 = case.get("ec2")
    if case["fam"] or (ec2 and ec2["k"] != "wcsec"):
        return TRIV
    n, shape, desc = case["n"], case["shape"], case["desc"]
    A = _weights(case["mat"])
    b = [100 * (k + 1) for k in range(len(A))]
    types, groups = list(case["types"]), list(case["groups"])
    # extra coords as an exact linear wcs: table k on array axis ax = slope * index + intercept
    tabs = sorted(enumerate(case["tabs"]), key=lambda kt: kt[1][0])      # ExtraCoords keeps tables sorted by axis
    if ec2 and desc == "extra_coords":
        # WCS-backed extra coords over an exact linear probe: extra pixel dimension j is the cube's pixel axis mapping[j]
        Am = [[PRIMES[(3 * r + c) % len(PRIMES)] * x for c, x in enumerate(row)] for r, row in enumerate(ec2["mat"])]
        bm = [1000 * (k + 1) for k in range(len(Am))]
        tt, gg = list(ec2["types"]), list(range(len(Am)))
        pmap = "(Some " + Q.lst(ec2["mapping"], Q.nat) + ")"
        shp = shape
    elif desc == "extra_coords":
        if any(case["corners"] for _ in [0]) and case["corners"]:
            return TRIV          # corners fall outside the tables (NaN): left to the direct oracle
        m = len(tabs)
        Arows = [[(tb[1] if j == i else 0) for j in range(m)] for i, (k, tb) in enumerate(tabs)]
        brow = [tb[2] for k, tb in tabs]
        tps = [f"custom:e{k}" for k, tb in tabs]
        grp = list(range(m))
        pmap = "(Some " + Q.lst([n - 1 - tb[0] for k, tb in tabs], Q.nat) + ")"
        shp = shape
        Am, bm, tt, gg = Arows, brow, tps, grp
    else:
        pmap, shp = "None", shape
        Am, bm, tt, gg = [list(r) for r in A], list(b), types, groups
        if desc == "combined_wcs":
            if case["corners"] and tabs:
                return TRIV
            for i, (k, tb) in enumerate(tabs):
                row = [0] * n
                row[n - 1 - tb[0]] = tb[1]
                Am.append(row)
                bm.append(tb[2])
                tt.append(f"custom:e{k}")
                gg.append(1000 + i)
            if ec2:
                for r, row in enumerate(ec2["mat"]):
                    full = [0] * n
                    for c, x in enumerate(row):
                        full[ec2["mapping"][c]] = PRIMES[(3 * r + c) % len(PRIMES)] * x
                    Am.append(full)
                    bm.append(1000 * (r + 1))
                    tt.append(ec2["types"][r])
                    gg.append(2000 + r)
    # object ids: the position of the object among the distinct names in first-occurrence order is what the
    # implementation reports for families; for probes the group id itself
    if desc == "combined_wcs":
        # CompoundLowLevelWCS renames objects "<name>_<member>": ids as reported by the harness are the digits of g<id>_<k>
        pass
    pos, seen = [], []
    for g in gg:
        if g not in seen:
            seen.append(g)
        pos.append(seen.index(g))
    gg = pos
    reqs = Q.lst([f"(AInt {Q.z(r)})" if isinstance(r, int) else f'(AStr "{r}")' for r in case["reqs"]])
    v = "None" if o["v"] is None else "(Some " + Q.lst([
        Q.tup(Q.nat(w), Q.lst(sh, Q.z), Q.lst([_cq(x) for x in vals])) for w, sh, vals in o["v"]]) + ")"
    h = "None" if o["h"] is None else "(Some " + Q.lst(o["h"], Q.z) + ")"
    tstr = Q.lst([f'"{t}"' for t in tt])
    oi = "None" if o.get("o") is None else "(Some " + Q.lst([Q.lst(x, Q.nat) for x in o["o"]]) + ")"
    return (f"mk {Q.nat(n)} {Q.lst(shp, Q.z)} {pmap} {Q.lst([Q.lst([_ci(x) for x in r]) for r in Am])} "
            f"{Q.lst([_ci(x) for x in bm])} {tstr} {Q.lst(gg, Q.z)} {Q.b(case['corners'])} {reqs} {v} {h} {oi}")
