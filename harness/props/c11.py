"""C11 — sequence slicing and exploding equal doing it to the list and to every cube."""
import numpy as np
from harness import coqio as Q
from harness.impl import seq_with_ca, coded_cube, exc_name

CORR = "C11_corr"
IMPORTS = ["M_Slicing", "M_IndexAsCube", "M_Sequence"]
MODEL_FILES = ["Model/M_Sequence.v", "Model/M_Slicing.v", "Base/PyIndex.v"]
DEPS = ["pyindex"]
RULE = ("cases = (per-cube shapes, common axis, op history of <=3 ops among getitem(int|slice|tuple incl. Ellipsis, "
        "stepped sequence-axis slices), sequence explode(axis), cube explode(axis)); small domains enumerated, rest "
        "sampled with the run's seed; distinct by key; non-trivial = some op is not the identity slice")
ASSUMPTIONS = ["python list indexing and numpy basic indexing are the reference semantics (direct oracle)",
               "per-cube coordinates after slicing are C01's subject"]


def _enc_in(x):
    return x


def gen(tier, rng):
    cases = []

    def add(shapes, ca, ops, stratum):
        key = f"{shapes}|{ca}|{ops}"
        cases.append({"key": key, "stratum": stratum, "shapes": [list(s) for s in shapes], "ca": ca, "ops": ops,
                      "nontrivial": True, "show": {"shapes": shapes, "common_axis": ca, "ops": ops}})

    def seqs():
        out = []
        for nd in (1, 2, 3):
            base = [3, 2, 4][:nd]
            for ncube in (1, 2, 3) if tier == "quick" else (1, 2, 3, 4):
                for ca in [None] + list(range(nd)):
                    out.append(([tuple(base)] * ncube, ca))
                    if ca is not None and ncube > 1:
                        sh = []
                        for k in range(ncube):
                            s = list(base)
                            s[ca] = [2, 3, 1, 4][k]
                            sh.append(tuple(s))
                        out.append((sh, ca))
        return out

    def axis_items(n):
        ints = [-n - 1, -n, -1, 0, n - 1, n]
        b = [None, -n - 1, -1, 0, 1, n, n + 1]
        return ints, [["s", x, y, None] for x in b for y in b]

    S = seqs()
    for shapes, ca in S:
        n, nd = len(shapes), len(shapes[0])
        # sequence-axis only: every int, every slice incl. steps
        for i in range(-n - 1, n + 1):
            add(shapes, ca, [["get", "int", i]], "seq-axis")
        bs = [None] + list(range(-n - 1, n + 2))
        for a in bs:
            for b in bs:
                for st in (None, 2, -1):
                    if st is not None and (a, b) not in ((None, None), (0, n), (-1, None), (None, 0), (n, 0)):
                        continue
                    add(shapes, ca, [["get", "slice", ["s", a, b, st]]], "seq-axis")
        # an Ellipsis alone, as a tuple (Ellipsis,) and bare (seq[...]: see _impl_step)
        add(shapes, ca, [["get", "tuple", ["E"]]], "ellipsis-alone")
        add(shapes, ca, [["get", "tuple", ["E"]], ["get", "tuple", ["E"]]], "ellipsis-alone")
        # explode along every axis of both signs (and out of range)
        for ax in range(-nd, nd):   # valid axes only: behaviour for out-of-range axes is not specified
            add(shapes, ca, [["explode", ax]], "explode")
            add(shapes, ca, [["cube_explode", rng.randrange(-n, n), ax]], "explode")
    # tuple items
    ntup = 7000 if tier == "quick" else 120000
    for _ in range(ntup):
        shapes, ca = rng.choice(S)
        n, nd = len(shapes), len(shapes[0])
        i0 = rng.choice([rng.randrange(-n, n), ["s", rng.choice([None, 0, 1, -1]), rng.choice([None, n, -1, 1]),
                                                rng.choice([None, None, 1, 2, -1])]])
        rest = []
        for a in range(nd):
            ln = min(s[a] for s in shapes)
            ints, sl = axis_items(ln)
            rest.append(rng.choice(ints) if rng.random() < 0.4 else rng.choice(sl))
        its = [i0] + rest
        r = rng.random()
        if r < 0.3:
            p = rng.randrange(0, nd + 1)
            q = rng.randrange(p, nd + 2)
            its = its[:p] + ["E"] + its[q:]
        elif r < 0.45:
            its = its[:rng.randrange(1, nd + 2)]
        try:
            ex = _expand(Q.dec_items(its), 1 + nd)
        except IndexError:
            ex = [slice(None)]
        if len([i for i in ex[1:] if isinstance(i, int)]) == nd:
            continue                      # 0-d cubes do not exist
        ops = [["get", "tuple", its]]
        r2 = rng.random() if not isinstance(ex[0], int) else 1.0   # a cube result ends the history
        if r2 < 0.25:
            ops.append(["explode", rng.choice([0, -1])])
        elif r2 < 0.5:
            ops.append(["get", "slice", ["s", rng.choice([None, 1]), None, rng.choice([None, 2])]])
            if rng.random() < 0.5:
                ops.append(["explode", rng.choice([0, -1])])
        add(shapes, ca, ops, "tuple+chains")
    return cases


def _expand(items, total):
    items = list(items)
    if sum(i is Ellipsis for i in items) > 1:
        raise IndexError("two ellipses")
    if any(i is Ellipsis for i in items):
        p = [i is Ellipsis for i in items].index(True)
        fill = total - (len(items) - 1)
        if fill < 0:
            raise IndexError("too many indices")
        items = items[:p] + [slice(None)] * fill + items[p + 1:]
    if len(items) > total:
        raise IndexError("too many indices")
    return items


class Refused(Exception):
    pass


def _oracle_step(arrs, ca, op):
    """reference semantics on plain python lists of numpy arrays -> (kind, arrs|arr, ca)"""
    nd = arrs[0].ndim if arrs else 0
    if op[0] == "get":
        if op[1] == "int":
            return "cube", arrs[op[2]], None
        if op[1] == "slice":
            return "seq", arrs[Q.dec_item(op[2])], ca
        items = Q.dec_items(op[2])
        if any(i is None for i in items):
            raise Refused()
        ex = _expand(items, 1 + nd)
        if not ex:
            raise IndexError()
        i0, rest = ex[0], ex[1:]
        rest_p = rest + [slice(None)] * (nd - len(rest))
        for r in rest:
            if isinstance(r, slice) and r.step not in (None, 1):
                raise Refused()
        if isinstance(i0, int):
            return "cube", arrs[i0][tuple(rest)], None
        sel = arrs[i0]
        out = [a[tuple(rest)] for a in sel]
        if ca is None:
            nca = None
        elif isinstance(rest_p[ca], int):
            nca = None
        else:
            nca = ca - sum(isinstance(r, int) for r in rest_p[:ca])
        return "seq", out, nca
    if op[0] == "explode":
        ax = op[1]
        if not -nd <= ax < nd:
            raise IndexError()
        ax = ax % nd
        if nd < 2:
            raise Refused()
        out = [np.take(a, j, axis=ax) for a in arrs for j in range(a.shape[ax])]
        nca = None if (ca is None or ca == ax) else (ca - 1 if ca > ax else ca)
        return "seq", out, nca
    if op[0] == "cube_explode":
        a = arrs[op[1]]
        ax = op[2]
        if not -nd <= ax < nd:
            raise IndexError()
        ax = ax % nd
        if nd < 2:
            raise Refused()
        return "seq", [np.take(a, j, axis=ax) for j in range(a.shape[ax])], None
    raise ValueError(op)


def _impl_step(seq, op, key=""):
    if op[0] == "get":
        if op[1] == "int":
            return seq[Q.np_ints(key, op[2])]
        if op[1] == "slice":
            return seq[Q.dec_item(op[2])]
        if op[2] == ["E"] and len(str(key)) % 2 == 0:
            return seq[...]                      # the bare form of the same index
        return seq[Q.np_ints(key, Q.dec_items(op[2]))]
    if op[0] == "explode":
        return seq.explode_along_axis(op[1])
    return seq.data[op[1]].explode_along_axis(op[2])


def run(case):
    from ndcube import NDCube, NDCubeSequence
    shapes, ca = [tuple(s) for s in case["shapes"]], case["ca"]
    cubes = [coded_cube(s, cid=k) for k, s in enumerate(shapes)]
    meta = {"seq": "meta"}
    seq = seq_with_ca(cubes, ca, case["key"], meta=meta)
    arrs = [c.data for c in cubes]
    why = []
    # reference
    exp_kind, exp, eca, exp_exc = "seq", arrs, ca, None
    exp_meta = meta
    try:
        for op in case["ops"]:
            if op[0] == "cube_explode":
                exp_meta = cubes[0].meta   # NDCube.explode_along_axis: the cube's meta becomes the sequence meta
            if exp_kind != "seq":
                raise Refused()
            exp_kind, exp, eca = _oracle_step(exp, eca, op)
            if exp_kind == "cube" and exp.ndim == 0 or exp_kind == "seq" and any(a.ndim == 0 for a in exp):
                raise Refused()
    except Refused:
        exp_exc = "refused-or-any"
    except Exception as e:  # noqa
        exp_exc = exc_name(e)
    # implementation
    r, exc = seq, None
    import zlib
    look_first = zlib.crc32(case["key"].encode()) % 2 == 0
    try:
        for op in case["ops"]:
            if look_first and isinstance(r, NDCubeSequence):
                # ask the sequence about itself before deriving from it: the answers about the result must be the result's own
                for probe in (lambda: r.shape, lambda: r.cube_like_shape, lambda: str(r), lambda: r.array_axis_physical_types):
                    try:
                        probe()
                    except Exception:  # noqa
                        pass
            prev = r
            r = _impl_step(r, op, case["key"])
            if isinstance(r, NDCubeSequence) and isinstance(prev, NDCubeSequence) and r is not prev \
                    and isinstance(r.data, list) and isinstance(prev.data, list) and len(r.data):
                # the result holds its own cubes: editing ITS list in place (the whole-axis slice seq[:] included) must
                # not change which cubes its source holds - and then it describes the cubes it holds now
                held = [id(c) for c in prev.data]
                r.data.append(r.data[0])
                if [id(c) for c in prev.data] != held:
                    why.append(f"after {op}: appending a cube to the result's data list changed the cubes held by its source")
                r.data.pop()
    except Exception as e:  # noqa
        r, exc = None, exc_name(e)
    if exc is not None:
        out = {"t": "err", "e": exc}
        if exp_exc is None:
            why.append(f"raised {exc} on a valid history")
    elif isinstance(r, NDCube):
        d = np.asarray(r.data)
        out = {"t": "cube", "id": int(d.flat[0]) // 100000 if d.size else -1, "shape": [int(x) for x in d.shape]}
        if exp_exc == "refused-or-any":
            pass
        elif exp_exc is not None:
            why.append(f"accepted a history the reference refuses with {exp_exc}")
        elif exp_kind != "cube" or not np.array_equal(d, exp):
            why.append("returned cube differs from list[item0][rest]")
    elif isinstance(r, NDCubeSequence):
        cs = []
        for c in r.data:
            d = np.asarray(c.data)
            cs.append([int(d.flat[0]) // 100000 if d.size else -1, [int(x) for x in d.shape]])
        rca = r._common_axis
        cls = None
        if rca is not None and r.data:
            try:
                cls = [int(x) for x in r.cube_like_shape]
            except Exception as e:  # noqa
                why.append(f"cube_like_shape raised {exc_name(e)}")
        out = {"t": "seq", "cs": cs, "ca": rca, "cls": cls}
        if exp_exc == "refused-or-any":
            pass
        elif exp_exc is not None:
            why.append(f"accepted a history the reference refuses with {exp_exc}")
        elif exp_kind != "seq":
            why.append("returned a sequence, expected a cube")
        else:
            if len(r.data) != len(exp) or any(not np.array_equal(np.asarray(c.data), e) for c, e in zip(r.data, exp)):
                why.append("cubes differ from [c[rest] for c in list[item0]] / per-cube per-index slices")
            if rca != eca:
                why.append(f"common axis {rca}, expected {eca}")
            if r.meta != exp_meta:
                why.append("sequence meta not kept")
            if r.data and not why:
                sh = r.shape
                esh = [len(r.data)] + [int(x) for x in r.data[0].data.shape]
                if rca is not None and len({c.data.shape[rca] for c in r.data}) > 1:
                    esh[1 + rca] = tuple(int(c.data.shape[rca]) for c in r.data)      # ragged common axis: every length
                got = [tuple(int(y) for y in x) if isinstance(x, (tuple, list, np.ndarray)) else int(x) for x in sh]
                if got != esh:
                    why.append(f"shape {sh} does not describe the cubes held ({esh})")
                if cls is not None:
                    ecls = list(r.data[0].data.shape)
                    ecls[rca] = sum(c.data.shape[rca] for c in r.data)
                    if cls != ecls:
                        why.append(f"cube_like_shape {cls}, cubes held give {ecls}")
                apt = r.array_axis_physical_types
                if apt != [("meta.obs.sequence",)] + r.data[0].array_axis_physical_types:
                    why.append("array_axis_physical_types does not describe the cubes held")
    else:
        out = {"t": "err", "e": "WrongType"}
        why.append(f"unexpected result type {type(r).__name__}")
    return {"out": out, "oracle": {"ok": not why, "why": "; ".join(why), "finding": None}}


def _coq_in(op):
    if op[1] == "int":
        return f"(SInt {Q.z(op[2])})"
    if op[1] == "slice":
        e = op[2]
        return f"(SSlice {Q.opt(e[1])} {Q.opt(e[2])} {Q.opt(e[3])})"
    return f"(STuple {Q.lst(op[2], Q.coq_item)})"


def _coq_op(op):
    if op[0] == "get":
        return f"(OGet {_coq_in(op)})"
    if op[0] == "explode":
        return f"(OExplode {Q.z(op[1])})"
    return f"(OCubeExplode {Q.z(op[1])} {Q.z(op[2])})"


def _coq_cube(cid, shape):
    return Q.tup(Q.z(cid), Q.lst(shape, Q.z))


def coq_case(case, res):
    o = res["out"]
    s0 = ("(mkSeq " + Q.lst([_coq_cube(k, s) for k, s in enumerate(case["shapes"])]) + " "
          + Q.opt(case["ca"], Q.nat) + ")")
    if o["t"] == "err":
        impl = f"(OErrR {Q.err(o['e'])})"
    elif o["t"] == "cube":
        impl = f"(OCubeR {_coq_cube(o['id'], o['shape'])})"
    else:
        cls = "None" if o["cls"] is None else "(Some " + Q.lst(o["cls"], Q.z) + ")"
        impl = f"(OSeqR {Q.lst([_coq_cube(c[0], c[1]) for c in o['cs']])} {Q.opt(o['ca'], Q.z)} {cls})"
    return f"mk {s0} {Q.lst([_coq_op(op) for op in case['ops']])} {impl}"
