"""C14 — WCS wrappers are exact, invertible re-parameterisations."""
import itertools
from fractions import Fraction as Fr
import numpy as np
from harness import coqio as Q
from harness.impl import poke_wcs, make_probe, rand_unimodular, exc_name, family_wcs

CORR = "C14_corr"
IMPORTS = ["M_Wrappers"]
COQ_PREAMBLE = "Open Scope Q_scope.\n"
MODEL_FILES = ["Model/M_Wrappers.v"]
RULE = ("cases = wrapper expressions (resampled / reordered / compound, nested up to depth 2) over exactly "
        "representable linear probe WCS of 1-3 pixel axes: all pixel and world permutations up to 3 axes, factors and "
        "offsets integer and fractional (scalar or per axis, right or wrong length), compound mappings that share, "
        "duplicate or separate axes with agreeing / disagreeing shapes and bounds and consistent / inconsistent world "
        "inputs; pixel inputs of rank 0-2; plus a FITS family stream decided by the direct oracle; distinct by key; "
        "non-trivial = a non-identity factor / offset / permutation / mapping")
ASSUMPTIONS = ["inner WCS of the probe stream is the exact linear ProbeWCS (harness/impl.py), its Gallina twin is lin_wcs",
               "doubles are converted exactly to rationals; comparison tolerance 1e-9 relative"]
FACTORS = [1, 2, 3, 4, Fr(1, 2), Fr(3, 2), Fr(1, 4)]
OFFSETS = [0, Fr(1, 2), 1, Fr(-1, 2), Fr(3, 2), 2]


def _fr(x):
    return [x.numerator, x.denominator] if isinstance(x, Fr) else [int(x), 1]


def _lin(rng, n, tag=0, with_shape=None, with_bounds=None):
    A = rand_unimodular(rng, n)
    b = [rng.randrange(-3, 4) for _ in range(n)]
    shape = [rng.choice([4, 6, 8, 12]) for _ in range(n)] if (rng.random() < 0.6 if with_shape is None else with_shape) else None
    bounds = [[-1, rng.choice([5, 7, 11])] for _ in range(n)] if (rng.random() < 0.4 if with_bounds is None else with_bounds) else None
    ids = [tag * 10 + k for k in range(n)]
    return {"k": "lin", "A": A, "b": b, "shape": shape, "bounds": bounds, "tw": ids, "tp": ids}


def _npix(e):
    if e["k"] == "lin":
        return len(e["A"])
    if e["k"] in ("res", "reo"):
        return _npix(e["w"])
    return max(e["mapping"]) + 1


def _nworld(e):
    if e["k"] == "lin":
        return len(e["A"])
    if e["k"] in ("res", "reo"):
        return _nworld(e["w"])
    return sum(_nworld(w) for w in e["ws"])


def _rand_res(rng, inner, bad=False):
    n = _npix(inner)
    mode = rng.choice(["scalar", "vec", "vec"])
    f = [_fr(Fr(rng.choice(FACTORS)))] * n if mode == "scalar" else [_fr(Fr(rng.choice(FACTORS))) for _ in range(n)]
    o = [_fr(Fr(rng.choice(OFFSETS)))] * n if rng.random() < 0.4 else [_fr(Fr(rng.choice(OFFSETS))) for _ in range(n)]
    e = {"k": "res", "w": inner, "f": f, "o": o, "fscalar": mode == "scalar" and not bad,
         "oscalar": (not bad) and all(x == o[0] for x in o) and rng.random() < 0.7,
         "ints": rng.random() < 0.6}         # hand whole numbers over as Python ints (integer-typed arrays inside the wrapper)
    if bad:
        if rng.random() < 0.5:
            e["f"] = f + [_fr(Fr(2))]
        else:
            e["o"] = o[:-1] if n > 1 else o + [_fr(Fr(0))]
    return e


def _rand_reo(rng, inner, bad=False):
    n, m = _npix(inner), _nworld(inner)
    po, wo = list(range(n)), list(range(m))
    rng.shuffle(po)
    rng.shuffle(wo)
    if bad:
        if rng.random() < 0.5:
            po = po[:-1] + [po[0]] if n > 1 else [1]
        else:
            wo = wo + [0]
    return {"k": "reo", "w": inner, "po": po, "wo": wo}


def _rand_comp(rng, bad=None):
    nm = rng.choice([2, 2, 3])
    members, mapping = [], []
    nout = rng.choice([1, 2, 3])
    for t in range(nm):
        n = rng.choice([1, 1, 2])
        members.append(_lin(rng, n, tag=t + 1, with_shape=True, with_bounds=True))
        mapping += [rng.randrange(nout) for _ in range(n)]
    # make the mapping cover 0..max
    mx = max(mapping)
    for k in range(mx + 1):
        if k not in mapping:
            mapping[rng.randrange(len(mapping))] = k
    mx = max(mapping)
    if any(k not in mapping for k in range(mx + 1)):
        mapping = [i % (mx + 1) for i in range(len(mapping))]
    # shapes / bounds on shared axes: make them agree unless asked otherwise
    slot = 0
    shp, bnd = {}, {}
    for m in members:
        for a in range(len(m["A"])):
            ax = mapping[slot]
            shp.setdefault(ax, m["shape"][a])
            bnd.setdefault(ax, m["bounds"][a])
            m["shape"][a] = shp[ax]
            m["bounds"][a] = list(bnd[ax])
            slot += 1
    if bad is None and rng.random() < 0.25:
        ones = [i for i, m in enumerate(members) if len(m["A"]) == 1]
        if ones:
            i = rng.choice(ones)
            twin = _lin(rng, 1, tag=9, with_shape=True, with_bounds=True)
            twin["shape"], twin["bounds"] = list(members[i]["shape"]), [list(b) for b in members[i]["bounds"]]
            members[i] = {"k": "comp", "ws": [members[i], twin], "mapping": [0, 0]}     # one pixel axis, two world axes
    e = {"k": "comp", "ws": members, "mapping": mapping}
    if bad == "maplen":
        e["mapping"] = mapping + [0]
    elif bad == "shape":
        shared = [i for i, ax in enumerate(mapping) if mapping.count(ax) > 1]
        if shared:
            i = shared[-1]
            s = 0
            for m in members:
                if i < s + len(m["A"]):
                    m["shape"][i - s] += 2
                    break
                s += len(m["A"])
    elif bad == "bounds":
        shared = [i for i, ax in enumerate(mapping) if mapping.count(ax) > 1]
        if shared:
            i = shared[-1]
            s = 0
            for m in members:
                if i < s + len(m["A"]):
                    m["bounds"][i - s][1] += 1
                    break
                s += len(m["A"])
    return e


def gen(tier, rng):
    cases = []

    def add(e, stratum, nontrivial=True, fam=None):
        n, m = (_npix(e), _nworld(e)) if fam is None else (0, 0)
        seedk = rng.randrange(10 ** 9)
        key = f"{e}|{seedk if fam else ''}"
        cases.append({"key": key, "stratum": stratum, "e": e, "rs": seedk, "nontrivial": nontrivial, "fam": fam,
                      "show": {"expr": e, "family": fam}})

    # reordered: every pair of permutations up to 3 axes
    for n in (1, 2, 3):
        for po in itertools.permutations(range(n)):
            for wo in itertools.permutations(range(n)):
                inner = _lin(rng, n)
                add({"k": "reo", "w": inner, "po": list(po), "wo": list(wo)}, "reordered-all-perms",
                    nontrivial=(list(po) != sorted(po) or list(wo) != sorted(wo)))
    N = 500 if tier == "quick" else 8000
    for _ in range(N):
        n = rng.choice([1, 2, 2, 3])
        add(_rand_res(rng, _lin(rng, n), bad=rng.random() < 0.08), "resampled")
    for _ in range(N // 3):
        add(_rand_reo(rng, _lin(rng, rng.choice([2, 3, 4])), bad=rng.random() < 0.15), "reordered-sample")
    for _ in range(N):
        add(_rand_comp(rng, bad=rng.choice([None, None, None, None, "maplen", "shape", "bounds"])), "compound")
    for _ in range(N // 2):
        n = rng.choice([2, 3])
        inner = _rand_res(rng, _lin(rng, n)) if rng.random() < 0.5 else _rand_reo(rng, _lin(rng, n))
        if rng.random() < 0.2:
            # an inner WCS with fewer pixel than world dimensions: two 1-D members sharing their only pixel axis
            a_, b_ = _lin(rng, 1, tag=1, with_shape=True, with_bounds=True), _lin(rng, 1, tag=2, with_shape=True, with_bounds=True)
            b_["shape"], b_["bounds"] = list(a_["shape"]), [list(x) for x in a_["bounds"]]
            inner = {"k": "comp", "ws": [a_, b_], "mapping": [0, 0]}
        r = rng.random()
        if r < 0.4:
            add(_rand_res(rng, inner), "nested")
        elif r < 0.8:
            add(_rand_reo(rng, inner), "nested")
        else:
            c = _rand_comp(rng)
            c["ws"][0] = _rand_res(rng, c["ws"][0])
            c["ws"][0]["w"]["shape"] = None      # resampled shapes / bounds of shared axes no longer agree: leave them out
            c["ws"][0]["w"]["bounds"] = None
            for w in c["ws"][1:]:
                w["shape"] = None
                w["bounds"] = None
            add(c, "nested")
    # family stream: wrappers over real FITS WCS, direct oracle only
    for _ in range(60 if tier == "quick" else 600):
        nd = rng.choice([2, 3])
        fam = rng.choice(["tan", "rot", "lin", "gwcs"] + (["tan_split"] if nd == 3 else []))
        if rng.random() < 0.5:
            e = {"k": "res", "w": None, "f": [_fr(Fr(rng.choice(FACTORS))) for _ in range(nd)],
                 "o": [_fr(Fr(rng.choice(OFFSETS))) for _ in range(nd)], "fscalar": False, "oscalar": False}
        else:
            po, wo = list(range(nd)), list(range(nd))
            rng.shuffle(po)
            rng.shuffle(wo)
            e = {"k": "reo", "w": None, "po": po, "wo": wo}
        add(e, "family", fam=[fam, nd])
    return cases


def _q(x):
    return Fr(x[0], x[1])


def build_impl(e, fam=None):
    from ndcube.wcs.wrappers import ResampledLowLevelWCS, ReorderedLowLevelWCS, CompoundLowLevelWCS
    if e is None:
        return family_wcs(fam[0], fam[1], (60,) * fam[1]).low_level_wcs       # (the shape only matters to the lookup-table gWCS)
    if e["k"] == "lin":
        return make_probe(e["A"], e["b"], e["shape"], e["bounds"], e["tw"], e["tp"])
    if e["k"] == "res":
        inner = build_impl(e["w"], fam)
        num = (lambda x: int(_q(x)) if (e.get("ints") and _q(x).denominator == 1) else float(_q(x)))
        f = [num(x) for x in e["f"]]
        o = [num(x) for x in e["o"]]
        if e.get("fscalar") or e.get("oscalar") or len(f) % 2:
            return ResampledLowLevelWCS(inner, f[0] if e.get("fscalar") else f, o[0] if e.get("oscalar") else o)
        # the parameters as numpy arrays which the caller goes on using (and changing) afterwards
        fa, oa = np.array(f), np.array(o)
        w_ = ResampledLowLevelWCS(inner, fa, oa)
        fa *= 3
        oa += 1
        return w_
    if e["k"] == "reo":
        # the orders are "iterables": lists, tuples, numpy arrays or one-shot iterators, by turns
        kind = (sum(e["po"]) * 7 + sum(e["wo"]) * 3 + len(e["po"])) % 4
        conv = [list, tuple, np.array, iter][kind]
        return ReorderedLowLevelWCS(build_impl(e["w"], fam), conv(e["po"]), conv(e["wo"]))
    # the mapping as a tuple, or as a list which the caller changes afterwards
    members = [build_impl(w) for w in e["ws"]]
    if len(e["mapping"]) % 2:
        return CompoundLowLevelWCS(*members, mapping=tuple(e["mapping"]))
    ml = list(e["mapping"])
    w_ = CompoundLowLevelWCS(*members, mapping=ml)
    ml.reverse()
    ml.append(0)
    return w_


def _ref(e):
    """direct reference (exact, Fractions): returns dict with p2w(p), w2p(w) callables or raises Refused"""
    if e["k"] == "lin":
        A = [[Fr(x) for x in r] for r in e["A"]]
        P = make_probe(e["A"], e["b"])
        Ai, b = P.Ainv_exact, P.b_exact
        n = len(A)
        return {"n": n, "m": n,
                "p2w": lambda p: [sum(A[i][j] * p[j] for j in range(n)) + b[i] for i in range(n)],
                "w2p": lambda w: [sum(Ai[i][j] * (w[j] - b[j]) for j in range(n)) for i in range(n)]}
    if e["k"] == "res":
        R = _ref(e["w"])
        f, o = [_q(x) for x in e["f"]], [_q(x) for x in e["o"]]
        if len(f) != R["n"] or len(o) != R["n"]:
            raise Refused()
        return {"n": R["n"], "m": R["m"],
                "p2w": lambda p: R["p2w"]([p[i] * f[i] + o[i] for i in range(R["n"])]),
                "w2p": lambda w: [(u - o[i]) / f[i] for i, u in enumerate(R["w2p"](w))]}
    if e["k"] == "reo":
        R = _ref(e["w"])
        po, wo = e["po"], e["wo"]
        if sorted(po) != list(range(R["n"])) or sorted(wo) != list(range(R["m"])):
            raise Refused()

        def p2w(p):
            inner = [None] * R["n"]
            for new, old in enumerate(po):      # new pixel axis `new` is the inner axis `old`
                inner[old] = p[new]
            w = R["p2w"](inner)
            return [w[old] for old in wo]

        def w2p(w):
            inner = [None] * R["m"]
            for new, old in enumerate(wo):
                inner[old] = w[new]
            p = R["w2p"](inner)
            return [p[old] for old in po]
        return {"n": R["n"], "m": R["m"], "p2w": p2w, "w2p": w2p}
    Rs = [_ref(w) for w in e["ws"]]
    mp = e["mapping"]
    if len(mp) != sum(R["n"] for R in Rs):
        raise Refused()
    nin = max(mp) + 1

    def p2w(p):
        out, s = [], 0
        for R in Rs:
            out += R["p2w"]([p[mp[s + i]] for i in range(R["n"])])
            s += R["n"]
        return out

    def w2p(w):
        pix, s = [], 0
        for R in Rs:
            pix += R["w2p"](w[s:s + R["m"]])
            s += R["m"]
        res = [None] * nin
        for slot, ax in enumerate(mp):
            if res[ax] is None:
                res[ax] = pix[slot]
            elif abs(res[ax] - pix[slot]) > Fr(1, 10 ** 6):
                raise Refused()
        return res
    return {"n": nin, "m": sum(R["m"] for R in Rs), "p2w": p2w, "w2p": w2p}


class Refused(Exception):
    pass


def _compound_shapes_ok(e):
    if e["k"] != "comp":
        return True
    mp = e["mapping"]
    for attr in ("shape", "bounds"):
        vals, ok = [], True
        for w in e["ws"]:
            if w["k"] != "lin" or w[attr] is None:
                ok = False
                break
            vals += [tuple(x) if isinstance(x, list) else x for x in w[attr]]
        if ok and len(vals) == len(mp):
            seen = {}
            for slot, ax in enumerate(mp):
                if seen.setdefault(ax, vals[slot]) != vals[slot]:
                    return False
    return True


def _vec(x, n):
    if n == 1:
        return [x[0]] if isinstance(x, (tuple, list)) and len(x) == 1 else [x]
    return list(x)


def run(case):
    rng = np.random.RandomState(case["rs"] % (2 ** 31))
    e, fam = case["e"], case["fam"]
    why = []
    try:
        W = poke_wcs(build_impl(e, fam), case["key"])
        exc = None
    except Exception as ex:  # noqa
        W, exc = None, exc_name(ex)
    if fam is not None:
        return _run_family(case, W, exc)
    try:
        R = _ref(e)
        if not _compound_shapes_ok(e):
            raise Refused()
        refused = False
    except Refused:
        R, refused = None, True
    if exc is not None:
        if not refused:
            why.append(f"construction raised {exc} for valid parameters")
        return {"out": {"t": "err", "e": exc}, "oracle": {"ok": not why, "why": "; ".join(why), "finding": None}}
    if refused:
        why.append("construction accepted parameters that must be refused")
    n, m = W.pixel_n_dim, W.world_n_dim
    # pixel inputs of rank 0, 1, 2 (values k/4)
    pins, p2ws = [], []
    for rank in (0, 1, 2):
        shp = () if rank == 0 else ((3,) if rank == 1 else (2, 2))
        arrs = [rng.randint(-8, 24, size=shp) / 4.0 for _ in range(n)]
        out = W.pixel_to_world_values(*arrs)
        out = _vec(out, m)
        for idx in np.ndindex(*shp) if rank else [()]:
            pins.append([Fr(float(a[idx])) for a in arrs])
            p2ws.append([Fr(float(np.asarray(o)[idx])) for o in out])
    # world inputs: images of pixel vectors (consistent) and, for compound, perturbed ones (inconsistent)
    wins, w2ps = [], []
    if R is not None:
        for t in range(4):
            p = [Fr(int(rng.randint(-8, 24)), 4) for _ in range(n)]
            w = R["p2w"](p)
            if e["k"] == "comp" and t >= 2:
                w = list(w)
                w[int(rng.randint(0, m))] += int(rng.choice([1, 3]))
            wins.append(w)
            try:
                got = _vec(W.world_to_pixel_values(*[float(x) for x in w]), n)
                w2ps.append([Fr(float(g)) for g in got])
            except Exception as ex:  # noqa
                w2ps.append(None)
        # direct oracle
        for p, w in zip(pins, p2ws):
            ew = R["p2w"](p)
            if any(abs(a - b) > Fr(1, 10 ** 9) * max(1, abs(b)) for a, b in zip(w, ew)):
                why.append(f"pixel_to_world_values({[float(x) for x in p]}) = {[float(x) for x in w]}, "
                           f"the inner WCS gives {[float(x) for x in ew]}")
                break
        for w, got in zip(wins, w2ps):
            try:
                ep = R["w2p"](w)
            except Refused:
                ep = None
            if ep is None:
                if got is not None:
                    why.append("world inputs implying different positions on a shared pixel axis were accepted")
                    break
            elif got is None:
                why.append("world_to_pixel_values raised on consistent input")
                break
            elif any(abs(a - b) > Fr(1, 10 ** 9) * max(1, abs(b)) for a, b in zip(got, ep)):
                why.append(f"world_to_pixel_values does not return the pixel position: {[float(x) for x in got]} vs {[float(x) for x in ep]}")
                break
    # world inputs given as arrays (three positions at once): consistent ones convert back; for a compound, one
    # inconsistent element among consistent ones is enough for the whole request to be refused
    if R is not None and not why:
        ps = [[Fr(int(rng.randint(-8, 24)), 4) for _ in range(n)] for _ in range(3)]
        ws = [list(R["p2w"](p)) for p in ps]
        try:
            got = _vec(W.world_to_pixel_values(*[np.array([float(w[j]) for w in ws]) for j in range(m)]), n)
            for i3 in range(3):
                if any(abs(float(np.asarray(got[a])[i3]) - float(ps[i3][a])) > 1e-9 * max(1.0, abs(float(ps[i3][a]))) for a in range(n)):
                    why.append(f"world_to_pixel_values on arrays does not return the pixel positions (element {i3})")
                    break
        except Exception as ex:  # noqa
            why.append(f"world_to_pixel_values raised {exc_name(ex)} on consistent array input")
        if e["k"] == "comp" and not why:
            ws2 = [list(w) for w in ws]
            ws2[1][int(rng.randint(0, m))] += int(rng.choice([1, 3]))
            try:
                R["w2p"](ws2[1])
                must_refuse = False
            except Refused:
                must_refuse = True
            if must_refuse:
                try:
                    W.world_to_pixel_values(*[np.array([float(w[j]) for w in ws2]) for j in range(m)])
                    why.append("array world inputs with one element implying different positions on a shared pixel axis were accepted")
                except Exception:  # noqa
                    pass
    wt = [int(t.split("w")[-1]) for t in W.world_axis_physical_types]
    try:
        pt = [int(t[1:]) for t in W.pixel_axis_names]
    except Exception:  # noqa  (compound joins names of shared axes)
        pt = None
    cm = np.asarray(W.axis_correlation_matrix).astype(bool).tolist()
    sh = None if W.pixel_shape is None else [Fr(float(x)) for x in W.pixel_shape]
    bd = None if W.pixel_bounds is None else [[Fr(float(a)), Fr(float(b))] for a, b in W.pixel_bounds]
    out = {"t": "ok", "np": n, "nw": m, "pins": pins, "p2ws": p2ws, "wins": wins, "w2ps": w2ps, "wt": wt, "pt": pt,
           "cm": cm, "sh": sh, "bd": bd}
    return {"out": _ser(out), "oracle": {"ok": not why, "why": "; ".join(why), "finding": None}}


def _ser(o):
    def f(x):
        if isinstance(x, Fr):
            return [x.numerator, x.denominator]
        if isinstance(x, list):
            return [f(y) for y in x]
        return x
    return {k: f(v) for k, v in o.items()}


def _run_family(case, W, exc):
    e, fam = case["e"], case["fam"]
    why = []
    if exc is not None:
        why.append(f"construction raised {exc}")
        return {"out": {"t": "err", "e": exc}, "oracle": {"ok": False, "why": why[0], "finding": None}}
    inner = family_wcs(fam[0], fam[1], (60,) * fam[1]).low_level_wcs
    n = inner.pixel_n_dim
    rng = np.random.RandomState(case["rs"] % (2 ** 31))
    p = [rng.randint(0, 12, size=(2, 3)) / 4.0 for _ in range(n)]
    if fam[0] == "gwcs":
        p = [x + 2.0 for x in p]            # stay inside the lookup tables for every factor / offset generated
    got = W.pixel_to_world_values(*p)
    if e["k"] == "res":
        num = (lambda x: int(_q(x)) if (e.get("ints") and _q(x).denominator == 1) else float(_q(x)))
        f = [num(x) for x in e["f"]]
        o = [num(x) for x in e["o"]]
        exp = inner.pixel_to_world_values(*[p[i] * f[i] + o[i] for i in range(n)])
    else:
        ip = [None] * n
        for new, old in enumerate(e["po"]):
            ip[old] = p[new]
        w = inner.pixel_to_world_values(*ip)
        exp = [w[old] for old in e["wo"]]
        if list(W.world_axis_physical_types) != [inner.world_axis_physical_types[i] for i in e["wo"]]:
            why.append("world_axis_physical_types not permuted with the world order")
        if list(W.world_axis_units) != [inner.world_axis_units[i] for i in e["wo"]]:
            why.append("world_axis_units not permuted with the world order")
        if not np.array_equal(W.axis_correlation_matrix, inner.axis_correlation_matrix[e["wo"]][:, e["po"]]):
            why.append("axis_correlation_matrix not permuted consistently")
    for a, b in zip(got, exp):
        if not np.allclose(a, b, rtol=1e-10, atol=1e-12, equal_nan=True):
            why.append("pixel_to_world_values differs from the inner WCS evaluated directly")
            break
    back = W.world_to_pixel_values(*got)
    for a, b in zip(back, p):
        if not np.allclose(a, b, rtol=1e-6, atol=1e-6):
            why.append("world_to_pixel_values(pixel_to_world_values(p)) != p")
            break
    return {"out": {"t": "family"}, "oracle": {"ok": not why, "why": "; ".join(why), "finding": None}}


# ---- Gallina literals ---------------------------------------------------------------------------
def _cq(x):
    return f"(({x[0]}) # {x[1]})"


def _cqv(v):
    return Q.lst([_cq(x) for x in v])


def _cint(x):
    return f"(({int(x)}) # 1)"


def _coq_expr(e):
    if e["k"] == "lin":
        P = make_probe(e["A"], e["b"])
        A = Q.lst([Q.lst([_cint(x) for x in r]) for r in e["A"]])
        Ai = Q.lst([Q.lst([_cq([x.numerator, x.denominator]) for x in r]) for r in P.Ainv_exact])
        b = Q.lst([_cint(x) for x in e["b"]])
        sh = "None" if e["shape"] is None else "(Some " + Q.lst([_cint(x) for x in e["shape"]]) + ")"
        bd = "None" if e["bounds"] is None else "(Some " + Q.lst([Q.tup(_cint(a), _cint(b_)) for a, b_ in e["bounds"]]) + ")"
        return f"(WLin {A} {Ai} {b} {Q.lst(e['tw'], Q.z)}%Z {Q.lst(e['tp'], Q.z)}%Z {sh} {bd})"
    if e["k"] == "res":
        return f"(WResampled {_coq_expr(e['w'])} {_cqv(e['f'])} {_cqv(e['o'])})"
    if e["k"] == "reo":
        return f"(WReordered {_coq_expr(e['w'])} {Q.lst(e['po'], Q.nat)} {Q.lst(e['wo'], Q.nat)})"
    return f"(WCompound {Q.lst([_coq_expr(w) for w in e['ws']])} {Q.lst(e['mapping'], Q.nat)})"


def coq_case(case, res):
    o = res["out"]
    if case["fam"] is not None:
        # family cases are decided by the direct oracle only: a trivially agreeing model case
        return "mk (WLin [] [] [] []%Z []%Z None None) [] [] (OOk 0%nat 0%nat [] [] []%Z None [] None None)"
    if o["t"] == "err":
        return f"mk {_coq_expr(case['e'])} [] [] (OErr {Q.err(o['e'])})"
    w2ps = Q.lst(["None" if v is None else f"(Some {_cqv(v)})" for v in o["w2ps"]])
    pt = "None" if o["pt"] is None else f"(Some {Q.lst(o['pt'], Q.z)}%Z)"
    cm = Q.lst([Q.lst([Q.b(x) for x in r]) for r in o["cm"]])
    sh = "None" if o["sh"] is None else f"(Some {_cqv(o['sh'])})"
    bd = "None" if o["bd"] is None else "(Some " + Q.lst([Q.tup(_cq(a), _cq(b)) for a, b in o["bd"]]) + ")"
    impl = (f"(OOk {Q.nat(o['np'])} {Q.nat(o['nw'])} {Q.lst([_cqv(v) for v in o['p2ws']])} {w2ps} "
            f"{Q.lst(o['wt'], Q.z)}%Z {pt} {cm} {sh} {bd})")
    return (f"mk {_coq_expr(case['e'])} {Q.lst([_cqv(v) for v in o['pins']])} "
            f"{Q.lst([_cqv(v) for v in o['wins']])} {impl}")
