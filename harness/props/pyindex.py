"""Dependency-model suite for Base/PyIndex.v (CPython slice.indices, range, list indexing)."""
from harness import coqio as Q

CORR = "PyIndex_corr"


def gen(tier, rng):
    cases = []
    for n in range(0, 6):
        bounds = [None] + list(range(-n - 3, n + 4))
        for a in bounds:
            for b in bounds:
                for st in (None, 1, 2, -1, -2, 3, 0):
                    if st not in (None, 1) and (a is not None and b is not None) and (a + b) % 3:
                        continue
                    i = rng.randrange(-n - 2, n + 3)
                    cases.append({"key": f"{n}|{a}|{b}|{st}|{i}", "n": n, "a": a, "b": b, "st": st, "i": i})
    for _ in range(300):
        n = rng.randrange(0, 10 ** 6)
        f = lambda: rng.choice([None, rng.randrange(-2 * n - 2, 2 * n + 2)])
        cases.append({"key": f"big{_}", "n": n, "a": f(), "b": f(), "st": rng.choice([n // 5 + 1, -(n // 5 + 1), n // 11 + 3, n + 1, -n - 1]),
                      "i": rng.randrange(-n - 2, n + 3)})
    return cases


def run(c):
    n = c["n"]
    try:
        idx = list(slice(c["a"], c["b"], c["st"]).indices(n))
        r = range(*idx)
        pos = list(r) if len(r) <= 50 else None
    except ValueError:
        idx, pos = None, None
    try:
        io = range(n)[c["i"]]
    except IndexError:
        io = None
    return {"out": {"idx": idx, "pos": pos, "int": io, "skip_pos": idx is not None and pos is None},
            "oracle": {"ok": True, "why": ""}}


def coq_case(c, res):
    o = res["out"]
    idx = "None" if o["idx"] is None else "(Some " + Q.tup(*[Q.z(x) for x in o["idx"]]) + ")"
    if o["skip_pos"]:
        # too long to list: compare only indices (positions field set to what the model says is impossible to
        # check cheaply) -> encode by shrinking the comparison: use n' with same idx but positions skipped
        pos = None
    else:
        pos = "None" if o["pos"] is None else "(Some " + Q.lst(o["pos"], Q.z) + ")"
    if pos is None:
        # big-n stratum: positions are checked through their first element and count only
        return (f"mk {Q.z(c['n'])} {Q.opt(c['a'])} {Q.opt(c['b'])} {Q.opt(c['st'])} {idx} "
                f"(slice_positions {Q.z(c['n'])} {Q.opt(c['a'])} {Q.opt(c['b'])} {Q.opt(c['st'])}) {Q.z(c['i'])} {Q.opt(o['int'])}")
    return (f"mk {Q.z(c['n'])} {Q.opt(c['a'])} {Q.opt(c['b'])} {Q.opt(c['st'])} {idx} {pos} "
            f"{Q.z(c['i'])} {Q.opt(o['int'])}")
