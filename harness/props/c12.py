"""C12 — index_as_cube vs indexing the concatenation along the common axis."""
import itertools
import numpy as np
from harness import coqio as Q
from harness.impl import poke, seq_with_ca, coded_cube, decode, exc_name

CORR = "C12_corr"
MODEL_FILES = ["Model/M_IndexAsCube.v", "Base/PyIndex.v"]
DEPS = ["pyindex"]
RULE = ("cases = (common-axis lengths tuple, cube ndim, common axis, item); enumerated completely for the "
        "listed small domains (all ints in [-L-1,L+1], all slices with bounds in [-L-2,L+2] or None), plus "
        "stepped slices and N-d items; distinct by canonical key; non-trivial = the common-axis item is not slice(None)")
EXHAUSTIVE = {"quick": True, "thorough": True}
ASSUMPTIONS = ["numpy concatenate/basic indexing is the reference semantics (direct oracle)",
               "cube slicing itself is C01's subject; here only data placement and the common-axis coordinate are observed"]
OTHER = 3  # length of the non-common axes


def _ca_items(L, full):
    its = [i for i in range(-L - 1, L + 2)]
    bounds = [None] + list(range(-L - 2, L + 3))
    if not full:
        bounds = sorted(set([None, -L - 2, -L - 1, -L, -L + 1, -2, -1, 0, 1, 2, L // 2, L - 1, L, L + 1, L + 2]) - {None}) 
        bounds = [None] + [b for b in bounds if -L - 2 <= b <= L + 2]
    sl = [["s", a, b, None] for a in bounds for b in bounds]
    return its, sl


def gen(tier, rng):
    cases = []

    def add(lens, nd, ca, items, stratum, bare=False):
        key = f"{lens}|{nd}|{ca}|{items}|{bare}"
        ca_it = items[ca] if ca < len(items) else ["s", None, None, None]
        cases.append({"key": key, "stratum": stratum, "lens": list(lens), "nd": nd, "ca": ca,
                      "items": items, "bare": bare,
                      "nontrivial": ca_it != ["s", None, None, None],
                      "show": {"lens": list(lens), "nd": nd, "common_axis": ca, "item": items}})

    maxc = 3 if tier == "quick" else 4
    maxl = 3 if tier == "quick" else 4
    tuples = [t for n in range(1, maxc + 1) for t in itertools.product(range(1, maxl + 1), repeat=n)]
    for lens in tuples:
        L = sum(lens)
        full = (len(lens) <= (3 if tier == "quick" else 3)) or tier == "thorough" and rng.random() < 0.3
        ints, sls = _ca_items(L, full)
        # 1-D cubes, exhaustive; bare item (not in a tuple) for a third of them
        # (an int on a 1-D cube would give a 0-d cube, which no WCS can describe: ints use 2-D cubes)
        for k, it in enumerate(sls):
            add(lens, 1, 0, [it], "1d-slices-exhaustive", bare=(k % 3 == 0))
        for k, it in enumerate(ints):
            add(lens, 2, 0, [it], "ints-exhaustive", bare=(k % 3 == 0))
            add(lens, 2, 1, [["s", None, None, None], it], "ints-exhaustive")
        # stepped slices: must be refused (or, for step 1, honoured)
        for st in (1, 2, -1, 3):
            for a, b in ((None, None), (0, L), (1, None), (None, -1)):
                add(lens, 1, 0, [["s", a, b, st]], "steps")
    # N-d cubes: common axis anywhere, int / slice / omitted items on the other axes
    nds = (2, 2, 3, 3, 4)
    n_nd = 6000 if tier == "quick" else 120000
    other_items = [0, 1, -1, 2, ["s", None, None, None], ["s", 1, None, None], ["s", 0, 2, None], ["s", -2, None, None]]
    for _ in range(n_nd):
        lens = rng.choice(tuples)
        L = sum(lens)
        nd = rng.choice(nds)
        ca = rng.randrange(nd)
        ints, sls = _ca_items(L, False)
        ca_it = rng.choice(ints) if rng.random() < 0.3 else (rng.choice(sls) if rng.random() < 0.85 else ["s", None, None, None])
        items = [rng.choice(other_items) for _ in range(nd)]
        items[ca] = ca_it
        # sometimes omit trailing items, the common axis' own item included (it is then the implicit full slice)
        cut = rng.randrange(ca + 1, nd + 1) if rng.random() < 0.7 else rng.randrange(1, nd + 1)
        items = items[:cut]
        if len(items) == nd and all(isinstance(i, int) for i in items):
            continue        # 0-d result: not a cube
        add(lens, nd, ca, items, "nd-sample")
    return cases


def _build(case):
    from ndcube import NDCubeSequence
    nd, ca = case["nd"], case["ca"]
    cubes = []
    for k, l in enumerate(case["lens"]):
        shape = [OTHER] * nd
        shape[ca] = l
        cubes.append(coded_cube(tuple(shape), cid=k))
    return seq_with_ca(cubes, ca, case["key"]), cubes


def run(case):
    from ndcube import NDCube, NDCubeSequence
    nd, ca = case["nd"], case["ca"]
    seq, cubes = _build(case)
    poke(seq, case["key"])
    items = Q.dec_items(case["items"])
    items_impl = Q.np_ints(case["key"], items)           # what the implementation is given (numpy integers in every fourth case)
    item = items_impl[0] if case["bare"] and len(items) == 1 else items_impl
    full = np.concatenate([c.data for c in cubes], axis=ca)
    coords = np.concatenate([c.axis_world_coords_values(ca)[0].value for c in cubes])
    padded = list(items) + [slice(None)] * (nd - len(items))
    ca_item = padded[ca]
    stepped = isinstance(ca_item, slice) and ca_item.step not in (None, 1)
    try:
        exp = full[tuple(padded)]
        exp_exc = None
    except IndexError:
        exp, exp_exc = None, "IndexError"
    try:
        r = seq.index_as_cube[item]
        exc = None
    except Exception as e:  # noqa
        r, exc = None, exc_name(e)
    why = []
    if exc is not None:
        out = {"t": "err", "e": exc}
        if stepped:
            pass
        elif exp_exc is None:
            why.append(f"raised {exc} on an index valid for the concatenation")
        elif exc != "IndexError":
            why.append(f"raised {exc}, expected IndexError")
    else:
        if stepped:
            why.append("a stepped slice was accepted (step ignored or applied), must be refused")
        if exp_exc is not None:
            why.append("position past the end accepted, expected IndexError")
        exp_new_ca = ca - sum(isinstance(i, int) for i in padded[:ca])
        if isinstance(r, NDCube):
            cid, idx = (decode(r.data.flat[0], cubes[int(r.data.flat[0]) // 100000].data.shape)
                        if r.data.size else (0, (0,) * nd))
            out = {"t": "cube", "k": cid, "j": idx[ca]}
            if not isinstance(ca_item, int):
                why.append("a slice on the common axis returned a cube, expected a sequence")
            if exp is not None and not np.array_equal(r.data, exp):
                why.append("cube data differ from numpy's result on the concatenation")
        elif isinstance(r, NDCubeSequence):
            ps = []
            new_ca = r._common_axis
            for c in r.data:
                if c.data.size == 0:
                    ps.append([0, 0, 0])
                    continue
                cid, idx = decode(c.data.flat[0], cubes[int(c.data.flat[0]) // 100000].data.shape)
                ps.append([cid, idx[ca], int(c.data.shape[new_ca]) if new_ca is not None and new_ca < c.data.ndim else -1])
            out = {"t": "seq", "ps": ps, "nc": -99 if new_ca is None else int(new_ca)}
            if isinstance(ca_item, int):
                why.append("an int on the common axis returned a sequence, expected a cube")
            if new_ca != exp_new_ca:
                why.append(f"new common axis {new_ca}, expected {exp_new_ca}")
            elif exp is not None and not stepped:
                if len(r.data) == 0:
                    if exp.size != 0:
                        why.append("empty sequence returned for a non-empty selection")
                else:
                    got = np.concatenate([c.data for c in r.data], axis=new_ca)
                    if got.shape != exp.shape or not np.array_equal(got, exp):
                        why.append(f"joined data shape {got.shape} differ from numpy's result {exp.shape}")
                    elif any(c.data.shape[new_ca] == 0 for c in r.data):
                        why.append("result holds a cube that contributes nothing")
                    else:
                        gc = np.concatenate([c.axis_world_coords_values(new_ca)[0].value for c in r.data])
                        if not np.array_equal(gc, coords[ca_item]):
                            why.append("common-axis coordinates of the returned elements differ from their source's")
        else:
            out = {"t": "err", "e": "WrongType"}
            why.append(f"unexpected result type {type(r).__name__}")
        # ---- the result is a sequence in its own right: index it as a cube once more
        if not why and isinstance(r, NDCubeSequence) and len(r.data) > 0 and r._common_axis is not None:
            import zlib
            nca = r._common_axis
            parts = [c.data for c in r.data]
            full2 = np.concatenate(parts, axis=nca)
            L2 = full2.shape[nca]
            it2 = [slice(1, None), 0, slice(None, -1), -1, slice(0, 1), L2 - 1][zlib.crc32(("second" + case["key"]).encode()) % 6]
            item2 = tuple([slice(None)] * nca + [it2])
            try:
                exp2, exp2_exc = full2[item2], None
            except IndexError:
                exp2, exp2_exc = None, "IndexError"
            if not (isinstance(it2, int) and full2.ndim == 1):          # (an int on a 1-D cube would give a 0-d cube)
                try:
                    r2, exc2 = r.index_as_cube[item2], None
                except Exception as e:  # noqa
                    r2, exc2 = None, exc_name(e)
                if exc2 is not None and exp2_exc is None:
                    why.append(f"indexing the result as a cube once more with {it2} raised {exc2}")
                elif exc2 is None and exp2_exc is not None:
                    why.append(f"indexing the result as a cube once more with {it2} accepted a position past the end")
                elif exc2 is None:
                    if isinstance(r2, NDCube):
                        got2 = r2.data
                    else:
                        ca2 = r2._common_axis
                        got2 = np.concatenate([c.data for c in r2.data], axis=ca2) if len(r2.data) and ca2 is not None else None
                        if got2 is not None and any(c.data.shape[ca2] == 0 for c in r2.data):
                            why.append("indexing the result as a cube once more kept a cube that contributes nothing")
                    if got2 is None:
                        if exp2.size != 0:
                            why.append("indexing the result as a cube once more returned nothing for a non-empty selection")
                    elif got2.shape != exp2.shape or not np.array_equal(got2, exp2):
                        why.append(f"indexing the result as a cube once more with {it2} differs from numpy on the result's concatenation")
    return {"out": out, "oracle": {"ok": not why, "why": "; ".join(why), "finding": None}}


def coq_case(case, res):
    o = res["out"]
    if o["t"] == "err":
        impl = f"(OErr {Q.err(o['e'])})"
    elif o["t"] == "cube":
        impl = f"(OCube {Q.nat(o['k'])} {Q.z(o['j'])})"
    else:
        impl = "(OSeq " + Q.lst(o["ps"], lambda p: Q.tup(Q.nat(p[0]), Q.z(p[1]), Q.z(p[2]))) + f" {Q.z(o['nc'])})"
    return (f"mk {Q.lst(case['lens'], Q.z)} {Q.nat(case['nd'])} {Q.nat(case['ca'])} "
            f"{Q.lst(case['items'], Q.coq_item)} {impl}")
