"""C03 — coordinates dropped by slicing survive as global coordinates."""
from fractions import Fraction as Fr
import numpy as np
from harness import coqio as Q
from harness.impl import poke, family_wcs, exc_name

CORR = "C03_corr"
IMPORTS = ["M_Slicing", "Shape", "M_ExtraCoords", "M_GlobalCoords"]
MODEL_FILES = ["Model/M_GlobalCoords.v", "Model/M_ExtraCoords.v", "Model/M_Slicing.v"]
DEPS = ["pyindex"]
RULE = ("cases = histories of <=5 operations (global_coords.add with valid / invalid / duplicate names and types, "
        "remove, slices that drop >=1 axis incl. negative ints, Ellipsis, chains of 2-3 slices) on cubes of 2-4 dims over a "
        "linear FITS WCS (exact model values), a coupled celestial TAN / rotated FITS WCS (direct oracle: one axis of the "
        "pair dropped lists nothing), with 0-3 lookup-table extra coords (Quantity / Time / SkyCoord / two-table Quantity); "
        "distinct by key; non-trivial = some slice drops an axis")
ASSUMPTIONS = ["astropy SlicedLowLevelWCS.dropped_world_dimensions is a dependency (world_kept / dropped_value)",
               "construction of high-level objects from values is astropy's; values are read back numerically",
               "validate_physical_types: the accept / reject bit of a small vocabulary is taken from astropy"]
EPOCH = "2020-01-01T00:00:00"
CTYPES = [("WAVE", "m", "em.wl"), ("FREQ", "Hz", "em.freq"), ("ENER", "J", "em.energy"), ("VELO", "m/s", "spect.dopplerVeloc")]
VOCAB = [("custom:user", True), ("em.wl", True), ("time", True), ("custom:pos.helioprojective.lon", True),
         ("banana", False), ("not.a.ucd", False)]


def lin3(nd):
    from astropy.wcs import WCS
    w = WCS(naxis=nd)
    w.wcs.ctype = [c[0] for c in CTYPES[:nd]]
    w.wcs.cunit = [c[1] for c in CTYPES[:nd]]
    w.wcs.crpix = [1] * nd
    w.wcs.cdelt = [2.0 ** (k - 1) for k in range(nd)]
    w.wcs.crval = [8.0 + 32 * k for k in range(nd)]
    w.wcs.set()
    return w


def _vals(n, seed):
    rs = np.random.RandomState(seed)
    return (np.cumsum(rs.randint(1, 5, size=n)) * rs.choice([1.0, 0.5, -2.0])).astype(float)


def gen(tier, rng):
    cases = []
    n = 2000 if tier == "quick" else 40000
    for _ in range(n):
        fam = rng.choice(["lin", "lin", "lin", "tan", "rot"])
        # (the rotated family's third axis is TIME, whose high-level value depends on the reference epoch: kept 2-D)
        nd = rng.choice([2, 3, 3, 4]) if fam == "lin" else (2 if fam == "rot" else rng.choice([2, 3, 3]))
        shape = [rng.choice([2, 3, 4, 5]) for _ in range(nd)]
        tabs = []
        for t in range(rng.choice([0, 0, 1, 2, 3])):
            # gWCS gives the components of a 2-axis generic frame joined with another generic frame clashing
            # object keys (a dependency defect that merges their dropped coordinates), so a two-table Quantity
            # coordinate is only combined with Time / SkyCoord tables
            has_mq = any(x[0] in ("mq", "mq3") for x in tabs)
            has_q = any(x[0] == "q" for x in tabs)
            kinds = ([] if has_mq else ["q", "q"]) + [k for k in ("time", "sky1") if not any(x[0] == k for x in tabs)] \
                + (["mq"] if nd >= 2 and not has_mq and not has_q else []) \
                + (["mq3"] if nd >= 3 and not has_mq and not has_q else [])
            if not kinds:
                break
            k = rng.choice(kinds)
            axes = sorted(rng.sample(range(nd), 2)) if k == "mq" else (sorted(rng.sample(range(nd), 3)) if k == "mq3" else [rng.randrange(nd)])
            tabs.append([k, axes, rng.randrange(10 ** 6)])
        hist, cur = [], list(shape)
        names = []
        nslices = 0
        node_shapes = [list(shape)]
        for _d in range(rng.randint(1, 5)):
            r = rng.random()
            if r < 0.45 and len(cur) > 1 and nslices < 3:
                its = []
                for s in cur:
                    x = rng.random()
                    if x < 0.45:
                        its.append(rng.choice([0, s - 1, -1, -s, s // 2] + ([s] if rng.random() < 0.05 else [])))
                    elif x < 0.7:
                        its.append(["s", None, None, None])
                    else:
                        a = rng.choice([None, 0, 1, -1])
                        b = rng.choice([None, s, -1, s + 1])
                        its.append(["s", a, b, None])
                if all(isinstance(i, int) for i in its):
                    its[rng.randrange(len(its))] = ["s", None, None, None]
                if rng.random() < 0.15:
                    p = rng.randrange(len(its))
                    its = its[:p] + ["E"] + its[min(len(its), p + rng.choice([0, 1, 2])):]
                elif rng.random() < 0.2:
                    its = its[:rng.randrange(1, len(its) + 1)]
                # numpy shape after
                full = list(its)
                if "E" in full:
                    p = full.index("E")
                    full = full[:p] + [["s", None, None, None]] * (len(cur) - len(full) + 1) + full[p + 1:]
                full += [["s", None, None, None]] * (len(cur) - len(full))
                new, ok = [], True
                for s, it in zip(cur, full):
                    if isinstance(it, int):
                        ok = ok and -s <= it < s
                    else:
                        new.append(len(range(s)[slice(it[1], it[2])]))
                hist.append(["slice", its])
                if ok and new and 0 not in new and len(full) == len(cur):
                    cur = new
                    nslices += 1
                    node_shapes.append(list(cur))
                elif 0 in new or not new:
                    hist.pop()
            elif r < 0.8:
                nm = rng.choice([len(names)] + names) if names and rng.random() < 0.25 else len(names)
                pt, valid = rng.choice(VOCAB)
                hist.append(["add", nm, pt, valid, rng.randrange(1, 40)])
                if valid and nm not in names:
                    names.append(nm)
            else:
                nm = rng.choice(names) if names and rng.random() < 0.8 else 99
                hist.append(["remove", nm])
                if nm in names:
                    names.remove(nm)
        if not any(h[0] == "slice" for h in hist):
            continue
        # branch phase: further slices of EARLIER cubes of the history (siblings of the final cube); they must
        # not change what the final cube reports
        branches = []
        for _b in range(rng.choice([0, 0, 1, 2, 3])):
            ni = rng.randrange(len(node_shapes))
            bs = node_shapes[ni]
            its = [rng.choice([0, sz - 1, -1, ["s", None, None, None], ["s", 1, None, None]]) for sz in bs]
            if all(isinstance(i, int) for i in its) or any(isinstance(i, list) and i[1] == 1 and sz < 2 for i, sz in zip(its, bs)):
                continue
            branches.append([ni, its])
        key = f"{fam}|{shape}|{tabs}|{hist}|{branches}"
        cases.append({"key": key, "stratum": fam, "fam": fam, "shape": shape, "tabs": tabs, "hist": hist, "branches": branches,
                      "nontrivial": any(h[0] == "slice" and any(isinstance(i, int) for i in h[1]) for h in hist),
                      "show": {"wcs": fam, "shape": shape, "extra_coords": tabs, "history": hist, "then_slice_earlier_cubes": branches}})
    # WCS-backed extra coords (a second FITS WCS of the cube's dimensionality, any permutation as mapping): the
    # coordinates of its dimensions dropped by integer slicing must show up as global coords, and keep doing so
    for _ in range(200 if tier == "quick" else 3000):
        nd = rng.choice([2, 3, 3])
        shape = [rng.choice([3, 4, 5]) for _ in range(nd)]
        mapping = list(range(nd))
        if rng.random() < 0.6:
            rng.shuffle(mapping)
        chain, cur = [], list(shape)
        for _d in range(rng.choice([1, 2, 2])):
            if len(cur) < 2:
                break
            its = []
            for sz in cur:
                if rng.random() < 0.4:
                    its.append(rng.choice([0, sz - 1, -1, -sz, sz // 2]))
                else:
                    a = rng.choice([None, 0, 1, -1])
                    its.append(["s", a, rng.choice([None, sz, sz + 1]), None])
            if all(isinstance(i, int) for i in its):
                its[rng.randrange(len(its))] = ["s", None, None, None]
            new = [len(range(sz)[slice(it[1], it[2])]) for sz, it in zip(cur, its) if not isinstance(it, int)]
            if 0 in new:
                break
            chain.append(its)
            cur = new
        if chain:
            cases.append({"key": f"wcsec|{shape}|{mapping}|{chain}", "stratum": "wcs-backed-extra", "fam": "wcsec", "shape": shape, "tabs": [],
                          "hist": [], "branches": [], "ecmap": mapping, "chain": chain, "nontrivial": True,
                          "show": {"shape": shape, "extra_coords": "WCS-backed", "mapping": mapping, "slices": chain}})
    return cases


def _run_wcsec(case):
    from astropy.wcs import WCS
    from ndcube import NDCube, ExtraCoords
    import astropy.units as u
    shape = tuple(case["shape"])
    nd = len(shape)
    cube = NDCube(np.arange(int(np.prod(shape))).reshape(shape), wcs=lin3(nd))
    mapping = case["ecmap"]
    w = WCS(naxis=nd)
    ct, cu = ["VOPT", "VRAD", "ZOPT"][:nd], ["m/s", "m/s", ""][:nd]      # physical types the primary WCS does not use
    cdelt, crval = [10.0, 100.0, 1000.0][:nd], [5.0, 50.0, 500.0][:nd]
    w.wcs.ctype, w.wcs.cunit, w.wcs.cdelt, w.wcs.crpix, w.wcs.crval = ct, cu, cdelt, [1] * nd, crval
    w.wcs.set()
    ptypes = list(w.world_axis_physical_types)
    ec = ExtraCoords(ndcube=cube)
    ec.wcs = w
    ec.mapping = tuple(mapping)
    cube._extra_coords = ec
    why = []
    try:
        cur = cube
        alive = list(range(nd))                    # original array axes still present
        offs = {a: 0 for a in range(nd)}
        fixed = {}
        lens = {a: shape[a] for a in range(nd)}
        for its in case["chain"]:
            items = Q.dec_items(its)
            cur = cur[Q.np_ints(case["key"], items)]
            new_alive = []
            for a, it in zip(alive, items):
                n = lens[a]
                if isinstance(it, int):
                    fixed[a] = offs[a] + (it + n if it < 0 else it)
                else:
                    st, en, _ = it.indices(n)
                    offs[a] += st
                    lens[a] = max(0, en - st)
                    new_alive.append(a)
            alive = new_alive
            for ask in (1, 2):                    # the same question twice
                gc = cur.global_coords
                names = list(gc.keys())
                for j, m in enumerate(mapping):
                    a = nd - 1 - m                 # cube array axis of extra pixel dimension j
                    if a in fixed:
                        exp = crval[j] + cdelt[j] * fixed[a]
                        if ptypes[j] not in names:
                            why.append(f"after {its} (look {ask}): the extra coordinate {ptypes[j]} of the dropped axis {a} is not among the global coords {names}")
                            break
                        got = float(np.asarray(getattr(gc[ptypes[j]], "value", gc[ptypes[j]])))
                        if abs(got - exp) > 1e-9 * max(1.0, abs(exp)):
                            why.append(f"after {its}: global coordinate {ptypes[j]} is {got!r}, the element that was kept has {exp!r}")
                            break
                    elif ptypes[j] in names:
                        why.append(f"after {its}: {ptypes[j]} is listed as global although its axis {a} is still there")
                        break
                if why:
                    break
            if why:
                break
    except Exception as e:  # noqa
        why.append(f"WCS-backed extra coords: {exc_name(e)}: {str(e)[:100]}")
    return {"out": {"raised": [], "internal": [], "wcs": [], "ec": []}, "oracle": {"ok": not why, "why": "; ".join(why), "finding": None}}


def build(case):
    import astropy.units as u
    from astropy.time import Time
    from astropy.coordinates import SkyCoord
    from ndcube import NDCube
    shape = tuple(case["shape"])
    nd = len(shape)
    wcs = lin3(nd) if case["fam"] == "lin" else family_wcs(case["fam"], nd)
    cube = NDCube(np.arange(int(np.prod(shape))).reshape(shape), wcs=wcs)
    for i, (kind, axes, seed) in enumerate(case["tabs"]):
        n0 = shape[axes[0]]
        if kind == "q":
            cube.extra_coords.add(f"n{i}0", axes[0], _vals(n0, seed) * u.m, physical_types=f"custom:n{i}0")
        elif kind == "time":
            cube.extra_coords.add(f"n{i}0", axes[0], Time(EPOCH) + np.abs(_vals(n0, seed)) * 64 * u.s)
        elif kind == "sky1":
            v = _vals(n0, seed)
            cube.extra_coords.add((f"n{i}0", f"n{i}1"), axes[0], SkyCoord(np.abs(v) / 8 * u.deg, v / 16 * u.deg))
        elif kind == "mq3":
            cube.extra_coords.add((f"n{i}0", f"n{i}1", f"n{i}2"), tuple(axes),
                                  tuple((_vals(shape[a], seed + j) * u.m).to(u.km if (seed + j) % 2 else u.m)      # (equivalent units, not all the same)
                                        for j, a in enumerate(axes)),
                                  physical_types=(f"custom:n{i}0", f"custom:n{i}1", f"custom:n{i}2"))
        else:
            cube.extra_coords.add((f"n{i}0", f"n{i}1"), tuple(axes),
                                  (_vals(n0, seed) * u.m, (_vals(shape[axes[1]], seed + 1) * u.m).to(u.km if seed % 2 else u.m)),
                                  physical_types=(f"custom:n{i}0", f"custom:n{i}1"))
    return cube


def _table_values(case, i):
    kind, axes, seed = case["tabs"][i]
    shape = case["shape"]
    if kind == "q":
        return {10 * i: (axes[0], _vals(shape[axes[0]], seed))}
    if kind == "time":
        return {10 * i: (axes[0], np.abs(_vals(shape[axes[0]], seed)) * 64)}
    if kind == "sky1":
        v = _vals(shape[axes[0]], seed)
        return {10 * i: (axes[0], np.abs(v) / 8), 10 * i + 1: (axes[0], v / 16)}
    return {10 * i + j: (a, _vals(shape[a], seed + j)) for j, a in enumerate(axes)}


def _num(obj, want_unit=None):
    import astropy.units as u
    from astropy.time import Time
    from astropy.coordinates import SkyCoord
    if isinstance(obj, Time):
        return [float((obj - Time(EPOCH)).sec)]
    if isinstance(obj, SkyCoord):
        sph = obj.spherical
        return [float(sph.lon.to_value(u.deg)), float(sph.lat.to_value(u.deg))]
    if want_unit is not None:
        return [float(u.Quantity(obj).to_value(want_unit))]
    return [float(u.Quantity(obj).value)]


def run(case):
    import astropy.units as u
    if case["fam"] == "wcsec":
        return _run_wcsec(case)
    cube = poke(build(case), case["key"])
    parent = cube
    nd0 = len(case["shape"])
    pll = parent.wcs.low_level_wcs
    ptypes = list(pll.world_axis_physical_types)
    punits = list(pll.world_axis_units)
    raised, why = [], []
    nodes = [cube]
    # reference bookkeeping
    ref_internal = []                     # [name, value]
    fixed = {}                            # original array axis -> index (after normalisation) for dropped axes
    alive = list(range(nd0))              # original axes still present
    offs = {a: 0 for a in range(nd0)}     # offset of the current view on every alive axis
    lens = {a: case["shape"][a] for a in range(nd0)}
    for h in case["hist"]:
        exc = None
        try:
            if h[0] == "add":
                cube.global_coords.add(f"u{h[1]}", h[2], h[4] * u.K)
            elif h[0] == "remove":
                cube.global_coords.remove(f"u{h[1]}")
            else:
                cube = poke(cube, case["key"])[Q.np_ints(case["key"], Q.dec_items(h[1]))]
                nodes.append(cube)
        except Exception as e:  # noqa
            exc = exc_name(e)
        raised.append(exc is not None)
        # reference semantics
        if h[0] == "add":
            ok = h[3] and all(n != h[1] for n, _ in ref_internal)
            if ok:
                ref_internal.append([h[1], h[4]])
            if ok and exc:
                why.append(f"add of a new valid coordinate raised {exc}")
            if not ok and not exc:
                why.append("add of a duplicate name / invalid physical type was accepted")
        elif h[0] == "remove":
            ok = any(n == h[1] for n, _ in ref_internal)
            ref_internal = [x for x in ref_internal if x[0] != h[1]]
            if ok and exc:
                why.append(f"remove raised {exc}")
            if not ok and not exc:
                why.append("remove of an unknown name was accepted")
        else:
            its = list(Q.dec_items(h[1]))
            valid = True
            try:
                if Ellipsis in its:
                    p = its.index(Ellipsis)
                    its = its[:p] + [slice(None)] * (len(alive) - len(its) + 1) + its[p + 1:]
                if len(its) > len(alive):
                    raise IndexError
                its += [slice(None)] * (len(alive) - len(its))
                new_alive = []
                upd = {}
                for a, it in zip(alive, its):
                    n = lens[a]
                    if isinstance(it, int):
                        if not -n <= it < n:
                            raise IndexError
                        upd[a] = ("fix", offs[a] + (it + n if it < 0 else it))
                    else:
                        s, e, _ = it.indices(n)
                        upd[a] = ("keep", offs[a] + s, max(0, e - s))
                        new_alive.append(a)
                if not new_alive:
                    raise IndexError
            except IndexError:
                valid = False
            if valid and exc:
                why.append(f"slicing raised {exc} on a valid index")
            if not valid and not exc:
                why.append("an invalid index was accepted")
            if valid and not exc:
                for a, v in upd.items():
                    if v[0] == "fix":
                        fixed[a] = v[1]
                    else:
                        offs[a], lens[a] = v[1], v[2]
                alive = new_alive
        if why:
            break
    while len(raised) < len(case["hist"]):
        raised.append(True)
    out = {"raised": raised, "internal": [], "wcs": [], "ec": []}
    if why:
        return {"out": _ser(out), "oracle": {"ok": False, "why": "; ".join(why), "finding": None}}
    # ---- slice earlier cubes of the history again (results kept alive): the final cube must not notice
    siblings = []
    for ni, its in case.get("branches", []):
        if ni < len(nodes):
            try:
                sib = nodes[ni][Q.np_ints(case["key"], Q.dec_items(its))]
                siblings.append(sib)
                len(sib.global_coords)
            except Exception:  # noqa
                pass
    # ---- observe the final cube's global coords
    try:
        gc = cube.global_coords
        keys = list(gc.keys())
        types = gc.physical_types
        objs = {k: gc[k] for k in keys}
    except Exception as e:  # noqa
        return {"out": _ser(out), "oracle": {"ok": False, "why": f"global_coords raised {exc_name(e)}: {str(e)[:120]}", "finding": None}}
    listed_wcs, listed_ec, internal = {}, {}, []
    for k in keys:
        t = types[k]
        if isinstance(k, str) and k.startswith("u") and k[1:].isdigit():
            internal.append([int(k[1:]), Fr(float(objs[k].value))])
            continue
        tl = [t] if isinstance(t, str) else list(t)
        if all(x in ptypes for x in tl):          # from the primary wcs
            ws = [ptypes.index(x) for x in tl]
            vals = _num(objs[k], punits[ws[0]] if len(ws) == 1 else None)
            for w, v in zip(ws, vals):
                listed_wcs[w] = v
        else:                                      # from the extra coords: identify by name / physical type
            vals = _num(objs[k], u.m if not hasattr(objs[k], "mjd") else None)
            if len(vals) == 2:
                i = next(i for i, tb in enumerate(case["tabs"]) if tb[0] == "sky1")
                listed_ec[10 * i], listed_ec[10 * i + 1] = vals
            else:
                nm = k if isinstance(k, str) else k[0]
                listed_ec[int(nm[1:])] = vals[0]
    # ---- direct oracle
    if [x[0] for x in internal] != [x[0] for x in ref_internal] or \
            any(abs(float(a[1]) - b[1]) > 1e-9 for a, b in zip(internal, ref_internal)):
        why.append(f"user coordinates {internal} differ from the replay of add/remove {ref_internal}")
    corr = pll.axis_correlation_matrix                     # world x pixel
    exp_wcs = {}
    pix = [float(fixed.get(nd0 - 1 - i, offs.get(nd0 - 1 - i, 0))) for i in range(nd0)]   # pixel order
    world = pll.pixel_to_world_values(*pix)
    world = [world] if pll.world_n_dim == 1 else list(world)
    for w in range(pll.world_n_dim):
        deps = [nd0 - 1 - i for i in range(nd0) if corr[w, i]]
        if all(a in fixed for a in deps):
            exp_wcs[w] = float(world[w])
    if set(exp_wcs) != set(listed_wcs):
        why.append(f"dropped primary-wcs coordinates listed {sorted(listed_wcs)} (world axes), expected {sorted(exp_wcs)}")
    else:
        for w in exp_wcs:
            d = abs(listed_wcs[w] - exp_wcs[w])
            if "pos." in ptypes[w]:
                d = min(d, abs(d - 360.0))          # angles: same direction modulo a full turn
            if d > 1e-6 * max(1.0, abs(exp_wcs[w])):
                why.append(f"global coord for world axis {w} ({ptypes[w]}) is {listed_wcs[w]!r}, the sliced-away element had {exp_wcs[w]!r}")
    exp_ec = {}
    for i in range(len(case["tabs"])):
        for nm, (ax, vals) in _table_values(case, i).items():
            if ax in fixed:
                exp_ec[nm] = float(vals[fixed[ax]])
    if set(exp_ec) != set(listed_ec):
        why.append(f"dropped extra coordinates listed {sorted(listed_ec)}, expected {sorted(exp_ec)}")
    else:
        for nm in exp_ec:
            if not np.isclose(listed_ec[nm], exp_ec[nm], rtol=1e-6, atol=1e-6):
                why.append(f"global coord n{nm} is {listed_ec[nm]!r}, the sliced-away element had {exp_ec[nm]!r}")
    out.update({"internal": internal, "wcs": [[w, Fr(float(v))] for w, v in sorted(listed_wcs.items())],
                "ec": [[nm, Fr(float(v))] for nm, v in listed_ec.items()]})
    return {"out": _ser(out), "oracle": {"ok": not why, "why": "; ".join(why), "finding": None}}


def _ser(x):
    if isinstance(x, Fr):
        return [x.numerator, x.denominator]
    if isinstance(x, dict):
        return {k: _ser(v) for k, v in x.items()}
    if isinstance(x, (list, tuple)):
        return [_ser(v) for v in x]
    return x


def _cq(x):
    return f"(({x[0]}) # {x[1]})%Q"


def _fq(v):
    f = Fr(float(v))
    return _cq([f.numerator, f.denominator])


def _model_table(case, i):
    kind, axes, seed = case["tabs"][i]
    shape = case["shape"]
    tv = _table_values(case, i)
    names = sorted(tv)
    lens = [shape[a] for a in axes]
    k = "KSep" if kind in ("mq", "mq3") else "KJoint"
    vs = Q.lst([Q.lst([_fq(x) for x in tv[nm][1]]) for nm in names])
    return f"(mkT {Q.z(i)} {k} {Q.lst(axes, Q.z)} {Q.lst(lens, Q.z)} {Q.lst(names, Q.z)} {vs})"


def coq_case(case, res):
    o = res["out"]
    if case["fam"] != "lin":
        return "mk [] [] (mkEc [] []) [] (mkObs [] [] [] [])"
    nd = len(case["shape"])
    w = lin3(nd)
    lin = Q.lst([Q.tup(Q.z(nd - 1 - k), _fq(w.wcs.crval[k]), _fq(w.wcs.cdelt[k])) for k in range(nd)])
    order = sorted(range(len(case["tabs"])), key=lambda i: case["tabs"][i][1][0])
    tabs = Q.lst([_model_table(case, i) for i in order])
    hist = []
    for h in case["hist"]:
        if h[0] == "add":
            hist.append(f"(HAdd {Q.z(h[1])} {Q.z(0)} {Q.b(h[3])} {_fq(h[4])})")
        elif h[0] == "remove":
            hist.append(f"(HRemove {Q.z(h[1])})")
        else:
            hist.append(f"(HSlice {Q.lst(h[1], Q.coq_item)})")
    # the model lists dropped extra coords in drop order; compare as the implementation lists them re-sorted the same way
    obs = (f"(mkObs {Q.lst([Q.b(x) for x in o['raised']])} "
           f"{Q.lst([Q.tup(Q.z(a), _cq(b)) for a, b in o['internal']])} "
           f"{Q.lst([Q.tup(Q.z(a), _cq(b)) for a, b in o['wcs']])} "
           f"{Q.lst([Q.tup(Q.z(a), _cq(b)) for a, b in o['ec']])})")
    return f"mk {Q.lst(case['shape'], Q.z)} {lin} (mkEc {tabs} []) {Q.lst(hist)} {obs}"
