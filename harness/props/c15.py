"""C15 — unwrap_wcs_to_fitswcs returns a FITS WCS equivalent to the wrapper chain."""
from fractions import Fraction as Fr
import numpy as np
from harness import coqio as Q
from harness.impl import poke_wcs, poke, exc_name

CORR = "C15_corr"
IMPORTS = ["M_Wrappers", "M_Unwrap"]
COQ_PREAMBLE = "Open Scope Q_scope.\n"
MODEL_FILES = ["Model/M_Unwrap.v", "Model/M_Wrappers.v"]
RULE = ("cases = wrapper chains of depth 0-4 (SlicedLowLevelWCS with ints / ranges, ResampledLowLevelWCS with integer "
        "and fractional factors and arbitrary offsets) over FITS WCS of 1-4 axes with linear CTYPEs and diagonal or "
        "coupled (rotated / sheared, dyadic) PC matrices and known shape, plus WCS of cubes obtained by <=3 slice / "
        "rebin steps, plus TAN / rotated celestial bases decided by the direct oracle, plus non-FITS bases; the chain "
        "is read back from the wrapper objects; distinct by key; non-trivial = chain not empty")
ASSUMPTIONS = ["raw negative items inside a hand-built SlicedLowLevelWCS are excluded (astropy's wrapper does not interpret them; "
               "cube slicing normalises them first)", "header parameters compared within 1e-9; world values within 1e-9 relative"]
FACTORS = [1, 2, 3, 4, Fr(1, 2), Fr(3, 2)]
OFFSETS = [0, Fr(1, 2), 1, Fr(-1, 2), Fr(3, 2), 2, Fr(5, 2)]


def gen(tier, rng):
    cases = []
    n = 900 if tier == "quick" else 15000
    for _ in range(n):
        nd = rng.choice([1, 2, 2, 3, 3, 4])
        kind = rng.choice(["lin", "lin", "coupled", "coupled", "cd", "tan", "cube", "cube", "nonfits"])
        if kind in ("tan",) and nd < 2:
            nd = 2
        shape = [rng.choice([4, 6, 8, 12]) for _ in range(nd)]      # array order
        depth = rng.choice([0, 1, 1, 2, 2, 3, 4])
        steps = []
        cur = list(shape)
        for _d in range(depth):
            if not cur:
                break
            if rng.random() < 0.5:
                items = []
                for s in cur:
                    r = rng.random()
                    if r < 0.25 and len(cur) - sum(isinstance(i, int) for i in items) > 1:
                        items.append(rng.randrange(0, s))
                    elif r < 0.8:
                        a = rng.randrange(0, max(1, s - 1))
                        b = rng.randrange(a + 1, s + 1)
                        items.append(["s", a if rng.random() < 0.8 else None, b if rng.random() < 0.7 else None, None])
                    else:
                        items.append(["s", None, None, None])
                if all(isinstance(i, int) for i in items):
                    items[-1] = ["s", None, None, None]
                steps.append(["slice", items])
                new = []
                for s, it in zip(cur, items):
                    if not isinstance(it, int):
                        new.append(len(range(s)[slice(it[1], it[2])]))
                cur = new
            else:
                if kind == "cube":
                    f = [rng.choice([d for d in range(1, s + 1) if s % d == 0]) for s in cur]
                    steps.append(["rebin", f])
                    cur = [s // x for s, x in zip(cur, f)]
                else:
                    # factors for which the resampled length stays integral (otherwise "the resampled shape" is not defined)
                    f = [Fr(rng.choice([x for x in FACTORS if (Fr(s) / Fr(x)).denominator == 1])) for s in cur]
                    o = [Fr(rng.choice(OFFSETS)) for _ in cur]
                    steps.append(["resample", [[x.numerator, x.denominator] for x in f],
                                  [[x.numerator, x.denominator] for x in o]])      # array order
                    cur = [int(Fr(s) / x) for s, x in zip(cur, f)]
        seedk = rng.randrange(10 ** 6)
        key = f"{kind}|{shape}|{steps}|{seedk % 7}"
        cases.append({"key": key, "stratum": kind, "kind": kind, "shape": shape, "steps": steps, "rs": seedk,
                      "nontrivial": bool(steps), "show": {"base": kind, "shape": shape, "chain": steps}})
    return cases


def _base_wcs(kind, shape, rs):
    from astropy.wcs import WCS
    from harness.impl import family_wcs
    nd = len(shape)
    rng = np.random.RandomState(rs)
    if kind == "tan":
        w = family_wcs("rot" if rs % 2 else "tan", nd)
    else:
        w = WCS(naxis=nd)
        w.wcs.ctype = ['WAVE', 'FREQ', 'TIME', 'VELO'][:nd]
        w.wcs.cunit = ['m', 'Hz', 's', 'm/s'][:nd]
        w.wcs.crpix = [float(x) for x in rng.choice([1, 2, 0.5, 3.5], size=nd)]
        w.wcs.cdelt = [float(x) for x in rng.choice([1, 2, 0.5, 4], size=nd)]
        w.wcs.crval = [float(x) for x in rng.randint(0, 50, size=nd)]
        if kind == "cd":
            cd = np.diag([float(x) for x in rng.choice([1, 2, 0.5], size=nd)])
            if nd >= 2:
                i, j = rng.choice(nd, size=2, replace=False)
                cd[i, j] = rng.choice([0.5, -0.5, 1.0])
            w.wcs.cd = cd
        if kind == "coupled" and nd >= 2:
            pc = np.eye(nd)
            i, j = rng.choice(nd, size=2, replace=False)
            pc[i, j] = rng.choice([0.5, -0.5, 1.0, 0.25])
            if rng.rand() < 0.5:
                pc[j, i] = rng.choice([0.5, -0.25, -1.0])
            w.wcs.pc = pc
        w.wcs.set()
    w.array_shape = tuple(shape)
    return w


def _apply_chain(case, base):
    """returns (top-level low level wcs, cube or None)"""
    from astropy.wcs.wcsapi import SlicedLowLevelWCS
    from ndcube.wcs.wrappers import ResampledLowLevelWCS
    from ndcube import NDCube
    if case["kind"] == "cube":
        cube = NDCube(np.zeros(tuple(case["shape"])), wcs=base)
        for st in case["steps"]:
            poke(cube, case["key"])
            cube = cube[Q.dec_items(st[1])] if st[0] == "slice" else cube.rebin(tuple(st[1]))
        return cube.wcs.low_level_wcs, cube
    w = base
    if case["kind"] == "nonfits":
        from harness.impl import make_probe
        w = make_probe(np.eye(len(case["shape"]), dtype=int).tolist(), [0] * len(case["shape"]), shape=case["shape"][::-1])
    for st in case["steps"]:
        if st[0] == "slice":
            w = SlicedLowLevelWCS(w, Q.np_ints(case["key"], Q.dec_items(st[1])))     # (integers as numpy integers in every fourth case)
        else:
            f = [float(Fr(*x)) for x in st[1]][::-1]
            o = [float(Fr(*x)) for x in st[2]][::-1]
            w = ResampledLowLevelWCS(w, f, o)
    return w, None


def _read_chain(top):
    """the chain as the wrapper objects record it, innermost first: what the code under test sees"""
    from astropy.wcs.wcsapi import SlicedLowLevelWCS
    from astropy.wcs.wcsapi.wrappers.base import BaseWCSWrapper
    from ndcube.wcs.wrappers import ResampledLowLevelWCS
    chain, w = [], top
    while isinstance(w, BaseWCSWrapper):
        if isinstance(w, SlicedLowLevelWCS):
            chain.append(["slice", [Q.enc_item(i) for i in w._slices_array]])
        elif isinstance(w, ResampledLowLevelWCS):
            chain.append(["resample", [Fr(float(x)) for x in w._factor], [Fr(float(x)) for x in w._offset]])
        else:
            chain.append(["unknown"])
        w = w._wcs
        if hasattr(w, "low_level_wcs"):
            w = w.low_level_wcs
    return chain[::-1]


def _hdr(w):
    return {"crpix": [Fr(float(x)) for x in w.wcs.crpix], "cdelt": [Fr(float(x)) for x in w.wcs.get_cdelt()],
            "pc": [[Fr(float(x)) for x in r] for r in w.wcs.get_pc()], "naxis": [int(x) for x in w._naxis]}


def run(case):
    from astropy.wcs import WCS
    from ndcube.wcs.tools import unwrap_wcs_to_fitswcs
    base = _base_wcs(case["kind"], case["shape"], case["rs"])
    h0 = _hdr(base)
    before = repr(base.to_header(relax=True)) + repr(base._naxis)
    why = []
    try:
        top, cube = _apply_chain(case, base)
    except Exception as e:  # noqa
        return {"out": {"t": "skip"}, "oracle": {"ok": True, "why": f"chain not constructible: {exc_name(e)}"}}
    chain = _read_chain(top)
    poke_wcs(top, case["key"])
    try:
        fw, dropped = unwrap_wcs_to_fitswcs(top)
        exc = None
    except Exception as e:  # noqa
        fw, exc = None, exc_name(e)
    if case["kind"] == "nonfits":
        if exc is None:
            why.append("a chain over a non-FITS base was accepted")
        return {"out": {"t": "err", "e": exc or "None"}, "chain": _ser(chain), "h0": _ser(h0),
                "oracle": {"ok": not why, "why": "; ".join(why), "finding": None}}
    if exc is not None:
        why.append(f"unwrap raised {exc} for a supported chain")
        return {"out": {"t": "err", "e": exc}, "chain": _ser(chain), "h0": _ser(h0),
                "oracle": {"ok": False, "why": "; ".join(why), "finding": None}}
    after = repr(base.to_header(relax=True)) + repr(base._naxis)
    if after != before:
        why.append("the base WCS passed in was modified")
    if fw is base and chain:
        why.append("the base WCS object itself was returned for a non-empty chain")
    dropped = [bool(x) for x in dropped]
    out = {"t": "ok", "h": _hdr(fw), "dropped": dropped}
    # ---- direct oracle: same world coordinates on the whole wrapped grid and off-grid
    tshape = top.array_shape
    if tshape is not None and not why:
        kept_shape = tuple(int(x) for x in tshape)
        exp_full = []
        k = 0
        for d in dropped:
            if d:
                exp_full.append(1)
            else:
                exp_full.append(kept_shape[k])
                k += 1
        if tuple(fw.array_shape or ()) != tuple(exp_full):
            why.append(f"array_shape {fw.array_shape} != sliced and resampled shape {tuple(exp_full)}")
        if int(np.prod(kept_shape)) <= 5000 and len(kept_shape) >= 1 and not why:
            grid = np.indices(kept_shape).astype(float)
            for shift in (0.0, 0.25):
                g = [grid[i] + shift for i in range(len(kept_shape))]
                full, k = [], 0
                for d in dropped:
                    if d:
                        full.append(np.zeros(kept_shape))
                    else:
                        full.append(g[k])
                        k += 1
                wc = top.pixel_to_world_values(*g[::-1])
                wf = fw.pixel_to_world_values(*full[::-1])
                wc = [wc] if top.world_n_dim == 1 else list(wc)
                wf = [wf] if fw.world_n_dim == 1 else list(wf)
                # world axes of the chain = those the slicing kept
                names_c = list(top.world_axis_physical_types)
                names_f = list(fw.world_axis_physical_types)
                for name, a in zip(names_c, wc):
                    b = wf[names_f.index(name)]
                    if not np.allclose(a, b, rtol=1e-9, atol=1e-9 * max(1.0, float(np.nanmax(np.abs(b))))):
                        bad = np.argwhere(~np.isclose(a, b, rtol=1e-9, atol=1e-9))[0]
                        why.append(f"{name}: pixel {tuple(float(x[tuple(bad)]) for x in g)} -> chain {float(a[tuple(bad)])!r}, "
                                   f"unwrapped FITS WCS {float(b[tuple(bad)])!r}")
                        break
                if why:
                    break
    return {"out": _ser(out), "chain": _ser(chain), "h0": _ser(h0),
            "oracle": {"ok": not why, "why": "; ".join(why), "finding": None}}


def _ser(x):
    if isinstance(x, Fr):
        return [x.numerator, x.denominator]
    if isinstance(x, dict):
        return {k: _ser(v) for k, v in x.items()}
    if isinstance(x, (list, tuple)):
        return [_ser(v) for v in x]
    return x


def _cq(x):
    return f"(({x[0]}) # {x[1]})"


def _coq_fits(h):
    return (f"(mkFits {Q.lst([_cq(x) for x in h['crpix']])} {Q.lst([_cq(x) for x in h['cdelt']])} "
            f"{Q.lst([Q.lst([_cq(x) for x in r]) for r in h['pc']])} {Q.lst(h['naxis'], Q.z)}%Z)")


def coq_case(case, res):
    o = res["out"]
    if o["t"] == "skip" or "chain" not in res:
        return "mk (mkFits [] [] [] []%Z) [] (OOk (mkFits [] [] [] []%Z) [])"
    if case["kind"] == "nonfits":
        return "mk (mkFits [] [] [] []%Z) [] (OOk (mkFits [] [] [] []%Z) [])"
    steps = []
    for st in res["chain"]:
        if st[0] == "slice":
            steps.append(f"(USlice {Q.lst(st[1], Q.coq_item)})")
        elif st[0] == "resample":
            steps.append(f"(UResample {Q.lst([_cq(x) for x in st[1]])} {Q.lst([_cq(x) for x in st[2]])})")
        else:
            steps.append("(USlice [INone])")
    impl = f"(OErr {Q.err(o['e'])})" if o["t"] == "err" else f"(OOk {_coq_fits(o['h'])} {Q.lst([Q.b(x) for x in o['dropped']])})"
    return f"mk {_coq_fits(res['h0'])} {Q.lst(steps)} {impl}"
