"""C08 — rebin computes each output element from exactly its block of inputs."""
import itertools
from fractions import Fraction as Fr
import numpy as np
from harness import coqio as Q
from harness.impl import poke, lin_wcs, exc_name

CORR = "C08_corr"
IMPORTS = ["Shape", "M_Rebin"]
MODEL_FILES = ["Model/M_Rebin.v", "Base/Shape.v"]
RULE = ("cases = (shape of 1-4 dims with sizes from {1,2,3,4,6,8,12}, bin shape as ints / rounding floats / pixel or "
        "metre Quantity incl. non-divisors and wrong lengths, operation in sum mean min max prod nansum nanmean, mask "
        "None / scalar / all-false / all-true / random, operation_ignores_mask, handle_mask in all any None, numpy or "
        "dask, NaN data in the unmasked stratum); sampled with the run's seed + all divisor combinations of small 2-D "
        "shapes; distinct by key; non-trivial = some bin factor > 1")
ASSUMPTIONS = ["numpy masked reductions are a dependency (reduce in M_Rebin.v); the value numpy leaves in a fully masked block is not compared",
               "dask payloads observed after compute()"]
OPS = ["sum", "mean", "min", "max", "prod", "nansum", "nanmean"]
SIZES = [1, 2, 3, 4, 6, 8, 12]


def _divs(n):
    return [d for d in range(1, n + 1) if n % d == 0]


def gen(tier, rng):
    cases = []

    def add(shape, bins, op, ignores, hm, mask, nan, dask, new_unit, stratum):
        seedk = rng.randrange(10 ** 9)
        key = f"{shape}|{bins}|{op}|{ignores}|{hm}|{mask}|{nan}|{dask}|{new_unit}"
        nontriv = bins[0] != "qty_m" and any(round(float(b)) > 1 for b in bins[1])
        cases.append({"key": key, "stratum": stratum, "shape": list(shape), "bins": bins, "op": op, "ignores": ignores,
                      "hm": hm, "mask": mask, "nan": nan, "dask": dask, "new_unit": new_unit, "rs": seedk,
                      "nontrivial": nontriv,
                      "show": {"shape": list(shape), "bin_shape": bins, "operation": op, "operation_ignores_mask": ignores,
                               "handle_mask": hm, "mask": mask, "nan_data": nan, "dask": dask}})

    # all divisor combinations on small 2-D shapes, every operation
    for shape in [(4, 6), (6, 4), (2, 12), (3, 8)]:
        for bins in itertools.product(*[_divs(n) for n in shape]):
            for op in OPS:
                add(shape, ["ints", list(bins)], op, False, "all", rng.choice(["none", "random"]), False, False, False, "2d-divisors")
    n = 2500 if tier == "quick" else 60000
    for _ in range(n):
        nd = rng.choice([1, 2, 2, 3, 3, 4])
        shape = tuple(rng.choice(SIZES if nd < 4 else [1, 2, 3, 4]) for _ in range(nd))
        bins = [rng.choice(_divs(s)) for s in shape]
        r = rng.random()
        if r < 0.55:
            b = ["ints", bins]
        elif r < 0.7:
            b = ["floats", [x + rng.choice([0.3, -0.3, 0.5, 0.0]) for x in bins]]
            b[1] = [x if x >= 0.6 else 1.0 for x in b[1]]
        elif r < 0.8:
            b = ["qty_pix", [x + rng.choice([0.0, 0.0, 0.3, -0.3, 0.4]) for x in bins]]     # pixel Quantities that round, too
        elif r < 0.84:
            b = ["qty_m", bins]
        elif r < 0.92:
            bb = list(bins)
            i = rng.randrange(nd)
            nondiv = [d for d in range(2, shape[i] + 2) if shape[i] % d]
            if nondiv:
                bb[i] = rng.choice(nondiv)
            b = ["ints", bb]
        else:
            b = ["ints", bins + [1] if rng.random() < 0.5 else bins[:-1] or [2, 2]]
        op = rng.choice(OPS)
        mask = rng.choice(["none", "none", "true", "false", "allfalse", "alltrue", "random", "random", "random"])
        nan = mask in ("none", "false") and rng.random() < 0.25
        add(shape, b, op, rng.random() < 0.3, rng.choice(["all", "any", "none"]), mask, nan, rng.random() < 0.15,
            rng.random() < 0.2, "sample")
    return cases


def _np_op(name):
    return getattr(np, name)


def run(case):
    from ndcube import NDCube
    import astropy.units as u
    rng = np.random.RandomState(case["rs"] % (2 ** 31))
    shape = tuple(case["shape"])
    data = rng.randint(-3, 6, size=shape).astype(float)
    if case["op"] == "prod":
        data = rng.randint(1, 3, size=shape).astype(float) * rng.choice([1, -1], size=shape)
    if case["nan"]:
        data[rng.rand(*shape) < 0.2] = np.nan
    mk = case["mask"]
    mask = {"none": None, "true": True, "false": False, "allfalse": np.zeros(shape, bool),
            "alltrue": np.ones(shape, bool)}.get(mk, None)
    if mk == "random":
        mask = rng.rand(*shape) < 0.4
    payload = data
    if case["dask"]:
        import dask.array as da
        payload = da.from_array(data, chunks=2)
    meta = {"m": 1}
    import zlib
    # with a dask payload an array mask is itself a dask array, or (every other case) a plain numpy array
    dask_mask = case["dask"] and isinstance(mask, np.ndarray) and zlib.crc32(("dm" + case["key"]).encode()) % 2 == 0
    cube = NDCube(payload, wcs=lin_wcs(len(shape)), mask=mask if not dask_mask else
                  __import__("dask.array", fromlist=["x"]).from_array(mask, chunks=2), unit=u.ct, meta=meta)
    poke(cube, case["key"])
    kind, bl = case["bins"]
    bins = {"ints": lambda: tuple(int(b) for b in bl), "floats": lambda: tuple(float(b) for b in bl),
            # a pixel Quantity in pixels, or (every other case) in another unit convertible to pixels
            "qty_pix": lambda: np.array(bl) * u.pix if zlib.crc32(("qp" + case["key"]).encode()) % 2 else (np.array(bl) / 2.0) * u.Unit(2 * u.pix),
            "qty_m": lambda: np.array(bl) * u.m}[kind]()
    # the switch as a Python bool, a numpy bool (e.g. the result of .any()) or an int
    ignores_arg = [case["ignores"], np.bool_(case["ignores"]), int(case["ignores"])][zlib.crc32(("ig" + case["key"]).encode()) % 3]
    hm = {"all": np.all, "any": np.any, "none": None}[case["hm"]]
    op = _np_op(case["op"])
    new_unit = u.m if case["new_unit"] else None
    why = []
    try:
        r = cube.rebin(bins, operation=op, operation_ignores_mask=ignores_arg, handle_mask=hm, new_unit=new_unit)
        exc = None
    except Exception as e:  # noqa
        r, exc = None, exc_name(e)
    # ---- direct oracle: explicit loop over blocks
    ib = [int(np.rint(float(b))) for b in bl]
    valid = kind != "qty_m" and len(ib) == len(shape) and all(b >= 1 and s % b == 0 for s, b in zip(shape, ib))
    if exc is not None:
        if valid:
            why.append(f"rebin raised {exc} for a valid bin shape")
        return {"out": {"t": "err", "e": exc}, "oracle": {"ok": not why, "why": "; ".join(why), "finding": None}}
    if not valid:
        why.append("rebin accepted a bin shape that must be refused")
    if r is cube:
        out = {"t": "self"}
        if valid and not all(b == 1 for b in ib):
            why.append("rebin returned the cube itself for a non-trivial bin shape")
        if valid and case["new_unit"]:
            why.append("rebin returned the cube itself although a new unit was supplied")
        return {"out": out, "oracle": {"ok": not why, "why": "; ".join(why), "finding": None}}
    rd = np.asarray(r.data, dtype=float)
    rm = r.mask
    if rm is not None and not isinstance(rm, bool):
        rm = np.asarray(rm)
    if isinstance(rm, np.bool_):
        rm = bool(rm)
    um = (r.unit == (new_unit or cube.unit)) and (r.meta == meta)
    if not um:
        why.append("unit or meta not carried over")
    if case["dask"] and not type(r.data).__module__.startswith("dask"):
        why.append("dask payload was computed eagerly")
    mo = ["none"] if rm is None else (["scalar", bool(rm)] if isinstance(rm, bool) else ["array", [bool(x) for x in rm.ravel()]])
    out = {"t": "ok", "shape": [int(x) for x in rd.shape], "vals": [None if np.isnan(v) else Fr(float(v)) for v in rd.ravel()],
           "mo": mo, "um": bool(um)}
    if valid and not why:
        new_shape = tuple(s // b for s, b in zip(shape, ib))
        if rd.shape != new_shape:
            why.append(f"rebinned shape {rd.shape}, expected {new_shape}")
        else:
            use_mask = not (mask is None or mask is False or case["ignores"])
            marr = None if mask is None or isinstance(mask, bool) else mask
            for j in np.ndindex(*new_shape):
                sl = tuple(slice(jj * b, (jj + 1) * b) for jj, b in zip(j, ib))
                blk = data[sl].ravel()
                if use_mask:
                    mb = np.ones(blk.shape, bool) if mask is True else marr[sl].ravel()
                    mem = blk[~mb]
                else:
                    mem = blk
                if mem.size:
                    with np.errstate(all="ignore"):
                        e = op(mem)
                    g = rd[j]
                    if not (np.isnan(e) and np.isnan(g)) and not np.isclose(g, e, rtol=1e-9, atol=1e-12):
                        why.append(f"output {j} = {g}, the operation on its block gives {e}")
                        break
                if hm is not None and marr is not None:
                    e = bool(hm(marr[sl]))
                    if not isinstance(rm, np.ndarray) or bool(rm[j]) != e:
                        why.append(f"output mask at {j} is not handle_mask of the block")
                        break
            if hm is None and rm is not None:
                why.append("mask present although handle_mask=None")
            if hm is not None and (mask is None or isinstance(mask, bool)) and rm is not mask and rm != mask:
                why.append("scalar / absent mask not kept as it is")
    return {"out": _ser(out), "oracle": {"ok": not why, "why": "; ".join(why), "finding": None},
            "inp": {"data": [None if np.isnan(v) else int(v) for v in data.ravel()],
                    "marr": None if mask is None or isinstance(mask, bool) else [bool(x) for x in mask.ravel()]}}


def _ser(o):
    o = dict(o)
    o["vals"] = [None if v is None else [v.numerator, v.denominator] for v in o["vals"]]
    return o


def coq_case(case, res):
    o = res["out"]
    kind, bl = case["bins"]
    qs = Q.lst([Q.q(Fr(b)) for b in bl])
    bins = f"(BNums {qs})" if kind in ("ints", "floats") else f"(BQty {qs} {Q.b(kind == 'qty_pix')})"
    opk = {"sum": "OSum", "mean": "OMean", "min": "OMin", "max": "OMax", "prod": "OProd", "nansum": "ONanSum",
           "nanmean": "ONanMean"}[case["op"]]
    hm = {"all": "HAll", "any": "HAny", "none": "HNone"}[case["hm"]]
    mk = {"none": "MNone", "true": "(MScalar true)", "false": "(MScalar false)"}.get(case["mask"], "MArray")
    if o["t"] == "err":
        return f"mk {Q.lst(case['shape'], Q.z)} {Q.b(not case['new_unit'])} {bins} {opk} {Q.b(case['ignores'])} {hm} {mk} [] [] (OErr {Q.err(o['e'])})"
    inp = res.get("inp") or {"data": [], "marr": None}
    data = Q.lst(["None" if v is None else f"(Some {Q.q(v)})" for v in inp["data"]])
    marr = Q.lst([Q.b(x) for x in (inp["marr"] or [])])
    if o["t"] == "self":
        impl = "OSelf"
    else:
        vals = Q.lst(["None" if v is None else f"(Some (({v[0]}) # {v[1]}))" for v in o["vals"]])
        mo = o["mo"]
        mos = "MoNone" if mo[0] == "none" else (f"(MoScalar {Q.b(mo[1])})" if mo[0] == "scalar" else f"(MoArray {Q.lst([Q.b(x) for x in mo[1]])})")
        impl = f"(OOk {Q.lst(o['shape'], Q.z)} {vals} {mos} {Q.b(o['um'])})"
    return (f"mk {Q.lst(case['shape'], Q.z)} {Q.b(not case['new_unit'])} {bins} {opk} {Q.b(case['ignores'])} {hm} {mk} {data} {marr} {impl}")
