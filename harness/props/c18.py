"""C18 — sequence crop applies one common box that contains every cube's own crop."""
from fractions import Fraction as Fr
import numpy as np
from harness import coqio as Q
from harness.impl import make_probe, exc_name
from harness.props import c14, c04

CORR = "C18_corr"
IMPORTS = ["M_Wrappers", "M_Crop", "M_SeqCrop", "C14_corr"]
MODEL_FILES = ["Model/M_SeqCrop.v", "Model/M_Crop.v"]
DEPS = ["pyindex"]
RULE = ("cases = (sequence of 1-4 cubes of 1-3 dims whose block-diagonal integer probe WCS are identical or shifted by whole "
        "pixels relative to one another, 1-4 points valid for cube crop: None per independent group, single-pixel extents, "
        "sub-pixel offsets k/8; crop (high level) and crop_by_values; wcses in 'wcs' | 'combined_wcs' | 'extra_coords' | "
        "explicit list); distinct by key; non-trivial = some axis narrowed")
ASSUMPTIONS = ["per-cube boxes are C04's subject (M_Crop); here the union over cubes and the use of the per-cube helpers is modelled"]


def gen(tier, rng):
    cases = []
    n = 1500 if tier == "quick" else 30000
    for _ in range(n):
        nd = rng.choice([1, 2, 2, 3])
        ncube = rng.choice([1, 2, 3, 4])
        shape = [rng.choice([5, 6, 8]) for _ in range(nd)]
        A, groups = c04._blocks(rng, nd)
        b = [rng.randrange(-3, 4) for _ in range(nd)]
        shifts = [[0] * nd] + [[rng.choice([0, 0, 1, -1, 2]) for _ in range(nd)] for _ in range(ncube - 1)]   # pixel shifts per cube
        npts = rng.choice([1, 2, 2, 3, 4])
        none_groups = [g for g in groups if rng.random() < 0.25]
        if len(none_groups) == len(groups):
            none_groups = none_groups[1:]
        pts = []
        for _p in range(npts):
            pix = []
            for p in range(nd):
                ln = shape[nd - 1 - p]
                v = Fr(rng.randrange(8 * 2, 8 * (ln - 3) + 1), 8)      # stays on every (shifted) cube
                pix.append([v.numerator, v.denominator])
            pts.append(pix)
        if rng.random() < 0.3:          # single-pixel extent on some axis: all points share that coordinate
            p = rng.randrange(nd)
            for q in pts:
                q[p] = pts[0][p]
        form = rng.choice(["values", "values", "objects"])
        wcses = rng.choice(["wcs", "wcs", None, "list", "combined_wcs"])
        key = f"{shape}|{A}|{b}|{shifts}|{pts}|{none_groups}|{form}|{wcses}"
        cases.append({"key": key, "stratum": f"{ncube}cubes-{form}", "shape": shape, "A": A, "b": b, "shifts": shifts,
                      "groups": groups, "none_groups": none_groups, "pts": pts, "form": form, "wcses": wcses,
                      "nontrivial": True,
                      "show": {"shape": shape, "A": A, "b": b, "pixel_shift_of_each_cube": shifts, "pixel_positions_of_points": pts,
                               "groups_left_None": none_groups, "form": form, "wcses": wcses}})
    return cases


def _cube_b(case, k):
    """world offset of cube k: its wcs is the first cube's shifted by shifts[k] pixels: w = A (p + s) + b"""
    A = np.array(case["A"])
    return (A @ np.array(case["shifts"][k]) + np.array(case["b"])).tolist()


def run(case):
    import astropy.units as u
    from ndcube import NDCube, NDCubeSequence
    from astropy.wcs.wcsapi.high_level_api import values_to_high_level_objects
    shape = tuple(case["shape"])
    nd = len(shape)
    cubes = []
    for k in range(len(case["shifts"])):
        w = make_probe(case["A"], _cube_b(case, k), tw=list(range(nd)), tp=list(range(nd)))
        cubes.append(NDCube(np.arange(int(np.prod(shape))).reshape(shape) + 1000 * k, wcs=w))
    seq = NDCubeSequence(cubes)
    ll0 = cubes[0].wcs.low_level_wcs
    pix_pts = [[Fr(*v) for v in p] for p in case["pts"]]
    world_pts = [c14._vec(ll0.pixel_to_world_values(*[float(x) for x in p]), nd) for p in pix_pts]
    none_w = set()
    from astropy.wcs.utils import _split_matrix
    for pi, wi in _split_matrix(np.asarray(ll0.axis_correlation_matrix)):
        if any({int(x) for x in pi} <= set(g) for g in case["none_groups"]):
            none_w |= {int(x) for x in wi}
    use_objects = case["form"] == "objects"
    if use_objects:
        pts = []
        for w in world_pts:
            objs = values_to_high_level_objects(*[float(x) for x in w], low_level_wcs=ll0)
            pts.append([None if i in none_w else o for i, o in enumerate(objs)])
    else:
        pts = [[None if i in none_w else float(x) * u.m for i, x in enumerate(w)] for w in world_pts]
    kw = {}
    if case["wcses"] == "list":
        kw["wcses"] = [c.wcs for c in cubes]
    elif case["wcses"] is not None:
        kw["wcses"] = case["wcses"]
    why = []
    item, r = None, None
    try:
        item = seq._get_sequence_crop_item(*pts, crop_by_values=not use_objects, **{k: v for k, v in kw.items()})
        r = seq.crop(*pts, **kw) if use_objects else seq.crop_by_values(*pts, **kw)
        exc = None
    except Exception as e:  # noqa
        exc = exc_name(e)
    out = {"t": "item", "item": [Q.enc_item(i) for i in item]} if item is not None else {"t": "err", "e": exc}
    # ---- direct oracle: union over cubes of each cube's own box (nearest-pixel indices in that cube)
    starts, stops = [None] * nd, [None] * nd
    for k in range(len(cubes)):
        per_axis = {a: [] for a in range(nd)}
        for p in pix_pts:
            for px in range(nd):
                pos = p[px] - case["shifts"][k][px]            # pixel position of the point in cube k
                a = nd - 1 - px
                grp = next(g for g in case["groups"] if px in g)
                if grp in case["none_groups"]:
                    continue
                per_axis[a].append(int(np.floor(float(pos) + 0.5)))
        for a in range(nd):
            lo, hi = (0, shape[a]) if not per_axis[a] else (max(min(per_axis[a]), 0), min(max(per_axis[a]) + 1, shape[a]))
            starts[a] = lo if starts[a] is None else min(starts[a], lo)
            stops[a] = hi if stops[a] is None else max(stops[a], hi)
    if exc is not None:
        why.append(f"sequence crop raised {exc} on points valid for cube crop")
    else:
        exp_item = (slice(0, len(cubes)),) + tuple(slice(a, b) for a, b in zip(starts, stops))
        if tuple(item) != exp_item:
            why.append(f"sequence item {item} is not the union of the cubes' own boxes {exp_item}")
        shapes = {c.data.shape for c in r.data}
        if len(r.data) != len(cubes) or len(shapes) != 1:
            why.append(f"cropped cubes have shapes {sorted(shapes)} / {len(r.data)} cubes")
        else:
            for k, (c0, c1) in enumerate(zip(cubes, r.data)):
                if not np.array_equal(c1.data, c0.data[tuple(slice(a, b) for a, b in zip(starts, stops))]):
                    why.append(f"cube {k} of the result is not the source cube sliced with the common box")
                    break
    return {"out": out, "oracle": {"ok": not why, "why": "; ".join(why[:3]), "finding": None},
            "world": [[None if i in none_w else [Fr(float(x)).numerator, Fr(float(x)).denominator] for i, x in enumerate(w)] for w in world_pts]}


def coq_case(case, res):
    o = res["out"]
    nd = len(case["shape"])
    if case["wcses"] == "combined_wcs" and False:
        pass
    cubes = []
    for k in range(len(case["shifts"])):
        e = c14._coq_expr({"k": "lin", "A": case["A"], "b": _cube_b(case, k), "shape": None, "bounds": None,
                           "tw": list(range(nd)), "tp": list(range(nd))})
        cubes.append(Q.tup(e, Q.lst(case["shape"], Q.z)))
    pts = Q.lst([Q.lst(["None" if x is None else f"(Some {c14._cq(x)}%Q)" for x in w]) for w in res["world"]])
    impl = f"(OErr {Q.err(o['e'])})" if o["t"] == "err" else f"(OItem {Q.lst(o['item'], Q.coq_item)})"
    return f"mk {Q.lst(cubes)} {Q.nat(nd)} {pts} {impl}"
