"""C18 — sequence crop applies one common box that contains every cube's own crop."""
from fractions import Fraction as Fr
import numpy as np
from harness import coqio as Q
from harness.impl import poke, make_probe, exc_name
from harness.props import c14, c04

CORR = "C18_corr"
IMPORTS = ["M_Wrappers", "M_Crop", "M_SeqCrop", "C14_corr"]
MODEL_FILES = ["Model/M_SeqCrop.v", "Model/M_Crop.v"]
DEPS = ["pyindex"]
RULE = ("cases = (sequence of 1-4 cubes of 1-3 dims whose block-diagonal integer probe WCS are identical or shifted by whole "
        "pixels relative to one another, 1-4 points valid for cube crop: None per independent group or for ALL components, "
        "single-pixel extents, sub-pixel offsets k/8; crop (high level) and crop_by_values; wcses = None | 'wcs' | the cubes' "
        "own wcs as a list | a list of WCS that differ from the cubes' own | 'combined_wcs' | and, on cubes carrying 1-2 "
        "lookup-table extra coords, 'extra_coords' | 'combined_wcs' (by the direct oracle)); distinct by key")
ASSUMPTIONS = ["per-cube boxes are C04's subject (M_Crop); here the union over cubes and the use of the per-cube helpers is modelled"]


def gen(tier, rng):
    cases = []
    n = 1500 if tier == "quick" else 30000
    for _ in range(n):
        nd = rng.choice([1, 2, 2, 3])
        ncube = rng.choice([1, 2, 3, 4])
        shape = [rng.choice([5, 6, 8]) for _ in range(nd)]
        A, groups = c04._blocks(rng, nd)
        b = [rng.randrange(-3, 4) for _ in range(nd)]
        big = rng.random() < 0.2        # sometimes far enough for the points to fall wholly off one cube on some axis
        shifts = [[0] * nd] + [[rng.choice([0, 0, 1, -1, 2] + ([5, -5, 7] if big else [])) for _ in range(nd)] for _ in range(ncube - 1)]   # pixel shifts per cube
        npts = rng.choice([1, 2, 2, 3, 4])
        none_groups = [g for g in groups if rng.random() < 0.25]
        if len(none_groups) == len(groups):
            none_groups = none_groups[1:]
        pts = []
        for _p in range(npts):
            pix = []
            for p in range(nd):
                ln = shape[nd - 1 - p]
                v = Fr(rng.randrange(8 * 2, 8 * (ln - 3) + 1), 8)      # stays on every (shifted) cube
                pix.append([v.numerator, v.denominator])
            pts.append(pix)
        if rng.random() < 0.3:          # single-pixel extent on some axis: all points share that coordinate
            p = rng.randrange(nd)
            for q in pts:
                q[p] = pts[0][p]
        if rng.random() < 0.12:         # every point in one and the same pixel: each cube's own box is one element wide on EVERY axis
            for q in pts[1:]:
                for p in range(nd):
                    v = Fr(*pts[0][p])
                    c = Fr(int(np.floor(float(v) + 0.5)))
                    w = c + rng.choice([Fr(0), Fr(1, 4), Fr(-3, 8), v - c])
                    q[p] = [w.numerator, w.denominator]
        form = rng.choice(["values", "values", "objects"])
        tabs = []
        if rng.random() < 0.3:
            for ax in rng.sample(range(nd), rng.choice([1, min(2, nd)])):
                tabs.append([ax, rng.choice([1, 2, 3]), rng.randrange(0, 5)])      # array axis, slope, intercept on cube 0
        wcses = rng.choice(["extra_coords", "combined_wcs", "combined_wcs", "names:extra_coords", "names:combined_wcs"]) if tabs else \
            rng.choice(["wcs", "wcs", None, "list", "foreign", "combined_wcs", "names:wcs", "names:combined_wcs"])
        own_shifts = [[rng.choice([0, 1, -2]) for _ in range(nd)] for _ in range(ncube)] if wcses == "foreign" else None
        all_none = rng.random() < 0.04
        none_tabs = [t for t in range(len(tabs)) if rng.random() < 0.25]
        if wcses == "extra_coords" and len(none_tabs) == len(tabs) and not all_none:
            none_tabs = none_tabs[1:]
        none_pp = None
        if not tabs and npts >= 2 and not all_none and rng.random() < 0.25:
            # each point has its own None layout (a point may give no coordinate at all)
            none_pp = [none_groups if rng.random() < 0.4 else [g for g in groups if rng.random() < 0.45] for _ in range(npts)]
        key = f"{shape}|{A}|{b}|{shifts}|{pts}|{none_groups}|{form}|{wcses}|{tabs}|{own_shifts}|{all_none}|{none_tabs}|{none_pp}"
        cases.append({"key": key, "stratum": f"{ncube}cubes-{form}-{wcses}", "shape": shape, "A": A, "b": b, "shifts": shifts,
                      "groups": groups, "none_groups": none_groups, "pts": pts, "form": form, "wcses": wcses,
                      "tabs": tabs, "own_shifts": own_shifts, "all_none": all_none, "none_tabs": none_tabs, "none_pp": none_pp,
                      "nontrivial": True,
                      "show": {"shape": shape, "A": A, "b": b, "pixel_shift_of_each_cube": shifts, "pixel_positions_of_points": pts,
                               "groups_left_None": "ALL" if all_none else (none_pp or none_groups), "form": form, "wcses": wcses,
                               "extra_coords(axis,slope,intercept)": tabs, "tables_left_None": none_tabs,
                               "cubes_own_wcs_shifts_when_wcses_is_a_foreign_list": own_shifts}})
    return cases


def _cube_b(case, k, shifts=None):
    """world offset of cube k: its wcs is the first cube's shifted by shifts[k] pixels: w = A (p + s) + b"""
    A = np.array(case["A"])
    return (A @ np.array((shifts or case["shifts"])[k]) + np.array(case["b"])).tolist()


def run(case):
    import astropy.units as u
    from ndcube import NDCube, NDCubeSequence
    from astropy.wcs.wcsapi import HighLevelWCSWrapper
    from astropy.wcs.wcsapi.high_level_api import values_to_high_level_objects
    from astropy.wcs.utils import _split_matrix
    shape = tuple(case["shape"])
    nd = len(shape)
    mode = case["wcses"]
    names = isinstance(mode, str) and mode.startswith("names:")      # the attribute name once per cube, in a list
    if names:
        mode = mode.split(":")[1]
    tabs = case.get("tabs") or []
    cubes = []
    # cropping through the extra coords only: in every other such case all cubes carry one and the same WCS object
    # (repeated rasters sharing a WCS) while their tables differ
    import zlib
    share_wcs = mode == "extra_coords" and zlib.crc32(("share" + case["key"]).encode()) % 2 == 0
    w_shared = HighLevelWCSWrapper(make_probe(case["A"], _cube_b(case, 0, case.get("own_shifts")), tw=list(range(nd)), tp=list(range(nd))))
    for k in range(len(case["shifts"])):
        w = w_shared if share_wcs else make_probe(case["A"], _cube_b(case, k, case.get("own_shifts")), tw=list(range(nd)), tp=list(range(nd)))
        cube = NDCube(np.arange(int(np.prod(shape))).reshape(shape) + 1000 * k, wcs=w)
        for t, (ax, slope, icpt) in enumerate(tabs):
            sk = case["shifts"][k][nd - 1 - ax]
            cube.extra_coords.add(f"e{t}", ax, (slope * (np.arange(shape[ax]) + sk) + icpt) * u.m, physical_types=f"custom:e{t}")
        cubes.append(cube)
    seq = NDCubeSequence(cubes)
    for c_ in cubes:
        poke(c_, case["key"])
    poke(seq, case["key"])
    # the description the points are expressed in, for cube 0
    target = make_probe(case["A"], _cube_b(case, 0), tw=list(range(nd)), tp=list(range(nd)))
    pix_pts = [[Fr(*v) for v in p] for p in case["pts"]]
    none_pix = set()                       # pixel axes whose coordinate group is left None
    for g in case["groups"]:
        if case.get("all_none") or g in case["none_groups"]:
            none_pix |= set(g)
    wcs_world = [c14._vec(target.pixel_to_world_values(*[float(x) for x in p]), nd) for p in pix_pts]
    none_w = set()
    for pi, wi in _split_matrix(np.asarray(target.axis_correlation_matrix)):
        if {int(x) for x in pi} <= none_pix:
            none_w |= {int(x) for x in wi}
    use_objects = case["form"] == "objects"
    # per point: the pixel axes / world axes left None (one layout for all points unless the case gives one per point)
    none_pix_pt, none_w_pt = [set(none_pix) for _ in pix_pts], [set(none_w) for _ in pix_pts]
    if case.get("none_pp") and not tabs and not case.get("all_none"):
        none_pix_pt = [{px for g in layout for px in g} for layout in case["none_pp"]]
        none_w_pt = []
        for npx in none_pix_pt:
            ws_ = set()
            for pi_, wi_ in _split_matrix(np.asarray(target.axis_correlation_matrix)):
                if {int(x) for x in pi_} <= npx:
                    ws_ |= {int(x) for x in wi_}
            none_w_pt.append(ws_)
        none_pix = set.intersection(*none_pix_pt)           # axes no point gives a coordinate for

    def wcs_part(w, pi=0):
        if use_objects:
            objs = values_to_high_level_objects(*[float(x) for x in w], low_level_wcs=target)
            return [None if i in none_w_pt[pi] else o for i, o in enumerate(objs)]
        return [None if i in none_w_pt[pi] else float(x) * u.m for i, x in enumerate(w)]

    # ExtraCoords keeps its tables sorted by array axis? ask the first cube for the order of its world axes
    tab_order = []
    if tabs:
        names = list(cubes[0].extra_coords.wcs.low_level_wcs.world_axis_physical_types)
        tab_order = [int(nm.split("custom:e")[1]) for nm in names]

    def tab_part(p):
        out = []
        for t in tab_order:
            ax, slope, icpt = tabs[t]
            px = nd - 1 - ax
            none = case.get("all_none") or (t in case["none_tabs"] if mode == "extra_coords" else px in none_pix)
            out.append(None if none else float(slope * p[px] + icpt) * u.m)
        return out

    if mode == "extra_coords":
        pts = [tab_part(p) for p in pix_pts]
        touched = {tabs[t][0] for t in range(len(tabs)) if not (case.get("all_none") or t in case["none_tabs"])}
    elif mode == "combined_wcs" and tabs:
        pts = [wcs_part(w) + tab_part(p) for w, p in zip(wcs_world, pix_pts)]
        touched = {nd - 1 - px for px in range(nd) if px not in none_pix}
    else:
        pts = [wcs_part(w, pi) for pi, w in enumerate(wcs_world)]
        touched = {nd - 1 - px for px in range(nd) if px not in none_pix}
    kw = {}
    if mode == "list":
        kw["wcses"] = [c.wcs for c in cubes]
    elif mode == "foreign":
        kw["wcses"] = [HighLevelWCSWrapper(make_probe(case["A"], _cube_b(case, k), tw=list(range(nd)), tp=list(range(nd))))
                       for k in range(len(cubes))]
    elif mode is not None:
        kw["wcses"] = [mode] * len(cubes) if names else mode
    why = []
    fresh = lambda: [list(p) for p in pts]          # every call gets its own point lists  # noqa
    item, r = None, None
    try:
        item = seq._get_sequence_crop_item(*fresh(), crop_by_values=not use_objects, **kw)
        r = seq.crop(*fresh(), **kw) if use_objects else seq.crop_by_values(*fresh(), **kw)
        exc = None
    except Exception as e:  # noqa
        exc = exc_name(e)
    out = {"t": "item", "item": [Q.enc_item(i) for i in item]} if item is not None else {"t": "err", "e": exc}
    # ---- direct oracle: union over cubes of the box each cube's OWN crop uses (cube crop is C04's subject)
    starts, stops = [None] * nd, [None] * nd
    own_exc = None
    for k, cube in enumerate(cubes):
        ckw = {}
        if mode == "list":
            ckw["wcs"] = cube.wcs
        elif mode == "foreign":
            ckw["wcs"] = kw["wcses"][k]
        elif mode is not None:
            ckw["wcs"] = getattr(cube, mode)
        try:
            own = (cube._get_crop_item(*fresh(), keepdims=True, **ckw) if use_objects
                   else cube._get_crop_by_values_item(*fresh(), keepdims=True, **ckw))
        except Exception as e:  # noqa
            own_exc = exc_name(e)
            break
        for a in range(nd):
            lo, hi, _ = own[a].indices(shape[a])
            starts[a] = lo if starts[a] is None else min(starts[a], lo)
            stops[a] = hi if stops[a] is None else max(stops[a], hi)
    # do all points lie on every cube's array (through the WCS used for that cube)?
    all_on = True
    for k in range(len(cubes)):
        sh_k = (case["shifts"] if mode != "foreign" or True else case["own_shifts"])[k]
        for p in pix_pts:
            for px in range(nd):
                pos = float(p[px]) - sh_k[px]
                lo, hi = (0.0, shape[nd - 1 - px] - 1.0) if tabs else (-0.5, shape[nd - 1 - px] - 0.5001)   # a table ends at its last entry
                if not lo <= pos <= hi:
                    all_on = False
    if own_exc is not None and not all_on:
        # some point lies off some cube (a lookup table has no value there): outside the quantifier
        return {"out": {"t": "err", "e": exc or own_exc}, "oracle": {"ok": True, "why": "", "finding": None}, "world": None, "skip": True}
    if own_exc is not None:
        # every generated point set is valid for a cube crop that keeps its dimensions (the points lie on a probe WCS
        # that inverts exactly; one-element boxes are allowed with keepdims=True): a refusal is a failure, not a skip
        return {"out": {"t": "err", "e": exc or own_exc},
                "oracle": {"ok": False, "why": f"a cube's own crop (keepdims=True) raised {own_exc} on valid points, so the sequence crop cannot accept them", "finding": None},
                "world": None, "skip": True}
    if exc is not None:
        why.append(f"sequence crop raised {exc} on points valid for cube crop")
    else:
        exp_item = (slice(0, len(cubes)),) + tuple(slice(a, b) for a, b in zip(starts, stops))
        if tuple(item) != exp_item:
            why.append(f"sequence item {item} is not the union of the cubes' own boxes {exp_item}")
        shapes = {c.data.shape for c in r.data}
        if len(r.data) != len(cubes) or len(shapes) != 1:
            why.append(f"cropped cubes have shapes {sorted(shapes)} / {len(r.data)} cubes")
        else:
            for k, (c0, c1) in enumerate(zip(cubes, r.data)):
                if not np.array_equal(c1.data, c0.data[tuple(slice(a, b) for a, b in zip(starts, stops))]):
                    why.append(f"cube {k} of the result is not the source cube sliced with the common box")
                    break
    # ---- independent statement of the box (not through the cubes' own crop helpers): nearest-pixel indices of the
    #      points on every cube, smallest start and largest stop over the cubes, clipped to the array
    halves = any((v * 2) % 2 == 1 for p in pix_pts for v in p)
    if not why and exc is None and all_on and not (tabs and halves):
        ind = []
        for a in range(nd):
            px = nd - 1 - a
            if a not in touched:
                ind.append((0, shape[a]))
                continue
            los, his = [], []
            for k in range(len(cubes)):
                idxs = [int(np.floor(float(p[px] - case["shifts"][k][px]) + 0.5)) for pi_, p in enumerate(pix_pts) if not (case.get("none_pp") and px in none_pix_pt[pi_])]
                lo = max(min(idxs), 0)
                hi = max(min(max(idxs) + 1, shape[a]), lo)
                los.append(lo)
                his.append(hi)
            ind.append((min(los), max(his)))
        got = [(it.indices(shape[a])[0], it.indices(shape[a])[1]) for a, it in enumerate(item[1:])]
        if got != ind:
            why.append(f"common box {got} is not the box of the points' nearest-pixel indices over all cubes {ind}")
    # ---- the result is a sequence in its own right: cropping it again with the very same arguments must give the
    #      union of ITS cubes' own boxes
    if not why and exc is None and mode not in ("list", "foreign") and len(r.data) > 0 and all(c.data.size for c in r.data):
        try:
            st2, sp2 = [None] * nd, [None] * nd
            for cube in r.data:
                ckw = {} if mode is None else {"wcs": getattr(cube, mode)}
                own = (cube._get_crop_item(*fresh(), keepdims=True, **ckw) if use_objects
                       else cube._get_crop_by_values_item(*fresh(), keepdims=True, **ckw))
                for a in range(nd):
                    lo, hi, _ = own[a].indices(cube.data.shape[a])
                    st2[a] = lo if st2[a] is None else min(st2[a], lo)
                    sp2[a] = hi if sp2[a] is None else max(sp2[a], hi)
            own_ok = True
        except Exception:  # noqa
            own_ok = False
        if own_ok:
            try:
                item2 = r._get_sequence_crop_item(*fresh(), crop_by_values=not use_objects, **kw)
                exp2 = (slice(0, len(r.data)),) + tuple(slice(a, b) for a, b in zip(st2, sp2))
                if tuple(item2) != exp2:
                    why.append(f"cropping the result again with the same arguments gives {item2}, its cubes' own boxes give {exp2}")
            except Exception as e:  # noqa
                why.append(f"cropping the result again with the same arguments raised {exc_name(e)}")
    return {"out": out, "oracle": {"ok": not why, "why": "; ".join(why[:3]), "finding": None},
            "world": [[None if i in none_w_pt[pi_] else [Fr(float(x)).numerator, Fr(float(x)).denominator] for i, x in enumerate(w)] for pi_, w in enumerate(wcs_world)]}


def coq_case(case, res):
    o = res["out"]
    nd = len(case["shape"])
    if case.get("tabs") or res.get("skip"):
        return "mk [] 0%nat [] (OItem [ISlice (Some 0) (Some 0) None])"        # extra coords: left to the direct oracle
    cubes = []
    for k in range(len(case["shifts"])):
        e = c14._coq_expr({"k": "lin", "A": case["A"], "b": _cube_b(case, k), "shape": None, "bounds": None,
                           "tw": list(range(nd)), "tp": list(range(nd))})
        cubes.append(Q.tup(e, Q.lst(case["shape"], Q.z)))
    pts = Q.lst([Q.lst(["None" if x is None else f"(Some {c14._cq(x)}%Q)" for x in w]) for w in res["world"]])
    impl = f"(OErr {Q.err(o['e'])})" if o["t"] == "err" else f"(OItem {Q.lst(o['item'], Q.coq_item)})"
    return f"mk {Q.lst(cubes)} {Q.nat(nd)} {pts} {impl}"
