"""C19 — lookup-table coordinates reproduce their tables."""
from fractions import Fraction as Fr
import numpy as np
from harness import coqio as Q
from harness.impl import lin_wcs, exc_name

CORR = "C19_corr"
IMPORTS = ["M_Resample", "M_Lookup"]
MODEL_FILES = ["Model/M_Lookup.v", "Model/M_Resample.v"]
DEPS = ["pyindex"]
RULE = ("cases = (tables of length 1-8 with entries k/4: strictly increasing, strictly decreasing, arbitrary; kinds Quantity (1-2 "
        "meshed tables; m, pix, s), Time, SkyCoord (mesh and not); joins of 1-3 coordinates with &; probes: pixel -> world at "
        "positions k/4 from one pixel below to one above the table, world -> pixel at entries and segment midpoints of "
        "monotonic tables, every basic slice item (ints and slices of both signs, steps, open / out-of-range bounds), "
        "interpolate on grids inside the table, ExtraCoords.resample with factors 1/2 .. 3 and offsets 0 .. 1 on cubes "
        "of 1-2 dims, declared names / physical types / units); distinct by key")
ASSUMPTIONS = ["astropy's Tabular models and np.interp are dependencies (tab_eval, np_interp), validated by every run",
               "Time tables are compared as seconds from the reference time, SkyCoord tables as lon / lat degrees; implementation "
               "values are put on the 1/64 grid of the exact results when within 1e-6 (Time arithmetic carries ~1e-12 noise)",
               "a meshed SkyCoord table sliced with an integer on one component only has no WCS (known finding)"]
FINDING_MIXED = "sky-mesh-mixed-int"
FINDING_STEP = "sky-step"
FINDING_Q2 = "q2-grid-shapes"


def _table(rng, n, mono=None):
    if mono is None:
        mono = rng.choice(["inc", "dec", "any"])
    steps = [rng.choice([1, 2, 3, 5, 6]) for _ in range(n)]
    if mono == "any":
        vals = [rng.randrange(-12, 40) for _ in range(n)]
    else:
        vals = list(np.cumsum(steps))
        if mono == "dec":
            vals = [-v for v in vals]
        off = rng.randrange(-8, 9)
        vals = [v + off for v in vals]
    return [[int(v), 4] for v in vals], mono


def _coord(rng, force_mono=False):
    kind = rng.choice(["q", "q", "q2", "time", "sky", "skymesh"])
    mono = rng.choice(["inc", "dec"]) if force_mono else None
    if kind in ("q", "q2"):
        nt = 1 if kind == "q" else 2
        tabs = [_table(rng, rng.randrange(1, 9), mono) for _ in range(nt)]
        unit = rng.choice(["m", "m", "pix", "s"])
        named = rng.random() < 0.6
        return {"kind": "q", "tables": [t for t, _ in tabs], "mono": [m for _, m in tabs], "unit": unit,
                "names": [f"n{rng.randrange(100)}_{i}" for i in range(nt)] if named else None,
                "ptypes": [f"custom:p{rng.randrange(100)}_{i}" for i in range(nt)] if rng.random() < 0.6 else None}
    if kind == "time":
        t, m = _table(rng, rng.randrange(1, 9), mono)
        return {"kind": "time", "tables": [t], "mono": [m], "ref": rng.random() < 0.5, "scale": rng.choice(["utc", "utc", "tai", "tt"]),
                "names": ["tname"] if rng.random() < 0.5 else None, "ptypes": [f"custom:t{rng.randrange(100)}"] if rng.random() < 0.4 else None}
    n = rng.randrange(1, 7)
    lon, m1 = _table(rng, n, mono or rng.choice(["inc", "dec"]))
    lat, m2 = _table(rng, n, mono)
    lon = [[v[0] % 1200 + 40, 4] if m1 == "any" else [v[0] + 400, 4] for v in lon]          # degrees in (0, 360)
    lat = [[max(-300, min(300, v[0])), 4] for v in lat] if m2 == "any" else [[v[0], 4] for v in lat]
    return {"kind": "sky", "mesh": kind == "skymesh", "tables": [lon, lat], "mono": [m1, m2], "names": None, "ptypes": None}


def _pix_dims(c):
    return len(c["tables"]) if c["kind"] == "q" else (1 if c["kind"] == "time" else (2 if c["mesh"] else 1))


def _len_of_dim(c, d):
    if c["kind"] == "sky":
        return len(c["tables"][d if c["mesh"] else 0])
    return len(c["tables"][d])


def _item(rng, n):
    r = rng.random()
    if r < 0.25:
        return rng.randrange(-n - 1, n + 1)
    b = lambda: rng.choice([None, None] + list(range(-n - 2, n + 3)))  # noqa
    return ["s", b(), b(), rng.choice([None, None, 1, 1, 2, -1, -2, 3])]


def _sky_item(rng, n):
    """SkyCoord tables refuse steps (known finding sky-step): integers and step-1 slices of both signs"""
    it = _item(rng, n)
    return it if isinstance(it, int) else ["s", it[1], it[2], None]


def gen(tier, rng):
    cases = []
    N = 2600 if tier == "quick" else 50000
    for _ in range(N):
        probe = rng.choice(["p2w", "p2w", "w2p", "slice", "slice", "interp", "resample", "meta", "chain", "chain", "sky2d", "joinslice", "units"])
        case = {"probe": probe}
        if probe == "units":
            # a Quantity coordinate of 2-3 tables held in different but equivalent units, sliced (Python and numpy
            # integers) and interpolated: the physical values must be those of the tables, whatever unit holds them
            nt = rng.choice([2, 2, 3])
            case["tables"] = [_table(rng, rng.randrange(2, 7), None)[0] for _ in range(nt)]
            case["tunits"] = [rng.choice(["m", "km", "cm"]) for _ in range(nt)]
            case["items"] = [_item(rng, len(t)) for t in case["tables"]]
            case["items"] = [it if isinstance(it, int) else ["s", it[1], it[2], None] for it in case["items"]]
            case["np"] = rng.random() < 0.5
            case["grid"] = sorted([rng.randrange(0, 4 * (min(len(t) for t in case["tables"]) - 1) + 1), 4] for _ in range(rng.randrange(1, 5)))
        if probe in ("p2w", "interp", "meta"):
            coords = [_coord(rng) for _ in range(rng.choice([1, 1, 2, 3]))]
            case["coords"] = coords
            if probe == "p2w":
                pix = []
                for c in coords:
                    for d in range(_pix_dims(c)):
                        n = _len_of_dim(c, d)
                        if n == 1:      # one entry: its pixel, or at least half a pixel away (inside the pixel is the entry's own extent)
                            pix.append([rng.choice([0, 0, 2, -2, 3, -3, 4, -4]), 4])
                        else:
                            pix.append([rng.randrange(-4, 4 * n + 1), 4] if rng.random() < 0.9 else [rng.randrange(0, n), 1])
                case["pix"] = pix
            elif probe == "interp":
                grids = []
                for c in coords:
                    glen = rng.randrange(1, 6)
                    for d in range(_pix_dims(c)):
                        n = _len_of_dim(c, d)
                        grids.append(sorted([rng.randrange(0, 4 * (n - 1) + 1), 4] for _ in range(glen)) if n > 1 else [[0, 1]] * glen)
                case["grids"] = grids
        elif probe == "w2p":
            c = _coord(rng, force_mono=True)
            case["coords"] = [c]
            w = []
            tabs = c["tables"]
            for t in tabs:
                i = rng.randrange(len(t))
                if rng.random() < 0.3 and i + 1 < len(t):
                    w.append([t[i][0] + t[i + 1][0], 8])          # a segment midpoint
                else:
                    w.append(list(t[i]))
            if c["kind"] == "sky" and not c["mesh"]:
                i = rng.randrange(len(tabs[0]))
                w = [list(tabs[0][i]), list(tabs[1][i])]          # a point of the track
            case["w"] = w
        elif probe == "slice":
            c = _coord(rng)
            case["coords"] = [c]
            if c["kind"] == "sky" and not c["mesh"]:
                items = [_item(rng, len(c["tables"][0]))]
            else:
                items = [_item(rng, _len_of_dim(c, d)) for d in range(_pix_dims(c))]
            if c["kind"] == "q" and len(items) == 2 and rng.random() < 0.25:
                items = items[:1]                          # fewer items than tables: the remaining tables are kept whole
            case["items"] = items
            case["twice"] = rng.random() < 0.3            # slice the parent a second time with the same item afterwards
        elif probe == "chain":
            # slice first (plain step-1 slices that keep at least one entry), then slice / interpolate / evaluate the RESULT
            c = _coord(rng)
            case["coords"] = [c]
            nd_items = 1 if (c["kind"] == "sky" and not c["mesh"]) else _pix_dims(c)
            first, lens = [], []
            for d in range(nd_items):
                n = _len_of_dim(c, d)
                a = rng.randrange(0, n)
                b = rng.randrange(a + 1, n + 1)
                first.append(["s", rng.choice([a, a - n]) if a else rng.choice([0, None]), rng.choice([b, b - n]) if b < n else rng.choice([n, None, n + 3]), None])
                lens.append(b - a)
            case["first"] = first
            then = rng.choice(["slice", "slice", "interp", "p2w"])
            case["then"] = then
            if then == "slice":
                case["items"] = [(_item(rng, m) if c["kind"] != "sky" else _sky_item(rng, m)) for m in lens]
                if c["kind"] == "sky" and c["mesh"] and any(isinstance(i, int) for i in case["items"]):
                    case["items"] = [i if isinstance(i, int) else rng.randrange(m) for i, m in zip(case["items"], lens)]   # all integers
            elif then == "interp":
                glen = rng.randrange(1, 5)
                case["grids"] = [sorted([rng.randrange(0, 4 * (m - 1) + 1), 4] for _ in range(glen)) if m > 1 else [[0, 1]] * glen for m in lens]
            else:
                case["pix"] = [[rng.randrange(0, 4 * (m - 1) + 1), 4] if m > 1 else [0, 1] for m in lens]
        elif probe == "joinslice":
            # slice a join of 2-3 coordinates: one item per array dimension, step-1 slices and integers that drop whole
            # coordinates only (a meshed SkyCoord never gets an integer: known finding)
            coords = [_coord(rng) for _ in range(rng.choice([2, 2, 3]))]
            case["coords"] = coords
            items = []
            for c in coords:
                nd_c = 1 if (c["kind"] == "sky" and not c["mesh"]) else _pix_dims(c)
                whole_int = c["kind"] in ("q", "time") and nd_c == 1 and rng.random() < 0.25
                for d in range(nd_c):
                    n = _len_of_dim(c, d)
                    if whole_int:
                        items.append(rng.randrange(-n, n))
                    else:
                        a = rng.randrange(0, n)
                        items.append(["s", rng.choice([a, a - n]) if a else None, rng.choice([None, n, n + 2] + list(range(a + 1, n + 1))), None])
            case["items"] = items
        elif probe == "sky2d":
            n0, n1 = rng.randrange(2, 5), rng.randrange(2, 5)
            case["lon"] = [[[400 + 8 * i + rng.randrange(0, 4), 4] for j in range(n1)] for i in range(n0)]
            case["lat"] = [[[-40 + 12 * j + rng.randrange(0, 4), 4] for j in range(n1)] for i in range(n0)]
        elif probe == "resample":
            nd = rng.choice([1, 2])
            shape = [rng.randrange(2, 9) for _ in range(nd)]
            tabs = []
            for k in range(rng.choice([1, 2])):
                ax = rng.randrange(nd)
                t, m = _table(rng, shape[ax])
                tabs.append({"axis": ax, "table": t, "kind": rng.choice(["q", "q", "time"])})
            if rng.random() < 0.25 and nd == 2:
                t0, _ = _table(rng, shape[0])
                t1, _ = _table(rng, shape[1])
                if rng.random() < 0.5:
                    tabs.append({"axis": [0, 1], "table": [t0, t1], "kind": "q2"})      # one meshed coordinate on both axes
                else:
                    tabs.append({"axis": [1, 0], "table": [t1, t0], "kind": "q2"})      # ... attached in descending axis order
            case.update({"shape": shape, "tabs": tabs,
                         "factor": [rng.choice([[1, 1], [2, 1], [3, 1], [3, 2], [1, 2]]) for _ in range(nd)],
                         "offset": [rng.choice([[0, 1], [1, 2], [1, 1], [1, 4]]) for _ in range(nd)],
                         "scalar_args": rng.random() < 0.2})
        case["key"] = repr(case)
        case["stratum"] = probe + ("-" + case.get("then", "") if probe == "chain" else "") + ("-" + "+".join(c["kind"] + ("m" if c.get("mesh") else "") for c in case["coords"]) if "coords" in case else "")
        case["nontrivial"] = True
        case["show"] = {k: v for k, v in case.items() if k not in ("key", "stratum", "nontrivial", "show")}
        cases.append(case)
    return cases


REF = "2020-01-01T00:00:00"


def _fr(v):
    return Fr(v[0], v[1])


def _build(c):
    import astropy.units as u
    from astropy.time import Time
    from astropy.coordinates import SkyCoord
    from ndcube.extra_coords.table_coord import QuantityTableCoordinate, TimeTableCoordinate, SkyCoordTableCoordinate
    vals = [np.array([float(_fr(v)) for v in t]) for t in c["tables"]]
    if c["kind"] == "q":
        return QuantityTableCoordinate(*[v * u.Unit(c["unit"]) for v in vals], names=c["names"], physical_types=c["ptypes"])
    if c["kind"] == "time":
        ref = Time(REF, scale=c.get("scale", "utc"))
        tt = ref + vals[0] * u.s
        return TimeTableCoordinate(tt, names=c["names"], physical_types=c.get("ptypes"),
                                   reference_time=ref if (c["ref"] or vals[0][0] != 0) else None)
    return SkyCoordTableCoordinate(SkyCoord(vals[0] * u.deg, vals[1] * u.deg), mesh=c["mesh"])


def _canon(v, tol=1e-6):
    v = float(v)
    if not np.isfinite(v):
        return None
    r = round(v * 64)
    return Fr(int(r), 64) if abs(v * 64 - r) < 64 * tol * max(1.0, abs(v)) else Fr(v)


TIME_TOL = 2e-6      # Time tables are interpolated through MJD doubles: about a microsecond


def _tables_of(tc, kind, scale="utc"):
    """the tables an implementation coordinate holds, as lists of floats (or scalars)"""
    import astropy.units as u
    from astropy.time import Time
    if kind == "q":
        return [np.asarray(t.value, dtype=float) for t in tc.table]
    if kind == "time":
        return [np.asarray((tc.table - Time(REF, scale=scale)).to_value(u.s), dtype=float)]
    comps = tc._sliced_components if tc.mesh else tuple(getattr(tc.table.data, comp) for comp in tc.table.data.components)
    return [np.asarray(x.to_value(u.deg), dtype=float) for x in comps]


def _interp(t, x):
    n = len(t)
    x = float(x)
    if n == 1:
        return float(t[0]) if x == 0 else np.nan
    if x < 0 or x > n - 1:
        return np.nan
    return float(np.interp(x, np.arange(n), np.array([float(v) for v in t])))


def _expected_p2w(c, pix):
    t = [[_fr(v) for v in tab] for tab in c["tables"]]
    if c["kind"] == "q":
        return [_interp(tb, p) for tb, p in zip(t, pix)]
    if c["kind"] == "time":
        return [_interp(t[0], pix[0])]
    if c["mesh"]:
        return [_interp(t[0], pix[0]), _interp(t[1], pix[1])]
    return [_interp(t[0], pix[0]), _interp(t[1], pix[0])]


def _close(a, b, tol=1e-9):
    a, b = np.asarray(a, dtype=float), np.asarray(b, dtype=float)
    return a.shape == b.shape and np.allclose(a, b, rtol=tol, atol=tol, equal_nan=True)


def _vec(x, n):
    if n == 1 and not isinstance(x, (tuple, list)):
        return [float(np.asarray(x))]
    return [float(np.asarray(v)) for v in x]


def _units_fail(case):
    """direct oracle for the 'units' probe; returns '' or a description"""
    import astropy.units as u
    from ndcube.extra_coords.table_coord import QuantityTableCoordinate
    tabs = [np.array([float(_fr(v)) for v in t]) for t in case["tables"]]          # physical values in metres
    held = [(t * u.m).to(un) for t, un in zip(tabs, case["tunits"])]
    tc = QuantityTableCoordinate(*held, names=[f"n{j}" for j in range(len(tabs))], physical_types=[f"custom:p{j}" for j in range(len(tabs))])

    def metres(coord):
        return [np.atleast_1d(np.asarray(t.to_value(u.m), dtype=float)) for t in coord.table]
    # ---- evaluation through the WCS: every world axis in the unit the WCS declares for it
    w = tc.wcs
    for k in range(min(len(t) for t in tabs)):
        got = w.low_level_wcs.pixel_to_world_values(*[float(k)] * len(tabs))
        got = [got] if len(tabs) == 1 else list(got)
        for j, (g, un) in enumerate(zip(got, w.low_level_wcs.world_axis_units)):
            if not np.isclose((float(g) * u.Unit(un)).to_value(u.m), tabs[j][k], rtol=1e-9, atol=1e-9):
                return f"table {j} entry {k} is {tabs[j][k]} m, the WCS gives {float(g)} {un}"
    # ---- slicing
    items = [Q.dec_item(it) if not isinstance(it, int) else it for it in case["items"]]
    ok_np = True
    try:
        exp = [t[it] for t, it in zip(tabs, items)]
    except IndexError:
        exp = None
    impl_items = tuple(np.int64(it) if (case["np"] and isinstance(it, int)) else it for it in items)
    try:
        r = tc[impl_items if len(impl_items) > 1 else impl_items[0]]
        exc = None
    except Exception as e:  # noqa
        r, exc = None, exc_name(e)
    if exp is None:
        if exc is None:
            return f"an index past the end was accepted: {items}"
    elif exc is not None:
        return f"slicing with {impl_items} raised {exc}"
    else:
        kept = [e for e, it in zip(exp, items) if not isinstance(it, int)]
        got = metres(r) if len(kept) else []
        if len(got) != len(kept) or any(g.shape != np.atleast_1d(k).shape or not np.allclose(g, k, rtol=1e-9, atol=1e-9) for g, k in zip(got, kept)):
            return f"sliced with {impl_items}: tables {[g.tolist() for g in got]} m, expected {[np.atleast_1d(k).tolist() for k in kept]} m"
        if len(kept) and all(len(np.atleast_1d(k)) > 0 for k in kept):
            try:
                r.wcs
            except Exception as e:  # noqa
                return f"sliced with {impl_items}: no WCS can be built from the result ({exc_name(e)})"
    # ---- interpolation at one grid for all tables
    grid = np.array([float(_fr(v)) for v in case["grid"]])
    try:
        ri = tc.interpolate(*[grid] * len(tabs))
    except Exception as e:  # noqa
        return f"interpolate raised {exc_name(e)}"
    for j, (g, t) in enumerate(zip(metres(ri), tabs)):
        e = np.interp(grid, np.arange(len(t)), t)
        if g.shape != e.shape or not np.allclose(g, e, rtol=1e-9, atol=1e-9):
            return f"interpolated table {j}: {g.tolist()} m, linear interpolation of the table gives {e.tolist()} m"
    return ""


def run(case):
    import astropy.units as u
    from functools import reduce
    from harness.props.c05 import _ser
    probe = case["probe"]
    why, out, finding = [], {}, None
    try:
        if probe == "units":
            f = _units_fail(case)
            return {"out": {}, "oracle": {"ok": not f, "why": f, "finding": None}}
        if probe in ("p2w", "interp", "meta", "w2p", "slice", "chain", "joinslice"):
            tcs = [_build(c) for c in case["coords"]]
            joined = reduce(lambda a, b: a & b, tcs) if len(tcs) > 1 else tcs[0]
        if probe == "p2w":
            pix = [_fr(v) for v in case["pix"]]
            w = joined.wcs
            nw = sum(2 if c["kind"] == "sky" else len(c["tables"]) for c in case["coords"])
            got = _vec(w.pixel_to_world_values(*[float(p) for p in pix]), nw)
            exp, i = [], 0
            for c in case["coords"]:
                d = _pix_dims(c)
                exp += _expected_p2w(c, pix[i:i + d])
                i += d
            if not _close(got, exp):
                why.append(f"pixel {[float(p) for p in pix]} -> {got}, the tables give {exp}")
            out = {"vals": [_canon(v) for v in got]}
        elif probe == "w2p":
            c = case["coords"][0]
            wv = [_fr(v) for v in case["w"]]
            npx = _pix_dims(c)
            wf = [float(x) for x in wv]
            if c["kind"] == "time":
                from astropy.time import Time
                rt = Time(REF, scale=c.get("scale", "utc"))
                wf = [float(((rt + wf[0] * u.s) - rt).to_value(u.s))]        # the table's own float arithmetic
            got = _vec(joined.wcs.world_to_pixel_values(*wf), npx)
            # expected: index of the entry / midpoint in the strictly monotonic table
            exp = []
            tabs = [[_fr(v) for v in t] for t in c["tables"]]
            use = tabs if not (c["kind"] == "sky" and not c["mesh"]) else tabs[:1]
            for t, x in zip(use, wv):
                e = np.nan
                if len(t) == 1:
                    e = 0.0 if x == t[0] else np.nan
                for i in range(len(t) - 1):
                    lo, hi = sorted([t[i], t[i + 1]])
                    if lo <= x <= hi:
                        e = float(i + (x - t[i]) / (t[i + 1] - t[i]))
                        break
                exp.append(e)
            if not _close(got, exp, 1e-7):
                why.append(f"world {[float(x) for x in wv]} -> pixel {got}, the table places it at {exp}")
            out = {"vals": [_canon(v) for v in got]}
        elif probe == "slice":
            c = case["coords"][0]
            items = [Q.dec_item(e) for e in case["items"]]
            item = items[0] if len(items) == 1 else tuple(items)
            kinds = [isinstance(i, int) for i in items]
            mixed = c["kind"] == "sky" and c["mesh"] and any(kinds) and not all(kinds)
            tabs = [np.array([float(_fr(v)) for v in t]) for t in c["tables"]]
            per_tab_items = items if not (c["kind"] == "sky" and not c["mesh"]) else [items[0], items[0]]
            if c["kind"] == "q" and len(items) < len(tabs):
                per_tab_items = items + [slice(None)] * (len(tabs) - len(items))
                kinds = kinds + [False] * (len(tabs) - len(items))
            exp, bad = [], None
            for t, it in zip(tabs, per_tab_items):
                try:
                    exp.append(t[it])
                except (IndexError, ValueError) as e:
                    bad = type(e).__name__
            before = [x.copy() for x in _tables_of(joined, c["kind"], c.get("scale", "utc"))]
            try:
                r = joined[item]
                if case["twice"]:
                    r = joined[item]
                exc = None
            except Exception as e:  # noqa
                r, exc = None, exc_name(e)
            after = _tables_of(joined, c["kind"], c.get("scale", "utc"))
            if any(not np.array_equal(a, b) for a, b in zip(before, after)):
                why.append("slicing changed the coordinate that was sliced")
            res = None
            if mixed and (exc is not None or bad):
                why.append(f"meshed SkyCoord table sliced with an integer on one component: {exc or 'accepted an item numpy refuses'}")
                finding = FINDING_MIXED if not bad else None
                if bad and exc is not None:
                    why.pop()
            elif bad:
                if exc is None:
                    why.append(f"an item numpy refuses ({bad}) was accepted")
            elif exc is not None:
                why.append(f"valid item {item} raised {exc}")
                if c["kind"] == "sky" and any(isinstance(i, slice) and i.step not in (None, 1) for i in items):
                    finding = FINDING_STEP
            else:
                got = _tables_of(r, c["kind"], c.get("scale", "utc"))
                if c["kind"] == "q" and any(kinds) and not all(kinds):
                    # a meshed Quantity coordinate drops the integer-indexed tables and records their values
                    dropped = [float(np.asarray(getattr(v, "value", v))) for v in r.dropped_world_dimensions["value"]]
                    kept = iter(got)
                    dr = iter(dropped)
                    try:
                        got = [np.asarray(next(dr)) if isint else next(kept) for isint in kinds]
                    except StopIteration:
                        got = got + dropped
                if len(got) != len(exp) or any(not _close(g, e) for g, e in zip(got, exp)):
                    why.append(f"sliced coordinate holds {[np.asarray(g).tolist() for g in got]}, the sliced tables are {[np.asarray(e).tolist() for e in exp]}")
                res = [(["t", [_canon(v) for v in np.atleast_1d(g)]] if np.ndim(g) else ["s", _canon(g)]) for g in got]
                # the WCS of the result reproduces the sliced tables (for non-empty, non-scalar results)
                if not why and not any(kinds) and all(np.ndim(e) == 1 and len(e) >= 1 for e in exp):
                    try:
                        w = r.wcs
                        # ... and still declares the names / physical types / units it was given
                        if c.get("names") and list(w.world_axis_names) != list(c["names"]):
                            why.append(f"sliced coordinate declares names {list(w.world_axis_names)}, it was given {c['names']}")
                        if c.get("ptypes") and list(w.world_axis_physical_types) != list(c["ptypes"]):
                            why.append(f"sliced coordinate declares physical types {list(w.world_axis_physical_types)}, it was given {c['ptypes']}")
                        if c["kind"] == "q" and [str(u.Unit(x)) for x in w.world_axis_units] != [str(u.Unit(c["unit"]))] * len(c["tables"]):
                            why.append(f"sliced coordinate declares units {list(w.world_axis_units)}, its tables are in {c['unit']}")
                        npx = _pix_dims(c)
                        for k in range(max(len(e) for e in exp)):
                            pix = [min(k, len(exp[d if (c["kind"] != "sky" or c["mesh"]) else 0]) - 1) for d in range(npx)]
                            gotw = _vec(w.pixel_to_world_values(*[float(p) for p in pix]), len(exp))
                            expw = [float(e[pix[d if (c["kind"] != "sky" or c["mesh"]) else 0]]) for d, e in enumerate(exp)]
                            if not _close(gotw, expw):
                                why.append(f"WCS of the sliced coordinate at pixel {pix} gives {gotw}, the sliced tables hold {expw}")
                                break
                    except Exception as e:  # noqa
                        why.append(f"WCS of the sliced coordinate raised {exc_name(e)}")
                elif not why and mixed:
                    try:
                        r.wcs.pixel_to_world_values(0)
                    except Exception as e:  # noqa
                        why.append(f"WCS of a meshed SkyCoord table sliced with an integer on one component raised {exc_name(e)}")
                        finding = FINDING_MIXED
            out = {"exc": exc, "res": res, "bad": bad}
        elif probe == "chain":
            c = case["coords"][0]
            sc = c.get("scale", "utc")
            first = [Q.dec_item(e) for e in case["first"]]
            tabs = [np.array([float(_fr(v)) for v in t]) for t in c["tables"]]
            per_tab_first = first if not (c["kind"] == "sky" and not c["mesh"]) else [first[0], first[0]]
            t1 = [t[it] for t, it in zip(tabs, per_tab_first)]
            r1 = joined[first[0] if len(first) == 1 else tuple(first)]
            got1 = _tables_of(r1, c["kind"], sc)
            tol = TIME_TOL if c["kind"] == "time" else 1e-9
            if len(got1) != len(t1) or any(not _close(a, b) for a, b in zip(got1, t1)):
                why.append(f"first slice {first}: coordinate holds {[np.asarray(a).tolist() for a in got1]}, the sliced tables are {[a.tolist() for a in t1]}")
            out = {"then": case["then"], "t1": [[_canon(v) for v in a] for a in t1]}
            if not why and case["then"] == "slice":
                items = [Q.dec_item(e) for e in case["items"]]
                per2 = items if not (c["kind"] == "sky" and not c["mesh"]) else [items[0], items[0]]
                exp, bad = [], None
                for t, it in zip(t1, per2):
                    try:
                        exp.append(t[it])
                    except (IndexError, ValueError) as e:
                        bad = type(e).__name__
                try:
                    r2 = r1[items[0] if len(items) == 1 else tuple(items)]
                    exc = None
                except Exception as e:  # noqa
                    r2, exc = None, exc_name(e)
                if bad:
                    if exc is None:
                        why.append(f"second item {items}: an item numpy refuses ({bad}) was accepted")
                elif exc is not None:
                    why.append(f"second item {items} on the sliced coordinate raised {exc}")
                else:
                    kinds2 = [isinstance(i, int) for i in items]
                    got = _tables_of(r2, c["kind"], sc)
                    if c["kind"] == "q" and any(kinds2) and not all(kinds2):
                        dropped = [float(np.asarray(getattr(v, "value", v))) for v in r2.dropped_world_dimensions["value"]]
                        kept, dr = iter(got), iter(dropped)
                        got = [np.asarray(next(dr)) if isint else next(kept) for isint in kinds2]
                    if len(got) != len(exp) or any(not _close(g, e) for g, e in zip(got, exp)):
                        why.append(f"slicing {first} and then {items}: coordinate holds {[np.asarray(g).tolist() for g in got]}, the tables sliced twice are {[np.asarray(e).tolist() for e in exp]}")
                    out["res"] = [(["t", [_canon(v) for v in np.atleast_1d(g)]] if np.ndim(g) else ["s", _canon(g)]) for g in got]
                out["exc"], out["bad"] = exc, bad
            elif not why and case["then"] == "interp":
                grids = [np.array([float(_fr(v)) for v in g]) for g in case["grids"]]
                r2 = r1.interpolate(*grids)
                got = _tables_of(r2, c["kind"], sc)
                gsel = grids if not (c["kind"] == "sky" and not c["mesh"]) else [grids[0], grids[0]]
                exp = [np.interp(g, np.arange(len(t)), t) for t, g in zip(t1, gsel)]
                if len(got) != len(exp) or any(not _close(a, b, tol) for a, b in zip(got, exp)):
                    why.append(f"slicing {first} and interpolating at {[g.tolist() for g in grids]}: tables {[np.asarray(a).tolist() for a in got]}, the sliced tables interpolate to {[b.tolist() for b in exp]}")
                out["tables"] = [[_canon(v, TIME_TOL if c["kind"] == "time" else 1e-6) for v in np.atleast_1d(a)] for a in got]
            elif not why:
                pix = [_fr(v) for v in case["pix"]]
                nw = 2 if c["kind"] == "sky" else len(c["tables"])
                got = _vec(r1.wcs.pixel_to_world_values(*[float(x) for x in pix]), nw)
                c1 = dict(c, tables=[[[Fr(float(v)).numerator, Fr(float(v)).denominator] for v in a] for a in t1])
                exp = _expected_p2w(c1, pix)
                if not _close(got, exp, 1e-9):
                    why.append(f"slicing {first}: pixel {[float(x) for x in pix]} -> {got}, the sliced tables give {exp}")
                out["vals"] = [_canon(v) for v in got]
        elif probe == "joinslice":
            items = [Q.dec_item(e) for e in case["items"]]
            r = joined[tuple(items)]
            kept = list(r._table_coords)
            dropped = list(r._dropped_coords)
            i = 0
            for c in case["coords"]:
                nd_c = 1 if (c["kind"] == "sky" and not c["mesh"]) else _pix_dims(c)
                its = items[i:i + nd_c]
                i += nd_c
                tabs = [np.array([float(_fr(v)) for v in t]) for t in c["tables"]]
                per = its if not (c["kind"] == "sky" and not c["mesh"]) else [its[0], its[0]]
                exp = [t[it] for t, it in zip(tabs, per)]
                part = dropped.pop(0) if all(np.ndim(e) == 0 for e in exp) else kept.pop(0)
                got = _tables_of(part, c["kind"], c.get("scale", "utc"))
                if len(got) != len(exp) or any(not _close(np.asarray(g), np.asarray(e)) for g, e in zip(got, exp)):
                    why.append(f"joined coordinate sliced with {items}: member {c['kind']} holds {[np.asarray(g).tolist() for g in got]}, its sliced tables are {[np.asarray(e).tolist() for e in exp]}")
                    break
            if not why and (kept or dropped):
                why.append("joined coordinate sliced: members left over that correspond to no source coordinate")
            out = {}
        elif probe == "sky2d":
            from astropy.coordinates import SkyCoord
            from ndcube.extra_coords.table_coord import SkyCoordTableCoordinate
            lon = np.array([[float(_fr(v)) for v in row] for row in case["lon"]])
            lat = np.array([[float(_fr(v)) for v in row] for row in case["lat"]])
            tc = SkyCoordTableCoordinate(SkyCoord(lon * u.deg, lat * u.deg), mesh=False)
            w = tc.wcs
            for i in range(lon.shape[0]):
                for j in range(lon.shape[1]):
                    got = _vec(w.pixel_to_world_values(float(i), float(j)), 2)
                    if not _close(got, [lon[i, j], lat[i, j]]):
                        why.append(f"2-D SkyCoord table: pixel ({i}, {j}) -> {got}, the table holds {[lon[i, j], lat[i, j]]}")
                        break
                if why:
                    break
            out = {}
        elif probe == "interp":
            grids = [np.array([float(_fr(v)) for v in g]) for g in case["grids"]]
            r = joined.interpolate(*grids)
            parts = r._table_coords if len(tcs) > 1 else [r]
            got, exp, i = [], [], 0
            for c, part in zip(case["coords"], parts):
                d = _pix_dims(c)
                gs = grids[i:i + d]
                i += d
                tabs = [np.array([float(_fr(v)) for v in t]) for t in c["tables"]]
                gsel = gs if not (c["kind"] == "sky" and not c["mesh"]) else [gs[0], gs[0]]
                exp.append([np.interp(g, np.arange(len(t)), t) for t, g in zip(tabs, gsel)])
                got.append(_tables_of(part, c["kind"], c.get("scale", "utc")))
            for c, g, e in zip(case["coords"], got, exp):
                if len(g) != len(e) or any(not _close(a, b, TIME_TOL if c["kind"] == "time" else 1e-9) for a, b in zip(g, e)):
                    why.append(f"interpolate gave tables {[np.asarray(a).tolist() for a in g]}, linear interpolation of the tables at the grids gives {[np.asarray(b).tolist() for b in e]}")
                    break
            out = {"tables": [[[_canon(v, TIME_TOL if c["kind"] == "time" else 1e-6) for v in np.atleast_1d(a)] for a in g] for c, g in zip(case["coords"], got)]}
        elif probe == "meta":
            w = joined.wcs
            names, ptypes, units = list(w.world_axis_names), list(w.world_axis_physical_types), list(w.world_axis_units)
            i = 0
            for c in case["coords"]:
                nw = 2 if c["kind"] == "sky" else len(c["tables"])
                if c["names"] and names[i:i + nw] != c["names"]:
                    why.append(f"declared names {names[i:i + nw]}, given {c['names']}")
                if c["ptypes"] and ptypes[i:i + nw] != c["ptypes"]:
                    why.append(f"declared physical types {ptypes[i:i + nw]}, given {c['ptypes']}")
                exp_units = ([str(u.Unit(c["unit"]))] * nw if c["kind"] == "q" else (["s"] if c["kind"] == "time" else ["deg", "deg"]))
                if [str(u.Unit(x)) for x in units[i:i + nw]] != exp_units:
                    why.append(f"declared units {units[i:i + nw]}, the tables are in {exp_units}")
                i += nw
            out = {}
        elif probe == "resample":
            from astropy.time import Time
            from ndcube import NDCube
            from ndcube.extra_coords.table_coord import QuantityTableCoordinate
            shape = tuple(case["shape"])
            cube = NDCube(np.zeros(shape), wcs=lin_wcs(len(shape)))
            for k, tb in enumerate(case["tabs"]):
                if tb["kind"] == "q2":
                    coord = QuantityTableCoordinate(*[np.array([float(_fr(v)) for v in t]) * u.m for t in tb["table"]], names=[f"a{k}", f"b{k}"])
                    cube.extra_coords.add([f"a{k}", f"b{k}"], tuple(tb["axis"]), coord)
                    continue
                vals = np.array([float(_fr(v)) for v in tb["table"]])
                cube.extra_coords.add(f"t{k}", tb["axis"], vals * u.m if tb["kind"] == "q" else Time(REF) + vals * u.s)
            f = [float(_fr(v)) for v in case["factor"]]
            o = [float(_fr(v)) for v in case["offset"]]
            if case["scalar_args"]:
                f, o = [f[0]] * len(shape), [o[0]] * len(shape)
            grids = []
            for c_, d, ff in zip(o, shape, f):
                ks = 0
                g = []
                while c_ + ks * ff <= d - 1:
                    g.append(c_ + ks * ff)
                    ks += 1
                grids.append(np.array(g))
            def _src_tables():
                return [[np.asarray(x).tolist() for x in _tables_of(coord, "time" if hasattr(coord.table, "mjd") else "q")]
                        for _axes, coord in cube.extra_coords._lookup_tables]
            src_before = _src_tables()
            # argument forms: whole factors as Python ints / an integer array (with offsets that stay fractional), tuples
            import zlib
            rform = zlib.crc32(("rform" + str(case["key"])).encode()) % 4
            fa, oa = (f[0] if case["scalar_args"] else f), (o[0] if case["scalar_args"] else o)
            if rform in (1, 2) and all(float(x).is_integer() for x in f):
                fa = int(f[0]) if case["scalar_args"] else ([int(x) for x in f] if rform == 1 else np.array([int(x) for x in f]))
            elif rform == 3 and not case["scalar_args"]:
                fa, oa = tuple(f), np.array(o)
            try:
                new = cube.extra_coords.resample(fa, oa)
                # the source is left as it was, and asked a second time it gives the same answer
                if _src_tables() != src_before:
                    why.append("resampling changed the tables of the extra coords it was applied to")
                again = cube.extra_coords.resample(fa, oa)
                t1 = [[np.asarray(x).tolist() for x in _tables_of(c_, "time" if hasattr(c_.table, "mjd") else "q")] for _a, c_ in new._lookup_tables]
                t2 = [[np.asarray(x).tolist() for x in _tables_of(c_, "time" if hasattr(c_.table, "mjd") else "q")] for _a, c_ in again._lookup_tables]
                if t1 != t2:
                    why.append("resampling the same extra coords a second time gives different tables")
            except ValueError as e:
                if "must all be same shape" in str(e) and any(tb["kind"] == "q2" and len(grids[0]) != len(grids[1]) for tb in case["tabs"]):
                    finding = FINDING_Q2
                raise
            got_all = [None] * len(case["tabs"])
            lts = list(new._lookup_tables)
            if len(lts) != len(case["tabs"]):
                why.append(f"resampled extra coords hold {len(lts)} coordinates, the source {len(case['tabs'])}")
            else:
                for axes, coord in lts:
                    k = int(str(coord.names[0])[1:])
                    tb = case["tabs"][k]
                    kind = "q" if tb["kind"] in ("q", "q2") else "time"
                    got = _tables_of(coord, kind)
                    src = [tb["table"]] if tb["kind"] != "q2" else tb["table"]
                    axs = [tb["axis"]] if tb["kind"] != "q2" else tb["axis"]
                    exp = [np.interp(grids[a], np.arange(len(t)), np.array([float(_fr(v)) for v in t])) for t, a in zip(src, axs)]
                    tol = TIME_TOL if kind == "time" else 1e-9
                    if len(got) != len(exp) or any(not _close(a, b, tol) for a, b in zip(got, exp)):
                        why.append(f"resampled table {[np.asarray(a).tolist() for a in got]}, the table sampled at offset + k*factor = {[g.tolist() for g in grids]} is {[np.asarray(b).tolist() for b in exp]}")
                        break
                    got_all[k] = [[_canon(v, TIME_TOL if kind == "time" else 1e-6) for v in np.atleast_1d(a)] for a in got]
            out = {"tables": got_all, "f": [Fr(x) for x in f], "o": [Fr(x) for x in o]}
    except Exception as e:  # noqa
        why.append(f"{probe} raised {exc_name(e)}: {str(e)[:120]}")
        out = {"crashed": True}
    if not (finding and len(why) == 1):
        finding = None
    return {"out": _ser(out), "oracle": {"ok": not why, "why": "; ".join(why[:3]), "finding": finding}}


def _cq(x):
    return f"(({x[0]}) # {x[1]})%Q"


def _qs(vs):
    return Q.lst([_cq(v) for v in vs])


def _coq_coord(c):
    if c["kind"] == "q":
        return f"(TQuantity {Q.lst([_qs(t) for t in c['tables']])})"
    if c["kind"] == "time":
        return f"(TTime {_qs(c['tables'][0])})"
    return f"(TSky {Q.b(c['mesh'])} {_qs(c['tables'][0])} {_qs(c['tables'][1])})"


TRIV = "PSlice [] (IInt (0)%Z) SErr"


def coq_case(case, res):
    o = res["out"]
    probe = case["probe"]
    oq = lambda v: "None" if v is None else f"(Some {_cq(v)})"  # noqa
    if o.get("crashed") or probe in ("meta", "sky2d", "joinslice", "units"):
        return TRIV
    if probe == "chain":
        c = case["coords"][0]
        if "t1" not in o:
            return TRIV
        c1 = dict(c, tables=o["t1"])
        if o["then"] == "p2w" and "vals" in o:
            return f"PP2W {Q.lst([_coq_coord(c1)])} {_qs(case['pix'])} {Q.lst([oq(v) for v in o['vals']])}"
        if o["then"] == "interp" and "tables" in o:
            return f"PInterp {Q.lst([_coq_coord(c1)])} {Q.lst([_qs(g) for g in case['grids']])} {Q.lst([Q.lst([_qs(t) for t in o['tables']])])}"
        if o["then"] == "slice" and o.get("res") is not None:
            items = case["items"]
            per_tab = items if not (c["kind"] == "sky" and not c["mesh"]) else [items[0], items[0]]
            k = len(repr(case["key"])) % len(c1["tables"])
            if len(o["res"]) != len(c1["tables"]):
                return TRIV
            r = o["res"][k]
            impl = f"(STable {_qs(r[1])})" if r[0] == "t" else f"(SScalar {_cq(r[1])})"
            return f"PSlice {_qs(c1['tables'][k])} {Q.coq_item(per_tab[k])} {impl}"
        return TRIV
    oq = lambda v: "None" if v is None else f"(Some {_cq(v)})"  # noqa
    if probe == "p2w":
        return f"PP2W {Q.lst([_coq_coord(c) for c in case['coords']])} {_qs(case['pix'])} {Q.lst([oq(v) for v in o['vals']])}"
    if probe == "w2p":
        return f"PW2P {_coq_coord(case['coords'][0])} {_qs(case['w'])} {Q.lst([oq(v) for v in o['vals']])}"
    if probe == "slice":
        c = case["coords"][0]
        items = case["items"]
        per_tab = items if not (c["kind"] == "sky" and not c["mesh"]) else [items[0], items[0]]
        per_tab = per_tab + [["s", None, None, None]] * (len(c["tables"]) - len(per_tab))
        k = len(repr(case["key"])) % len(c["tables"])          # the table whose slicing is compared with the model
        if o["exc"] is not None or o["res"] is None:
            if o["bad"] is None:
                return TRIV                                   # reported by the oracle; nothing to compare
            # numpy refused: find the table that refuses (the model works per table)
            for kk, (t, it) in enumerate(zip(c["tables"], per_tab)):
                try:
                    np.zeros(len(t))[Q.dec_item(it)]
                except Exception:  # noqa
                    return f"PSlice {_qs(t)} {Q.coq_item(it)} SErr"
            return TRIV
        if len(o["res"]) != len(c["tables"]):
            return TRIV                                       # reported by the oracle
        r = o["res"][k]
        impl = f"(STable {_qs(r[1])})" if r[0] == "t" else f"(SScalar {_cq(r[1])})"
        return f"PSlice {_qs(c['tables'][k])} {Q.coq_item(per_tab[k])} {impl}"
    if probe == "interp":
        grids = Q.lst([_qs(g) for g in case["grids"]])
        impl = Q.lst([Q.lst([_qs(t) for t in g]) for g in o["tables"]])
        return f"PInterp {Q.lst([_coq_coord(c) for c in case['coords']])} {grids} {impl}"
    if probe == "resample":
        if not o.get("tables") or len(o["tables"]) != len(case["tabs"]) or any(t is None for t in o["tables"]):
            return TRIV
        k = len(repr(case["key"])) % len(case["tabs"])
        tb = case["tabs"][k]
        if tb["kind"] == "q2":
            j = len(repr(case["key"])) % 2
            t, ax, got = tb["table"][j], tb["axis"][j], o["tables"][k][j]
        else:
            t, ax, got = tb["table"], tb["axis"], o["tables"][k][0]
        return f"PResample {_qs(t)} {_cq(o['o'][ax])} {Q.z(case['shape'][ax])}%Z {_cq(o['f'][ax])} {_qs(got)}".replace(f"{Q.z(case['shape'][ax])}%Z", f"(({case['shape'][ax]}) # 1)%Q")
    return TRIV
