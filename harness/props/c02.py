"""C02 — slicing keeps extra coordinates on the right elements, in the same order."""
import json
import os
import subprocess
import sys
from fractions import Fraction as Fr
import numpy as np
from harness import coqio as Q
from harness.impl import poke, lin_wcs, exc_name

CORR = "C02_corr"
IMPORTS = ["M_Slicing", "Shape", "M_ExtraCoords"]
MODEL_FILES = ["Model/M_ExtraCoords.v", "Model/M_Slicing.v", "Base/Shape.v"]
DEPS = ["pyindex"]
RULE = ("cases = (cube of 1-4 dims, 0-4 lookup-table extra coords: Quantity / Time / 1-D SkyCoord on one axis, "
        "two-table Quantity on two axes, meshed SkyCoord over two equally long axes, any axis assignment incl. shared axes, chain of 1-3 slices with ints, "
        "open / negative / over-long slices, Ellipsis); a sample is re-run in fresh interpreter processes with "
        "different hash seeds and heap layouts (order stability); distinct by key; non-trivial = some slice is not "
        "the identity")
ASSUMPTIONS = ["Quantity / Time / SkyCoord slicing themselves are dependencies (numpy selection, np_axis_sel)",
               "meshed SkyCoord tables only with slices on their two axes (an integer on one of them: known finding of C19), 2-D SkyCoord tables are not generated; WCS-backed ExtraCoords (the cube's dimensionality, any permutation as mapping, integer and range slices in chains) by the direct oracle",
               "address-dependent ordering is observed by repetition in fresh processes (a runtime fact no model can exhibit)"]
EPOCH = "2020-01-01T00:00:00"


def _axis_item(rng, n):
    r = rng.random()
    if r < 0.3:
        return rng.choice([0, n - 1, -1, -n, n // 2])
    if r < 0.45:
        return ["s", None, None, None]
    a = rng.choice([None, 0, 1, -1, -n, n - 1, -n - 1])
    b = rng.choice([None, n, -1, 1, n + 2, 0, 2])
    return ["s", a, b, None]


def gen(tier, rng):
    cases = []
    n = 2500 if tier == "quick" else 40000
    for _ in range(n):
        nd = rng.choice([1, 2, 2, 3, 3, 4])
        shape = [rng.choice([2, 3, 4, 5]) for _ in range(nd)]
        tabs = []
        for t in range(rng.choice([0, 1, 1, 2, 2, 3, 4])):
            kinds = ["q", "q", "sky1"] + (["time"] if not any(x[0] == "time" for x in tabs) else [])
            if nd >= 2:
                kinds.append("mq")
            k = rng.choice(kinds)
            if k == "mq":
                axes = rng.sample(range(nd), 2)           # in either order: table j lies along axes[j]
            else:
                axes = [rng.randrange(nd)]
            tabs.append([k, axes, rng.randrange(10 ** 6)])
        chain, cur = [], list(shape)
        for _d in range(rng.choice([1, 1, 2, 3])):
            its = [_axis_item(rng, s) for s in cur]
            if all(isinstance(i, int) for i in its):
                its[rng.randrange(len(its))] = ["s", None, None, None]
            r = rng.random()
            if r < 0.15 and len(its) > 1:
                p = rng.randrange(len(its))
                q = rng.randrange(p, len(its) + 1)
                its = its[:p] + ["E"] + its[q:]
            elif r < 0.3:
                its = its[:rng.randrange(1, len(its) + 1)]
            # shape after (numpy semantics), to keep generating valid items
            full = [i for i in its]
            if "E" in full:
                p = full.index("E")
                full = full[:p] + [["s", None, None, None]] * (len(cur) - len(full) + 1) + full[p + 1:]
            full += [["s", None, None, None]] * (len(cur) - len(full))
            new = []
            ok = True
            for s, it in zip(cur, full):
                if isinstance(it, int):
                    if not -s <= it < s:
                        ok = False
                else:
                    new.append(len(range(s)[slice(it[1], it[2])]))
            if not ok or not new or 0 in new:
                break              # invalid or empty result: not generated
            chain.append(its)
            cur = new
        if not chain:
            continue
        key = f"{shape}|{tabs}|{chain}"
        cases.append({"key": key, "stratum": f"{len(tabs)}tables-depth{len(chain)}", "shape": shape, "tabs": tabs,
                      "chain": chain, "probe": False, "nontrivial": True,
                      "show": {"shape": shape, "extra_coords": tabs, "slices": chain}})
    # meshed SkyCoord over two (equally long) axes, chains of 1-3 slices that never put an integer on those two axes
    # (an integer on one of them leaves a coordinate without WCS: known finding of C19)
    for _ in range(250 if tier == "quick" else 4000):
        nd = rng.choice([2, 3])
        L = rng.choice([3, 4, 5, 6])
        shape = [rng.choice([2, 3, 4]) for _ in range(nd)]
        a0, a1 = sorted(rng.sample(range(nd), 2))
        shape[a0] = shape[a1] = L
        tabs = [["skymesh", [a0, a1], rng.randrange(10 ** 6)]]
        if rng.random() < 0.5:
            tabs.append(["q", [rng.randrange(nd)], rng.randrange(10 ** 6)])
        chain, cur, axes_now = [], list(shape), list(range(nd))
        for _d in range(rng.choice([1, 2, 2, 3])):
            its = []
            for orig, sz in zip(axes_now, cur):
                it = _axis_item(rng, sz)
                if orig in (a0, a1) and isinstance(it, int):
                    it = ["s", rng.choice([None, 0, 1, -2]), rng.choice([None, sz, -1, sz - 1]), None]
                its.append(it)
            if all(isinstance(i, int) for i in its):
                continue
            new, new_axes, ok = [], [], True
            for orig, sz, it in zip(axes_now, cur, its):
                if isinstance(it, int):
                    ok = ok and -sz <= it < sz
                else:
                    new.append(len(range(sz)[slice(it[1], it[2])]))
                    new_axes.append(orig)
            if not ok or not new or 0 in new:
                break
            chain.append(its)
            cur, axes_now = new, new_axes
        if chain:
            key = f"{shape}|{tabs}|{chain}"
            cases.append({"key": key, "stratum": f"skymesh-depth{len(chain)}", "shape": shape, "tabs": tabs, "chain": chain,
                          "probe": False, "nontrivial": True, "show": {"shape": shape, "extra_coords": tabs, "slices": chain}})
    # WCS-backed ExtraCoords: a second FITS WCS of the cube's dimensionality mapped onto the cube's pixel axes in any order; chains of slices with integers (never on all of its dimensions at once), negative and open bounds
    for _ in range(300 if tier == "quick" else 5000):
        nd = rng.choice([1, 2, 3, 3])
        shape = [rng.choice([3, 4, 5]) for _ in range(nd)]
        # (the library only accepts mapping values below the number of pixel dimensions of the extra WCS: it has the
        #  cube's dimensionality and the mapping is a permutation)
        mapping = list(range(nd))                        # cube pixel axis of each pixel dimension of the extra WCS
        if rng.random() < 0.6:
            rng.shuffle(mapping)
        chain, cur, axes_now = [], list(shape), list(range(nd))
        for _d in range(rng.choice([1, 1, 2])):
            its = []
            for sz in cur:
                if rng.random() < 0.25:
                    its.append(rng.choice([0, sz - 1, -1, -sz]))
                else:
                    a = rng.choice([None, 0, 1, -1, -sz, -sz - 2, sz - 1])
                    b = rng.choice([None, sz, -1, sz + 2, 2])
                    its.append(["s", a, b, None])
            # keep at least one dimension of the extra WCS and one cube axis
            ec_axes = [nd - 1 - m for m in mapping]
            alive_ec = [orig for orig, it in zip(axes_now, its) if orig in ec_axes and not isinstance(it, int)]
            if not alive_ec or all(isinstance(i, int) for i in its):
                continue
            new, new_axes = [], []
            for orig, sz, it in zip(axes_now, cur, its):
                if not isinstance(it, int):
                    new.append(len(range(sz)[slice(it[1], it[2])]))
                    new_axes.append(orig)
            if 0 in new:
                break
            chain.append(its)
            cur, axes_now = new, new_axes
        if chain:
            cases.append({"key": f"wcsec|{shape}|{mapping}|{chain}", "stratum": "wcs-backed", "shape": shape, "tabs": [], "chain": chain,
                          "probe": False, "wcsec": True, "ecmap": mapping, "nontrivial": True,
                          "show": {"shape": shape, "extra_coords": "WCS-backed", "mapping(cube pixel axis per extra pixel dimension)": mapping, "slices": chain}})
    # order-stability probes: fresh interpreters
    nprobe = 24 if tier == "quick" else 200
    multi = [c for c in cases if len(c["tabs"]) >= 3][:nprobe]
    for c in multi:
        p = dict(c)
        p["key"] = c["key"] + "|probe"
        p["probe"] = True
        p["stratum"] = "fresh-process-order"
        cases.append(p)
    return cases


def _vals(kind, n, seed):
    rs = np.random.RandomState(seed)
    return (np.cumsum(rs.randint(1, 5, size=n)) * rs.choice([1.0, 0.5, -2.0])).astype(float)


def build(case):
    import astropy.units as u
    from astropy.time import Time
    from astropy.coordinates import SkyCoord
    from ndcube import NDCube
    shape = tuple(case["shape"])
    cube = NDCube(np.arange(int(np.prod(shape))).reshape(shape), wcs=lin_wcs(len(shape)))
    nd_ = len(shape)

    class _EC:
        """extra_coords.add with the array dimension(s) spelled, by turns, as given, counted from the last axis, as
        numpy integers or as a list; a spelling the library refuses outright falls back to the plain one"""
        @staticmethod
        def add(names, dims, table, seed=0, **kw):
            plain = dims
            k = seed % 6
            if isinstance(dims, tuple):
                spelled = {0: tuple(d - nd_ for d in dims), 1: list(dims), 2: tuple(np.int64(d) for d in dims)}.get(k, dims)
            else:
                spelled = {0: dims - nd_, 2: np.int64(dims)}.get(k, dims)
            try:
                return cube.extra_coords.add(names, spelled, table, **kw)
            except (ValueError, TypeError, IndexError):
                if spelled is plain:
                    raise
                return cube.extra_coords.add(names, plain, table, **kw)
    for i, (kind, axes, seed) in enumerate(case["tabs"]):
        if kind == "q":
            _EC.add(f"n{i}0", axes[0], _vals(kind, shape[axes[0]], seed) * u.m, seed=seed, physical_types=f"custom:n{i}0")
        elif kind == "time":
            _EC.add(f"n{i}0", axes[0], Time(EPOCH) + np.abs(_vals(kind, shape[axes[0]], seed)) * 64 * u.s, seed=seed,
                                  physical_types=(f"custom:n{i}0" if seed % 2 else None))
        elif kind == "skymesh":
            v = _vals(kind, shape[axes[0]], seed)
            _EC.add((f"n{i}0", f"n{i}1"), tuple(axes), SkyCoord(np.abs(v) / 8 * u.deg, v / 16 * u.deg), seed=seed, mesh=True,
                                  physical_types=(f"custom:n{i}0", f"custom:n{i}1"))
        elif kind == "sky1":
            v = _vals(kind, shape[axes[0]], seed)
            _EC.add((f"n{i}0", f"n{i}1"), axes[0], SkyCoord(np.abs(v) / 8 * u.deg, v / 16 * u.deg), seed=seed,
                                  physical_types=((f"custom:n{i}0", f"custom:n{i}1") if seed % 2 else None))
        else:
            _EC.add((f"n{i}0", f"n{i}1"), tuple(axes),
                                  (_vals(kind, shape[axes[0]], seed) * u.m, _vals(kind, shape[axes[1]], seed + 1) * u.m), seed=seed,
                                  physical_types=(f"custom:n{i}0", f"custom:n{i}1"))
    return cube


def _names(ec):
    k = ec.keys()
    return [] if not k else [int(x[1:]) for x in k]


def _world_on_cube(cube):
    """{name id: array over the whole cube grid} evaluating extra_coords.wcs at every element through the mapping"""
    ec = cube.extra_coords
    if ec.wcs is None:
        return {}
    nd = cube.data.ndim
    grid = np.indices(cube.data.shape)
    mp = [int(m) for m in ec.mapping]
    ll = ec.wcs.low_level_wcs
    if len(mp) != ll.pixel_n_dim:
        raise ValueError(f"mapping {mp} has {len(mp)} entries for {ll.pixel_n_dim} pixel dimensions")
    w = ll.pixel_to_world_values(*[grid[nd - 1 - m] for m in mp])
    w = [w] if ll.world_n_dim == 1 else list(w)
    names = _names(ec)
    return {nm: np.broadcast_to(np.asarray(x, dtype=float), cube.data.shape) for nm, x in zip(names, w)}


def _observe(cube):
    ec = cube.extra_coords
    names = _names(ec)
    mapping = [int(m) for m in ec.mapping]
    world = _world_on_cube(cube)
    tabs = []
    for axes, coord in ec._lookup_tables:
        axes = [int(axes)] if np.isscalar(axes) else [int(a) for a in axes]
        tn = [int(x[1:]) for x in coord.names]
        tid = tn[0] // 10
        vals = []
        for j, nm in enumerate(tn):
            arr = world[nm]
            dep = axes if len(tn) != len(axes) or len(axes) == 1 else [axes[j]]    # multi-Quantity: own axis only
            idx = tuple(slice(None) if a in dep else 0 for a in range(arr.ndim))
            vals.append([Fr(float(x)) for x in np.asarray(arr[idx]).ravel()])
        tabs.append({"id": tid, "axes": axes, "names": tn, "vals": vals})
    return {"t": "ok", "tabs": tabs, "mapping": mapping, "names": names, "ndropped": len(ec._dropped_tables)}


def _child(case):
    cube = build(case)
    cur = cube
    for its in case["chain"]:
        poke(cur, case["key"])                 # (asked about itself before it is sliced)
        cur = cur[Q.np_ints(case["key"], Q.dec_items(its))]     # (integers as numpy integers in every fourth case)
    return cube, cur


def _run_wcsec(case):
    """WCS-backed extra coords: every surviving element keeps the extra world coordinates of its source element"""
    from astropy.wcs import WCS
    from ndcube import NDCube, ExtraCoords
    shape = tuple(case["shape"])
    nd = len(shape)
    cube = NDCube(np.arange(int(np.prod(shape))).reshape(shape), wcs=lin_wcs(nd))
    mapping = list(case.get("ecmap") or range(nd))
    ne = len(mapping)
    w = WCS(naxis=ne)
    w.wcs.ctype = ["ENER", "VELO", "WAVN"][:ne]
    w.wcs.cunit = ["J", "m/s", "1/m"][:ne]
    w.wcs.cdelt = [10.0, 100.0, 1000.0][:ne]
    w.wcs.crpix = [1] * ne
    w.wcs.crval = [5.0, 50.0, 500.0][:ne]
    w.wcs.cname = ["en", "ve", "wn"][:ne]
    w.wcs.set()
    ec = ExtraCoords(ndcube=cube)
    ec.wcs = w
    ec.mapping = tuple(mapping)
    cube._extra_coords = ec
    why = []
    try:
        cur = cube
        for its in case["chain"]:
            cur = cur[Q.dec_items(its)]
        src = np.arange(int(np.prod(shape))).reshape(shape)
        for its in case["chain"]:
            src = src[Q.dec_items(its)]
        def world(c):
            ll = c.extra_coords.wcs.low_level_wcs
            g = np.indices(c.data.shape)
            mp = [int(m) for m in c.extra_coords.mapping]
            # (a 1-D FITS WCS only takes 1-D pixel arrays: evaluate on the flattened grid)
            r = ll.pixel_to_world_values(*[g[c.data.ndim - 1 - m].ravel() for m in mp])
            r = [r] if ll.world_n_dim == 1 else list(r)
            return [np.asarray(x).reshape(c.data.shape) for x in r]
        pw, cw = world(cube), world(cur)
        idx = np.unravel_index(src.ravel(), shape)
        # the world axis of extra pixel dimension j survives unless the cube axis it is mapped to was integer-indexed
        alive = list(range(nd))
        for its in case["chain"]:
            full = list(Q.dec_items(its)) + [slice(None)] * (len(alive) - len(its))
            alive = [a for a, it in zip(alive, full) if not isinstance(it, int)]
        keep = [j for j, m in enumerate(mapping) if (nd - 1 - m) in alive]
        ptypes = list(cube.extra_coords.wcs.world_axis_physical_types)
        if list(cur.extra_coords.wcs.world_axis_physical_types) != [ptypes[j] for j in keep]:
            why.append(f"physical types of the WCS-backed extra coords after slicing: {list(cur.extra_coords.wcs.world_axis_physical_types)}, "
                       f"expected the surviving {[ptypes[j] for j in keep]} in that order")
        names = ["en", "ve", "wn"]
        try:
            got_names = list(cur.extra_coords.keys())
        except Exception as e:  # noqa
            got_names = f"keys() raised {exc_name(e)}"
        if got_names != [names[j] for j in keep]:
            why.append(f"names of the WCS-backed extra coords after slicing: {got_names}, expected the surviving {[names[j] for j in keep]} in that order")
        pw = [pw[j] for j in keep]
        for k, (a, b) in enumerate(zip(cw, pw)):
            exp = b[idx].reshape(src.shape)
            if not np.allclose(a, exp, rtol=1e-9, atol=1e-9):
                bad = np.argwhere(~np.isclose(a, exp, rtol=1e-9, atol=1e-9))[0]
                why.append(f"WCS-backed extra coordinate {k}: element {tuple(int(x) for x in bad)} reports {float(a[tuple(bad)])!r}, "
                           f"its source element had {float(exp[tuple(bad)])!r}")
                break
    except Exception as e:  # noqa
        why.append(f"slicing a cube with WCS-backed extra coords raised {exc_name(e)}: {str(e)[:100]}")
    return {"out": {"t": "probe"}, "oracle": {"ok": not why, "why": "; ".join(why), "finding": None}}


def run(case):
    if case.get("wcsec"):
        return _run_wcsec(case)
    if case["probe"]:
        return _run_probe(case)
    why = []
    try:
        cube, cur = _child(case)
    except Exception as e:  # noqa
        # is the chain valid at all?
        try:
            a = np.zeros(tuple(case["shape"]))
            for its in case["chain"]:
                a = a[Q.dec_items(its)]
                if a.ndim == 0:
                    raise IndexError("0-d")
            valid = True
        except Exception:  # noqa
            valid = False
        if valid:
            why.append(f"slicing raised {exc_name(e)} on a valid index")
        return {"out": {"t": "err", "e": exc_name(e)}, "oracle": {"ok": not why, "why": "; ".join(why), "finding": None}}
    try:
        out = _observe(cur)
    except Exception as e:  # noqa
        return {"out": {"t": "err", "e": exc_name(e)},
                "oracle": {"ok": False, "why": f"extra coords of the sliced cube cannot be evaluated: {exc_name(e)}: {str(e)[:150]}", "finding": None}}
    # ---- direct oracle: world value at every surviving element == parent's at the source element
    src = np.arange(int(np.prod(cube.data.shape))).reshape(cube.data.shape)
    for its in case["chain"]:
        src = src[Q.dec_items(its)]
    pw, cw = _world_on_cube(cube), _world_on_cube(cur)
    pnames, cnames = _names(cube.extra_coords), out["names"]
    if [n for n in pnames if n in cnames] != cnames:
        why.append(f"names / relative order changed: parent {pnames} -> {cnames}")
    ptypes = dict(zip(pnames, cube.extra_coords.wcs.world_axis_physical_types)) if pnames else {}
    ctypes = list(cur.extra_coords.wcs.world_axis_physical_types) if cnames else []
    if [ptypes[n] for n in cnames if n in ptypes] != ctypes:
        why.append("physical types changed")
    idx = np.unravel_index(src.ravel(), cube.data.shape) if src.size else None
    # which parent coordinates must still be attached: those with a surviving axis
    surv_axes = _surviving_axes(case)
    for i, (kind, axes, seed) in enumerate(case["tabs"]):
        comps = [(10 * i, axes), (10 * i + 1, axes)] if kind == "sky1" else \
                ([(10 * i, [axes[0]]), (10 * i + 1, [axes[1]])] if kind == "mq" else [(10 * i, axes)])
        for nm, dep in comps:
            alive = any(a in surv_axes for a in dep)
            if alive and nm not in cnames:
                why.append(f"coordinate n{nm} lost although axis {dep} survives")
            if not alive and nm in cnames and kind != "sky1":
                why.append(f"coordinate n{nm} still axis-attached although its axes were indexed away")
    if not why and src.size:
        for nm in cnames:
            exp = pw[nm][idx].reshape(src.shape)
            if not np.allclose(cw[nm], exp, rtol=1e-9, atol=1e-9, equal_nan=True):
                bad = np.argwhere(~np.isclose(cw[nm], exp, rtol=1e-9, atol=1e-9, equal_nan=True))[0]
                why.append(f"coordinate n{nm}: element {tuple(int(x) for x in bad)} reports {float(cw[nm][tuple(bad)])!r}, "
                           f"its source element had {float(exp[tuple(bad)])!r}")
                break
        # mapping must place every table on the renumbered axis
        nd = cur.data.ndim
        exp_map = []
        for axes, coord in cur.extra_coords._lookup_tables:
            axes = [int(axes)] if np.isscalar(axes) else [int(a) for a in axes]
            exp_map += [nd - 1 - a for a in axes]
        if out["mapping"] != exp_map:
            why.append(f"mapping {out['mapping']} inconsistent with the tables' axes {exp_map}")
    return {"out": _ser(out), "oracle": {"ok": not why, "why": "; ".join(why), "finding": None}}


def _surviving_axes(case):
    """original array axes that survive the whole chain"""
    alive = list(range(len(case["shape"])))
    shape = list(case["shape"])
    for its in case["chain"]:
        full = list(its)
        if "E" in full:
            p = full.index("E")
            full = full[:p] + [["s", None, None, None]] * (len(alive) - len(full) + 1) + full[p + 1:]
        full += [["s", None, None, None]] * (len(alive) - len(full))
        alive = [a for a, it in zip(alive, full) if not isinstance(it, int)]
    return alive


def _run_probe(case):
    """the ordered keys of the sliced cube's extra coords and combined wcs in fresh interpreters"""
    code = ("import sys, json, gc; sys.path[:0]=['/repo','/verif']; import warnings; warnings.simplefilter('ignore');\n"
            "junk=[bytearray(int(sys.argv[2])*k) for k in range(1,40)]\n"
            "from harness.props import c02\ncase=json.loads(sys.argv[1])\ncube,cur=c02._child(case)\n"
            "print(json.dumps([c02._names(cur.extra_coords), list(cur.combined_wcs.low_level_wcs.world_axis_physical_types)]))")
    seen = []
    for k, (hs, junk) in enumerate([("0", 1), ("1", 777), ("12345", 4096), ("random", 33), ("7", 100000)]):
        env = dict(os.environ, PYTHONHASHSEED=hs)
        p = subprocess.run([sys.executable, "-W", "ignore", "-c", code, json.dumps(case), str(junk)],
                           capture_output=True, text=True, env=env, timeout=120)
        if p.returncode != 0:
            return {"out": {"t": "probe"}, "oracle": {"ok": True, "why": "probe not applicable: " + p.stderr[-200:]}}
        seen.append(json.loads(p.stdout.strip().splitlines()[-1]))
    why = []
    if any(s != seen[0] for s in seen):
        why.append(f"order of extra coordinates differs between fresh interpreters: {[s[0] for s in seen]}")
    cube = build(case)
    pn = _names(cube.extra_coords)
    if [n for n in pn if n in seen[0][0]] != seen[0][0]:
        why.append(f"relative order changed: parent {pn} -> {seen[0][0]}")
    return {"out": {"t": "probe"}, "oracle": {"ok": not why, "why": "; ".join(why), "finding": None}}


def _ser(x):
    if isinstance(x, Fr):
        return [x.numerator, x.denominator]
    if isinstance(x, dict):
        return {k: _ser(v) for k, v in x.items()}
    if isinstance(x, (list, tuple)):
        return [_ser(v) for v in x]
    return x


def _cq(x):
    return f"(({x[0]}) # {x[1]})%Q"


def _model_table(i, kind, axes, seed, shape):
    lens = [shape[a] for a in axes]
    if kind == "q":
        vals = [_vals(kind, lens[0], seed)]
        names = [10 * i]
        k = "KJoint"
    elif kind == "time":
        vals = [np.abs(_vals(kind, lens[0], seed)) * 64]
        # the wcs reports seconds from the reference time = first table entry
        vals = [vals[0] - vals[0][0]]
        names = [10 * i]
        k = "KJoint"
    elif kind == "skymesh":
        v = _vals(kind, lens[0], seed)
        vals = [np.abs(v) / 8, v / 16]
        names = [10 * i, 10 * i + 1]
        k = "KSep"                      # lon on the first axis, lat on the second: behaves like two separate tables
    elif kind == "sky1":
        v = _vals(kind, lens[0], seed)
        vals = [np.abs(v) / 8, v / 16]
        names = [10 * i, 10 * i + 1]
        k = "KJoint"
    else:
        vals = [_vals(kind, lens[0], seed), _vals(kind, lens[1], seed + 1)]
        names = [10 * i, 10 * i + 1]
        k = "KSep"
    vs = Q.lst([Q.lst([_cq([Fr(float(x)).numerator, Fr(float(x)).denominator]) for x in v]) for v in vals])
    return f"(mkT {Q.z(i)} {k} {Q.lst(axes, Q.z)} {Q.lst(lens, Q.z)} {Q.lst(names, Q.z)} {vs})"


def coq_case(case, res):
    o = res["out"]
    if case["probe"] or case.get("wcsec") or o["t"] == "probe":
        return "mk (0)%Z (mkEc [] []) [] (OOk [] [] [] (0)%Z)"
    # tables in the order ExtraCoords.add keeps them: stable sort by first axis
    order = sorted(range(len(case["tabs"])), key=lambda i: case["tabs"][i][1][0])
    tabs = Q.lst([_model_table(i, *case["tabs"][i], case["shape"]) for i in order])
    chain, nd = [], len(case["shape"])
    for its in case["chain"]:
        full = list(its)
        if "E" in full:
            p = full.index("E")
            full = full[:p] + [["s", None, None, None]] * (nd - len(full) + 1) + full[p + 1:]
        full += [["s", None, None, None]] * (nd - len(full))
        nd = nd - sum(isinstance(i, int) for i in full)
        chain.append(Q.tup(Q.lst(full, Q.coq_item), Q.z(nd)))
    if o["t"] == "err":
        impl = f"(OErr {Q.err(o['e'])})"
    else:
        ot = Q.lst([f"(mkO {Q.z(t['id'])} {Q.lst(t['axes'], Q.z)} {Q.lst(t['names'], Q.z)} "
                    f"{Q.lst([Q.lst([_cq(x) for x in v]) for v in t['vals']])})" for t in o["tabs"]])
        impl = f"(OOk {ot} {Q.lst(o['mapping'], Q.z)} {Q.lst(o['names'], Q.z)} {Q.z(o['ndropped'])})"
    return f"mk {Q.z(len(case['shape']))} (mkEc {tabs} []) {Q.lst(chain)} {impl}"
