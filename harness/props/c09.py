"""C09 — rebin keeps the coordinate frame registered to the data."""
from fractions import Fraction as Fr
import numpy as np
from harness import coqio as Q
from harness.impl import poke, lin_wcs, family_wcs, exc_name

CORR = "C09_corr"
IMPORTS = ["M_Wrappers", "M_Resample"]
COQ_PREAMBLE = "Open Scope Q_scope.\n"
MODEL_FILES = ["Model/M_Resample.v", "Model/M_Wrappers.v"]
RULE = ("cases = (WCS family lin|tan|tan_split|rot, shape of 1-4 dims with several divisors, divisor bin shape, source = "
        "plain | sliced | already rebinned cube, 0-3 lookup-table extra coords (Quantity / Time / SkyCoord) on binned "
        "and unbinned axes, or one coordinate spanning several axes in any axis order: 2-D SkyCoord table, two-table Quantity "
        "coordinate, WCS-backed ExtraCoords with any mapping); sampled with the run's seed; distinct by key; non-trivial = some bin factor > 1")
ASSUMPTIONS = ["linear probe WCS is decoded exactly (world = crval + cdelt*pixel); other families are compared by the direct "
               "oracle against the source WCS evaluated at j*f+(f-1)/2", "tables are compared with np.interp of the source table "
               "(Time tables to 1e-5 s: astropy interpolates Time through floating-point days)"]
SIZES = [2, 3, 4, 6, 8]


def _divs(n):
    return [d for d in range(1, n + 1) if n % d == 0]


def gen(tier, rng):
    cases = []
    n = 900 if tier == "quick" else 15000
    for _ in range(n):
        nd = rng.choice([1, 2, 2, 3, 3, 4])
        fam = "lin" if rng.random() < 0.6 or nd == 1 else rng.choice(["tan", "rot"] + (["tan_split"] if nd >= 3 else []))
        shape = [rng.choice(SIZES if nd < 4 else [2, 3, 4]) for _ in range(nd)]
        pre = rng.choice(["plain", "plain", "sliced", "rebinned"])
        pre_arg = None
        cur = list(shape)
        if pre == "sliced":
            pre_arg = []
            for s in shape:
                a = rng.randrange(0, max(1, s // 2))
                pre_arg.append(["s", a, None, None])
            cur = [s - it[1] for s, it in zip(shape, pre_arg)]
        elif pre == "rebinned":
            pre_arg = [rng.choice(_divs(s)) for s in shape]
            cur = [s // b for s, b in zip(shape, pre_arg)]
        bins = [rng.choice(_divs(s)) for s in cur]
        if all(b == 1 for b in bins) and rng.random() < 0.8:
            i = rng.randrange(nd)
            bins[i] = max(_divs(cur[i]))
        tabs = []
        for _t in range(rng.choice([0, 1, 1, 2, 3])):
            kinds = ["q", "q"] + [k for k in ("time", "sky") if k not in [t[0] for t in tabs]]   # one Time / SkyCoord at most
            tabs.append([rng.choice(kinds), rng.randrange(nd), rng.randrange(10 ** 6)])
        ec2 = None
        if nd >= 2 and rng.random() < 0.25:
            # extra coords coupled to / spanning several cube axes, attached in any axis order
            tabs = []
            k = rng.choice(["sky2", "q2", "wcsec", "skymesh"])
            if k == "wcsec":
                ne = rng.randint(1, nd)
                new = rng.choice([1, 2, 3])
                emat = [[int(rng.random() < 0.6) for _ in range(ne)] for _ in range(new)]
                for r_ in emat:
                    if not any(r_):
                        r_[rng.randrange(ne)] = 1
                ec2 = {"k": k, "mapping": rng.sample(range(ne), ne), "mat": emat}
            else:
                ec2 = {"k": k, "axes": rng.sample(range(nd), 2), "seed": rng.randrange(10 ** 6)}
                if k == "skymesh":
                    # a meshed SkyCoord (two 1-D components of ONE length) on two cube axes; both axes are treated alike
                    # (same length, same earlier slice / rebin, same bin), so that the two new grids have one shape
                    a_, b_ = ec2["axes"]
                    shape[b_] = shape[a_]
                    bins[b_] = bins[a_]
                    if pre_arg is not None:
                        pre_arg[b_] = pre_arg[a_] if pre == "rebinned" else list(pre_arg[a_])
        key = f"{fam}|{shape}|{pre}|{pre_arg}|{bins}|{tabs}|{ec2}"
        cases.append({"key": key, "stratum": f"{fam}-{pre}" if not ec2 else f"ec-{ec2['k']}", "fam": fam, "shape": shape, "pre": pre, "pre_arg": pre_arg,
                      "bins": bins, "tabs": tabs, "ec2": ec2, "nontrivial": any(b > 1 for b in bins),
                      "show": {"wcs": fam, "shape": shape, "source": [pre, pre_arg], "bin_shape": bins, "extra_coords": tabs,
                               "coupled_extra_coords": ec2}})
    return cases


def _table(kind, n, seed):
    import astropy.units as u
    from astropy.time import Time
    from astropy.coordinates import SkyCoord
    rs = np.random.RandomState(seed)
    vals = np.cumsum(rs.randint(1, 5, size=n)).astype(float) * rs.choice([1.0, 0.5, -2.0])
    if kind == "q":
        return vals * u.m
    if kind == "time":
        # instants in the UTC, TAI or TT scale: they are compared as instants (difference to one UTC epoch)
        return Time("2020-01-01T00:00:00", scale=["utc", "tai", "tt"][seed % 3]) + np.abs(vals) * 64 * u.s
    # components stored in degrees, hour angles, radians or arcminutes: the result must not depend on it
    lon_u, lat_u = [(u.deg, u.deg), (u.hourangle, u.deg), (u.rad, u.rad), (u.arcmin, u.arcmin)][seed % 4]
    lon = (np.abs(vals) / 8 * u.deg).to(lon_u)
    lat = ((vals / 16) * u.deg).to(lat_u)
    return SkyCoord(lon, lat)


def _add_coupled(cube, ec2):
    import astropy.units as u
    from astropy.coordinates import SkyCoord
    from ndcube.extra_coords.table_coord import SkyCoordTableCoordinate, QuantityTableCoordinate
    shape = cube.data.shape
    if ec2["k"] == "wcsec":
        from astropy.wcs.wcsapi import HighLevelWCSWrapper
        from ndcube import ExtraCoords
        from harness.impl import make_probe_rect
        P = [1, 2, 3, 5, 7, 11, 13, 17, 19]
        A = [[P[(3 * r + c) % len(P)] * x for c, x in enumerate(row)] for r, row in enumerate(ec2["mat"])]
        ec = ExtraCoords(ndcube=cube)
        ec.wcs = HighLevelWCSWrapper(make_probe_rect(A, [1000 * (k + 1) for k in range(len(A))], [f"custom:x{k}" for k in range(len(A))]))
        ec.mapping = tuple(ec2["mapping"])
        cube._extra_coords = ec
        return
    a, b = ec2["axes"]
    rs = np.random.RandomState(ec2["seed"])
    ta = np.cumsum(rs.randint(1, 5, size=shape[a])).astype(float)
    tb = np.cumsum(rs.randint(1, 5, size=shape[b])).astype(float) * 0.5
    if ec2["k"] == "skymesh":
        cube.extra_coords.add(("lon", "lat"), (a, b), SkyCoord(ta * u.deg, tb * u.deg), mesh=True)
    elif ec2["k"] == "q2":
        cube.extra_coords.add(("qa", "qb"), (a, b), QuantityTableCoordinate(ta * u.m, tb * u.m, names=("qa", "qb"),
                                                                             physical_types=("custom:qa", "custom:qb")))
    else:
        # one entry per pixel: table dimension 0 lies along cube axis a, dimension 1 along b
        lon = ta[:, None] + tb[None, :] / 8
        lat = (tb[None, :] - ta[:, None] / 16) / 2
        cube.extra_coords.add(("lon", "lat"), (a, b), SkyCoordTableCoordinate(SkyCoord(lon * u.deg, lat * u.deg), mesh=False))


def _coupled_fail(src, r, bins, nout):
    nd = src.data.ndim
    try:
        sec, rec = src.extra_coords, r.extra_coords
        sl, rl = sec.wcs.low_level_wcs, rec.wcs.low_level_wcs
        sm, rm = [int(m) for m in sec.mapping], [int(m) for m in rec.mapping]
        if sm != rm:
            return f"extra coords mapping changed by rebin: {sm} -> {rm}"
        if list(sl.world_axis_physical_types) != list(rl.world_axis_physical_types):
            return "extra coords physical types changed by rebin"
        grids = np.meshgrid(*[np.arange(n) for n in nout], indexing="ij")
        rp = [grids[nd - 1 - m].astype(float) for m in rm]
        sp = [grids[nd - 1 - m] * bins[nd - 1 - m] + (bins[nd - 1 - m] - 1) / 2 for m in sm]
        wr, ws = rl.pixel_to_world_values(*rp), sl.pixel_to_world_values(*sp)
        wr = [wr] if rl.world_n_dim == 1 else list(wr)
        ws = [ws] if sl.world_n_dim == 1 else list(ws)
    except Exception as e:  # noqa
        return f"extra coords of the rebinned cube cannot be evaluated: {exc_name(e)}"
    for k, (x, y) in enumerate(zip(wr, ws)):
        x, y = np.asarray(x, dtype=float), np.asarray(y, dtype=float)
        if x.shape != y.shape or not np.allclose(x, y, rtol=1e-9, atol=1e-9):
            return (f"extra world axis {k}: the rebinned cube's extra coords report {x.ravel()[:6].tolist()}..., the source's extra "
                    f"coords at the block centres are {y.ravel()[:6].tolist()}...")
    return ""


def _time_table(cube):
    from astropy.time import Time
    from ndcube.extra_coords.table_coord import TimeTableCoordinate
    for _axes, coord in cube.extra_coords._lookup_tables:
        if isinstance(coord, TimeTableCoordinate):
            return np.atleast_1d((coord.table - Time("2020-01-01T00:00:00")).sec).astype(float)
    raise LookupError("no time table")


def _base_pixels(ll, nd, vectors, base):
    """pixel (array-order vectors) -> base pixel coordinate per array axis for the linear probe (decoded exactly)"""
    crval, cdelt = list(base.wcs.crval), list(base.wcs.cdelt)
    btypes = list(base.world_axis_physical_types)
    out = []
    for v in vectors:
        w = ll.pixel_to_world_values(*v[::-1])
        w = [w] if ll.world_n_dim == 1 else list(w)
        res = {}
        for t, x in zip(ll.world_axis_physical_types, w):
            k = btypes.index(t)
            res[nd - 1 - k] = Fr(float(x)) - Fr(float(crval[k]))
            res[nd - 1 - k] /= Fr(float(cdelt[k]))
        out.append([res[a] for a in range(nd)])
    return out


def run(case):
    from ndcube import NDCube
    shape, nd, fam = tuple(case["shape"]), len(case["shape"]), case["fam"]
    wcs = lin_wcs(nd) if fam == "lin" else family_wcs(fam, nd)
    cube = NDCube(np.arange(int(np.prod(shape)), dtype=float).reshape(shape), wcs=wcs)
    for i, (kind, ax, seed) in enumerate(case["tabs"]):
        # distinct physical types: axis_world_coords_values builds a namedtuple from them
        ptypes = {"q": f"custom:c{i}", "time": None, "sky": None}[kind]
        cube.extra_coords.add((f"c{i}", f"c{i}b") if kind == "sky" else f"c{i}", ax, _table(kind, shape[ax], seed),
                              physical_types=ptypes)
    ec2 = case.get("ec2")
    if ec2:
        _add_coupled(cube, ec2)
    poke(cube, case["key"])
    src = cube
    bins = tuple(case["bins"])
    why = []
    try:
        if case["pre"] == "sliced":
            src = cube[Q.dec_items(case["pre_arg"])]
        elif case["pre"] == "rebinned":
            src = cube.rebin(tuple(case["pre_arg"]))
        # the bin shape as ints, or (documented: entries are rounded to the nearest int) as fractional numbers in a
        # tuple / list / array / Quantity in pixels that round to the same ints
        import zlib
        bk = zlib.crc32(("bins" + case["key"]).encode()) % 6
        if bk < 3:
            bins_arg = bins
        else:
            offs = [(-0.4, 0.3, -0.2, 0.4)[(i + bk + b) % 4] for i, b in enumerate(bins)]
            frac = [b + o for b, o in zip(bins, offs)]
            bins_arg = [tuple(frac), np.array(frac), np.array(frac) * __import__("astropy.units", fromlist=["pix"]).pix][bk - 3]
        r = src.rebin(bins_arg)
    except Exception as e:  # noqa
        finding = None
        if ec2 and ec2["k"] == "q2" and isinstance(e, ValueError) and "same shape" in str(e):
            # known finding: a Quantity coordinate of two tables on two axes cannot be resampled to axes of different lengths
            a, b = ec2["axes"]
            lens = [[shape[a] // (case["pre_arg"][a] if case["pre"] == "rebinned" else 1), shape[b] // (case["pre_arg"][b] if case["pre"] == "rebinned" else 1)]]
            lens.append([src.data.shape[a] // bins[a], src.data.shape[b] // bins[b]])
            if any(x != y for x, y in lens):
                finding = "q2-grid-shapes"
        if ec2 and ec2["k"] == "sky2" and isinstance(e, ValueError):
            # known finding: a 2-D per-pixel SkyCoord table with a dimension of length 1 has no model
            a, b = ec2["axes"]
            lens = [src.data.shape[a], src.data.shape[b], src.data.shape[a] // bins[a], src.data.shape[b] // bins[b]]
            if case["pre"] == "rebinned":
                lens += [shape[a] // case["pre_arg"][a], shape[b] // case["pre_arg"][b]]
            if 1 in lens:
                finding = "sky2-length1"
        return {"out": {"t": "err", "e": exc_name(e)},
                "oracle": {"ok": False, "why": f"rebin raised {exc_name(e)} for a valid bin shape", "finding": finding}}
    sshape = src.data.shape
    nout = [s // b for s, b in zip(sshape, bins)]
    sll, rll = src.wcs.low_level_wcs, r.wcs.low_level_wcs
    out = {"t": "ok", "fs": list(bins), "nout": nout, "aff": None, "centres": None, "corners": None, "tabs": []}
    # ---- direct oracle on the wcs: result centre j == source at j*f+(f-1)/2 ; result edges == source edges [::f]
    grids = np.meshgrid(*[np.arange(n) for n in nout], indexing="ij") if nout else []
    rp = [g.astype(float) for g in grids][::-1]
    sp = [g * b + (b - 1) / 2 for g, b in zip(grids, bins)][::-1]
    wr, ws = rll.pixel_to_world_values(*rp), sll.pixel_to_world_values(*sp)
    wr = [wr] if rll.world_n_dim == 1 else list(wr)
    ws = [ws] if sll.world_n_dim == 1 else list(ws)
    for k, (a, b) in enumerate(zip(wr, ws)):
        if not np.allclose(a, b, rtol=1e-10, atol=1e-9):
            bad = np.argwhere(~np.isclose(a, b, rtol=1e-10, atol=1e-9))[0]
            why.append(f"world axis {k}: centre of output element {tuple(int(x) for x in bad)} reports {float(a[tuple(bad)])!r}, "
                       f"the centre of its block of source elements is at {float(b[tuple(bad)])!r}")
            break
    if not why:
        egr = np.meshgrid(*[np.arange(n + 1) for n in nout], indexing="ij")
        rp = [g - 0.5 for g in egr][::-1]
        sp = [g * b - 0.5 for g, b in zip(egr, bins)][::-1]
        wr, ws = rll.pixel_to_world_values(*rp), sll.pixel_to_world_values(*sp)
        wr = [wr] if rll.world_n_dim == 1 else list(wr)
        ws = [ws] if sll.world_n_dim == 1 else list(ws)
        for k, (a, b) in enumerate(zip(wr, ws)):
            if not np.allclose(a, b, rtol=1e-10, atol=1e-9):
                why.append(f"world axis {k}: output pixel edges are not every f-th source pixel edge")
                break
    # ---- model observables for the linear probe: base pixel at centres / corners per axis
    if fam == "lin" and sll.world_n_dim == nd and rll.world_n_dim == nd:
        base = lin_wcs(nd)
        z = [0.0] * nd
        e0 = _base_pixels(sll, nd, [z] + [[1.0 if i == a else 0.0 for i in range(nd)] for a in range(nd)], base)
        aff = [[e0[a + 1][a] - e0[0][a], e0[0][a]] for a in range(nd)]
        cen, cor = [], []
        for a in range(nd):
            vs = [[float(j) if i == a else 0.0 for i in range(nd)] for j in range(nout[a])]
            cen.append([p[a] for p in _base_pixels(rll, nd, vs, base)])
            vs = [[k - 0.5 if i == a else 0.0 for i in range(nd)] for k in range(nout[a] + 1)]
            cor.append([p[a] for p in _base_pixels(rll, nd, vs, base)])
        out.update({"aff": aff, "centres": cen, "corners": cor})
    # ---- coupled extra coords: through the mapping, output element j reports the source's value at its block centre
    if ec2 and ec2["k"] == "wcsec" and case["pre"] == "plain":
        # observations for the model: world values the rebinned cube's extra coords report at a few output elements
        try:
            rl = r.extra_coords.wcs.low_level_wcs
            rm = [int(m) for m in r.extra_coords.mapping]
            obs = []
            import itertools
            for E in itertools.islice(itertools.product(*[sorted({0, n - 1}) for n in nout]), 8):
                w = rl.pixel_to_world_values(*[float(E[nd - 1 - m]) for m in rm])
                w = [w] if rl.world_n_dim == 1 else list(w)
                obs.append([[Fr(int(x)) for x in E], [Fr(float(x)) for x in w]])
            P = [1, 2, 3, 5, 7, 11, 13, 17, 19]
            A = [[P[(3 * r_ + c) % len(P)] * x for c, x in enumerate(row)] for r_, row in enumerate(ec2["mat"])]
            out["ec"] = {"n": nd, "pm": list(ec2["mapping"]), "A": [[Fr(x) for x in row] for row in A],
                         "b": [Fr(1000 * (k + 1)) for k in range(len(A))], "obs": obs}
        except Exception:  # noqa
            pass            # (the direct oracle below reports what cannot be evaluated)
    if ec2:
        f = _coupled_fail(src, r, bins, nout)
        if f:
            why.append(f)
            if ec2["k"] == "sky2" and "cannot be evaluated: ValueError" in f and 1 in [nout[ec2["axes"][0]], nout[ec2["axes"][1]]]:
                return {"out": {"t": "err", "e": "ValueError"}, "oracle": {"ok": False, "why": f, "finding": "sky2-length1"}}
    # ---- extra coords
    if case["tabs"]:
        try:
            sv = src.axis_world_coords_values(wcs=src.extra_coords)
            rv = r.axis_world_coords_values(wcs=r.extra_coords)
        except Exception as e:  # noqa
            why.append(f"extra coords of the rebinned cube cannot be evaluated: {exc_name(e)}")
            sv = rv = None
        if sv is not None:
            names_s, names_r = list(sv._fields), list(rv._fields)
            if sorted(names_s) != sorted(names_r):
                why.append(f"extra coordinate names changed by rebin: {names_s} -> {names_r}")
            else:
                # identify every returned coordinate by its physical type (their order is C02's subject)
                which = {}
                for ti, (kind, ax, seed) in enumerate(case["tabs"]):
                    if kind == "q":
                        which[f"custom_c{ti}"] = (ax, kind)
                    elif kind == "time":
                        which["time"] = (ax, kind)
                    else:
                        which["pos_eq_ra"] = (ax, kind)
                        which["pos_eq_dec"] = (ax, kind)
                for name in names_s:
                    if name not in which:
                        continue
                    ax, kind = which[name]
                    if kind == "sky":      # same physical angle whatever unit each side reports it in
                        import astropy.units as u
                        a = np.asarray(getattr(sv, name).to_value(u.deg), dtype=float)
                        b = np.asarray(getattr(rv, name).to_value(u.deg), dtype=float)
                    else:
                        a = np.asarray(getattr(sv, name).value, dtype=float)
                        b = np.asarray(getattr(rv, name).value, dtype=float)
                    if kind == "time":
                        # the values form is relative to a reference time that slicing keeps and interpolation
                        # resets: compare absolute times (seconds since a fixed epoch) taken from the tables
                        a, b = _time_table(src), _time_table(r)
                    f = bins[ax]
                    pos = np.arange(nout[ax]) * f + (f - 1) / 2
                    exp = np.interp(pos, np.arange(len(a)), a)
                    rel = False
                    tol = 1e-5 if kind == "time" else 1e-9
                    if b.shape != exp.shape or not np.allclose(b, exp, rtol=tol, atol=tol * (max(1.0, float(np.max(np.abs(exp)))) if exp.size else 1.0)):
                        why.append(f"extra coordinate {name}: rebinned values {b.tolist()} are not the source table at the block centres {exp.tolist()}")
                        break
                    out["tabs"].append({"vals": [Fr(float(x)) for x in a], "len": len(a), "f": f, "rel": rel,
                                        "tol": Fr(1, 100000) if kind == "time" else Fr(1, 10 ** 9), "impl": [Fr(float(x)) for x in b]})
    return {"out": _ser(out), "oracle": {"ok": not why, "why": "; ".join(why), "finding": None}}


def _ser(x):
    if isinstance(x, Fr):
        return [x.numerator, x.denominator]
    if isinstance(x, dict):
        return {k: _ser(v) for k, v in x.items()}
    if isinstance(x, (list, tuple)):
        return [_ser(v) for v in x]
    return x


def _cq(x):
    return f"(({x[0]}) # {x[1]})"


def coq_case(case, res):
    o = res["out"]
    if o["t"] == "err" or o["aff"] is None:
        fs, aff, nout, cen, cor = "[]", "[]", "[]", "[]", "[]"
    else:
        fs = Q.lst([f"(({b}) # 1)" for b in o["fs"]])
        aff = Q.lst([Q.tup(_cq(a), _cq(b)) for a, b in o["aff"]])
        nout = Q.lst(o["nout"], Q.nat)
        cen = Q.lst([Q.lst([_cq(v) for v in row]) for row in o["centres"]])
        cor = Q.lst([Q.lst([_cq(v) for v in row]) for row in o["corners"]])
    tabs = []
    for t in (o.get("tabs") or []):
        tabs.append(f"(mkTab {Q.lst([_cq(v) for v in t['vals']])} (({t['len']}) # 1) (({t['f']}) # 1) {Q.b(t['rel'])} "
                    f"{_cq(t['tol'])} {Q.lst(['(Some ' + _cq(v) + ')' for v in t['impl']])})")
    ecs = []
    e = o.get("ec") if o["t"] != "err" else None
    if e:
        efs = Q.lst([f"(({b}) # 1)" for b in o["fs"]])
        obs = Q.lst([Q.tup(Q.lst([_cq(x) for x in E]), Q.lst([_cq(x) for x in w])) for E, w in e["obs"]])
        ecs.append(f"(mkEc {Q.nat(e['n'])} {Q.lst(e['pm'], Q.nat)} {efs} {Q.lst([Q.lst([_cq(x) for x in row]) for row in e['A']])} "
                   f"{Q.lst([_cq(x) for x in e['b']])} {obs})")
    return f"mk {fs} {aff} {nout} {cen} {cor} {Q.lst(tabs)} {Q.lst(ecs)}"
