"""C07 — deriving a new object never changes the one it was derived from."""
import random
import numpy as np
from harness import coqio as Q
from harness.impl import lin_wcs, exc_name

CORR = "C07_corr"
IMPORTS = ["M_Store"]
MODEL_FILES = ["Model/M_Store.v"]
RULE = ("cases = histories of up to 6 steps; root = cube (2-3 dims; mask none / array; uncertainty none / StdDev / Variance / Unknown; "
        "extra coords none / Quantity / Time / SkyCoord meshed over two axes / SkyCoord on one axis; plain, integer-sliced or "
        "rebinned (resampled WCS) beforehand), sequence of 2-3 cubes, or collection of 2 cubes; every step picks ANY object made "
        "so far and applies slicing, crop, rebin, arithmetic (* + - neg ** to), squeeze, explode, reproject, WCS unwrapping, "
        "sequence / index_as_cube / collection slicing, collection copy, or a read-only query asked twice; after every step "
        "every object made so far is re-observed; results of arithmetic are written into; distinct by key")
ASSUMPTIONS = ["the store model abstracts arrays, dictionaries and coordinate objects as cells; which fields an operation shares is the table sig_of, "
               "compared with the sharing measured on every cube-level step (identity / np.shares_memory)",
               "in-place writes inside an operation cannot be predicted by the model: the snapshots of the direct oracle detect them"]
FIELDS = ["FData", "FMask", "FUnc", "FMeta", "FWcs", "FExtra", "FTables", "FGlobal", "FGlobalDict"]


def gen(tier, rng):
    cases = []
    N = 500 if tier == "quick" else 10000
    for _ in range(N):
        root = rng.choice(["cube", "cube", "cube", "seq", "coll"])
        cfg = {"root": root, "nd": rng.choice([2, 3]), "mask": rng.random() < 0.5, "unc": rng.choice([None, "std", "var", "unknown"]),
               "ec": rng.choice(["none", "q", "time", "skymesh", "sky", "q+time", "q3", "q3"]), "pre": rng.choice(["plain", "plain", "sliced", "rebinned"]),
               "seed": rng.randrange(10 ** 9), "nsteps": rng.choice([2, 3, 4, 5, 6]), "nan": rng.random() < 0.3}
        if cfg["ec"] == "q3":
            cfg["nd"] = 3
        key = repr(cfg)
        cases.append({"key": key, "stratum": f"{root}-{cfg['ec']}-{cfg['pre']}", "cfg": cfg, "nontrivial": True, "show": cfg})
    return cases


# ---------------------------------------------------------------------------------------------------------------------
def _mk_cube(cfg, rng, shape=None, cid=0):
    import astropy.units as u
    from astropy.time import Time
    from astropy.coordinates import SkyCoord
    from astropy.nddata import StdDevUncertainty, VarianceUncertainty, UnknownUncertainty
    from ndcube import NDCube
    nd = cfg["nd"]
    shape = tuple(shape or [rng.choice([2, 4]) for _ in range(nd)])
    pre = cfg["pre"]
    full = ((3,) + shape) if pre == "sliced" else (tuple(2 * s for s in shape) if pre == "rebinned" else shape)
    d = (np.arange(int(np.prod(full)), dtype=float) + 1000 * cid).reshape(full)
    if cfg.get("nan"):
        d[tuple(rng.randrange(n) for n in full)] = np.nan          # (an invalid value somewhere, for the nan-operations)
        d[tuple(0 for n in full)] = np.nan
    kw = {}
    if cfg["mask"]:
        kw["mask"] = (d % 3 == 0)
    if cfg["unc"]:
        kw["uncertainty"] = {"std": StdDevUncertainty, "var": VarianceUncertainty, "unknown": UnknownUncertainty}[cfg["unc"]](d * 0.1 + 1)
    c = NDCube(d, wcs=lin_wcs(len(full), cid), unit=u.ct, meta={"origin": "probe", "list": [1, 2, {"k": cid}]}, **kw)
    a0 = 1 if pre == "sliced" else 0
    n0, n1 = full[a0], full[a0 + 1]
    ec = cfg["ec"]
    if ec == "q3" and len(full) - a0 >= 3:
        # one Quantity coordinate made of three tables over three axes
        from ndcube.extra_coords.table_coord import QuantityTableCoordinate
        names = ["qa", "qb", "qc"]
        tabs = [(np.arange(full[a0 + k]) * (k + 2) + k) * u.m for k in range(3)]
        c.extra_coords.add(names, (a0, a0 + 1, a0 + 2),
                           QuantityTableCoordinate(*tabs, names=names, physical_types=["custom:qa", "custom:qb", "custom:qc"]))
    elif "q" in ec:
        c.extra_coords.add("q", a0, (np.arange(n0) * 2 + 1) * u.m)
    if "time" in ec:
        c.extra_coords.add("t", a0 + 1, Time("2020-01-01T00:00:00") + np.arange(n1) * 10 * u.s)
    if ec == "sky":
        c.extra_coords.add("sky", a0, SkyCoord(np.arange(n0) * u.deg, (np.arange(n0) * 2 - 3) * u.deg))
    if ec == "skymesh":
        n = min(n0, n1)
        if n0 == n1:
            c.extra_coords.add("sky", (a0, a0 + 1), SkyCoord(np.arange(n) * u.deg, (np.arange(n) * 2 - 3) * u.deg), mesh=True)
        else:
            c.extra_coords.add("q", a0, (np.arange(n0) * 2 + 1) * u.m)
    if pre == "sliced":
        c.extra_coords.add("exposure", 0, [1, 2, 4] * u.s)
    c.global_coords.add("g", "custom:g", (3 + cid) * u.s)
    if pre == "sliced":
        c = c[1]
    elif pre == "rebinned":
        c = c.rebin((2,) * len(full))
    return c


def _bytes(a):
    if a is None:
        return None
    if hasattr(a, "compute"):
        a = a.compute()
    a = np.asarray(a)
    return (a.shape, str(a.dtype), a.tobytes())


def _deep(x):
    if isinstance(x, dict):
        return ("d", tuple((k, _deep(v)) for k, v in x.items()))
    if isinstance(x, (list, tuple)):
        return ("l", tuple(_deep(v) for v in x))
    if isinstance(x, np.ndarray):
        return ("a", _bytes(x))
    return repr(x)


def _safe(f):
    try:
        return f()
    except Exception as e:  # noqa
        return f"<{exc_name(e)}>"


def snap_cube(c):
    def world():
        ll = c.wcs.low_level_wcs
        idx = np.indices(c.data.shape).astype(float)
        w = ll.pixel_to_world_values(*[idx[len(c.data.shape) - 1 - p] for p in range(len(c.data.shape))])
        w = [w] if ll.world_n_dim == 1 else list(w)
        return tuple(_bytes(np.asarray(x)) for x in w), tuple(ll.world_axis_physical_types), tuple(str(x) for x in ll.world_axis_units)

    def extra():
        ec = c.extra_coords
        if ec.is_empty:
            return ("empty", len(ec._dropped_tables))
        vals = c.axis_world_coords_values(wcs=ec)
        return (tuple(ec.keys()), tuple(int(m) for m in ec.mapping), tuple(_bytes(np.asarray(getattr(v, "value", v))) for v in vals),
                tuple(str(getattr(v, "unit", "")) for v in vals))

    def glob():
        gc = c.global_coords
        return tuple(sorted((str(n), str(gc.physical_types[n]), repr(gc[n])) for n in gc.keys()))
    return {"data": _bytes(c.data), "mask": _bytes(c.mask), "unc": None if c.uncertainty is None else (type(c.uncertainty).__name__, _bytes(c.uncertainty.array)),
            "unit": str(c.unit), "meta": _deep(c.meta), "world": _safe(world), "extra": _safe(extra), "global": _safe(glob),
            "types": _safe(lambda: repr(c.array_axis_physical_types))}


def snap(kind, o):
    if kind == "cube":
        return snap_cube(o)
    if kind == "seq":
        return {"common_axis": o._common_axis, "members": tuple(id(c) for c in o.data), "member_snaps": tuple(_deep(snap_cube(c)) for c in o.data), "meta": _deep(o.meta)}
    if kind == "coll":
        return {"keys": tuple(o.keys()), "aligned": _deep(o.aligned_axes), "members": tuple(id(v) for v in o.values()),
                "member_snaps": tuple(_deep(snap_cube(v)) for v in o.values()), "meta": _deep(getattr(o, "meta", None))}
    return {"repr": repr(o)}


def _diff(a, b):
    return [k for k in a if _deep(a[k]) != _deep(b.get(k))]


def _alias(a, b):
    if a is None or b is None:
        return None
    if a is b:
        return "Share"
    try:
        if hasattr(a, "compute") or hasattr(b, "compute"):
            return None
        if np.shares_memory(np.asarray(a), np.asarray(b)):
            return "Share"
    except Exception:  # noqa
        return None
    return "Fresh"


def measure(src, r):
    ident = lambda a, b: None if (a is None or b is None) else ("Share" if a is b else "Fresh")  # noqa
    st, rt = [t[1] for t in src.extra_coords._lookup_tables], [t[1] for t in r.extra_coords._lookup_tables]
    tables = None if not st or not rt else ("Share" if any(a is b for a in st for b in rt) else "Fresh")
    return {"FData": _alias(src.data, r.data), "FMask": _alias(src.mask, r.mask),
            "FUnc": _alias(None if src.uncertainty is None else src.uncertainty.array, None if r.uncertainty is None else r.uncertainty.array),
            "FMeta": ident(src.meta, r.meta),
            "FWcs": ident(getattr(src.wcs, "low_level_wcs", src.wcs), getattr(r.wcs, "low_level_wcs", r.wcs)),
            "FExtra": ident(src.extra_coords, r.extra_coords), "FTables": tables,
            "FGlobal": ident(src.global_coords, r.global_coords),
            "FGlobalDict": ident(src.global_coords._internal_coords, r.global_coords._internal_coords)}


def _rand_item(rng, shape, allow_int=True):
    item = []
    for n in shape:
        r = rng.random()
        if allow_int and r < 0.25 and len(shape) > 1:
            item.append(rng.randrange(n))
        elif r < 0.6:
            a = rng.randrange(0, n)
            item.append(slice(a, rng.randrange(a + 1, n + 1)))
        else:
            item.append(slice(None))
    if all(isinstance(i, int) for i in item):
        item[0] = slice(None)
    return tuple(item)


def run(case):
    import astropy.units as u
    from copy import deepcopy
    from ndcube import NDCube, NDCubeSequence, NDCollection
    cfg = case["cfg"]
    rng = random.Random(cfg["seed"])
    why, trace, measured = [], [], []
    pool = []          # [kind, object, snapshot, label]

    def add(kind, o, label):
        pool.append([kind, o, snap(kind, o), label])

    def check_all(after):
        for i, (kind, o, s0, label) in enumerate(pool):
            s1 = snap(kind, o)
            d = _diff(s0, s1)
            if d:
                why.append(f"after step {after}: object #{i} ({label}) changed in {d}")
                pool[i][2] = s1          # report each change once
                return False
        return True

    try:
        if cfg["root"] == "cube":
            add("cube", _mk_cube(cfg, rng), "root cube")
        elif cfg["root"] == "seq":
            shape = [rng.choice([2, 4]) for _ in range(cfg["nd"])]
            cubes = [_mk_cube(cfg, rng, shape, cid=k) for k in range(rng.choice([2, 3]))]
            add("seq", NDCubeSequence(cubes, common_axis=rng.randrange(cfg["nd"]), meta={"s": [1]}), "root sequence")
            for k, c in enumerate(cubes):
                add("cube", c, f"member {k} of the root sequence")
        else:
            shape = [rng.choice([2, 4]) for _ in range(cfg["nd"])]
            cubes = [_mk_cube(cfg, rng, shape, cid=k) for k in range(2)]
            add("coll", NDCollection([("a", cubes[0]), ("b", cubes[1])], aligned_axes=(0, 1)), "root collection")
            for k, c in enumerate(cubes):
                add("cube", c, f"member {k} of the root collection")
    except Exception as e:  # noqa
        return {"out": {"trace": [f"building the root raised {exc_name(e)}"], "measured": []}, "oracle": {"ok": True, "why": "", "finding": None}}

    for step in range(cfg["nsteps"]):
        i = rng.randrange(len(pool))
        kind, o, _s, label = pool[i]
        try:
            if kind == "cube":
                shape = o.data.shape
                ops = ["slice", "slice", "slice_int", "crop", "rebin", "rebin", "arith", "arith", "squeeze", "explode", "reproject", "unwrap", "query", "query"]
                op = rng.choice(ops)
                desc, res, rk, opk = op, None, "cube", None
                if op == "slice":
                    item = _rand_item(rng, shape)
                    desc = f"#{i}[{item}]"
                    res, opk = o[item], "KSlice"
                elif op == "slice_int":
                    if len(shape) >= 2:
                        ax = rng.randrange(len(shape))
                        item = tuple(rng.randrange(n) if k == ax else slice(None) for k, n in enumerate(shape))
                        desc = f"#{i}[{item}]"
                        res, opk = o[item], "KSlice"
                elif op == "crop":
                    ll = o.wcs.low_level_wcs
                    p1 = [rng.randrange(n) for n in shape[::-1]]
                    p2 = [rng.randrange(n) for n in shape[::-1]]
                    if all(a == b for a, b in zip(p1, p2)):
                        p2[0] = (p2[0] + 1) % shape[-1]
                    w1, w2 = ll.pixel_to_world_values(*p1), ll.pixel_to_world_values(*p2)
                    w1, w2 = ([w1], [w2]) if ll.world_n_dim == 1 else (list(w1), list(w2))
                    un = ll.world_axis_units
                    desc = f"#{i}.crop_by_values(pixels {p1}, {p2})"
                    res, opk = o.crop_by_values([float(x) * u.Unit(q) for x, q in zip(w1, un)], [float(x) * u.Unit(q) for x, q in zip(w2, un)], keepdims=True), "KCrop"
                elif op == "rebin":
                    bins = tuple(rng.choice([d for d in (1, 2) if n % d == 0]) for n in shape)
                    if rng.random() < 0.4:          # along a single axis only
                        ax = rng.randrange(len(shape))
                        bins = tuple((2 if (k == ax and n % 2 == 0) else 1) for k, n in enumerate(shape))
                    kw = {}
                    if o.uncertainty is not None and rng.random() < 0.6:
                        kw["propagate_uncertainties"] = True
                    if rng.random() < 0.5:
                        kw["operation"] = rng.choice([np.sum, np.mean, np.nansum, np.nanmean])
                    if rng.random() < 0.3:
                        kw["operation_ignores_mask"] = True
                    desc = f"#{i}.rebin({bins}, {', '.join(f'{a}={getattr(b, chr(95) * 2 + 'name' + chr(95) * 2, b)}' for a, b in kw.items())})"
                    res, opk = o.rebin(bins, **kw), "KRebin"
                    if rng.random() < 0.5:
                        o.rebin(bins, **kw)           # and once more: the same question must have the same answer
                        if _deep(snap_cube(o.rebin(bins, **kw))) != _deep(snap_cube(res)):
                            why.append(f"step {step}: {desc} gave two different answers")
                elif op == "arith":
                    which = rng.choice(["mul", "add", "sub", "neg", "pow", "to", "rdiv"])
                    desc = f"arith {which} on #{i}"
                    res = {"mul": lambda: o * -2, "add": lambda: o + 3 * u.ct, "sub": lambda: (5 * u.ct) - o, "neg": lambda: -o,
                           "pow": lambda: o ** 2, "to": lambda: o.to(u.ct), "rdiv": lambda: 2 / (o + 1e6 * u.ct)}[which]()
                    opk = "KArith"
                elif op == "squeeze":
                    item = tuple(slice(0, 1) if k == 0 else slice(None) for k in range(len(shape)))
                    src = o[item]
                    add("cube", src, f"#{i}[0:1]")
                    desc = f"#{len(pool) - 1}.squeeze()  (where #{len(pool) - 1} = #{i}[0:1])"
                    res, opk = src.squeeze(), "KSqueeze"
                    if len(shape) == 1:
                        res = None
                    o = src
                elif op == "explode":
                    ax = rng.randrange(len(shape))
                    desc = f"#{i}.explode_along_axis({ax})"
                    if len(shape) >= 2:
                        res, rk, opk = o.explode_along_axis(ax), "seq", "KExplodeMember"
                elif op == "reproject":
                    from astropy.wcs import WCS
                    if isinstance(o.wcs, WCS) and cfg["pre"] == "plain" and o.wcs.pixel_n_dim == len(shape):
                        desc = f"#{i}.reproject_to(copy of its wcs)"
                        res, opk = o.reproject_to(deepcopy(o.wcs), shape_out=shape), "KReproject"
                    elif o.wcs.pixel_n_dim == len(shape):
                        # an already sliced / rebinned cube: onto its own (wrapped) WCS
                        desc = f"#{i}.reproject_to(copy of its (wrapped) wcs)"
                        res, opk = o.reproject_to(deepcopy(o.wcs), shape_out=shape), "KReproject"
                elif op == "unwrap":
                    from ndcube.wcs.tools import unwrap_wcs_to_fitswcs
                    desc = f"unwrap_wcs_to_fitswcs(#{i}.wcs)"
                    try:
                        unwrap_wcs_to_fitswcs(o.wcs.low_level_wcs)
                    except Exception:  # noqa  (not every WCS can be unwrapped)
                        pass
                else:
                    q = rng.choice(["awc", "awcv", "awcv_ec", "combined", "types", "global", "str", "dims"])
                    desc = f"query {q} on #{i} (twice)"
                    fq = {"awc": lambda: repr(o.axis_world_coords()), "awcv": lambda: _deep([np.asarray(getattr(v, "value", v)) for v in o.axis_world_coords_values()]),
                          "awcv_ec": lambda: _deep([np.asarray(getattr(v, "value", v)) for v in o.axis_world_coords_values(wcs=o.extra_coords)]) if not o.extra_coords.is_empty else None,
                          "combined": lambda: repr(o.combined_wcs.world_axis_physical_types), "types": lambda: repr(o.array_axis_physical_types),
                          "global": lambda: repr([(n, o.global_coords[n]) for n in o.global_coords.keys()]), "str": lambda: str(o), "dims": lambda: repr(o.shape)}[q]
                    a1, a2 = _safe(fq), _safe(fq)
                    if a1 != a2:
                        why.append(f"step {step}: {desc} gave two different answers")
                trace.append(desc)
                if res is o:
                    res = None            # the operation handed back the object itself (e.g. rebin by all ones): nothing was derived
                if res is not None:
                    if rk == "cube":
                        if opk:
                            measured.append([opk, measure(o, res)])
                        add("cube", res, desc)
                        if opk == "KArith" and isinstance(res.data, np.ndarray):
                            res.data[...] = res.data + 12345.0        # writing into an arithmetic result
                            if res.uncertainty is not None:
                                res.uncertainty.array[...] = 777.0
                            if res.mask is not None:
                                res.mask[...] = ~res.mask
                            res.meta["written"] = True
                            pool[-1][2] = snap("cube", res)
                            trace.append(f"write into data / uncertainty / mask / meta of #{len(pool) - 1}")
                    else:
                        if len(res.data):
                            measured.append([opk, measure(o, res.data[0])])
                        add("seq", res, desc)
                        for k, c in enumerate(res.data):
                            add("cube", c, f"member {k} of {desc}")
            elif kind == "seq":
                op = rng.choice(["slice", "iac", "explode", "query", "query"])
                nseq = len(o.data)
                cshape = o.data[0].data.shape if nseq else ()
                desc, res, rk = op, None, "seq"
                if op == "slice" and nseq:
                    item = (rng.choice([slice(None), slice(0, max(1, nseq - 1)), rng.randrange(nseq)]),) + _rand_item(rng, cshape)
                    desc = f"#{i}[{item}]"
                    res = o[item]
                    rk = "seq" if isinstance(res, NDCubeSequence) else "cube"
                elif op == "iac" and nseq and o._common_axis is not None:
                    ca = o._common_axis
                    total = sum(c.data.shape[ca] for c in o.data)
                    a = rng.randrange(total)
                    b = rng.randrange(a + 1, total + 1)
                    item = tuple(slice(a, b) if k == ca else slice(None) for k in range(len(cshape)))
                    desc = f"#{i}.index_as_cube[{item}]"
                    res = o.index_as_cube[item]
                    rk = "seq" if isinstance(res, NDCubeSequence) else "cube"
                elif op == "explode" and nseq and len(cshape) >= 2:
                    ax = rng.randrange(len(cshape))
                    desc = f"#{i}.explode_along_axis({ax})"
                    res = o.explode_along_axis(ax)
                else:
                    q = rng.choice(["cac", "sac", "dims", "str"])
                    desc = f"query {q} on #{i} (twice)"
                    fq = {"cac": lambda: repr(o.common_axis_coords) if o._common_axis is not None else None, "sac": lambda: repr(o.sequence_axis_coords),
                          "dims": lambda: repr((o.shape, o.cube_like_shape if o._common_axis is not None else None)), "str": lambda: str(o)}[q]
                    a1, a2 = _safe(fq), _safe(fq)
                    if a1 != a2:
                        why.append(f"step {step}: {desc} gave two different answers")
                trace.append(desc)
                if res is not None:
                    add(rk, res, desc)
                    if rk == "seq":
                        for k, c in enumerate(res.data):
                            if not any(c is p[1] for p in pool):
                                add("cube", c, f"member {k} of {desc}")
            else:
                op = rng.choice(["key", "slice", "copy", "query"])
                desc, res, rk = op, None, "coll"
                shape = next(iter(o.values())).data.shape if len(o) else ()
                if op == "key" and len(o):
                    kname = rng.choice(list(o.keys()))
                    desc = f"#{i}[{kname!r}]"
                    res, rk = o[kname], "cube"
                    if any(res is p[1] for p in pool):
                        res = None
                elif op == "slice" and len(o) and o.aligned_axes is not None:
                    n_al = len(next(iter(o.aligned_axes.values())))
                    item = _rand_item(rng, shape[:n_al], allow_int=False)
                    desc = f"#{i}[{item}]"
                    res = o[item]
                elif op == "copy":
                    desc = f"#{i}.copy()"
                    res = o.copy()
                else:
                    desc = f"query aligned on #{i} (twice)"
                    fq = lambda: repr((o.aligned_dimensions, o.aligned_axis_physical_types))  # noqa
                    a1, a2 = _safe(fq), _safe(fq)
                    if a1 != a2:
                        why.append(f"step {step}: {desc} gave two different answers")
                trace.append(desc)
                if res is not None:
                    add(rk, res, desc)
                    if rk == "coll":
                        for kname, c in res.items():
                            if not any(c is p[1] for p in pool):
                                add("cube", c, f"member {kname!r} of {desc}")
        except Exception as e:  # noqa
            trace.append(f"(step {step} on #{i} raised {exc_name(e)}: not a C07 matter)")
        if not check_all(step):
            break
    out = {"trace": trace, "measured": measured}
    return {"out": out, "oracle": {"ok": not why, "why": "; ".join(why[:3]) + (" | history: " + " ; ".join(trace) if why else ""), "finding": None}}


def coq_case(case, res):
    ops = []
    for opk, m in res["out"]["measured"]:
        fields = Q.lst([Q.tup(f, "None" if m[f] is None else f"(Some {m[f]})") for f in FIELDS])
        ops.append(Q.tup(opk, fields))
    return f"mk {Q.lst(ops)}"
