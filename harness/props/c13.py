"""C13 — NDCollection keeps its aligned-axis bookkeeping true under every edit."""
import itertools
import numpy as np
from harness import coqio as Q
from harness.impl import coded_cube, decode, exc_name

CORR = "C13_corr"
IMPORTS = ["M_Slicing", "M_Sequence", "M_Collection"]
MODEL_FILES = ["Model/M_Collection.v", "Model/M_Slicing.v"]
DEPS = ["pyindex"]
RULE = ("cases = (members: key, shape, aligned axes in any per-member order; history of <=3 edits among numeric "
        "slice, key selection, copy, pop, del, update(compatible|incompatible), refused ops); generated with the "
        "run's seed over 1-3 cube members of 2-4 dims and NDCubeSequences of 1-3-D cubes (axis 0 = sequence axis, aligned or not), 0-4 aligned axes; distinct by key; "
        "non-trivial = history contains a numeric slice dropping an aligned axis or a key edit")
ASSUMPTIONS = ["per-member slicing is C01/C11's subject; here shapes, aligned axes, keys and element identity are observed"]
KEYS = ["a", "b", "c", "d", "e"]
ALIGNED_LENS = [2, 3, 4, 5]
OTHER_LENS = [6, 7, 8]


def _rand_member(rng, key, n_al, force_nd=None):
    nd = force_nd or rng.randint(max(2, n_al), 4)
    al = rng.sample(range(nd), n_al)
    shape = []
    o = 0
    for a in range(nd):
        if a in al:
            shape.append(ALIGNED_LENS[al.index(a)])
        else:
            shape.append(OTHER_LENS[o % 3])
            o += 1
    return {"key": key, "shape": shape, "al": al, "seq": False}


def _rand_item(rng, n):
    r = rng.random()
    if r < 0.45:
        return rng.choice([0, n - 1, -1, -n, 1 % n] + ([n, -n - 1] if rng.random() < 0.1 else []))
    a = rng.choice([None, 0, 1, -1, -n, n - 1])
    b = rng.choice([None, n, -1, 1, n + 2, 0])
    return ["s", a, b, None]


def gen(tier, rng):
    cases = []
    n = 7000 if tier == "quick" else 120000
    depth_max = 2 if tier == "quick" else 3
    for _ in range(n):
        n_al = rng.choice([0, 1, 1, 2, 2, 3, 3, 3, 4 if tier != "quick" or rng.random() < 0.3 else 3])
        n_mem = rng.randint(1, 3)
        members = [_rand_member(rng, k, n_al) for k in range(n_mem)]
        if rng.random() < 0.3:
            # NDCubeSequence members: axis 0 of the member is the sequence axis (aligned or not), the rest are cube axes
            for m in members:
                if rng.random() < 0.6:
                    m["seq"] = True
        ops = []
        cur_keys = [m["key"] for m in members]
        cur_nal = n_al
        for _d in range(rng.randint(1, depth_max)):
            r = rng.random()
            if r < 0.5:
                k = rng.randint(1, max(1, cur_nal)) if rng.random() < 0.93 else cur_nal + 1
                its = [_rand_item(rng, ALIGNED_LENS[i % 4]) for i in range(k)]
                form = "tuple"
                if k == 1 and rng.random() < 0.4:
                    form = "bare"
                ops.append(["slice", its, form])
                # (the model tracks the real effect; the generator only needs a rough idea of what is left)
                cur_nal = max(0, cur_nal - sum(isinstance(i, int) for i in its))
            elif r < 0.62:
                ks = rng.sample(cur_keys, rng.randint(1, len(cur_keys))) if cur_keys else [0]
                if rng.random() < 0.08:
                    ks = ks + [4]
                ops.append(["select", ks, rng.choice(["tuple", "list"])])
                cur_keys = [k for k in ks if k != 4]
            elif r < 0.68:
                ops.append(["copy"])
            elif r < 0.76:
                k = rng.choice(cur_keys) if cur_keys and rng.random() < 0.9 else 4
                ops.append([rng.choice(["pop", "del"]), k])
                if k in cur_keys and len(cur_keys) > 1:
                    cur_keys = [x for x in cur_keys if x != k]
                elif k in cur_keys:
                    ops.pop()
            elif r < 0.92:
                kind = rng.choice(["ok", "ok", "ok", "wrong_n", "wrong_len", "perm_len", "unaligned", "pair", "pair_bad"])
                nk = rng.choice([3, rng.choice(cur_keys) if cur_keys else 3])
                if kind == "ok":
                    new = [_rand_member(rng, nk, n_al)]
                    new[0]["seq"] = rng.random() < 0.15
                    new_al = n_al > 0
                elif kind == "wrong_n":
                    new = [_rand_member(rng, nk, max(1, (n_al + 1) % 4))]
                    new_al = True
                elif kind in ("pair", "pair_bad") and n_al >= 1:
                    # two new members at once, with the same aligned axes given ONCE for both (the short form); in the
                    # bad variant the second member does not fit
                    m1 = _rand_member(rng, nk, n_al)
                    m2 = {"key": 2 if nk != 2 else 1, "shape": list(m1["shape"]), "al": list(m1["al"]), "seq": False}
                    for a in range(len(m2["shape"])):
                        if a not in m2["al"]:
                            m2["shape"][a] = OTHER_LENS[(a + 1) % 3]
                    if kind == "pair_bad":
                        m2["shape"][m2["al"][-1]] += 1
                    new, new_al = [m1, m2], True
                elif kind == "perm_len":
                    # the right lengths, but along the wrong aligned axes (the same multiset in another order)
                    new = [_rand_member(rng, nk, max(2, n_al))]
                    k_al = len(new[0]["al"])
                    for i, a in enumerate(new[0]["al"]):
                        new[0]["shape"][a] = ALIGNED_LENS[(i + 1) % k_al]
                    new_al = True
                elif kind == "wrong_len":
                    new = [_rand_member(rng, nk, max(1, n_al))]
                    a0 = new[0]["al"][0]
                    new[0]["shape"][a0] += 1
                    new_al = True
                else:
                    new = [_rand_member(rng, nk, 0)]
                    new_al = False
                ops.append(["update", new, new_al, rng.choice(["pairs", "collection"]) if len(new) == 1 else "short"])
                for m_ in new:
                    if m_["key"] not in cur_keys:
                        cur_keys = cur_keys + [m_["key"]]
            else:
                ops.append(["refused", rng.choice(["setitem", "setdefault", "popitem", "mixed"])])
        key = f"{members}|{ops}"
        nontriv = any(o[0] in ("select", "pop", "del", "update") or
                      (o[0] == "slice" and any(isinstance(i, int) for i in o[1])) for o in ops)
        cases.append({"key": key, "stratum": f"depth{len(ops)}", "members": members, "n_al": n_al, "ops": ops,
                      "nontrivial": nontriv, "show": {"members": members, "ops": ops}})
    return cases


def _mk_member(m, cid):
    from ndcube import NDCubeSequence
    if m.get("seq"):
        shape = m["shape"]
        cubes = [coded_cube(tuple(shape[1:]), cid=cid * 10 + j) for j in range(shape[0])]
        return NDCubeSequence(cubes)
    return coded_cube(tuple(m["shape"]), cid=cid)


def _mk_coll(members, aligned):
    from ndcube import NDCollection
    pairs = [(KEYS[m["key"]], _mk_member(m, m["key"])) for m in members]
    if aligned:
        import zlib
        als = tuple(tuple(m["al"]) for m in members)
        k = zlib.crc32(("al" + str([[m["key"], m["shape"], m["al"]] for m in members])).encode()) % 5
        variants = []
        if k == 0:                                   # axis numbers counted from the last axis
            variants.append(tuple(tuple(a - len(m["shape"]) for a in m["al"]) for m in members))
        elif k == 1 and len(set(als)) == 1:          # the same axes in every member: given once; a lone axis as a bare int
            variants.append(als[0][0] if len(als[0]) == 1 else als[0])
        for v in variants:
            try:
                return NDCollection(pairs, aligned_axes=v)
            except (ValueError, TypeError, IndexError):
                pass                                 # a constructor that refuses this spelling is fine too
        return NDCollection(pairs, aligned_axes=als)
    return NDCollection(pairs)


def _state(coll):
    mem = []
    aa = coll.aligned_axes
    for k in coll.keys():
        v = coll[k]
        shape = [int(x) if not isinstance(x, tuple) else int(x[0]) for x in v.shape]
        al = [] if aa is None or k not in aa else [int(x) for x in aa[k]]
        mem.append([KEYS.index(k), shape, al, not hasattr(v, "wcs")])
    return {"members": mem, "aligned": aa is not None}


def _invariant_fail(coll):
    aa = coll.aligned_axes
    if aa is None or len(coll) == 0:
        return ""
    if set(aa.keys()) != set(coll.keys()) or len(aa) != len(coll):
        return f"keys {list(coll.keys())} and aligned-axes entries {list(aa.keys())} not in one-to-one correspondence"
    lens = None
    for k in coll.keys():
        shape = coll[k].shape
        al = aa[k]
        if len(set(al)) != len(al) or any(not 0 <= a < len(shape) for a in al):
            return f"aligned axes {al} do not exist on member {k} of shape {shape}"
        ml = [shape[a] for a in al]
        if lens is None:
            lens = ml
        elif list(ml) != list(lens):
            return f"aligned axes of member {k} have lengths {ml}, first member has {lens}"
    ad = coll.aligned_dimensions
    if lens is not None and [int(x) for x in ad] != [int(x) for x in lens]:
        return f"aligned_dimensions {list(ad)} != lengths {lens}"
    return ""


def run(case):
    from ndcube import NDCollection, NDCube
    members, n_al = case["members"], case["n_al"]
    coll = _mk_coll(members, n_al > 0)
    why, trace = [], []
    earlier = []          # collections an edit was derived from (slice / select / copy), with their state at that time
    for op in case["ops"]:
        before = _state(coll)
        if not before["members"]:
            break           # an empty collection (its last member was popped) is outside the quantifier: nothing further is judged
        res, exc = None, None
        try:
            if op[0] == "slice":
                its = Q.np_ints(case["key"], Q.dec_items(op[1]))
                item = its[0] if op[2] == "bare" else its
                pre = {k: (coll[k], None if coll.aligned_axes is None else tuple(coll.aligned_axes[k])) for k in coll.keys()}
                res = coll[item]
            elif op[0] == "select":
                ks = [KEYS[k] for k in op[1]]
                res = coll[tuple(ks) if op[2] == "tuple" else ks]
            elif op[0] == "copy":
                res = coll.copy()
            elif op[0] == "pop":
                coll.pop(KEYS[op[1]])
            elif op[0] == "del":
                del coll[KEYS[op[1]]]
            elif op[0] == "update":
                new, new_al, form = op[1], op[2], op[3]
                if form == "short":
                    pairs = [(KEYS[m["key"]], _mk_member(m, m["key"])) for m in new]
                    al0 = tuple(new[0]["al"])
                    coll.update(pairs, al0[0] if len(al0) == 1 and len(case["key"]) % 2 else al0)
                elif form == "collection":
                    coll.update(_mk_coll(new, new_al))
                else:
                    pairs = [(KEYS[m["key"]], _mk_member(m, m["key"])) for m in new]
                    if len(case["key"]) % 3 == 0:
                        pairs = iter(pairs)        # a one-shot iterator (zip, generator) instead of a list
                    coll.update(pairs, tuple(tuple(m["al"]) for m in new) if new_al else None)
            elif op[0] == "refused":
                k0 = list(coll.keys())[0]
                if op[1] == "setitem":
                    coll["zz"] = coll[k0]
                elif op[1] == "setdefault":
                    coll.setdefault()
                elif op[1] == "popitem":
                    coll.popitem()
                else:
                    coll[k0, 0]
                why.append(f"refused operation {op[1]} was accepted")
        except Exception as e:  # noqa
            exc = exc_name(e)
        if exc is None and any(_empty_seq(v) for v in (res if res is not None else coll).values()):
            break           # an empty NDCubeSequence has no shape: nothing about it can be observed (outside the quantifier)
        if exc is not None:
            after = _state(coll)
            trace.append({"raised": True, "state": after})
            if after != before:
                why.append(f"{op[0]} raised {exc} but changed the collection: {before} -> {after}")
            valid = _valid(op, before)
            if valid:
                why.append(f"{op[0]} raised {exc} on a valid edit")
            if valid is None:
                trace.pop()
                break       # neither outcome is specified (see _valid): nothing further is judged
        else:
            if res is not None:
                # slicing: element identity / physical axes
                if op[0] == "slice" and not why:
                    f = _slice_fail(pre, res, Q.dec_items(op[1]))
                    if f:
                        why.append(f)
                earlier.append((coll, before, op[0]))
                coll = res
            trace.append({"raised": False, "state": _state(coll)})
            for old, old_state, how in earlier:
                now = _state(old)
                if now != old_state:
                    why.append(f"{op[0]} on the result of an earlier {how} changed the collection it came from: {old_state} -> {now}")
                    break
            f = _invariant_fail(coll)
            if f:
                why.append(f)
            if op[0] != "refused" and _valid(op, before) is False and not why:
                why.append(f"{op[0]} accepted an edit that must be refused: {op}")
        if why:
            break
    # the model is compared on the operations that were actually carried out
    return {"out": {"trace": trace, "n": len(trace)}, "oracle": {"ok": not why, "why": "; ".join(why), "finding": None}}


def _valid(op, st):
    """is this edit one the property says must succeed, given the observed state before it?"""
    keys = [m[0] for m in st["members"]]
    if op[0] == "slice":
        if not st["aligned"]:
            return False
        nal = len(st["members"][0][2])
        its = op[1]
        if len(its) > nal:
            return False
        unspecified = False
        for m in st["members"]:
            for i, it in enumerate(its):
                n = m[1][m[2][i]]
                if isinstance(it, int) and not -n <= it < n:
                    return False
            # 0-d members do not exist; nor do sequences of 0-d cubes
            cube_axes_dropped = sum(isinstance(it, int) for i, it in enumerate(its) if not (m[3] and m[2][i] == 0))
            if len(m[1]) - (1 if m[3] else 0) - cube_axes_dropped < 1:
                return False
            # a slice selecting nothing along a sequence axis would give an empty sequence, which has no shape:
            # whether that is refused or returned is not specified
            if m[3]:
                for i, it in enumerate(its):
                    if m[2][i] == 0 and not isinstance(it, int) and len(range(m[1][0])[Q.dec_items([it])[0]]) == 0:
                        unspecified = True
        return None if unspecified else True
    if op[0] == "select":
        return all(k in keys for k in op[1]) and len(set(op[1])) == len(op[1])
    if op[0] == "copy":
        return True
    if op[0] in ("pop", "del"):
        return op[1] in keys
    if op[0] == "update":
        new, new_al = op[1], op[2]
        if new_al != st["aligned"]:
            return False
        if not new_al:
            return True
        m0 = st["members"][0]
        if len(new[0]["al"]) != len(m0[2]):
            return False
        lens0 = [new[0]["shape"][a] for a in new[0]["al"]]
        if any([m["shape"][a] for a in m["al"]] != lens0 for m in new[1:]):
            return False                      # the new members do not even agree with one another
        return lens0 == [m0[1][a] for a in m0[2]]
    return False


def _empty_seq(v):
    return not hasattr(v, "wcs") and len(v.data) == 0


def _payload(v):
    """the member's data as one array: a sequence is the stack of its cubes along a new leading axis"""
    return v.data if hasattr(v, "wcs") else np.stack([c.data for c in v.data])


def _slice_fail(pre, res, its):
    for k, (src, al) in pre.items():
        full = _payload(src)
        item = [slice(None)] * full.ndim
        for i, it in enumerate(its):
            item[al[i]] = it
        exp = full[tuple(item)]
        got = _payload(res[k])
        seq_dropped = (not hasattr(src, "wcs")) and any(al[i] == 0 and isinstance(it, int) for i, it in enumerate(its))
        if hasattr(res[k], "wcs") != (hasattr(src, "wcs") or seq_dropped):
            return f"member {k}: result is a {type(res[k]).__name__}, expected a {'cube' if hasattr(src, 'wcs') or seq_dropped else 'sequence'}"
        if got.shape != exp.shape or not np.array_equal(got, exp):
            return f"member {k}: data differ from slicing its own aligned axes {al} with {its}"
        if res.aligned_axes is None:
            if any(not isinstance(it, int) for it in its) or len(its) < len(al):
                return "aligned axes lost although some aligned axis survives"
            continue
        new_al = res.aligned_axes[k]
        surv = [a for i, a in enumerate(al) if i >= len(its) or not isinstance(its[i], int)]
        if len(new_al) != len(surv):
            return f"member {k}: {len(new_al)} aligned axes left, expected {len(surv)}"
        dropped = [a for i, a in enumerate(al) if i < len(its) and isinstance(its[i], int)]
        for na, a in zip(new_al, surv):
            want = a - sum(d < a for d in dropped)
            if na != want:
                return (f"member {k}: aligned axis that was member axis {a} is now called {na}; "
                        f"after dropping member axes {dropped} it is member axis {want}")
    return ""


def _coq_member(m):
    return f"(mkM {Q.z(m[0])} {Q.lst(m[1], Q.z)} {Q.lst(m[2], Q.z)} {Q.b(bool(m[3]) if len(m) > 3 else False)})"


def _coq_coll(st):
    return f"(mkColl {Q.lst([_coq_member(m) for m in st['members']])} {Q.b(st['aligned'])})"


def _coq_op(op):
    if op[0] == "slice":
        return f"(CSlice {Q.lst(op[1], Q.coq_item)})"
    if op[0] == "select":
        return f"(CSelect {Q.lst(op[1], Q.z)})"
    if op[0] == "copy":
        return "CCopy"
    if op[0] == "pop":
        return f"(CPop {Q.z(op[1])})"
    if op[0] == "del":
        return f"(CDel {Q.z(op[1])})"
    if op[0] == "update":
        lens0 = [op[1][0]["shape"][a] for a in op[1][0]["al"]]
        if any([m["shape"][a] for a in m["al"]] != lens0 for m in op[1][1:]):
            return "CRefused"                 # (mutual consistency of the new members is the constructor's check, not the model's)
        new = [[m["key"], m["shape"], m["al"], m.get("seq", False)] for m in op[1]]
        return f"(CUpdate {Q.lst([_coq_member(m) for m in new])} {Q.b(op[2])})"
    return "CRefused"


def coq_case(case, res):
    st0 = {"members": [[m["key"], m["shape"], m["al"], m.get("seq", False)] for m in case["members"]], "aligned": case["n_al"] > 0}
    n = res["out"].get("n", len(res["out"]["trace"]))
    tr = Q.lst([f"(mkObs {Q.b(o['raised'])} {_coq_coll(o['state'])})" for o in res["out"]["trace"][:n]])
    return f"mk {_coq_coll(st0)} {Q.lst([_coq_op(o) for o in case['ops'][:n]])} {tr}"
