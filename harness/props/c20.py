"""C20 — reprojection regrids values onto the target WCS and refuses ill-posed requests."""
from fractions import Fraction as Fr
import numpy as np
from harness import coqio as Q
from harness.impl import poke, lin_wcs, family_wcs, exc_name

CORR = "C20_corr"
IMPORTS = ["Shape", "M_Reproject"]
COQ_PREAMBLE = "Open Scope string_scope.\n"
MODEL_FILES = ["Model/M_Reproject.v"]
RULE = ("cases = (cube of 2-4 dims over a separable linear FITS WCS, or 2-D / 3-D celestial TAN WCS; target = the source grid "
        "identical | shifted by whole pixels (-2..2 per axis) | rescaled by 2 | with permuted axes | with other physical "
        "types, given as WCS object, low-level wrapper, header mapping or fits Header; shape_out given (any array-order "
        "shape) | taken from the target | unavailable | (); algorithm interpolation | adaptive | exact | unknown names; with "
        "and without return_footprint; unit / meta / global coords / mask present); distinct by key")
ASSUMPTIONS = ["the regridding is the reproject package: on coinciding grids it returns the source value at the coinciding pixel and no "
               "value / footprint 0 without coverage (validated by every run); adaptive resampling smooths, so only its refusals, "
               "shape and carried attributes are checked"]
ALGS = {"interpolation": "AInterp", "adaptive": "AAdaptive", "exact": "AExact"}


def gen(tier, rng):
    cases = []
    N = 700 if tier == "quick" else 12000
    for _ in range(N):
        fam = rng.choice(["lin", "lin", "lin", "tan2", "tan3"])
        nd = rng.choice([2, 2, 3, 4]) if fam == "lin" else (2 if fam == "tan2" else 3)
        shape = [rng.choice([2, 3, 4, 5]) for _ in range(nd)]
        if fam != "lin":
            shape = [rng.choice([4, 5, 6]) for _ in range(nd)]
        kind = rng.choice(["same", "shift", "shift", "shift", "scale", "perm", "types"])
        shift = [0] * nd if kind != "shift" else [rng.choice([0, 1, -1, 2, -2]) for _ in range(nd)]     # pixel order
        alg = rng.choice(["interpolation"] * 5 + ["adaptive", "exact", "nearest", "interp", ""])
        form = rng.choice(["wcs", "wcs", "lowlevel", "header", "dict"])
        so = rng.choice(["given", "given", "same", "target", "target", "none", "empty"])
        shape_out = None
        if so == "given":
            shape_out = [rng.choice([2, 3, 4, 5, 6]) for _ in range(nd)]
        elif so == "same":
            shape_out = list(shape)
        tshape = [rng.choice([2, 3, 4, 5]) for _ in range(nd)] if so in ("target", "empty") or rng.random() < 0.3 else None
        fp = rng.random() < 0.5
        key = f"{fam}|{shape}|{kind}|{shift}|{alg}|{form}|{so}|{shape_out}|{tshape}|{fp}"
        cases.append({"key": key, "stratum": f"{fam}-{kind}-{alg or 'empty'}", "fam": fam, "shape": shape, "kind": kind, "shift": shift, "alg": alg,
                      "form": form, "so": so, "shape_out": shape_out, "tshape": tshape, "fp": fp, "nontrivial": True,
                      "show": {"wcs": fam, "shape": shape, "target": kind, "pixel_shift": shift, "algorithm": alg, "target_given_as": form,
                               "shape_out": "()" if so == "empty" else shape_out, "target_array_shape": tshape, "return_footprint": fp}})
    return cases


def _source_wcs(case):
    nd = len(case["shape"])
    if case["fam"] == "lin":
        return lin_wcs(nd)
    return family_wcs("tan", nd)


def _target(case, w):
    from astropy.wcs import WCS
    nd = len(case["shape"])
    t = w.deepcopy()
    k = case["kind"]
    if k == "shift":
        t.wcs.crpix = [c - s for c, s in zip(w.wcs.crpix, case["shift"])]
    elif k == "scale":
        t.wcs.cdelt = [c * 2 for c in w.wcs.cdelt]
    elif k == "perm":
        t = w.sub([2, 1] + list(range(3, nd + 1)))
    elif k == "types" and case["fam"] != "lin":
        t = lin_wcs(nd)
    elif k == "types":
        ct = list(w.wcs.ctype)
        ct[-1] = "STOKES" if ct[-1] != "STOKES" else "TIME"
        t = WCS(naxis=nd)
        t.wcs.ctype = ct
        t.wcs.cdelt = list(w.wcs.cdelt)
        t.wcs.crpix = list(w.wcs.crpix)
        t.wcs.crval = [0] * nd
    t.wcs.set()
    if case["tshape"] is not None:
        t.array_shape = tuple(case["tshape"])
    return t


def _payload(case):
    """the cube's values, flat: halves as float64, or (every third case) whole numbers held as int64 or float32"""
    import zlib
    n = int(np.prod(case["shape"]))
    k = zlib.crc32(case["key"].encode()) % 6
    if k == 0:
        return np.arange(n, dtype=np.int64) + 1
    if k == 1:
        return (np.arange(n) * 2 + 1).astype(np.float32)
    return np.arange(n, dtype=float) * 0.5 + 1


def run(case):
    import astropy.units as u
    from astropy.wcs.wcsapi import SlicedLowLevelWCS
    from ndcube import NDCube
    shape = tuple(case["shape"])
    nd = len(shape)
    w = _source_wcs(case)
    data = _payload(case).reshape(shape)
    cube = NDCube(data.copy(), wcs=w, unit=u.ct, meta={"origin": "probe", "k": [1, 2]}, mask=np.zeros(shape, dtype=bool))
    cube.global_coords.add("g", "custom:g", 3 * u.s)
    poke(cube, case["key"])
    t = _target(case, w)
    form = case["form"]
    if form == "wcs":
        tgt = t
    elif form == "lowlevel":
        tgt = SlicedLowLevelWCS(t, tuple([slice(None)] * nd))        # a low-level wrapper (not a high-level object)
    else:
        hdr = t.to_header()
        if case["tshape"] is not None:
            hdr["NAXIS"] = nd
            for i, n in enumerate(reversed(case["tshape"])):
                hdr[f"NAXIS{i + 1}"] = n
        tgt = hdr if form == "header" else dict(hdr)
    import zlib
    fpk = zlib.crc32(("fp" + case["key"]).encode()) % 3
    # the flag as a Python bool, a numpy bool (e.g. the result of .any()) or an int
    kwargs = {"algorithm": case["alg"], "return_footprint": [case["fp"], np.bool_(case["fp"]), int(case["fp"])][fpk]}
    if form == "wcs" and case["kind"] == "same" and case["tshape"] is None and fpk == 1:
        tgt = cube.wcs                    # the cube's own WCS object as the target
    if case["so"] in ("given", "same"):
        import zlib
        conv = [tuple, tuple, list, np.array][zlib.crc32(("so" + case["key"]).encode()) % 4]      # the shape as tuple, list or array
        kwargs["shape_out"] = conv(case["shape_out"])
    elif case["so"] == "empty":
        kwargs["shape_out"] = ()
    def _shapes(x):
        ll_ = getattr(x, "low_level_wcs", x)
        return (getattr(ll_, "array_shape", None), getattr(ll_, "pixel_shape", None)) if not isinstance(x, (dict,)) and not hasattr(x, "cards") else None
    before = (cube.data.copy(), repr(cube.wcs.to_header()), cube.unit, dict(cube.meta), cube.mask.copy(), _shapes(cube.wcs), _shapes(tgt))
    try:
        r = cube.reproject_to(tgt, **kwargs)
        exc = None
    except Exception as e:  # noqa
        r, exc = None, exc_name(e)
    why = []
    if not (np.array_equal(cube.data, before[0]) and repr(cube.wcs.to_header()) == before[1] and cube.unit == before[2]
            and cube.meta == before[3] and np.array_equal(cube.mask, before[4]) and list(cube.global_coords.keys()) == ["g"]):
        why.append("the source cube changed")
    if _shapes(cube.wcs) != before[5]:
        why.append(f"the source cube's WCS now records the array shape {_shapes(cube.wcs)[0]}, before the call {before[5][0]}")
    if _shapes(tgt) != before[6]:
        why.append(f"the target WCS object was altered: it records the array shape {_shapes(tgt)[0]}, before the call {before[6][0]}")
    # ---- independent statement of what should happen
    alg = case["alg"]
    ttypes = list(t.world_axis_physical_types)
    stypes = list(w.world_axis_physical_types)
    two_d_cel = nd == 2 and all("pos." in str(x) for x in ttypes)
    has_shape = case["so"] in ("given", "same") or case["tshape"] is not None
    exp_shape = tuple(case["shape_out"]) if case["so"] in ("given", "same") else (tuple(case["tshape"]) if case["tshape"] is not None else None)
    refuse = None
    if alg not in ALGS:
        refuse = "an unknown algorithm"
    elif alg in ("adaptive", "exact") and not two_d_cel:
        refuse = "a target that is not 2-D celestial for the adaptive / exact algorithm"
    elif ttypes != stypes:
        refuse = "a target with different physical types or order"
    elif not has_shape:
        refuse = "no available output shape"
    out = {"t": "err", "e": exc}
    if refuse and exc is None:
        why.append(f"{refuse} was accepted")
        exp_shape = exp_shape or (tuple(np.asarray(r[0].data if isinstance(r, tuple) else r.data).shape))
    if refuse is None and exc is not None:
        why.append(f"valid request raised {exc}")
    if exc is None:
        fpv = None
        if case["fp"]:
            if not (isinstance(r, tuple) and len(r) == 2):
                why.append("return_footprint=True did not return (cube, footprint)")
                r = (r, None)
            r, fpv = r
        rd = np.asarray(r.data, dtype=float)
        if rd.shape != exp_shape:
            why.append(f"result shape {rd.shape}, requested / target shape {exp_shape} (array order)")
        attrs_ok = True
        if r.unit != cube.unit:
            why.append(f"unit of the result is {r.unit}, the source's is {cube.unit}")
            attrs_ok = False
        if r.meta != cube.meta or list(r.global_coords.keys()) != ["g"] or r.global_coords["g"] != cube.global_coords["g"]:
            why.append("meta / global coords of the result are not the source's")
            attrs_ok = False
        # the result's global coords are its own: adding to one side must not show on the other
        try:
            r.global_coords.add("h", "custom:h", 1 * u.s)
            cube.global_coords.add("s2", "custom:s2", 2 * u.s)
            if "h" in cube.global_coords or "s2" in r.global_coords:
                why.append("the result and the source share their global coordinates (one added afterwards to one shows on the other)")
            cube.global_coords.remove("s2")
            r.global_coords.remove("h")
        except Exception as e:  # noqa
            why.append(f"global coords of the result / source cannot be edited independently: {exc_name(e)}")
        rl = r.wcs.low_level_wcs if hasattr(r.wcs, "low_level_wcs") else r.wcs
        probe = [1.0] * nd
        if not np.allclose(np.atleast_1d(rl.pixel_to_world_values(*probe)), np.atleast_1d(t.pixel_to_world_values(*probe)), rtol=1e-12, atol=1e-12, equal_nan=True) \
                or list(rl.world_axis_physical_types) != ttypes:
            why.append("wcs of the result is not the requested target")
            attrs_ok = False
        # values: source value at the same world position where the grids coincide; nothing where there is no coverage
        if rd.shape == exp_shape and alg != "adaptive" and (case["kind"] in ("same", "shift") or alg == "interpolation"):
            idx = np.indices(exp_shape).reshape(nd, -1)
            world = t.pixel_to_world_values(*[idx[nd - 1 - p].astype(float) for p in range(nd)])
            spix = w.world_to_pixel_values(*world)
            spix = np.array(spix).reshape(nd, -1)           # pixel order
            flat = rd.ravel()
            fflat = None if fpv is None else np.asarray(fpv, dtype=float).ravel()
            tol = 1e-9 if alg == "interpolation" else 1e-6
            for j in range(idx.shape[1]):
                sp = spix[:, j]
                arr_pos = sp[::-1]
                if np.any(~np.isfinite(arr_pos)):
                    continue
                nearest = np.round(arr_pos)
                on_grid = np.all(np.abs(arr_pos - nearest) < 1e-7)
                inside = np.all((arr_pos > -0.5 + 1e-6) & (arr_pos < np.array(shape) - 0.5 - 1e-6))
                outside = np.any((arr_pos < -0.5 - 1e-6) | (arr_pos > np.array(shape) - 0.5 + 1e-6))
                v = flat[j]
                if on_grid and inside:
                    sv = data[tuple(int(x) for x in nearest)]
                    if not (np.isfinite(v) and abs(v - sv) <= tol * max(1.0, abs(sv))):
                        why.append(f"target element {tuple(int(x) for x in idx[:, j])} is {v!r}; it lies on source element {tuple(int(x) for x in nearest)} whose value is {sv!r}")
                        break
                    if fflat is not None and abs(fflat[j] - 1.0) > 1e-6:
                        why.append(f"footprint at covered element {tuple(int(x) for x in idx[:, j])} is {fflat[j]!r}")
                        break
                elif outside:
                    if np.isfinite(v) and alg == "interpolation":
                        why.append(f"target element {tuple(int(x) for x in idx[:, j])} has value {v!r} although the source has no coverage there")
                        break
                    if fflat is not None and fflat[j] != 0 and alg == "interpolation":
                        why.append(f"footprint {fflat[j]!r} where the source has no coverage")
                        break
        out = {"t": "res", "shape": [int(x) for x in rd.shape],
               # source values are multiples of 1/2; pixel -> world -> pixel round trips leave ~1e-13 noise in the sampling positions
               "data": [None if not np.isfinite(v) else (Fr(int(round(float(v) * 2)), 2) if abs(float(v) * 2 - round(float(v) * 2)) < 1e-6 else Fr(float(v))) for v in rd.ravel()],
               "fp": None if fpv is None else [int(round(float(x))) if float(x) in (0.0, 1.0) else -1 for x in np.asarray(fpv).ravel()],
               "attrs_ok": attrs_ok}
    from harness.props.c05 import _ser
    return {"out": _ser(out), "oracle": {"ok": not why, "why": "; ".join(why[:3]), "finding": None},
            "ttypes": ttypes, "stypes": stypes, "two_d_cel": bool(two_d_cel)}


def _cq(x):
    return f"(({x[0]}) # {x[1]})%Q"


def coq_case(case, res):
    o = res["out"]
    shape = case["shape"]
    nd = len(shape)
    data = [Fr(float(v)) for v in _payload(case)]
    alg = ALGS.get(case["alg"], "AUnknown")
    tsh = "None" if case["tshape"] is None else f"(Some {Q.lst(case['tshape'], Q.z)})"
    tgt = f"(mkT {Q.nat(nd)} {Q.nat(nd)} {Q.b(res['two_d_cel'])} {Q.lst([Q.s(x)[:-7] for x in res['ttypes']])} {tsh})"
    if case["so"] in ("given", "same"):
        so = f"(Some {Q.lst(case['shape_out'], Q.z)})"
    elif case["so"] == "empty":
        so = "(Some [])"
    else:
        so = "None"
    exact_shift = case["fam"] == "lin" and case["kind"] in ("same", "shift") and case["alg"] == "interpolation"
    shift = f"(Some {Q.lst(list(reversed(case['shift'])), Q.z)})" if exact_shift else "None"
    if o["t"] == "err":
        impl = f"(OErr {Q.err(o['e'])})"
    else:
        d = Q.lst(["None" if v is None else f"(Some {_cq(v)})" for v in o["data"]])
        fp = "None" if o["fp"] is None else f"(Some {Q.lst(o['fp'], Q.z)})"
        impl = f"(ORes {Q.lst(o['shape'], Q.z)} {d} {fp} {Q.b(o['attrs_ok'])})"
    return (f"mk {Q.lst(shape, Q.z)} {Q.lst([f'(({v.numerator}) # {v.denominator})%Q' for v in data])} {Q.lst([Q.s(x)[:-7] for x in res['stypes']])} "
            f"{alg} {tgt} {so} {shift} {impl}")
