"""C01 — index slicing keeps data and primary-WCS coordinates in lock-step."""
import itertools
import zlib
import numpy as np
from harness import coqio as Q
from harness.impl import poke, coded_cube, decode, exc_name, family_wcs, lin_offsets, wcs_lockstep_fail, FAMILIES, family_corr

CORR = "C01_corr"
MODEL_FILES = ["Model/M_Slicing.v", "Base/PyIndex.v"]
DEPS = ["pyindex"]
RULE = ("cases = (WCS family, shape, item, payload configuration); 1-D shapes exhaustively over all slices with "
        "bounds in [-n-2,n+2]|None, 2-4-D over per-axis boundary sets (ints in [-n-1,n], bounds in "
        "{None,-n-1,-n,-1,0,1,n-1,n,n+1}) sampled with the run's seed, Ellipsis at every position, bare items, "
        "short/too-long tuples, None entries, steps; non-linear WCS families, lookup-table gWCS, resampled and "
        "already-sliced cubes (start > 0 / explicit stop, recorded array shape) compared by the direct oracle; "
        "distinct by key; non-trivial = the item is not all slice(None)")
ASSUMPTIONS = ["numpy basic indexing and astropy SlicedLowLevelWCS are dependency models (np_axis_sel, wcs_axis_sel)",
               "dask payloads observed after compute()", "inner WCS evaluated in floating point; linear probe WCS is exact"]


def _axis_items(n, full=False):
    ints = list(range(-n - 1, n + 1))
    if full:
        b = [None] + list(range(-n - 2, n + 3))
    else:
        b = [None] + sorted({-n - 1, -n, -1, 0, 1, n - 1, n, n + 1})
    return ints, [["s", x, y, None] for x in b for y in b]


def gen(tier, rng):
    cases = []

    def add(fam, shape, items, stratum, bare=False):
        key = f"{fam}|{shape}|{items}|{bare}"
        cfg = zlib.crc32(key.encode()) & 31
        cases.append({"key": key, "stratum": stratum, "fam": fam, "shape": list(shape), "items": items,
                      "bare": bare, "cfg": cfg,
                      "nontrivial": any(i != ["s", None, None, None] and i != "E" for i in items),
                      "show": {"wcs": fam, "shape": list(shape), "item": items, "cfg": cfg}})

    # 1-D exhaustive (slices only: an int on a 1-D cube has no 0-d WCS)
    for n in range(1, 5 if tier == "quick" else 6):
        _, sl = _axis_items(n, full=True)
        for k, it in enumerate(sl):
            add("lin", (n,), [it], "1d-exhaustive", bare=(k % 2 == 0))
    # 2-D: exhaustive over boundary sets for small shapes (thorough), sampled (quick)
    shapes2 = [(2, 3), (3, 2), (1, 4), (3, 3)]
    for shape in shapes2:
        per = []
        for n in shape:
            ints, sl = _axis_items(n)
            per.append(ints + sl)
        allp = list(itertools.product(*per))
        if tier == "quick":
            allp = rng.sample(allp, 1500)
        for its in allp:
            if all(isinstance(i, int) for i in its):
                continue
            add("lin", shape, list(its), "2d-boundary")
    # 3-D / 4-D samples on non-cubic shapes
    nsamp = 4000 if tier == "quick" else 60000
    for _ in range(nsamp):
        nd = rng.choice((3, 3, 4))
        shape = tuple(rng.sample([2, 3, 4, 5], nd))
        its = []
        for n in shape:
            ints, sl = _axis_items(n)
            its.append(rng.choice(ints) if rng.random() < 0.35 else rng.choice(sl))
        if all(isinstance(i, int) for i in its):
            continue
        # Ellipsis / short tuples
        r = rng.random()
        if r < 0.2:
            p = rng.randrange(nd)
            q = rng.randrange(p, nd + 1)
            its = its[:p] + ["E"] + its[q:]
        elif r < 0.35:
            its = its[:rng.randrange(1, nd + 1)]
        if all(isinstance(i, int) for i in its) and len(its) == nd:
            continue
        add("lin", shape, its, "nd-sample")
    # structure / malformed stream
    for nd in (1, 2, 3):
        shape = (3, 4, 5)[:nd]
        sl = ["s", 1, None, None]
        add("lin", shape, ["N"], "malformed")
        add("lin", shape, [sl, "N"][:nd + 1], "malformed")
        add("lin", shape, ["E", "E"], "malformed")
        add("lin", shape, [sl] * (nd + 1), "malformed")
        add("lin", shape, [["s", None, None, 2]], "malformed")
        add("lin", shape, [["s", None, None, -1]], "malformed")
        add("lin", shape, [["s", 0, 2, 1]], "structure")
        add("lin", shape, ["E"], "structure")
        add("lin", shape, [sl, "E"][:max(1, nd)], "structure")
        add("lin", shape, ["E", sl], "structure")
        add("lin", shape, [sl], "structure", bare=True)
        if nd > 1:
            add("lin", shape, [1], "structure", bare=True)
            add("lin", shape, [-1], "structure", bare=True)
            add("lin", shape, [7], "malformed", bare=True)
            add("lin", shape, [-9], "malformed", bare=True)
    # family stream (direct oracle decides; model compares shapes / rank)
    nfam = 1200 if tier == "quick" else 12000
    for _ in range(nfam):
        nd = rng.choice((2, 3, 3, 4))
        fam = rng.choice(FAMILIES[nd][1:] + ["wrapped", "presliced", "reordered", "reordered2", "compound"] + (["gwcs"] if nd <= 3 else []))
        shape = tuple(rng.sample([2, 3, 4, 5], nd))
        its = []
        for n in shape:
            ints, sl = _axis_items(n)
            its.append(rng.choice([i for i in ints if -n <= i < n]) if rng.random() < 0.3 else rng.choice(sl))
        if all(isinstance(i, int) for i in its):
            continue
        add(fam, shape, its, "family")
    return cases


def build_cube(case):
    from ndcube import NDCube
    from astropy.nddata import StdDevUncertainty
    import astropy.units as u
    shape, cfg = tuple(case["shape"]), case["cfg"]
    if case["fam"] == "presliced":
        # the cube under test is itself the result of a slice (start > 0, explicit stop or open end): its WCS is
        # already a SlicedLowLevelWCS that records an array shape
        nd = len(shape)
        big = tuple(n + 3 for n in shape)
        inner = dict(case, fam=("tan" if nd >= 2 else "lin"), shape=list(big), cfg=cfg | 8)
        cube0, _ = build_cube(inner)
        st = 1 if cfg & 16 else None          # a step of 1 written out is no step
        pre = tuple(slice(1, n + 1, st) if (cfg >> a) & 1 else slice(3, None, st) for a, n in enumerate(shape))
        cube = cube0[pre]
        return cube, np.asarray(cube.data)
    n = int(np.prod(shape))
    data = np.arange(n).reshape(shape)
    kw = {}
    if cfg & 1:
        kw["mask"] = (data % 3 == 0)
    if cfg & 2:
        kw["uncertainty"] = StdDevUncertainty(data * 2.0 + 1)
    if cfg & 4:
        kw["unit"] = u.ct
    wcs = family_wcs(case["fam"], len(shape), shape)
    if cfg & 8:
        try:
            wcs.array_shape = shape
        except AttributeError:
            pass              # wrappers and gWCS objects have no settable array shape
    if not cfg & 8 and cfg & 1:
        # the same WCS object has served another cube of another shape before: nothing of that may stick to it
        NDCube(np.zeros(tuple(n + 1 for n in shape)), wcs=wcs)
    payload = data
    if cfg & 16:
        import dask.array as da
        payload = da.from_array(data, chunks=2)
    return NDCube(payload, wcs=wcs, **kw), data


def run(case):
    cube, data = build_cube(case)
    poke(cube, case["key"])
    nd = data.ndim
    items = Q.np_ints(case["key"], Q.dec_items(case["items"]))
    item = items[0] if case["bare"] and len(items) == 1 else items
    has_none = any(i is None for i in items)
    try:
        exp = data[item]
        exp_exc = None
    except Exception as e:  # noqa
        exp, exp_exc = None, exc_name(e)
    stepped = any(isinstance(i, slice) and i.step not in (None, 1) for i in items)
    try:
        r = cube[item]
        exc = None
    except Exception as e:  # noqa
        r, exc = None, exc_name(e)
    why = []
    if exc is not None:
        out = {"t": "err", "e": exc}
        if has_none:
            if exc != "IndexError":
                why.append(f"None index raised {exc}, expected IndexError")
        elif exp_exc is None and not stepped:
            why.append(f"raised {exc} on an index numpy accepts")
    else:
        if has_none:
            why.append("None/newaxis index accepted, expected IndexError")
        rd = np.asarray(r.data)
        first = None
        if rd.size:
            first = list(np.argwhere(data == rd.flat[0])[0])      # (the payload's values are distinct)
            first = [int(x) for x in first]
        ll = r.wcs.low_level_wcs
        woffs = None
        if case["fam"] == "lin":
            w = lin_offsets(ll, nd)
            if all(x is not None for x in w):
                woffs = w
        wshape = None if ll.array_shape is None else [int(x) for x in ll.array_shape]
        out = {"t": "ok", "shape": [int(x) for x in rd.shape], "first": first, "woffs": woffs,
               "npix": int(ll.pixel_n_dim), "wshape": wshape}
        if exp is None:
            why.append(f"accepted an index numpy rejects with {exp_exc}")
        elif not stepped:
            if rd.shape != exp.shape or not np.array_equal(rd, exp):
                why.append("data differ from data[item]")
            if cube.mask is not None and not np.array_equal(np.asarray(r.mask), np.asarray(cube.mask)[item]):
                why.append("mask differs from mask[item]")
            if cube.uncertainty is not None and not np.array_equal(np.asarray(r.uncertainty.array),
                                                                   np.asarray(cube.uncertainty.array)[item]):
                why.append("uncertainty differs from uncertainty[item]")
            if r.unit != cube.unit:
                why.append("unit changed")
            if not why:
                # normalise the item the way numpy reads it, for the element-wise WCS oracle
                padded = list(items)
                if Ellipsis in padded:
                    p = padded.index(Ellipsis)
                    padded = padded[:p] + [slice(None)] * (nd - len(padded) + 1) + padded[p + 1:]
                f = wcs_lockstep_fail(cube, r, padded, corr=family_corr(case["fam"], nd))
                if f:
                    why.append(f)
    return {"out": out, "oracle": {"ok": not why, "why": "; ".join(why), "finding": None}}


def coq_case(case, res):
    o = res["out"]
    if o["t"] == "err":
        impl = f"(OErr {Q.err(o['e'])})"
    else:
        first = "None" if o["first"] is None else "(Some " + Q.lst(o["first"], Q.z) + ")"
        woffs = "None" if o["woffs"] is None else "(Some " + Q.lst(o["woffs"], lambda p: Q.tup(Q.z(p[0]), Q.b(p[1]))) + ")"
        wshape = "None" if o["wshape"] is None else "(Some " + Q.lst(o["wshape"], Q.z) + ")"
        impl = f"(OOk {Q.lst(o['shape'], Q.z)} {first} {woffs} {Q.z(o['npix'])} {wshape})"
    return f"mk {Q.lst(case['shape'], Q.z)} {Q.lst(case['items'], Q.coq_item)} {impl}"
